package typesystem

import (
	"context"
	"errors"

	openfgav1 "github.com/openfga/api/proto/openfga/v1"

	"github.com/openfga/openfga/internal/condition"
	"github.com/openfga/openfga/internal/vt"
)

// ---- K17c: NewAndValidate rejects the documented kinds of invalid model and accepts the valid twin ------
//
// Every case is the valid base model below with ONE change; `valid` says what the documented rules
// (validateTypeRestrictions rules 1-4, isUsersetRewriteValid, validateNames, entrypoint / cycle rules,
// validateConditions, schema version, duplicate types) demand. The rules are restated here, the
// verdict column is written by hand from them, never computed by the code under test.
//
//	type user
//	type group
//	  define member: [user]
//	  define admin: member
//	type document
//	  define parent: [document]
//	  define editor: [user]
//	  define viewer: [user] or editor or viewer from parent
//	condition c(x: int) { x < 1 }
//
// CEL compilation is stubbed under the engine (library code outside its reach; all expressions used here
// are compilable, natively the real compiler runs).

func verifK17cRef(typ, rel string, wildcard bool, cond string) *openfgav1.RelationReference {
	r := &openfgav1.RelationReference{Type: typ, Condition: cond}
	if wildcard {
		r.RelationOrWildcard = &openfgav1.RelationReference_Wildcard{Wildcard: &openfgav1.Wildcard{}}
	} else if rel != "" {
		r.RelationOrWildcard = &openfgav1.RelationReference_Relation{Relation: rel}
	}
	return r
}

func verifK17cTypes(rs ...*openfgav1.RelationReference) *openfgav1.RelationMetadata {
	return &openfgav1.RelationMetadata{DirectlyRelatedUserTypes: rs}
}

func verifK17cBase() *openfgav1.AuthorizationModel {
	return &openfgav1.AuthorizationModel{
		Id:            "01HVMMBCMGZNT3SED4Z17ECXCA",
		SchemaVersion: SchemaVersion1_1,
		TypeDefinitions: []*openfgav1.TypeDefinition{
			{Type: "user"},
			{
				Type: "group",
				Relations: map[string]*openfgav1.Userset{
					"member": verifK19This(),
					"admin":  verifK19Computed("member"),
				},
				Metadata: &openfgav1.Metadata{Relations: map[string]*openfgav1.RelationMetadata{
					"member": verifK17cTypes(verifK17cRef("user", "", false, "")),
				}},
			},
			{
				Type: "document",
				Relations: map[string]*openfgav1.Userset{
					"parent": verifK19This(),
					"editor": verifK19This(),
					"viewer": verifK19Union(verifK19This(), verifK19Computed("editor"), verifK19TTU("parent", "viewer")),
				},
				Metadata: &openfgav1.Metadata{Relations: map[string]*openfgav1.RelationMetadata{
					"parent": verifK17cTypes(verifK17cRef("document", "", false, "")),
					"editor": verifK17cTypes(verifK17cRef("user", "", false, "")),
					"viewer": verifK17cTypes(verifK17cRef("user", "", false, "")),
				}},
			},
		},
		Conditions: map[string]*openfgav1.Condition{
			"c": {Name: "c", Expression: "x < 1", Parameters: map[string]*openfgav1.ConditionParamTypeRef{
				"x": {TypeName: openfgav1.ConditionParamTypeRef_TYPE_NAME_INT},
			}},
		},
	}
}

const VerifK17cCases = 44

// verifK17cCase returns the k-th model, whether the rules make it valid, and (for invalid ones) the
// sentinel the error must wrap, if the rule has one.
func verifK17cCase(k int) (m *openfgav1.AuthorizationModel, valid bool, cause error) {
	m = verifK17cBase()
	group, doc := m.GetTypeDefinitions()[1], m.GetTypeDefinitions()[2]
	gmeta, dmeta := group.GetMetadata().GetRelations(), doc.GetMetadata().GetRelations()
	user := verifK17cRef("user", "", false, "")
	undefinedCond := "nosuch"
	if vt.ParamInt("sym", 0) != 0 {
		// any condition name other than the defined one
		undefinedCond = vt.ASCII("cond", 3)
		vt.Assume(undefinedCond != "" && undefinedCond != "c")
	}
	switch k {
	// --- valid models -------------------------------------------------------------------------------
	case 0:
		return m, true, nil
	case 1: // [user with c]
		dmeta["viewer"] = verifK17cTypes(verifK17cRef("user", "", false, "c"))
		return m, true, nil
	case 2: // [user:* with c]
		dmeta["viewer"] = verifK17cTypes(verifK17cRef("user", "", true, "c"))
		return m, true, nil
	case 3: // [group#member with c]
		dmeta["viewer"] = verifK17cTypes(verifK17cRef("group", "member", false, "c"))
		return m, true, nil
	case 4: // every form, with and without the condition
		dmeta["viewer"] = verifK17cTypes(user, verifK17cRef("user", "", true, ""), verifK17cRef("group", "member", false, ""),
			verifK17cRef("user", "", false, "c"), verifK17cRef("user", "", true, "c"), verifK17cRef("group", "member", false, "c"))
		return m, true, nil
	case 5: // a tupleset relation may carry a condition on its direct object type: parent: [document with c]
		dmeta["parent"] = verifK17cTypes(verifK17cRef("document", "", false, "c"))
		return m, true, nil
	case 6: // userset restriction on a computed (non-assignable) relation: [group#admin]
		dmeta["viewer"] = verifK17cTypes(verifK17cRef("group", "admin", false, ""))
		return m, true, nil
	case 7: // a relation of the type itself: viewer: [user, document#editor]
		dmeta["viewer"] = verifK17cTypes(user, verifK17cRef("document", "editor", false, ""))
		return m, true, nil
	case 8: // a second condition, both used
		m.Conditions["d"] = &openfgav1.Condition{Name: "d", Expression: "x < 2", Parameters: m.Conditions["c"].GetParameters()}
		dmeta["viewer"] = verifK17cTypes(verifK17cRef("user", "", false, "c"), verifK17cRef("user", "", false, "d"))
		return m, true, nil
	case 9: // a model without conditions that names none
		m.Conditions = nil
		return m, true, nil

	// --- a restriction names a condition the model does not define --------------------------------------
	case 10: // [user with nosuch]
		dmeta["viewer"] = verifK17cTypes(verifK17cRef("user", "", false, undefinedCond))
		return m, false, ErrNoConditionForRelation
	case 11: // [user:* with nosuch]
		dmeta["viewer"] = verifK17cTypes(verifK17cRef("user", "", true, undefinedCond))
		return m, false, ErrNoConditionForRelation
	case 12: // [group#member with nosuch]
		dmeta["viewer"] = verifK17cTypes(verifK17cRef("group", "member", false, undefinedCond))
		return m, false, ErrNoConditionForRelation
	case 13: // the undefined one is not the first restriction: [user, user with c, user with nosuch]
		dmeta["viewer"] = verifK17cTypes(user, verifK17cRef("user", "", false, "c"), verifK17cRef("user", "", false, undefinedCond))
		return m, false, ErrNoConditionForRelation
	case 14: // the model defines no condition at all: [user with c]
		m.Conditions = nil
		dmeta["viewer"] = verifK17cTypes(verifK17cRef("user", "", false, "c"))
		return m, false, ErrNoConditionForRelation
	case 15: // on a tupleset relation: parent: [document with nosuch]
		dmeta["parent"] = verifK17cTypes(verifK17cRef("document", "", false, undefinedCond))
		return m, false, ErrNoConditionForRelation
	case 16: // on another type's relation: group member: [user with nosuch]
		gmeta["member"] = verifK17cTypes(verifK17cRef("user", "", false, undefinedCond))
		return m, false, ErrNoConditionForRelation

	// --- rule 3: referenced types and relations must be defined ------------------------------------------
	case 17: // [ghost]
		dmeta["viewer"] = verifK17cTypes(verifK17cRef("ghost", "", false, ""))
		return m, false, nil
	case 18: // [user, ghost with c]
		dmeta["viewer"] = verifK17cTypes(user, verifK17cRef("ghost", "", false, "c"))
		return m, false, nil
	case 19: // [ghost:*]
		dmeta["viewer"] = verifK17cTypes(verifK17cRef("ghost", "", true, ""))
		return m, false, nil
	case 20: // [ghost#member]
		dmeta["viewer"] = verifK17cTypes(verifK17cRef("ghost", "member", false, ""))
		return m, false, nil
	case 21: // [group#nosuch]
		dmeta["viewer"] = verifK17cTypes(verifK17cRef("group", "nosuch", false, ""))
		return m, false, nil
	case 22: // [user, group#nosuch with c]
		dmeta["viewer"] = verifK17cTypes(user, verifK17cRef("group", "nosuch", false, "c"))
		return m, false, nil
	case 23: // [user#member]: the type exists, has no relations
		dmeta["viewer"] = verifK17cTypes(verifK17cRef("user", "member", false, ""))
		return m, false, nil

	// --- rewrites -----------------------------------------------------------------------------------
	case 24: // computed userset of an undefined relation (inside the union)
		doc.Relations["viewer"] = verifK19Union(verifK19This(), verifK19Computed("nosuch"))
		return m, false, ErrRelationUndefined
	case 25: // computed userset of an undefined relation (alone)
		group.Relations["admin"] = verifK19Computed("nosuch")
		return m, false, ErrRelationUndefined
	case 26: // a relation computed from itself
		group.Relations["admin"] = verifK19Computed("admin")
		return m, false, ErrInvalidUsersetRewrite
	case 27: // tuple-to-userset over an undefined tupleset relation
		doc.Relations["viewer"] = verifK19Union(verifK19This(), verifK19TTU("nosuch", "viewer"))
		return m, false, ErrRelationUndefined
	case 28: // tuple-to-userset whose computed relation no type of the tupleset defines
		doc.Relations["viewer"] = verifK19Union(verifK19This(), verifK19TTU("parent", "nosuch"))
		return m, false, ErrRelationUndefined
	case 29: // ... defined on another type, but not on a type of the tupleset: member from parent
		doc.Relations["viewer"] = verifK19Union(verifK19This(), verifK19TTU("parent", "member"))
		return m, false, ErrRelationUndefined
	case 30: // the tupleset relation is not a direct relation: parent: editor
		doc.Relations["parent"] = verifK19Computed("editor")
		delete(dmeta, "parent")
		return m, false, nil
	case 31: // rewrite without a kind
		group.Relations["admin"] = &openfgav1.Userset{}
		return m, false, ErrInvalidUsersetRewrite

	// --- rule 4: a tupleset relation takes direct object types only -------------------------------------
	case 32: // parent: [document:*]
		dmeta["parent"] = verifK17cTypes(verifK17cRef("document", "", true, ""))
		return m, false, nil
	case 33: // parent: [document, document#viewer]
		dmeta["parent"] = verifK17cTypes(verifK17cRef("document", "", false, ""), verifK17cRef("document", "viewer", false, ""))
		return m, false, nil

	// --- rules 1 and 2 ------------------------------------------------------------------------------
	case 34: // assignable relation without type restrictions
		dmeta["editor"] = verifK17cTypes()
		return m, false, nil
	case 35: // assignable relation without a metadata entry
		delete(dmeta, "editor")
		return m, false, nil
	case 36: // non-assignable relation with a type restriction: admin: member, [user]
		gmeta["admin"] = verifK17cTypes(user)
		return m, false, nil

	// --- entrypoints and cycles -----------------------------------------------------------------------
	case 37: // no entrypoint: editor: editor from parent (parent: [document])
		doc.Relations["editor"] = verifK19TTU("parent", "editor")
		delete(dmeta, "editor")
		return m, false, ErrNoEntrypoints
	case 38: // cycle: admin: owner, owner: admin
		group.Relations["admin"] = verifK19Computed("owner")
		group.Relations["owner"] = verifK19Computed("admin")
		return m, false, nil

	// --- names, duplicate types, schema version, conditions ------------------------------------------------
	case 39: // reserved type name
		m.TypeDefinitions = append(m.TypeDefinitions, &openfgav1.TypeDefinition{Type: "self"})
		return m, false, ErrReservedKeywords
	case 40: // reserved relation name
		group.Relations["this"] = verifK19This()
		gmeta["this"] = verifK17cTypes(user)
		return m, false, ErrReservedKeywords
	case 41: // duplicate type
		m.TypeDefinitions = append(m.TypeDefinitions, &openfgav1.TypeDefinition{Type: "user"})
		return m, false, ErrDuplicateTypes
	case 42: // unsupported schema version
		m.SchemaVersion = "1.0"
		return m, false, ErrInvalidSchemaVersion
	default: // condition key differs from the condition's name
		m.Conditions["c"].Name = "other"
		return m, false, nil
	}
}

// VerifK17cRejectsInvalid. params: k=<case> (default: every case, forked); sym=1: the undefined condition
// name is any non-empty ASCII string of up to 3 bytes other than "c" instead of the literal "nosuch".
func VerifK17cRejectsInvalid() {
	if vt.Symbolic() {
		vt.Stub("(*github.com/openfga/openfga/internal/condition.EvaluableCondition).Compile",
			func(e *condition.EvaluableCondition) error { return nil })
	}
	k := vt.ParamInt("k", -1)
	if k < 0 {
		k = vt.Choose("k", VerifK17cCases)
	}
	m, valid, cause := verifK17cCase(k)
	ts, err := NewAndValidate(context.Background(), m)
	vt.Assert((ts == nil) != (err == nil), "NewAndValidate returned neither or both of typesystem and error")
	if valid {
		vt.Reach("valid-case")
		vt.Assert(err == nil, "NewAndValidate rejects a valid model")
		return
	}
	vt.Reach("invalid-case")
	vt.Assert(err != nil, "NewAndValidate accepts an invalid model")
	if err != nil && cause != nil {
		vt.Assert(errors.Is(err, cause), "NewAndValidate rejects the invalid model for a different reason than the violated rule")
	}
}
