package typesystem

import (
	"context"
	"errors"

	openfgav1 "github.com/openfga/api/proto/openfga/v1"

	"github.com/openfga/openfga/internal/condition"
	"github.com/openfga/openfga/internal/vt"
)

// ---- K19 (models): NewAndValidate on hostile authorization models returns an error or a typesystem,
// it never panics ---------------------------------------------------------------------------------------
//
// Models are Go literals of shapes that a well-typed protobuf message can have but the DSL cannot
// produce: nil rewrites, rewrites without kind, nil children, empty names, dangling references, self
// reference, cycles, deep nesting, duplicate types, nil metadata entries, nil type definitions, nil
// conditions. (Request-level field validation in front of WriteAuthorizationModel is outside; stored
// models are re-read through the same constructor.)

func verifK19This() *openfgav1.Userset {
	return &openfgav1.Userset{Userset: &openfgav1.Userset_This{This: &openfgav1.DirectUserset{}}}
}

func verifK19Computed(rel string) *openfgav1.Userset {
	return &openfgav1.Userset{Userset: &openfgav1.Userset_ComputedUserset{ComputedUserset: &openfgav1.ObjectRelation{Relation: rel}}}
}

func verifK19TTU(tupleset, computed string) *openfgav1.Userset {
	return &openfgav1.Userset{Userset: &openfgav1.Userset_TupleToUserset{TupleToUserset: &openfgav1.TupleToUserset{
		Tupleset:        &openfgav1.ObjectRelation{Relation: tupleset},
		ComputedUserset: &openfgav1.ObjectRelation{Relation: computed},
	}}}
}

func verifK19Union(cs ...*openfgav1.Userset) *openfgav1.Userset {
	return &openfgav1.Userset{Userset: &openfgav1.Userset_Union{Union: &openfgav1.Usersets{Child: cs}}}
}

func verifK19Inter(cs ...*openfgav1.Userset) *openfgav1.Userset {
	return &openfgav1.Userset{Userset: &openfgav1.Userset_Intersection{Intersection: &openfgav1.Usersets{Child: cs}}}
}

func verifK19Diff(b, s *openfgav1.Userset) *openfgav1.Userset {
	return &openfgav1.Userset{Userset: &openfgav1.Userset_Difference{Difference: &openfgav1.Difference{Base: b, Subtract: s}}}
}

func verifK19Users() []*openfgav1.RelationReference {
	return []*openfgav1.RelationReference{{Type: "user"}}
}

// verifK19Doc: model `user`, `document` with the given relations; every relation gets [user] as its
// type restriction list unless meta overrides it.
func verifK19Doc(rels map[string]*openfgav1.Userset, meta map[string]*openfgav1.RelationMetadata) *openfgav1.AuthorizationModel {
	md := map[string]*openfgav1.RelationMetadata{}
	for r := range rels {
		md[r] = &openfgav1.RelationMetadata{DirectlyRelatedUserTypes: verifK19Users()}
	}
	for r, x := range meta {
		md[r] = x
	}
	return &openfgav1.AuthorizationModel{
		Id:            "01HVMMBCMGZNT3SED4Z17ECXCA",
		SchemaVersion: SchemaVersion1_1,
		TypeDefinitions: []*openfgav1.TypeDefinition{
			{Type: "user"},
			{Type: "document", Relations: rels, Metadata: &openfgav1.Metadata{Relations: md}},
		},
	}
}

const VerifK19HostileModels = 36

func verifK19Hostile(k int) *openfgav1.AuthorizationModel {
	R := func(kv ...any) map[string]*openfgav1.Userset {
		m := map[string]*openfgav1.Userset{}
		for i := 0; i+1 < len(kv); i += 2 {
			m[kv[i].(string)], _ = kv[i+1].(*openfgav1.Userset)
		}
		return m
	}
	noTypes := map[string]*openfgav1.RelationMetadata{"viewer": {}}
	switch k {
	case 0:
		return nil
	case 1:
		return &openfgav1.AuthorizationModel{}
	case 2:
		return &openfgav1.AuthorizationModel{SchemaVersion: SchemaVersion1_1, TypeDefinitions: []*openfgav1.TypeDefinition{nil}}
	case 3:
		return verifK19Doc(R("viewer", nil), nil) // nil rewrite
	case 4:
		return verifK19Doc(R("viewer", &openfgav1.Userset{}), nil) // rewrite without kind
	case 5:
		return verifK19Doc(R("viewer", &openfgav1.Userset{Userset: &openfgav1.Userset_Union{}}), nil) // union kind, nil Usersets
	case 6:
		return verifK19Doc(R("viewer", verifK19Union()), nil) // union without children
	case 7:
		return verifK19Doc(R("viewer", verifK19Union(verifK19This(), nil)), nil) // nil child
	case 8:
		return verifK19Doc(R("viewer", verifK19Inter(nil, verifK19This())), nil)
	case 9:
		return verifK19Doc(R("viewer", &openfgav1.Userset{Userset: &openfgav1.Userset_Intersection{}}), nil)
	case 10:
		return verifK19Doc(R("viewer", &openfgav1.Userset{Userset: &openfgav1.Userset_Difference{}}), nil) // nil Difference
	case 11:
		return verifK19Doc(R("viewer", verifK19Diff(nil, verifK19This())), nil)
	case 12:
		return verifK19Doc(R("viewer", verifK19Diff(verifK19This(), nil)), nil)
	case 13:
		return verifK19Doc(R("viewer", &openfgav1.Userset{Userset: &openfgav1.Userset_ComputedUserset{}}), noTypes) // nil ObjectRelation
	case 14:
		return verifK19Doc(R("viewer", &openfgav1.Userset{Userset: &openfgav1.Userset_TupleToUserset{}}), noTypes) // nil TTU
	case 15:
		return verifK19Doc(R("viewer", &openfgav1.Userset{Userset: &openfgav1.Userset_TupleToUserset{TupleToUserset: &openfgav1.TupleToUserset{}}}), noTypes) // TTU with nil parts
	case 16:
		return verifK19Doc(R("viewer", verifK19Computed("nosuch")), noTypes) // undefined relation
	case 17:
		return verifK19Doc(R("viewer", verifK19Computed("viewer")), noTypes) // self reference
	case 18:
		return verifK19Doc(R("a", verifK19Computed("b"), "b", verifK19Computed("a")), map[string]*openfgav1.RelationMetadata{"a": {}, "b": {}}) // cycle
	case 19:
		return verifK19Doc(R("viewer", verifK19TTU("nosuch", "viewer")), noTypes) // undefined tupleset
	case 20:
		return verifK19Doc(R("parent", verifK19This(), "viewer", verifK19TTU("parent", "nosuch")),
			map[string]*openfgav1.RelationMetadata{"viewer": {}, "parent": {DirectlyRelatedUserTypes: []*openfgav1.RelationReference{{Type: "document"}}}}) // undefined computed relation of a TTU
	case 21:
		return verifK19Doc(R("viewer", verifK19This()), map[string]*openfgav1.RelationMetadata{"viewer": {DirectlyRelatedUserTypes: []*openfgav1.RelationReference{{Type: "ghost"}}}}) // undefined type
	case 22:
		return verifK19Doc(R("viewer", verifK19This()), map[string]*openfgav1.RelationMetadata{"viewer": {DirectlyRelatedUserTypes: []*openfgav1.RelationReference{
			{Type: "document", RelationOrWildcard: &openfgav1.RelationReference_Relation{Relation: "nosuch"}}}}}) // undefined relation in a restriction
	case 23:
		return verifK19Doc(R("viewer", verifK19This()), map[string]*openfgav1.RelationMetadata{"viewer": {DirectlyRelatedUserTypes: []*openfgav1.RelationReference{nil}}}) // nil restriction
	case 24:
		return verifK19Doc(R("viewer", verifK19This()), map[string]*openfgav1.RelationMetadata{"viewer": nil}) // nil metadata entry
	case 25:
		m := verifK19Doc(R("viewer", verifK19This()), nil)
		m.TypeDefinitions[1].Metadata = nil // assignable relation without metadata
		return m
	case 26:
		m := verifK19Doc(R("viewer", verifK19This()), nil)
		m.TypeDefinitions[1].Type = "" // empty type name
		return m
	case 27:
		return verifK19Doc(R("", verifK19This()), nil) // empty relation name
	case 28:
		m := verifK19Doc(R("viewer", verifK19This()), nil)
		m.TypeDefinitions = append(m.TypeDefinitions, &openfgav1.TypeDefinition{Type: "document"}) // duplicate type
		return m
	case 29:
		u := verifK19This()
		for i := 0; i < vt.ParamInt("nest", 6); i++ {
			if i%3 == 0 {
				u = verifK19Union(u, verifK19Computed("editor"))
			} else if i%3 == 1 {
				u = verifK19Inter(u, verifK19This())
			} else {
				u = verifK19Diff(u, verifK19Computed("editor"))
			}
		}
		return verifK19Doc(R("viewer", u, "editor", verifK19This()), nil) // deep nesting
	case 30:
		m := verifK19Doc(R("viewer", verifK19This()), nil)
		m.SchemaVersion = "9.9"
		return m
	case 31:
		m := verifK19Doc(R("viewer", verifK19This()), map[string]*openfgav1.RelationMetadata{"viewer": {DirectlyRelatedUserTypes: []*openfgav1.RelationReference{{Type: "user", Condition: "nosuch"}}}})
		return m // undeclared condition in a restriction
	case 32:
		m := verifK19Doc(R("viewer", verifK19This()), nil)
		m.Conditions = map[string]*openfgav1.Condition{"c": nil} // nil condition
		return m
	case 34:
		m := verifK19Doc(R("viewer", verifK19This()), nil)
		m.Conditions = map[string]*openfgav1.Condition{"": nil} // nil condition under the empty key (its absent name equals the key)
		return m
	case 35:
		m := verifK19Doc(R("viewer", verifK19This()), nil)
		m.Conditions = map[string]*openfgav1.Condition{"c": nil, "": nil}
		return m
	default:
		m := verifK19Doc(R("viewer", verifK19This()), nil)
		m.Conditions = map[string]*openfgav1.Condition{"c": {Name: "other", Expression: "x < 1"}} // key/name mismatch, undeclared parameter
		return m
	}
}

func VerifK19HostileModel() {
	if vt.Symbolic() {
		// CEL compilation is library code outside the engine's reach (runs for real natively)
		vt.Stub("(*github.com/openfga/openfga/internal/condition.EvaluableCondition).Compile",
			func(e *condition.EvaluableCondition) error {
				// like the real compile(), the stand-in reads the expression and the name of the embedded condition
				if src := e.Expression + e.Name; len(src) < 0 {
					return errors.New("unreachable")
				}
				return nil
			})
	}
	k := vt.ParamInt("k", -1)
	if k < 0 {
		k = vt.Choose("k", VerifK19HostileModels)
	}
	m := verifK19Hostile(k)
	ts, err := NewAndValidate(context.Background(), m)
	vt.Reach("returned")
	vt.Assert((ts == nil) != (err == nil), "NewAndValidate returned neither or both of typesystem and error")
	if err == nil {
		vt.Reach("accepted")
		// whatever was accepted must be usable by the validators' entry points
		_, _ = ts.GetRelation("document", "viewer")
		_, _ = ts.IsTuplesetRelation("document", "viewer")
		_, _ = ts.GetDirectlyRelatedUserTypes("document", "viewer")
	}
	// the unvalidated constructor (used when a stored model is loaded) must not panic either
	ts2, err2 := New(m)
	vt.Assert((ts2 == nil) != (err2 == nil), "New returned neither or both of typesystem and error")
}
