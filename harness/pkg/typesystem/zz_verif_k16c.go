package typesystem

import (
	"context"
	"sync"
	"time"

	openfgav1 "github.com/openfga/api/proto/openfga/v1"

	"github.com/openfga/openfga/internal/vt"
	"github.com/openfga/openfga/pkg/storage"
	"github.com/openfga/openfga/pkg/storage/cache/keys"
)

// ---- K16c / K17c-resolver: the memoizing typesystem resolver never hands one store the model of another ----
//
// The real MemoizedTypesystemResolverFunc (singleflight group + validated-model cache) runs against a
// harness datastore that holds, for two stores, DIFFERENT models under the SAME model id (each being the
// store's latest model). The lookup of the store that goes first blocks inside the datastore until the
// request of the other store has been issued, so the second request arrives while the first one is in
// flight (cold cache). Claim (C16 isolation, C17 "resolved to the latest model of the store"): each store
// gets the typesystem of ITS OWN model, during the race and on a later, sequential lookup (a wrong answer
// would be memoized for 7 days).
//
// Only the LRU container (theine, a concurrent third-party structure outside the engine's reach) is
// replaced under the engine, by an exact key→value table (no eviction: maxSize is far above 2 entries;
// no expiry: the TTL is 7 days and the abstract clock does not advance by itself). singleflight, key
// construction, ULID parsing, model validation and the resolver itself are the real code.

const verifK16cModelID = "01HVMMBCMGZNT3SED4Z17ECXCA"
const verifK16cOtherID = "01HVMMBD2V7X3J9Q3K4ZC1W8ER"

// verifK16cModel: `type user` + `type <objType> { define <rel>: [user] }`.
func verifK16cModel(id, objType, rel string) *openfgav1.AuthorizationModel {
	return &openfgav1.AuthorizationModel{
		Id:            id,
		SchemaVersion: SchemaVersion1_1,
		TypeDefinitions: []*openfgav1.TypeDefinition{
			{Type: "user"},
			{
				Type:      objType,
				Relations: map[string]*openfgav1.Userset{rel: {Userset: &openfgav1.Userset_This{This: &openfgav1.DirectUserset{}}}},
				Metadata: &openfgav1.Metadata{Relations: map[string]*openfgav1.RelationMetadata{
					rel: {DirectlyRelatedUserTypes: []*openfgav1.RelationReference{{Type: "user"}}},
				}},
			},
		},
	}
}

// verifK16cDS implements storage.AuthorizationModelReadBackend: one model per store.
type verifK16cDS struct {
	models map[string]*openfgav1.AuthorizationModel
	// the lookups of store `slow` signal `started` and then wait for `issued` (while gate is set)
	slow    string
	gate    bool
	started chan struct{}
	issued  chan struct{}
	reads   map[string]int // datastore calls per store
}

func (d *verifK16cDS) hold(store string) {
	d.reads[store]++
	if d.gate && store == d.slow {
		d.gate = false
		close(d.started)
		<-d.issued
		if !vt.Symbolic() {
			// natively the other request needs real time to reach the singleflight group
			time.Sleep(100 * time.Millisecond)
		}
	}
}

func (d *verifK16cDS) ReadAuthorizationModel(ctx context.Context, store string, id string) (*openfgav1.AuthorizationModel, error) {
	d.hold(store)
	m := d.models[store]
	if m == nil || m.GetId() != id {
		return nil, storage.ErrNotFound
	}
	return m, nil
}

func (d *verifK16cDS) FindLatestAuthorizationModel(ctx context.Context, store string) (*openfgav1.AuthorizationModel, error) {
	d.hold(store)
	m := d.models[store]
	if m == nil {
		return nil, storage.ErrNotFound
	}
	return m, nil
}

func (d *verifK16cDS) ReadAuthorizationModels(ctx context.Context, store string, options storage.ReadAuthorizationModelsOptions) ([]*openfgav1.AuthorizationModel, string, error) {
	return nil, "", storage.ErrNotFound
}

// verifK16cStubCache replaces the theine-backed container by an exact table (engine only).
func verifK16cStubCache() {
	if !vt.Symbolic() {
		return
	}
	var ks []keys.Key
	var vs []*TypeSystem
	vt.Stub("github.com/openfga/openfga/pkg/storage.NewInMemoryLRUCache",
		func(opts ...storage.InMemoryLRUCacheOpt[*TypeSystem]) (*storage.InMemoryLRUCache[*TypeSystem], error) {
			return &storage.InMemoryLRUCache[*TypeSystem]{}, nil
		})
	vt.Stub("(github.com/openfga/openfga/pkg/storage.InMemoryLRUCache[T]).Get",
		func(c storage.InMemoryLRUCache[*TypeSystem], k keys.Key) *TypeSystem {
			for i := range ks {
				if ks[i] == k {
					return vs[i]
				}
			}
			return nil
		})
	vt.Stub("(github.com/openfga/openfga/pkg/storage.InMemoryLRUCache[T]).Set",
		func(c storage.InMemoryLRUCache[*TypeSystem], k keys.Key, v *TypeSystem, ttl time.Duration) {
			if ttl < 0 {
				return
			}
			for i := range ks {
				if ks[i] == k {
					vs[i] = v
					return
				}
			}
			ks = append(ks, k)
			vs = append(vs, v)
		})
	vt.Stub("(github.com/openfga/openfga/pkg/storage.InMemoryLRUCache[T]).Stop",
		func(c storage.InMemoryLRUCache[*TypeSystem]) {})
}

// verifK16cOwn: ts is the typesystem of the model (id, objType) and of nothing else.
func verifK16cOwn(ts *TypeSystem, err error, id, objType, rel, foreignType string) bool {
	if err != nil || ts == nil {
		return false
	}
	if ts.GetAuthorizationModelID() != id {
		return false
	}
	if _, ok := ts.GetTypeDefinition(objType); !ok {
		return false
	}
	if _, ok := ts.GetTypeDefinition(foreignType); ok {
		return false
	}
	if _, e := ts.GetRelation(objType, rel); e != nil {
		return false
	}
	return true
}

// VerifK16cResolverIsolation. params: mode=id (explicit model id) | latest (model-less request);
// sameid=1 (default): both stores hold their model under the same id, sameid=0 (latest only): different ids.
// Which store goes first (and blocks in the datastore) is solver-chosen.
func VerifK16cResolverIsolation() {
	mode := vt.Param("mode", "id")
	sameID := vt.ParamInt("sameid", 1) != 0 || mode == "id"
	verifK16cStubCache()

	idA, idB := verifK16cModelID, verifK16cModelID
	if !sameID {
		idB = verifK16cOtherID
	}
	const storeA, storeB = "01HVMMB0000000000000000STA", "01HVMMB0000000000000000STB"
	ds := &verifK16cDS{
		models: map[string]*openfgav1.AuthorizationModel{
			storeA: verifK16cModel(idA, "document", "viewer"),
			storeB: verifK16cModel(idB, "folder", "owner"),
		},
		gate:    true,
		started: make(chan struct{}),
		issued:  make(chan struct{}),
		reads:   map[string]int{},
	}
	first, second := storeA, storeB
	if vt.Choose("first", 2) == 1 {
		first, second = storeB, storeA
	}
	ds.slow = first
	ask := func(store string) string {
		if mode == "latest" {
			return ""
		}
		if store == storeA {
			return idA
		}
		return idB
	}

	resolve, stop, err := MemoizedTypesystemResolverFunc(ds, 100)
	vt.Assert(err == nil && resolve != nil, "setup: MemoizedTypesystemResolverFunc failed")
	defer stop()

	ctx := context.Background()
	var ts1, ts2 *TypeSystem
	var err1, err2 error
	var wg sync.WaitGroup
	wg.Add(2)
	go func() {
		defer wg.Done()
		ts1, err1 = resolve(ctx, first, ask(first))
	}()
	go func() {
		defer wg.Done()
		<-ds.started     // the first store's datastore lookup is in flight
		close(ds.issued) // ... and may complete once this request is on its way
		ts2, err2 = resolve(ctx, second, ask(second))
	}()
	wg.Wait()

	own := func(store string, ts *TypeSystem, e error) bool {
		if store == storeA {
			return verifK16cOwn(ts, e, idA, "document", "viewer", "folder")
		}
		return verifK16cOwn(ts, e, idB, "folder", "owner", "document")
	}
	vt.Reach("raced")
	vt.Assert(ds.reads[first] >= 1, "setup: the first store's lookup never reached the datastore")
	vt.Assert(own(first, ts1, err1), "the store whose lookup was in flight did not get its own model")
	vt.Assert(own(second, ts2, err2), "a lookup that arrived while another store's lookup was in flight got that store's model (in-flight lookups are shared across stores)")
	vt.Assert(ts1 != ts2, "two stores share one typesystem object")

	// later, sequential lookups (whatever was memoized during the race is served now)
	ts3, err3 := resolve(ctx, second, ask(second))
	ts4, err4 := resolve(ctx, first, ask(first))
	vt.Reach("sequential")
	vt.Assert(own(second, ts3, err3), "after the race the resolver serves another store's model (memoized under the wrong store)")
	vt.Assert(own(first, ts4, err4), "after the race the first store no longer resolves to its own model")
	vt.Assert(ts3 == ts2 && ts4 == ts1, "a validated typesystem was not memoized per (store, model)")

	// an explicit-id lookup of the model id in a store that holds a different id is not found
	if !sameID {
		tsX, errX := resolve(ctx, storeA, idB)
		vt.Assert(tsX == nil && errX == ErrModelNotFound, "a model id of store B resolves in store A")
	}
}
