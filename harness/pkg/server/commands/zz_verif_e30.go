package commands

import (
	"context"
	"sort"

	openfgav1 "github.com/openfga/api/proto/openfga/v1"

	"github.com/openfga/openfga/internal/vt"
	"github.com/openfga/openfga/internal/vtmodels"
	"github.com/openfga/openfga/internal/vtsem"
	"github.com/openfga/openfga/pkg/storage"
	"github.com/openfga/openfga/pkg/typesystem"
)

// ---- E30 (C30): Expand mirrors the rewrite and the directly assigned users ------------------------------
//
// The real ExpandQuery (constructor, validation, combined reader, errgroup fan-out, tuple filters) runs on
// the symbolic store of vtsem: every candidate tuple's presence is a solver variable. The returned tree is
// compared node by node with a reference tree derived in the harness from the model's rewrite of the
// requested relation and from the candidate list (not from any repo helper):
//
//	this                 -> leaf.users: the users of the present, valid tuples of object#relation,
//	                        strictly ascending (sorted, duplicate free)
//	computed userset r   -> leaf.computed.userset = object#r
//	r from ts            -> leaf.tupleToUserset{tupleset: object#ts, computed: {parent#r | object#ts@parent
//	                        present and valid}} (a set: the API defines no order; no duplicates)
//	union / intersection -> one child per operand, in the order of the rewrite
//	difference           -> base, subtract
//
// Every node is named object#relation of the request. Expand has no request context, so conditions cannot
// be evaluated: a conditional tuple contributes its user whatever the condition says (documented behaviour
// mirrored by the reference: presence and validity only).

// verifE30Datastore adapts the symbolic reader to the constructor's parameter type. Only the five
// RelationshipTupleReader methods are ever called by the command; everything else stays unimplemented.
type verifE30Datastore struct {
	storage.OpenFGADatastore
	r *vtsem.Reader
}

func (d *verifE30Datastore) Read(ctx context.Context, store string, f storage.ReadFilter, o storage.ReadOptions) (storage.TupleIterator, error) {
	return d.r.Read(ctx, store, f, o)
}

func (d *verifE30Datastore) ReadPage(ctx context.Context, store string, f storage.ReadFilter, o storage.ReadPageOptions) ([]*openfgav1.Tuple, string, error) {
	return d.r.ReadPage(ctx, store, f, o)
}

func (d *verifE30Datastore) ReadUserTuple(ctx context.Context, store string, f storage.ReadUserTupleFilter, o storage.ReadUserTupleOptions) (*openfgav1.Tuple, error) {
	return d.r.ReadUserTuple(ctx, store, f, o)
}

func (d *verifE30Datastore) ReadUsersetTuples(ctx context.Context, store string, f storage.ReadUsersetTuplesFilter, o storage.ReadUsersetTuplesOptions) (storage.TupleIterator, error) {
	return d.r.ReadUsersetTuples(ctx, store, f, o)
}

func (d *verifE30Datastore) ReadStartingWithUser(ctx context.Context, store string, f storage.ReadStartingWithUserFilter, o storage.ReadStartingWithUserOptions) (storage.TupleIterator, error) {
	return d.r.ReadStartingWithUser(ctx, store, f, o)
}

type verifE30Req struct{ obj, rel string }

func verifE30Requests(u *vtsem.Universe) []verifE30Req {
	var out []verifE30Req
	for _, td := range u.Model.GetTypeDefinitions() {
		var rels []string
		for r := range td.GetRelations() {
			rels = append(rels, r)
		}
		sort.Strings(rels)
		for _, r := range rels {
			for _, o := range u.Objects[td.GetType()] {
				out = append(out, verifE30Req{o, r})
			}
		}
	}
	return out
}

func verifE30Rewrite(m *openfgav1.AuthorizationModel, typ, rel string) *openfgav1.Userset {
	for _, td := range m.GetTypeDefinitions() {
		if td.GetType() == typ {
			return td.GetRelations()[rel]
		}
	}
	return nil
}

func verifE30Contains(xs []string, s string) bool {
	for _, x := range xs {
		if x == s {
			return true
		}
	}
	return false
}

// verifE30Mutant (param "mutant", sensitivity test only, never set by registered jobs): 1 = the reference
// wrongly keeps invalid tuples, so the harness must report a violation.
var verifE30Mutant int

// verifE30Users lists the distinct users of the present and valid candidates of obj#rel.
func verifE30Users(st *vtsem.Store, obj, rel string) []string {
	var out []string
	for i, c := range st.U.Cands {
		if (!c.Valid && verifE30Mutant != 1) || c.Key.GetObject() != obj || c.Key.GetRelation() != rel {
			continue
		}
		if st.P[i] && !verifE30Contains(out, c.Key.GetUser()) {
			out = append(out, c.Key.GetUser())
		}
	}
	return out
}

// verifE30Compare checks one node of the answer against the rewrite it must mirror.
func verifE30Compare(st *vtsem.Store, n *openfgav1.UsersetTree_Node, rw *openfgav1.Userset, obj, rel string) {
	vt.Assert(n != nil, "expand: missing node")
	if n == nil {
		return
	}
	vt.Assert(n.GetName() == obj+"#"+rel, "expand: node is not named object#relation of the request")
	switch x := rw.GetUserset().(type) {
	case nil, *openfgav1.Userset_This:
		vt.Assert(n.GetLeaf() != nil && n.GetLeaf().GetUsers() != nil, "expand: direct rewrite is not a users leaf")
		got := n.GetLeaf().GetUsers().GetUsers()
		want := verifE30Users(st, obj, rel)
		vt.Reach("users-leaf")
		for i := 0; i+1 < len(got); i++ {
			vt.Assert(got[i] < got[i+1], "expand: users of a leaf are not sorted and duplicate free")
		}
		for _, w := range want {
			vt.Assert(verifE30Contains(got, w), "expand: a directly assigned user (present, valid tuple) is missing from the leaf")
		}
		for _, g := range got {
			vt.Assert(verifE30Contains(want, g), "expand: the leaf lists a user without a present, valid tuple")
		}
	case *openfgav1.Userset_ComputedUserset:
		vt.Assert(n.GetLeaf() != nil && n.GetLeaf().GetComputed() != nil, "expand: computed rewrite is not a computed leaf")
		vt.Reach("computed-leaf")
		vt.Assert(n.GetLeaf().GetComputed().GetUserset() == obj+"#"+x.ComputedUserset.GetRelation(), "expand: computed leaf does not name object#computed-relation")
	case *openfgav1.Userset_TupleToUserset:
		vt.Assert(n.GetLeaf() != nil && n.GetLeaf().GetTupleToUserset() != nil, "expand: tuple-to-userset rewrite is not a tupleToUserset leaf")
		ttu := n.GetLeaf().GetTupleToUserset()
		ts := x.TupleToUserset.GetTupleset().GetRelation()
		cr := x.TupleToUserset.GetComputedUserset().GetRelation()
		vt.Assert(ttu.GetTupleset() == obj+"#"+ts, "expand: tupleToUserset leaf does not name object#tupleset")
		var want []string
		for _, p := range verifE30Users(st, obj, ts) {
			want = append(want, p+"#"+cr)
		}
		var got []string
		for _, c := range ttu.GetComputed() {
			vt.Assert(!verifE30Contains(got, c.GetUserset()), "expand: tupleToUserset leaf lists a computed userset twice")
			got = append(got, c.GetUserset())
		}
		vt.Reach("ttu-leaf")
		for _, w := range want {
			vt.Assert(verifE30Contains(got, w), "expand: a parent of the tupleset (present, valid tuple) is missing from the tupleToUserset leaf")
		}
		for _, g := range got {
			vt.Assert(verifE30Contains(want, g), "expand: the tupleToUserset leaf lists a userset without a present, valid tupleset tuple")
		}
	case *openfgav1.Userset_Union:
		vt.Assert(n.GetUnion() != nil, "expand: union rewrite is not a union node")
		verifE30Children(st, n.GetUnion().GetNodes(), x.Union.GetChild(), obj, rel)
	case *openfgav1.Userset_Intersection:
		vt.Assert(n.GetIntersection() != nil, "expand: intersection rewrite is not an intersection node")
		verifE30Children(st, n.GetIntersection().GetNodes(), x.Intersection.GetChild(), obj, rel)
	case *openfgav1.Userset_Difference:
		vt.Assert(n.GetDifference() != nil, "expand: difference rewrite is not a difference node")
		verifE30Compare(st, n.GetDifference().GetBase(), x.Difference.GetBase(), obj, rel)
		verifE30Compare(st, n.GetDifference().GetSubtract(), x.Difference.GetSubtract(), obj, rel)
	default:
		vt.Assert(false, "expand: rewrite kind unknown to the reference")
	}
}

func verifE30Children(st *vtsem.Store, got []*openfgav1.UsersetTree_Node, want []*openfgav1.Userset, obj, rel string) {
	vt.Assert(len(got) == len(want), "expand: number of children differs from the number of operands")
	for i := range want {
		if i < len(got) {
			verifE30Compare(st, got[i], want[i], obj, rel)
		}
	}
}

// VerifE30Expand: for one model, every object#relation over the universe (forked index or "req"
// parameter) and EVERY store content over the candidate universe, ExpandQuery.Execute returns the tree the
// rewrite prescribes; an undefined relation is refused.
func VerifE30Expand() {
	m := vtmodels.Model(vt.Param("model", "direct"))
	ts, err := typesystem.New(m)
	vt.Assert(err == nil && ts != nil, "typesystem.New failed on a validated model")
	u := vtsem.NewUniverse(m, vt.ParamInt("nobj", 2), vt.ParamInt("invalid", 1) == 1)
	u.Restrict(vt.ParamInt("maxcands", 12), vt.ParamInt("seed", 0))
	st := vtsem.NewSymbolicStore(u)
	verifE30Mutant = vt.ParamInt("mutant", 0)
	reqs := verifE30Requests(u)
	ri := vt.ParamInt("req", -1)
	if ri < 0 {
		ri = vt.Choose("req", len(reqs)+1)
	}
	if ri > len(reqs) {
		vt.Reach("no-such-request")
		return
	}
	ctx := typesystem.ContextWithTypesystem(context.Background(), ts)
	q := NewExpandQuery(&verifE30Datastore{r: &vtsem.Reader{S: st}})

	if ri == len(reqs) {
		// a relation the type does not define
		obj := u.Objects[u.Types[len(u.Types)-1]][0]
		vt.Event("expand " + obj + "#verif_undefined")
		resp, xerr := q.Execute(ctx, &openfgav1.ExpandRequest{
			StoreId:  "01HVMMBCMGZNT3SED4Z17ECXCB",
			TupleKey: &openfgav1.ExpandRequestTupleKey{Object: obj, Relation: "verif_undefined"},
		})
		vt.Reach("undefined-relation")
		vt.Assert(xerr != nil && resp == nil, "expand: undefined relation accepted")
		return
	}

	rq := reqs[ri]
	vt.Event("expand " + rq.obj + "#" + rq.rel)
	vt.Event(u.Describe())
	// "ctx" = k: the first k valid candidates travel as contextual tuples of the request instead of being
	// stored; the reference treats them like stored tuples
	var ctxTuples *openfgav1.ContextualTupleKeys
	if k := vt.ParamInt("ctx", 0); k > 0 {
		if vt.ParamInt("ctxdup", 0) == 1 {
			// the contextual tuples are ALSO still stored (the same tuple stored and contextual: nothing rejects
			// that); the leaf must still list every user once
			ctxTuples = &openfgav1.ContextualTupleKeys{TupleKeys: st.ContextualCopies(k)}
		} else {
			ctxTuples = &openfgav1.ContextualTupleKeys{TupleKeys: st.SplitContextual(k)}
		}
	}
	resp, xerr := q.Execute(ctx, &openfgav1.ExpandRequest{
		StoreId:              "01HVMMBCMGZNT3SED4Z17ECXCB",
		AuthorizationModelId: m.GetId(),
		TupleKey:             &openfgav1.ExpandRequestTupleKey{Object: rq.obj, Relation: rq.rel},
		ContextualTuples:     ctxTuples,
	})
	vt.Reach("expanded")
	vt.Assert(xerr == nil && resp != nil, "expand: valid request failed")
	if xerr != nil || resp == nil {
		return
	}
	typ := rq.obj
	for i := 0; i < len(typ); i++ {
		if typ[i] == ':' {
			typ = typ[:i]
			break
		}
	}
	verifE30Compare(st, resp.GetTree().GetRoot(), verifE30Rewrite(m, typ, rq.rel), rq.obj, rq.rel)
}
