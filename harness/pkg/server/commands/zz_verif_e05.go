package commands

import (
	"context"
	"sort"
	"strconv"

	openfgav1 "github.com/openfga/api/proto/openfga/v1"
	"google.golang.org/protobuf/types/known/structpb"

	"github.com/openfga/openfga/internal/graph"
	"github.com/openfga/openfga/internal/vt"
	"github.com/openfga/openfga/internal/vtmodels"
	"github.com/openfga/openfga/internal/vtplan"
	"github.com/openfga/openfga/internal/vtsem"
	"github.com/openfga/openfga/pkg/featureflags"
	serverconfig "github.com/openfga/openfga/pkg/server/config"
	"github.com/openfga/openfga/pkg/typesystem"
)

// ---- E05 (C05): ListObjects returns exactly the permitted objects (classic engine) ----------------------
//
// The real ListObjectsQuery (constructor with its feature-flag client, Execute with request validation,
// evaluate: request storage wrapper, ReverseExpandQuery - classic or, with the optimisation flag, the
// weighted-graph variant -, consumer loop, bounded pool, CheckCommand for candidates that need further
// evaluation, trySendObject) runs on the symbolic store of vtsem with a real graph.LocalChecker whose
// planner picks an arbitrary strategy per plan key. The streaming pipeline engine is switched off.
//
// Reference: vtsem's three-valued least fixpoint of Check, one oracle per request (the subject), asked for
// every object of the requested type:
//
//	sound      every returned object is an object of the requested type and Check(object#relation@user) is true
//	distinct   no object is returned twice
//	complete   max results 0 (unbounded): every permitted object is returned (stores in which every condition
//	           can be evaluated: an evaluation error cancels the expansion and the answer must be the error)
//	limit      max results m: len = min(m, |permitted|) (and sound, distinct)
//	errors     only if the store (or the contextual tuples) hold a tuple whose condition cannot be evaluated;
//	           unbounded answer: an object whose permission depends on an unevaluable condition (reference
//	           value "error") must not be dropped silently - the call has to fail
//
// The deadline is switched off (the abstract clock may jump past any deadline; a deadline-truncated answer
// is partial by design).

type verifE05Req struct{ typ, rel, user string }

func verifE05Relations(td *openfgav1.TypeDefinition) []string {
	var rs []string
	for r := range td.GetRelations() {
		rs = append(rs, r)
	}
	sort.Strings(rs)
	return rs
}

// verifE05Requests: every type#relation against one object per type ("min") or against every object,
// every userset over the universe and every typed wildcard ("all"; "nowild" = all but the typed wildcards,
// used by the contextual-tuple jobs of the weighted variant, whose wildcard subjects hit a recorded finding).
func verifE05Requests(u *vtsem.Universe, subjects string) []verifE05Req {
	var subs []string
	for _, t := range u.Types {
		subs = append(subs, u.Objects[t][0])
	}
	if subjects == "all" || subjects == "nowild" {
		for _, td := range u.Model.GetTypeDefinitions() {
			t := td.GetType()
			subs = append(subs, u.Objects[t][1:]...)
			for _, r := range verifE05Relations(td) {
				subs = append(subs, u.Objects[t][0]+"#"+r)
			}
			if subjects == "all" {
				subs = append(subs, t+":*")
			}
		}
	}
	var out []verifE05Req
	for _, td := range u.Model.GetTypeDefinitions() {
		for _, r := range verifE05Relations(td) {
			for _, s := range subs {
				out = append(out, verifE05Req{td.GetType(), r, s})
			}
		}
	}
	return out
}

func verifE05Index(xs []string, s string) int {
	for i, x := range xs {
		if x == s {
			return i
		}
	}
	return -1
}

// VerifE05ListObjects: for one model, every (type, relation, subject) over the universe (forked index or
// "req" parameter) and EVERY store content over the candidate universe, the answer of the classic
// ListObjects engine is sound, duplicate free and complete / exactly limited.
func VerifE05ListObjects() {
	m := vtmodels.Model(vt.Param("model", "direct"))
	ts, err := typesystem.New(m)
	vt.Assert(err == nil && ts != nil, "typesystem.New failed on a validated model")
	u := vtsem.NewUniverse(m, vt.ParamInt("nobj", 2), vt.ParamInt("invalid", 1) == 1)
	u.Restrict(vt.ParamInt("maxcands", 12), vt.ParamInt("seed", 0))
	st := vtsem.NewSymbolicStore(u)
	reqs := verifE05Requests(u, vt.Param("subjects", "all"))
	if parts := vt.ParamInt("parts", 1); parts > 1 {
		// split the request family over several jobs: this job takes the requests k with k % parts == part
		var mine []verifE05Req
		for k, r := range reqs {
			if k%parts == vt.ParamInt("part", 0) {
				mine = append(mine, r)
			}
		}
		reqs = mine
	}
	ri := vt.ParamInt("req", -1)
	if ri < 0 {
		ri = vt.Choose("req", len(reqs))
	}
	if ri >= len(reqs) {
		vt.Reach("no-such-request")
		return
	}
	rq := reqs[ri]
	// max results: 0 = unbounded, k > 0 = k, -1 = solver-chosen 1..2
	max := vt.ParamInt("max", 0)
	if max < 0 {
		max = 1 + vt.Choose("max", 2)
	}
	vt.Event("listobjects " + rq.typ + "#" + rq.rel + "@" + rq.user + " max=" + strconv.Itoa(max))
	vt.Event(u.Describe())
	if n := vt.ParamInt("sched", 0); n > 0 {
		// the first n selects with several ready cases pick an arbitrary (forked) case instead of the
		// canonical fair rotation (the random choice of a real select, e.g. in TrySendThroughChannel)
		vt.SchedChoices(n)
	}

	ctx := typesystem.ContextWithTypesystem(context.Background(), ts)
	copts := []graph.LocalCheckerOption{graph.WithPlanner(vtplan.New(vt.ParamInt("plan", -1))), graph.WithOptimizations(vt.ParamInt("opt", 1) == 1)}
	if b := vt.ParamInt("breadth", 0); b > 0 {
		copts = append(copts, graph.WithResolveNodeBreadthLimit(uint32(b)))
	}
	checker := graph.NewLocalChecker(copts...)
	defer checker.Close()

	// feature flags: the pipeline flag stays off; "lo_opt" = 1 enables the weighted-graph reverse expansion
	var flags []string
	if vt.ParamInt("lo_opt", 0) == 1 {
		flags = append(flags, serverconfig.ExperimentalListObjectsOptimizations)
	}
	opts := []ListObjectsQueryOption{
		WithListObjectsPipelineEnabled(false),
		WithFeatureFlagClient(featureflags.NewDefaultClient(flags)),
		WithListObjectsDeadline(0),
		WithListObjectsMaxResults(uint32(max)),
	}
	if b := vt.ParamInt("breadth", 0); b > 0 {
		opts = append(opts, WithResolveNodeBreadthLimit(uint32(b)))
	}
	// "ctx" = k: the first k valid candidates travel as contextual tuples of the request instead of being
	// stored (the reference counts them like stored tuples)
	var ctxTuples *openfgav1.ContextualTupleKeys
	if k := vt.ParamInt("ctx", 0); k > 0 {
		ctxTuples = &openfgav1.ContextualTupleKeys{TupleKeys: st.SplitContextual(k)}
	}
	// C10 ("hc" = 1): the request asks for HIGHER_CONSISTENCY and the reader asserts that every read it serves
	// (reverse expansion and the embedded Check requests alike) carries that preference
	consistency := openfgav1.ConsistencyPreference_UNSPECIFIED
	if vt.ParamInt("hc", 0) == 1 {
		consistency = openfgav1.ConsistencyPreference_HIGHER_CONSISTENCY
	}
	q, qerr := NewListObjectsQuery(&vtsem.Reader{S: st, RequireHC: vt.ParamInt("hc", 0) == 1}, checker, "01HVMMBCMGZNT3SED4Z17ECXCB", opts...)
	vt.Assert(qerr == nil && q != nil, "NewListObjectsQuery failed")
	vt.Assert(!q.pipelineEnabled, "harness: the pipeline engine is not switched off")
	vt.Assert(q.optimizationsEnabled == (vt.ParamInt("lo_opt", 0) == 1), "harness: the optimisation flag did not arrive")
	st.StubConditions()
	var reqCtx *structpb.Struct
	if !vt.Symbolic() {
		reqCtx = st.RequestContext() // native replay: the real CEL evaluator sees a context with the chosen outcomes
	}
	resp, lerr := q.Execute(ctx, &openfgav1.ListObjectsRequest{
		StoreId:              "01HVMMBCMGZNT3SED4Z17ECXCB",
		AuthorizationModelId: m.GetId(),
		Type:                 rq.typ,
		Relation:             rq.rel,
		User:                 rq.user,
		ContextualTuples:     ctxTuples,
		Context:              reqCtx,
		Consistency:          consistency,
	})
	vt.Reach("listed")
	if lerr != nil {
		vt.Reach("error")
		vt.Assert(st.AnyPresentConditionError(), "listobjects: error although every condition in the store can be evaluated")
		return
	}
	vt.Assert(resp != nil, "listobjects: neither a response nor an error")
	if resp == nil {
		return
	}

	objects := u.Objects[rq.typ]
	oracle := vtsem.NewOracle(st, rq.user, vt.ParamInt("rounds", 0))
	permitted := make([]bool, len(objects))
	count := 0
	for i, o := range objects {
		permitted[i] = oracle.Holds(o, rq.rel).IsTrue()
		if permitted[i] {
			count++
		}
	}
	got := resp.Objects
	vt.Reach("answered")
	for i, g := range got {
		for j := i + 1; j < len(got); j++ {
			vt.Assert(got[j] != g, "listobjects: an object is returned twice")
		}
		k := verifE05Index(objects, g)
		vt.Assert(k >= 0, "listobjects: an entry is not an object of the requested type")
		if k >= 0 {
			vt.Assert(permitted[k], "listobjects: returned an object the semantics does not permit")
		}
	}
	if max == 0 {
		// An evaluation error anywhere cancels the expansion, and the response must then be the error (that is
		// what the code does under a limit that is not reached). Completeness is therefore claimed for stores
		// in which every condition can be evaluated; for the others the deterministic part of the obligation
		// is: no object whose permission depends on an unevaluable condition (reference: error) may be dropped
		// without an error.
		unevaluable := st.AnyPresentConditionError()
		for i, o := range objects {
			vt.Assert(unevaluable || !permitted[i] || verifE05Index(got, o) >= 0, "listobjects: a permitted object is not returned although nothing limits the answer")
			if vt.ParamInt("known_swallowed_condition_errors", 0) == 1 {
				// Finding (reported by the strict job, which runs without this parameter): with max results 0
				// Execute never returns the collected condition errors (`len(objects) < int(maxResults)` is
				// never true). Jobs that set the parameter skip exactly this obligation so that the others are
				// explored on every path (the engine stops a run after five violations).
				continue
			}
			vt.Assert(!oracle.Holds(o, rq.rel).IsError(), "listobjects: no error although the permission of an object depends on an unevaluable condition (unbounded answer)")
		}
		return
	}
	want := count
	if want > max {
		want = max
	}
	vt.Assert(len(got) <= max, "listobjects: more objects than the result limit")
	if vt.ParamInt("known_limit_race", 0) == 1 {
		// Finding (reported by VerifK05TwoHop): when the limit is reached while a later candidate arrives, the
		// consumer cancels and a Check goroutine that has already counted its object in objectsFound may lose
		// it in the select of TrySendThroughChannel - the answer is shorter than the limit. It needs a candidate
		// after the limit is reached, so the jobs with limit 1 (two or three objects per type) set this
		// parameter and claim the upper bound only; the exact count is claimed by the jobs with limit 2 on two
		// objects per type, where no candidate can follow the limit.
		return
	}
	vt.Assert(len(got) == want, "listobjects: fewer objects than min(limit, number of permitted objects)")
}
