package commands

import (
	"context"
	"errors"
	"sync"

	"google.golang.org/protobuf/types/known/structpb"

	openfgav1 "github.com/openfga/api/proto/openfga/v1"

	"github.com/openfga/openfga/internal/vt"
	"github.com/openfga/openfga/pkg/storage/cache/keys"
)

// ---- K07: BatchCheck = the individual Checks, fanned out to the correlation ids ------------------------
//
// The real BatchCheckQuery.Execute (validation, de-duplication by the real sub-problem cache key incl.
// the real xxhash, conc pool, sync.Map, fan-out) runs with the Checker seam (constructor argument)
// implemented by the harness: the verdict of a check is an arbitrary *function* of the item's inputs
// (tuple, contextual tuples, context): symbolic `allowed_k`, `fails_k` per distinct input k.
//
// Items are drawn (vt.Choose) from a vocabulary of inputs that pairwise differ in exactly one component,
// so an answer served from a neighbour is visible:
//   0  doc:1#viewer@user:a
//   1  doc:1#viewer@user:b                      (user differs)
//   2  doc:1#viewer@user:a  + contextual tuple   (contextual tuples differ)
//   3  doc:1#viewer@user:a  + context {k: "v"}   (context differs)
//   4  doc:1#viewer@user:a  + context {k: "w"}   (context value differs)
//   5  doc:1#viewer@user:a  + context {}         (same inputs as 0: empty context = no context)
//   6  doc:1#editor@user:a                      (relation differs)
//   7  doc:2#viewer@user:a                      (object differs)
// Correlation ids are symbolic strings (merged, not enumerated).

const verifK07Kinds = 8

func verifK07Item(kind int, id string) *openfgav1.BatchCheckItem {
	it := &openfgav1.BatchCheckItem{
		CorrelationId: id,
		TupleKey:      &openfgav1.CheckRequestTupleKey{Object: "doc:1", Relation: "viewer", User: "user:a"},
	}
	switch kind {
	case 1:
		it.TupleKey.User = "user:b"
	case 2:
		it.ContextualTuples = &openfgav1.ContextualTupleKeys{TupleKeys: []*openfgav1.TupleKey{{Object: "doc:1", Relation: "viewer", User: "user:a"}}}
	case 3:
		it.Context = &structpb.Struct{Fields: map[string]*structpb.Value{"k": {Kind: &structpb.Value_StringValue{StringValue: "v"}}}}
	case 4:
		it.Context = &structpb.Struct{Fields: map[string]*structpb.Value{"k": {Kind: &structpb.Value_StringValue{StringValue: "w"}}}}
	case 5:
		it.Context = &structpb.Struct{Fields: map[string]*structpb.Value{}}
	case 6:
		it.TupleKey.Relation = "editor"
	case 7:
		it.TupleKey.Object = "doc:2"
	}
	return it
}

// verifK07Sem maps a vocabulary entry to the input it denotes (5 and 0 are the same input).
func verifK07Sem(kind int) int {
	if kind == 5 {
		return 0
	}
	return kind
}

// verifK07KindOf recovers the input from what the checker is handed (independent of the item objects).
func verifK07KindOf(p *CheckCommandParams) int {
	tk := p.TupleKey
	hasCT := len(p.ContextualTuples.GetTupleKeys()) > 0
	f := p.Context.GetFields()
	switch {
	case tk.GetObject() == "doc:2":
		return 7
	case tk.GetRelation() == "editor":
		return 6
	case tk.GetUser() == "user:b":
		return 1
	case hasCT:
		return 2
	case len(f) == 1 && f["k"].GetStringValue() == "v":
		return 3
	case len(f) == 1 && f["k"].GetStringValue() == "w":
		return 4
	}
	return 0
}

type verifK07Checker struct {
	mu      sync.Mutex
	allowed [verifK07Kinds]bool
	fails   [verifK07Kinds]bool
	calls   [verifK07Kinds]int
}

var errVerifK07 = errors.New("check failed")

func (c *verifK07Checker) Execute(ctx context.Context, p *CheckCommandParams) (*CheckResult, error) {
	c.mu.Lock()
	defer c.mu.Unlock()
	vt.Assert(p.StoreID == "S1" && p.Consistency == openfgav1.ConsistencyPreference_HIGHER_CONSISTENCY, "store id / consistency not passed to the individual check")
	k := verifK07KindOf(p)
	c.calls[k]++
	if c.fails[k] {
		return nil, errVerifK07
	}
	return &CheckResult{Allowed: c.allowed[k], DatastoreQueryCount: uint32(k + 1), DatastoreItemCount: uint64(10 * (k + 1)), DispatchCount: 1}, nil
}

func verifK07WarmPools() {
	b := keys.GetBuilder()
	b.Close()
	d := keys.GetDigest()
	d.Close()
}

func VerifK07BatchCheck() {
	// touch the package-level state (error value, builder/digest pools) once, unconditionally, so that the
	// engine's lazy package initialisation does not happen under a path guard
	vt.Assert(errVerifK07 != nil, "init")
	verifK07WarmPools()
	// the per-process digest seed (crypto/rand at init) is pinned, as its doc comment allows tests to do: the
	// real XXH64 is then computed on the real key bytes (digest collisions are excluded by the property)
	keys.Seed = uint64(vt.ParamInt("seed", 7))
	maxChecks := vt.ParamInt("max", 2)
	n := vt.Choose("n", maxChecks+2) // 0 .. max+1
	chk := &verifK07Checker{}
	for k := 0; k < verifK07Kinds; k++ {
		chk.allowed[k] = vt.Bool("allowed" + string(rune('0'+k)))
		chk.fails[k] = vt.Bool("fails" + string(rune('0'+k)))
	}
	kinds := make([]int, n)
	ids := make([]string, n)
	items := make([]*openfgav1.BatchCheckItem, n)
	for i := 0; i < n; i++ {
		if n <= maxChecks {
			kinds[i] = vt.Choose("kind"+string(rune('0'+i)), verifK07Kinds)
		}
		ids[i] = vt.ASCII("id"+string(rune('0'+i)), vt.ParamInt("idlen", 1))
		items[i] = verifK07Item(kinds[i], ids[i])
		// the id *content* stays symbolic, but whether it is empty / equal to an earlier one is decided per
		// path: Execute continues under that condition into sync.Pool/conc code, which the engine only
		// runs under a decided guard (see ENGINE_ISSUES.md, sync.Pool.Get under an undecided guard)
		vt.Fork(ids[i] == "")
		for j := 0; j < i; j++ {
			vt.Fork(ids[i] == ids[j])
		}
	}
	if vt.Symbolic() {
		// only used in the "empty correlation id" error message; protobuf String() is reflection
		vt.Stub("(*github.com/openfga/api/proto/openfga/v1.CheckRequestTupleKey).String",
			func(x *openfgav1.CheckRequestTupleKey) string { return "tuple" })
	}
	cmd := NewBatchCheckCommand(chk,
		WithBatchCheckMaxChecksPerBatch(uint32(maxChecks)),
		WithBatchCheckMaxConcurrentChecks(uint32(vt.ParamInt("conc", 2))))

	res, meta, err := cmd.Execute(context.Background(), &BatchCheckCommandParams{
		AuthorizationModelID: "M1",
		StoreID:              "S1",
		Consistency:          openfgav1.ConsistencyPreference_HIGHER_CONSISTENCY,
		Checks:               items,
	})

	var verr *BatchCheckValidationError
	if n == 0 || n > maxChecks {
		vt.Reach("bad-size")
		vt.Assert(err != nil && errors.As(err, &verr) && res == nil && meta == nil, "empty or oversized batch not rejected with a validation error")
		return
	}
	badIDs := false
	for i := 0; i < n; i++ {
		if ids[i] == "" {
			badIDs = true
		}
		for j := 0; j < i; j++ {
			if ids[i] == ids[j] {
				badIDs = true
			}
		}
	}
	if badIDs {
		vt.Reach("bad-ids")
		vt.Assert(err != nil && errors.As(err, &verr) && res == nil, "empty or duplicate correlation id not rejected")
		total := 0
		for k := 0; k < verifK07Kinds; k++ {
			total += chk.calls[k]
		}
		vt.Assert(total == 0, "checks were executed for a batch with invalid correlation ids")
		return
	}
	vt.Reach("answered")
	vt.Assert(err == nil && res != nil && meta != nil, "valid batch failed")
	if err != nil || res == nil || meta == nil {
		return
	}
	vt.Assert(len(res) == n, "result map does not have exactly one entry per correlation id")
	distinct, wantQueries := 0, 0
	var seen [verifK07Kinds]bool
	for i := 0; i < n; i++ {
		k := verifK07Sem(kinds[i])
		if !seen[k] {
			seen[k] = true
			distinct++
			if !chk.fails[k] {
				wantQueries += k + 1
			}
		}
		out, ok := res[CorrelationID(ids[i])]
		vt.Assert(ok && out != nil, "a submitted correlation id has no outcome")
		if !ok || out == nil {
			continue
		}
		if chk.fails[k] {
			vt.Assert(out.Err == errVerifK07 && !out.Allowed, "outcome of a failing check is not its error")
		} else {
			vt.Assert(out.Err == nil, "error reported for a check that succeeded")
			vt.Assert(out.Allowed == chk.allowed[k], "outcome under a correlation id differs from the individual check of that item")
			vt.Assert(out.DatastoreQueryCount == uint32(k+1), "outcome metadata belongs to another check")
		}
	}
	for k := 0; k < verifK07Kinds; k++ {
		want := 0
		if seen[k] {
			want = 1
		}
		vt.Assert(chk.calls[k] == want, "a distinct check was not executed exactly once (or a check nobody asked for was executed)")
	}
	if distinct < n {
		vt.Reach("deduplicated")
	}
	vt.Assert(meta.DuplicateCheckCount == n-distinct, "DuplicateCheckCount is not the number of repeated checks")
	vt.Assert(int(meta.DatastoreQueryCount) == wantQueries, "DatastoreQueryCount is not the sum over the distinct checks")
	vt.Assert(int(meta.DispatchCount) == verifK07WantDispatch(seen, chk), "DispatchCount is not the sum over the distinct checks")
}

func verifK07WantDispatch(seen [verifK07Kinds]bool, chk *verifK07Checker) int {
	d := 0
	for k := 0; k < verifK07Kinds; k++ {
		if seen[k] && !chk.fails[k] {
			d++
		}
	}
	return d
}
