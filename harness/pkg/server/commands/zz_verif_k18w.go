package commands

import (
	"context"

	"google.golang.org/protobuf/proto"

	openfgav1 "github.com/openfga/api/proto/openfga/v1"

	"github.com/openfga/openfga/internal/validation"
	"github.com/openfga/openfga/internal/vt"
	"github.com/openfga/openfga/pkg/storage"
	"github.com/openfga/openfga/pkg/typesystem"
)

// ---- K18 (write command): Write accepts a tuple iff the model allows it, it is not implicit, and its
// condition context fits the size limit; a rejected write changes nothing --------------------------------
//
// The real WriteCommand.Execute runs (validateWriteRequest, ValidateTupleForWrite, validateNotImplicit,
// the context size check, duplicate/size check, datastore.Write) against a datastore that serves the model
// and records what is written. Reference: validation.VerifK18Want (zz_verif_k18.go in internal/validation,
// reads only the model proto) and the two rules of write.go's doc comments.

type verifK18Store struct {
	storage.OpenFGADatastore // nil: any method the command is not expected to call panics (= violation)
	model                    *openfgav1.AuthorizationModel
	writeCalls               int
	written                  []*openfgav1.TupleKey
	deleted                  int
}

func (s *verifK18Store) ReadAuthorizationModel(ctx context.Context, store, id string) (*openfgav1.AuthorizationModel, error) {
	return s.model, nil
}

func (s *verifK18Store) MaxTuplesPerWrite() int { return 10 }

func (s *verifK18Store) Write(ctx context.Context, store string, d storage.Deletes, w storage.Writes, opts ...storage.TupleWriteOption) error {
	s.writeCalls++
	s.written = append(s.written, w...)
	s.deleted += len(d)
	return nil
}

// verifK18Implicit: `object#relation@object#relation` (a userset pointing at itself).
func verifK18Implicit(t validation.VerifK18Tuple) bool {
	u := validation.VerifK18Parse(t.User)
	return u.OK && u.Userset && u.Typ+":"+u.ID == t.Obj && u.Rel == t.Rel
}

func verifK18Memo(m *openfgav1.AuthorizationModel) {
	validation.VerifK18StubCEL()
	if vt.Symbolic() {
		// validateWriteRequest builds a typesystem from the stored model on every call; the constructor is a
		// deterministic function of the model, so under the engine it is run once and memoised
		ts, err := typesystem.New(m)
		vt.Assert(err == nil, "typesystem.New failed on a family model")
		vt.Stub("github.com/openfga/openfga/pkg/typesystem.New",
			func(x *openfgav1.AuthorizationModel) (*typesystem.TypeSystem, error) { return ts, err })
	}
}

// Every tuple of (objects of declared types and of one undeclared type with ids 1/2) x relations x users
// (ids 1/2/*) x (no condition | every vocabulary condition), written alone through Execute.
func VerifK18eWriteCommand() {
	m := validation.VerifK18Model()
	verifK18Memo(m)
	v := validation.VerifK18Vocab(m)
	if vt.Symbolic() {
		// proto.Size goes through protobuf reflection (not interpretable); every tuple here has a nil context,
		// whose size is 0 (what the native run computes)
		vt.Stub("google.golang.org/protobuf/proto.Size", func(proto.Message) int { return 0 })
	}
	var bad [3]int
	n := 0
	one := func(t validation.VerifK18Tuple) {
		st := &verifK18Store{model: m}
		cmd := NewWriteCommand(st)
		tk := t.Key()
		_, err := cmd.Execute(context.Background(), &openfgav1.WriteRequest{StoreId: "S", AuthorizationModelId: m.GetId(),
			Writes: &openfgav1.WriteRequestWrites{TupleKeys: []*openfgav1.TupleKey{tk}}})
		want := validation.VerifK18Want(m, t) && !verifK18Implicit(t)
		if err == nil && !want {
			vt.Event("written but not allowed: " + t.String())
			bad[0]++
		}
		if err != nil && want {
			vt.Event("allowed but rejected: " + t.String())
			bad[1]++
		}
		if err != nil && (st.writeCalls != 0 || len(st.written) != 0) {
			vt.Event("rejected write reached the datastore: " + t.String())
			bad[2]++
		}
		if err == nil && (st.writeCalls != 1 || len(st.written) != 1 || st.written[0] != tk || st.deleted != 0) {
			vt.Event("accepted write did not store exactly the tuple: " + t.String())
			bad[2]++
		}
		n++
	}
	for _, obj := range v.Objs {
		if o := validation.VerifK18Parse(obj); o.ID == "*" {
			continue // wildcard objects: covered by K18a
		}
		for _, rel := range v.Rels {
			for _, user := range v.Users {
				one(validation.VerifK18Tuple{Obj: obj, Rel: rel, User: user})
				if vt.ParamInt("conds", 1) == 1 {
					for _, c := range v.Conds {
						one(validation.VerifK18Tuple{Obj: obj, Rel: rel, User: user, HasCond: true, Cond: c})
					}
				}
			}
		}
	}
	vt.Reach("product-done")
	vt.Assert(n > 0, "nothing enumerated")
	// unconstrained mask bits keep a concretely false assertion from hiding the ones after it (see
	// verifK18Report in internal/validation/zz_verif_k18.go)
	vt.Assert(bad[0] == 0 || vt.Bool("mask0"), "Write stored a tuple the model does not allow (or an implicit one)")
	vt.Assert(bad[1] == 0 || vt.Bool("mask1"), "Write rejected a tuple the model allows")
	vt.Assert(bad[2] == 0 || vt.Bool("mask2"), "Write outcome and datastore effect disagree")
}

// Context size limit: a conditioned tuple the model allows is written iff proto.Size(context) <= limit.
// Under the engine proto.Size is an arbitrary non-negative int; natively the context is nil (size 0) and
// the limit is shifted by the solver's size so that the comparison has the same outcome.
func VerifK18eContextSize() {
	m := validation.VerifK18Model()
	verifK18Memo(m)
	size := vt.IntRange("size", 0, 1<<20)
	limit0 := vt.IntRange("limit", 0, 1<<20)
	limit := limit0
	if vt.Symbolic() {
		vt.Stub("google.golang.org/protobuf/proto.Size", func(proto.Message) int { return size })
	} else {
		limit -= size
	}
	// the first conditioned type restriction of the model gives the tuple
	var t validation.VerifK18Tuple
	found := false
	for _, td := range m.GetTypeDefinitions() {
		for rel, md := range td.GetMetadata().GetRelations() {
			for _, ref := range md.GetDirectlyRelatedUserTypes() {
				if ref.GetCondition() != "" && ref.GetRelationOrWildcard() == nil && !found && rel == vt.Param("rel", "viewer") {
					found = true
					t = validation.VerifK18Tuple{Obj: td.GetType() + ":1", Rel: rel, User: ref.GetType() + ":1", HasCond: true, Cond: ref.GetCondition()}
				}
			}
		}
	}
	vt.Assert(found, "model has no conditioned restriction on the chosen relation")
	if !found {
		return
	}
	st := &verifK18Store{model: m}
	cmd := NewWriteCommand(st, WithConditionContextByteLimit(limit))
	_, err := cmd.Execute(context.Background(), &openfgav1.WriteRequest{StoreId: "S", AuthorizationModelId: m.GetId(),
		Writes: &openfgav1.WriteRequestWrites{TupleKeys: []*openfgav1.TupleKey{t.Key()}}})
	fits := size <= limit0
	vt.Reach("executed")
	if fits {
		vt.Reach("fits")
		vt.Assert(err == nil && st.writeCalls == 1, "a tuple whose context fits the limit was not written")
	} else {
		vt.Reach("too-large")
		vt.Assert(err != nil && st.writeCalls == 0, "a tuple whose context exceeds the limit was written")
	}
}
