package v2breaking

import (
	"context"
	"time"

	openfgav1 "github.com/openfga/api/proto/openfga/v1"
	"google.golang.org/protobuf/types/known/structpb"

	"github.com/openfga/openfga/internal/check"
	"github.com/openfga/openfga/internal/modelgraph"
	"github.com/openfga/openfga/internal/vt"
	"github.com/openfga/openfga/internal/vtmodels"
	"github.com/openfga/openfga/internal/vtplan"
	"github.com/openfga/openfga/internal/vtsem"
	"github.com/openfga/openfga/pkg/storage/cache/keys"
	"github.com/openfga/openfga/pkg/tuple"
	"github.com/openfga/openfga/pkg/typesystem"
)

type verifReq struct{ obj, rel, user string }

func verifRelations(u *vtsem.Universe, t string) map[string]*openfgav1.Userset {
	for _, td := range u.Model.GetTypeDefinitions() {
		if td.GetType() == t {
			return td.GetRelations()
		}
	}
	return nil
}

func verifRequests(u *vtsem.Universe, subjects string) []verifReq {
	var subs []string
	for _, t := range u.Types {
		subs = append(subs, u.Objects[t][0])
	}
	if subjects == "all" {
		for _, t := range u.Types {
			subs = append(subs, u.Objects[t][1:]...)
			for r := range verifRelations(u, t) {
				subs = append(subs, u.Objects[t][0]+"#"+r)
			}
			subs = append(subs, t+":*")
		}
	}
	var out []verifReq
	for _, t := range u.Types {
		for r := range verifRelations(u, t) {
			for _, o := range u.Objects[t] {
				for _, s := range subs {
					out = append(out, verifReq{o, r, s})
				}
			}
		}
	}
	for i := 1; i < len(out); i++ {
		for j := i; j > 0 && verifLess(out[j], out[j-1]); j-- {
			out[j], out[j-1] = out[j-1], out[j]
		}
	}
	return out
}

func verifLess(a, b verifReq) bool {
	if a.obj != b.obj {
		return a.obj < b.obj
	}
	if a.rel != b.rel {
		return a.rel < b.rel
	}
	return a.user < b.user
}

// verifE03Cache is a storage.InMemoryCache[any] without expiry (association list).
type verifE03Cache struct {
	ks []keys.Key
	vs []any
}

func (c *verifE03Cache) Get(k keys.Key) any {
	for i := range c.ks {
		if c.ks[i] == k {
			return c.vs[i]
		}
	}
	return nil
}

func (c *verifE03Cache) Set(k keys.Key, v any, ttl time.Duration) {
	for i := range c.ks {
		if c.ks[i] == k {
			c.vs[i] = v
			return
		}
	}
	c.ks = append(c.ks, k)
	c.vs = append(c.vs, v)
}

func (c *verifE03Cache) Delete(k keys.Key) {
	for i := range c.ks {
		if c.ks[i] == k {
			c.vs[i] = nil
		}
	}
}

func (c *verifE03Cache) Stop() {}

// VerifE03WeightedCheck: the weighted-graph engine (internal/check.Resolver, built as CheckQueryV2 builds
// it) over the symbolic store. Object subjects: a returned decision equals the reference semantics.
// Userset / wildcard subjects: a decision that differs from the reference semantics (= what the default
// engine is verified against in C01) must be one of the documented breaking-change shapes, i.e.
// CheckReason reports it. Request-shape rejections are accepted as such.
func VerifE03WeightedCheck() {
	m := vtmodels.Model(vt.Param("model", "direct"))
	ts, err := typesystem.New(m)
	vt.Assert(err == nil && ts != nil, "typesystem.New failed")
	mg, gerr := modelgraph.New(m)
	vt.Assert(gerr == nil && mg != nil, "modelgraph.New failed on a validated model")
	if gerr != nil {
		return
	}
	vtsem.StarSecondID = vt.ParamInt("starid", 0) == 1
	vtsem.LowFirstID = vt.ParamInt("lowid", 0) == 1
	u := vtsem.NewUniverse(m, vt.ParamInt("nobj", 2), vt.ParamInt("invalid", 1) == 1)
	u.Restrict(vt.ParamInt("maxcands", 12), vt.ParamInt("seed", 0))
	st := vtsem.NewSymbolicStore(u)
	reqs := verifRequests(u, vt.Param("subjects", "all"))
	if only := vt.Param("rel", ""); only != "" {
		// a job may restrict the requests to one relation (keeps findings recorded on other relations of the
		// model from using up the run's violation budget)
		var kept []verifReq
		for _, r := range reqs {
			if r.rel == only {
				kept = append(kept, r)
			}
		}
		reqs = kept
	}
	ri := vt.ParamInt("req", -1)
	if ri < 0 {
		ri = vt.Choose("req", len(reqs))
	}
	if ri >= len(reqs) {
		vt.Reach("no-such-request")
		return
	}
	rq := reqs[ri]
	vt.Event("check " + rq.obj + "#" + rq.rel + "@" + rq.user)
	vt.Event(u.Describe())

	st.StubConditions()
	var reqCtx *structpb.Struct
	if !vt.Symbolic() {
		reqCtx = st.RequestContext()
	}
	// C10 ("hc" = 1): the request asks for HIGHER_CONSISTENCY and the reader asserts that every read it serves
	// carries that preference
	consistency := openfgav1.ConsistencyPreference_UNSPECIFIED
	if vt.ParamInt("hc", 0) == 1 {
		consistency = openfgav1.ConsistencyPreference_HIGHER_CONSISTENCY
	}
	cfg := check.Config{
		Model:            mg,
		Datastore:        &vtsem.Reader{S: st, RequireHC: vt.ParamInt("hc", 0) == 1},
		Planner:          vtplan.New(vt.ParamInt("plan", -1)),
		ConcurrencyLimit: 25,
	}
	if vt.ParamInt("qcache", 0) == 1 {
		// C08: the engine's own query cache (entries never expire within a run)
		cfg.Cache, cfg.CacheTTL = &verifE03Cache{}, time.Hour
	}
	resolver := check.New(cfg)
	if vt.ParamInt("prior", 0) == 1 {
		// an arbitrary other request is answered first by the same resolver (its cache is warm afterwards)
		pi := vt.ParamInt("priorreq", -1)
		if pi < 0 || pi >= len(reqs) {
			pi = vt.Choose("prior", len(reqs))
		}
		pq := reqs[pi]
		vt.Event("prior check " + pq.obj + "#" + pq.rel + "@" + pq.user)
		if preq, perr := check.NewRequest(check.RequestParams{StoreID: "01HVMMBCMGZNT3SED4Z17ECXCB", Model: mg,
			TupleKey: tuple.NewTupleKey(pq.obj, pq.rel, pq.user), Context: reqCtx, Consistency: consistency}); perr == nil {
			_, _ = resolver.ResolveCheck(context.Background(), preq)
		}
	}
	var ctxTuples []*openfgav1.TupleKey
	if k := vt.ParamInt("ctx", 0); k > 0 {
		// C04: the first k valid candidates are not in the store; those that are "present" travel as contextual
		// tuples of the request. The reference semantics ignores the split.
		ctxTuples = st.SplitContextual(k)
	}
	req, rerr := check.NewRequest(check.RequestParams{
		StoreID:          "01HVMMBCMGZNT3SED4Z17ECXCB",
		Model:            mg,
		TupleKey:         tuple.NewTupleKey(rq.obj, rq.rel, rq.user),
		Context:          reqCtx,
		ContextualTuples: ctxTuples,
		Consistency:      consistency,
	})
	if rerr != nil {
		vt.Reach("request-rejected")
		return
	}
	resp, cerr := resolver.ResolveCheck(context.Background(), req)
	want := vtsem.NewOracle(st, rq.user, vt.ParamInt("rounds", 0)).Holds(rq.obj, rq.rel)
	isObjectSubject := !tuple.IsObjectRelation(rq.user) && !tuple.IsWildcard(rq.user)
	reason := CheckReason(ts, &openfgav1.CheckRequestTupleKey{Object: rq.obj, Relation: rq.rel, User: rq.user})
	vt.Reach("decided")
	if cerr != nil {
		if CheckReasonFromV2Error(cerr) != "" {
			vt.Reach("shape-error")
			return
		}
		// C03 constrains decisions only: an error of the weighted-graph path is surfaced or makes the command
		// fall back to the default engine (C01). It must still come from somewhere: some tuple in play carries
		// a condition that cannot be evaluated.
		vt.Assert(st.AnyPresentConditionError(), "weighted-graph engine returned an error although every condition in the store can be evaluated")
		return
	}
	agrees := (resp.GetAllowed() && want.IsTrue()) || (!resp.GetAllowed() && want.IsFalse())
	if isObjectSubject {
		if resp.GetAllowed() {
			vt.Assert(want.IsTrue(), "weighted-graph engine allowed a check the semantics denies")
		} else {
			vt.Assert(want.IsFalse(), "weighted-graph engine denied a check the semantics allows")
		}
	} else if !agrees {
		vt.Assert(reason != "", "weighted-graph engine differs from the reference on a userset/wildcard subject and the breaking-change detector does not report it")
	}
}
