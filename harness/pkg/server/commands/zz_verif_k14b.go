package commands

import (
	"context"

	openfgav1 "github.com/openfga/api/proto/openfga/v1"

	"github.com/openfga/openfga/internal/vt"
	"github.com/openfga/openfga/pkg/encoder"
	"github.com/openfga/openfga/pkg/storage"
)

// verifChangelog is a ChangelogBackend that records what reaches the backend and returns one change and
// a fixed continuation ULID.
type verifChangelog struct {
	called bool
	filter storage.ReadChangesFilter
	from   string
	more   bool
}

func (b *verifChangelog) ReadChanges(_ context.Context, _ string, f storage.ReadChangesFilter, o storage.ReadChangesOptions) ([]*openfgav1.TupleChange, string, error) {
	b.called = true
	b.filter = f
	b.from = o.Pagination.From
	ch := []*openfgav1.TupleChange{{TupleKey: &openfgav1.TupleKey{Object: "document:1", Relation: "viewer", User: "user:a"}}}
	if b.more {
		return ch, "01HVMMBCMGZNT3SED4Z17ECXCA", nil
	}
	return ch, "", nil
}

// K14b: a ReadChanges continuation token is accepted only with the type filter it was issued for.
// Step 1 issues a token under an arbitrary type filter t1 (the real command + serializer); step 2 presents
// it (or ANY other token string) with an arbitrary type filter t2. The backend may only be reached when
// the presented token deserializes to a type equal to t2; an issued token is accepted exactly when t1 == t2
// and then resumes from the issued position.
func VerifK14bReadChangesTokenType() {
	L := vt.ParamInt("len", 3)
	t1 := vt.String("t1", L)
	t2 := vt.String("t2", L)
	b1 := &verifChangelog{more: true}
	q1 := NewReadChangesQuery(b1, WithReadChangesQueryEncoder(encoder.NoopEncoder{}))
	r1, err := q1.Execute(context.Background(), &openfgav1.ReadChangesRequest{StoreId: "s", Type: t1})
	vt.Assert(err == nil && r1.GetContinuationToken() != "", "first page did not issue a token")
	if err != nil {
		return
	}
	tok := r1.GetContinuationToken()
	if vt.Bool("forged") {
		tok = vt.String("tok", vt.ParamInt("tok", 5))
	}
	b2 := &verifChangelog{}
	q2 := NewReadChangesQuery(b2, WithReadChangesQueryEncoder(encoder.NoopEncoder{}))
	_, err2 := q2.Execute(context.Background(), &openfgav1.ReadChangesRequest{StoreId: "s", Type: t2, ContinuationToken: tok})
	vt.Reach("presented")
	if tok == r1.GetContinuationToken() {
		if t1 == t2 {
			vt.Assert(err2 == nil && b2.called && b2.from == "01HVMMBCMGZNT3SED4Z17ECXCA", "issued token rejected or resumed elsewhere with its own type filter")
		} else {
			vt.Assert(err2 != nil && !b2.called, "token issued for one type filter was accepted with another")
		}
	}
	if b2.called && tok != "" {
		// whatever was presented: the backend is reached only with a token that carries exactly the requested type
		ser := encoder.NewStringContinuationTokenSerializer()
		u, ty, derr := ser.Deserialize(tok)
		vt.Assert(derr == nil && ty == t2 && u == b2.from, "backend reached with a token that does not carry the requested type filter")
		vt.Assert(b2.filter.ObjectType == t2, "type filter changed on the way to the backend")
	}
}
