package commands

import (
	"context"
	"errors"
	"strconv"
	"sync"
	"time"

	"golang.org/x/sync/singleflight"
	"google.golang.org/protobuf/types/known/timestamppb"

	openfgav1 "github.com/openfga/api/proto/openfga/v1"

	"github.com/openfga/openfga/internal/cachecontroller"
	"github.com/openfga/openfga/internal/graph"
	"github.com/openfga/openfga/internal/vt"
	"github.com/openfga/openfga/pkg/storage"
	"github.com/openfga/openfga/pkg/storage/cache/keys"
	"github.com/openfga/openfga/pkg/storage/storagewrappers"
)

// ---- K11: the cache controller bounds staleness after writes -------------------------------------------
//
// Time. Under the engine every time.Now() is a fresh, non-decreasing symbolic instant, so a straight-line
// harness *is* a symbolic timeline: fill, write, invalidation run, request. Two clock modes:
//   general (grid=0): nothing else is assumed about the instants (every Now() inside the code under test is
//     free between its neighbours); TTLs are symbolic. Used for the obligations expected to hold.
//   grid (grid=1): the harness steps happen at base + k*unit with symbolic k (named gaps), each step is
//     instantaneous and TTLs are (K+1/2)*unit, so that no comparison made by the code is an exact tie. A model
//     of this mode is a schedule that the native replay re-enacts with real sleeps (unit = 10 ms, absolute schedule) against
//     the real clock. Used where a violation is expected (jitter > 0, diverging TTLs).

const verifK11OneYear = time.Hour * 24 * 365

// verifK11Cache implements storage.InMemoryCache[any] with expiry, mirroring InMemoryLRUCache.Set: a value
// Set at instant s with ttl is visible to a Get at instant g iff g < s + min(ttl, one year); negative ttl is a
// no-op; Delete removes. Size-based eviction (which only removes entries) is not modelled.
type verifK11Cache struct {
	ks     []keys.Key
	vs     []any
	setAt  []time.Time
	expire []time.Time
	sets   int
}

func (c *verifK11Cache) slot(k keys.Key) int {
	for i := range c.ks {
		if c.ks[i] == k {
			return i
		}
	}
	return -1
}

func (c *verifK11Cache) Get(k keys.Key) any {
	i := c.slot(k)
	if i < 0 || c.vs[i] == nil {
		return nil
	}
	now := time.Now()
	if vt.Fork(now.Before(c.expire[i])) {
		return c.vs[i]
	}
	return nil
}

func (c *verifK11Cache) Set(k keys.Key, v any, ttl time.Duration) {
	// The two TTL tests are decided per path (vt.Fork; infeasible outcomes are pruned): with a symbolic TTL a
	// merged early return would leave the whole cache content under an undecided guard, and the controller's
	// sync.Map / goroutine code then ends the path silently (ENGINE_ISSUES.md, cache group; ttlfork=0 reproduces).
	decide := func(c bool) bool {
		if vt.ParamInt("ttlfork", 1) == 1 {
			return vt.Fork(c)
		}
		return c
	}
	if decide(ttl >= verifK11OneYear) {
		ttl = verifK11OneYear
	}
	if decide(ttl < 0) {
		return
	}
	c.sets++
	now := time.Now()
	i := c.slot(k)
	if i < 0 {
		c.ks = append(c.ks, k)
		c.vs = append(c.vs, nil)
		c.setAt = append(c.setAt, time.Time{})
		c.expire = append(c.expire, time.Time{})
		i = len(c.ks) - 1
	}
	c.vs[i], c.setAt[i], c.expire[i] = v, now, now.Add(ttl)
}

func (c *verifK11Cache) Delete(k keys.Key) {
	if i := c.slot(k); i >= 0 {
		c.vs[i] = nil
	}
}

func (c *verifK11Cache) Stop() {}

// raw returns what is stored under k regardless of expiry (harness bookkeeping only).
func (c *verifK11Cache) raw(k keys.Key) (any, time.Time) {
	if i := c.slot(k); i >= 0 {
		return c.vs[i], c.setAt[i]
	}
	return nil, time.Time{}
}

// verifK11Clock: the harness-level clock steps.
type verifK11Clock struct {
	grid bool
	unit time.Duration
	last time.Time
	max  int
}

func newVerifK11Clock() *verifK11Clock {
	c := &verifK11Clock{grid: vt.ParamInt("grid", 0) == 1, unit: time.Millisecond, max: vt.ParamInt("gap", 60)}
	if !vt.Symbolic() {
		c.unit = 10 * time.Millisecond
	}
	c.last = time.Now()
	return c
}

// step lets `name` units of time pass (grid mode; natively: sleeps) and returns the current instant.
func (c *verifK11Clock) step(name string, min int) time.Time {
	if !c.grid {
		return time.Now()
	}
	gap := vt.IntRange(name, min, c.max)
	if !vt.Symbolic() {
		// absolute schedule (no accumulated drift): the step happens at base + (sum of gaps) * unit
		c.last = c.last.Add(time.Duration(gap) * c.unit)
		time.Sleep(time.Until(c.last))
		return time.Now()
	}
	n := time.Now()
	vt.Assume(n.Equal(c.last.Add(time.Duration(gap) * c.unit)))
	c.last = n
	return n
}

// still: in grid mode the step that just ran took no time (natively: it takes microseconds).
func (c *verifK11Clock) still() {
	if c.grid && vt.Symbolic() {
		vt.Assume(time.Now().Equal(c.last))
	}
}

// verifK11EarlyWindow (grid mode with jitter only, i.e. the counterexample-seeking jobs): the final request arrives
// within the first half of the extra lifetime that jitter can give the entry. Natively the jitter is really
// random; with this restriction at least every second native trial re-enacts a model's schedule successfully.
func verifK11EarlyWindow(clk *verifK11Clock, jitter uint32, g, setAt time.Time, base time.Duration) {
	if clk.grid && jitter > 0 && vt.Symbolic() {
		vt.Assume(g.Sub(setAt) <= base+base*time.Duration(jitter)/200)
	}
}

// verifK11ControllerTTL: the controller's minimum refresh interval only decides whether the final request ALSO
// starts a background refresh (which cannot influence that request's answer). ctl=1: arbitrary; default: a
// concrete interval longer than the timeline, which halves the number of paths.
func verifK11ControllerTTL() time.Duration {
	if vt.ParamInt("ctl", 0) == 1 {
		return time.Duration(vt.IntRange("controller-ttl", 0, 1<<40))
	}
	return time.Duration(1 << 50)
}

// ttl: a cache TTL. general mode: any positive duration up to ~18 minutes (symbolic); grid mode: (K+1/2) units.
func (c *verifK11Clock) ttl(name string, param string, def int) time.Duration {
	if c.grid {
		return time.Duration(vt.ParamInt(param, def))*c.unit + c.unit/2
	}
	return time.Duration(vt.IntRange(name, 1, 1<<40))
}

// verifK11Datastore: only ReadChanges is ever called by the controller.
type verifK11Datastore struct {
	storage.OpenFGADatastore
	changes []*openfgav1.TupleChange
	err     error
	calls   int
	newest  time.Time
}

func (d *verifK11Datastore) ReadChanges(ctx context.Context, store string, f storage.ReadChangesFilter, o storage.ReadChangesOptions) ([]*openfgav1.TupleChange, string, error) {
	d.calls++
	vt.Assert(o.SortDesc && o.Pagination.From == "" && f.ObjectType == "", "controller does not ask for the most recent page of all changes")
	if d.calls > 1 {
		// a refresh triggered by the scenario's final request: it runs after the request was answered and is not
		// part of the claim; it fails fast (which condemns the store's iterator entries and nothing else)
		return nil, "", errVerifK11
	}
	// everything on the page was committed before it is read
	vt.Assume(!d.newest.After(time.Now()))
	if d.err != nil {
		return nil, "", d.err
	}
	return d.changes, "", nil
}

// verifK11Page builds the most recent changelog page: n changes with descending timestamps, the write (tuple
// wk, timestamp tw) at position w, or (w == n, "overflow") older than the whole page. Timestamps of the other
// changes are symbolic offsets from tw (grid mode: whole units); their tuples come from a small vocabulary.
func verifK11Page(clk *verifK11Clock, n, w int, tw time.Time, wk *openfgav1.TupleKey) ([]*openfgav1.TupleChange, time.Time) {
	objs := []string{"d:1", "d:7", "e:1"}
	rels := []string{"r", "q"}
	users := []string{"u:1", "u:9", "u:*"}
	out := make([]*openfgav1.TupleChange, n)
	ts := make([]time.Time, n)
	for i := 0; i < n; i++ {
		id := strconv.Itoa(i)
		if i == w {
			ts[i] = tw
			out[i] = &openfgav1.TupleChange{TupleKey: wk, Operation: openfgav1.TupleOperation_TUPLE_OPERATION_WRITE, Timestamp: timestamppb.New(tw)}
			continue
		}
		var off time.Duration
		if clk.grid {
			off = time.Duration(vt.IntRange("change-offset"+id, 0, 3*clk.max)) * clk.unit
		} else {
			off = time.Duration(vt.IntRange("change-offset"+id, 0, 1<<41))
		}
		if i < w {
			ts[i] = tw.Add(off) // newer than (or simultaneous with) the write
		} else {
			ts[i] = tw.Add(-off) // older
			vt.Assume(ts[i].After(time.Time{}))
		}
		op := openfgav1.TupleOperation_TUPLE_OPERATION_WRITE
		if vt.Bool("change-is-delete" + id) {
			op = openfgav1.TupleOperation_TUPLE_OPERATION_DELETE
		}
		// the other change concerns the same tuple as the write (e.g. its earlier delete) or, by default, an
		// unrelated one; vocab=1 draws object, relation and user from small vocabularies instead
		otk := &openfgav1.TupleKey{Object: "e:1", Relation: "q", User: "u:9"}
		if vt.ParamInt("vocab", 0) == 1 {
			otk = &openfgav1.TupleKey{Object: objs[vt.Choose("change-object"+id, 3)], Relation: rels[vt.Choose("change-relation"+id, 2)], User: users[vt.Choose("change-user"+id, 3)]}
		} else if vt.ParamInt("vocab", 0) == 2 {
			// neighbours of the write: the same object and relation for ANOTHER user, or the same user on another
			// object of the type (several changes of one run then share an invalidation marker key)
			nb := vt.ParamInt("nb"+id, -1) // pinned per position by the larger pages
			if nb < 0 {
				nb = vt.Choose("change-neighbour"+id, 3)
			}
			switch nb {
			case 1:
				otk = &openfgav1.TupleKey{Object: wk.GetObject(), Relation: wk.GetRelation(), User: "u:9"}
			case 2:
				otk = &openfgav1.TupleKey{Object: "d:8", Relation: "q", User: wk.GetUser()}
			}
		} else if vt.Choose("change-same-tuple"+id, 2) == 1 {
			otk = &openfgav1.TupleKey{Object: wk.GetObject(), Relation: wk.GetRelation(), User: wk.GetUser()}
		}
		out[i] = &openfgav1.TupleChange{Operation: op, Timestamp: timestamppb.New(ts[i]), TupleKey: otk}
	}
	for i := 1; i < n; i++ {
		vt.Assume(!ts[i].After(ts[i-1])) // descending
	}
	newest := tw
	if n > 0 {
		newest = ts[0]
	}
	return out, newest
}

// verifK11PrevChangelog optionally leaves the ChangelogCacheEntry of an earlier invalidation run in the cache:
// it saw a change at tp and was stored (now) with the query TTL. tp precedes the write (checked later).
func verifK11PrevChangelog(clk *verifK11Clock, cache *verifK11Cache, store string, qttl time.Duration) (bool, time.Time) {
	if vt.ParamInt("prevcl", 1) == 0 || !vt.ForkBool("previous-changelog-entry") {
		return false, time.Time{}
	}
	now := clk.step("gap-prev", 0)
	var back time.Duration
	if clk.grid {
		back = time.Duration(vt.IntRange("prev-age", 0, clk.max)) * clk.unit
	} else {
		back = time.Duration(vt.IntRange("prev-age", 0, 1<<41))
	}
	tp := now.Add(-back)
	vt.Assume(tp.After(time.Time{}))
	cache.Set(storage.ChangelogCacheKey(store), &storage.ChangelogCacheEntry{LastModified: tp, LastChecked: now}, qttl)
	clk.still()
	return true, tp
}

// verifK11PrevMarker (prevmark=1) optionally leaves the invalidation marker of an EARLIER partial run in the cache:
// that run saw a change of `user` on an object of type `objectType` (api 2) or of object#relation (api 0/1) and
// stamped the marker with its own time; the change itself has since left the most recent changelog page, so later
// runs do not refresh the marker, which lives for the iterator TTL from that run. The marker precedes the fill, so the
// entry of the scenario is valid with respect to it; the scenario's own write concerns ANOTHER key of the same query.
func verifK11PrevMarker(clk *verifK11Clock, cache *verifK11Cache, store string, api int, ittl time.Duration) {
	if vt.ParamInt("prevmark", 0) != 1 || !vt.ForkBool("previous-run-marker") {
		return
	}
	now := clk.step("gap-prevmark", 0)
	if api == 2 {
		cache.Set(storage.InvalidIteratorByUserObjectTypeCacheKey(store, "u:1", "d"), &storage.InvalidEntityCacheEntry{LastModified: now}, ittl)
	} else {
		cache.Set(storage.InvalidIteratorByObjectRelationCacheKey(store, "d:1", "r"), &storage.InvalidEntityCacheEntry{LastModified: now}, ittl)
	}
	clk.still()
}

type verifK11Delegate struct {
	allowed bool
	calls   int
}

func (d *verifK11Delegate) ResolveCheck(ctx context.Context, req *graph.ResolveCheckRequest) (*graph.ResolveCheckResponse, error) {
	d.calls++
	return &graph.ResolveCheckResponse{Allowed: d.allowed}, nil
}
func (d *verifK11Delegate) Close()                           {}
func (d *verifK11Delegate) SetDelegate(graph.CheckResolver)  {}
func (d *verifK11Delegate) GetDelegate() graph.CheckResolver { return nil }

func verifK11Stubs() {
	if vt.Symbolic() {
		// metrics only: float64(time.Since(start).Milliseconds()) goes to a histogram (a no-op here)
		vt.Stub("(time.Duration).Milliseconds", func(d time.Duration) int64 { return 0 })
	}
}

// K11 (query cache). Timeline: [optional older ChangelogCacheEntry] → a Check misses and the real
// CachedCheckResolver stores the answer (entry E, LastModified t0, Set at s, TTL = JitteredTTL(queryTTL, jitter))
// → a write commits with changelog timestamp tw > s and flips the true answer → an invalidation run (real
// InvalidateIfNeeded → goroutine → findChangesAndInvalidateIfNecessary, ReadChanges = the most recent page
// containing the write) starts after the write and completes → a Check arrives: real DetermineInvalidationTime,
// real NewResolveCheckRequest, real CachedCheckResolver.ResolveCheck against the same cache.
// Claim: the request is answered by the delegate (post-write answer); E is not served.
func VerifK11QueryCache() {
	trials := 1
	if !vt.Symbolic() {
		trials = vt.ParamInt("trials", 12) // the jitter is really random natively
	}
	for i := 0; i < trials; i++ {
		if verifK11Run(verifK11QueryScenario) {
			return
		}
	}
}

// verifK11Run executes a scenario with every symbolic branch decided per path (vt.ForkAll; job option
// merge=1 switches back to merging): the controller and DetermineInvalidationTime start goroutines and use a
// sync.Map behind branches on symbolic instants, and a sync operation under an undecided (merged) guard ends the
// path silently in the engine (ENGINE_ISSUES.md, cache group), which would silently drop exactly the timelines
// in which a request triggers a refresh.
func verifK11Run(scenario func() bool) (stale bool) {
	if vt.ParamInt("merge", 0) == 1 {
		return scenario()
	}
	vt.ForkAll(func() { stale = scenario() })
	return stale
}

func verifK11QueryScenario() (stale bool) {
	verifK11Stubs()
	const store = "S1"
	clk := newVerifK11Clock()
	jitter := uint32(vt.ParamInt("jitter", 0))
	qttl := clk.ttl("query-ttl", "qttl", 20)
	ittl := clk.ttl("iterator-ttl", "ittl", 20)
	ctlTTL := verifK11ControllerTTL()
	cache := &verifK11Cache{}
	ds := &verifK11Datastore{}
	cc := cachecontroller.NewCacheController(ds, cache, ctlTTL, qttl, ittl)
	del := &verifK11Delegate{allowed: vt.Bool("answer-before-write")}
	res, cerr := graph.NewCachedCheckResolver(graph.WithExistingCache(cache), graph.WithCacheTTL(qttl), graph.WithJitterPercentage(jitter))
	vt.Assert(cerr == nil && res != nil, "constructor failed")
	res.SetDelegate(del)
	defer res.Close()
	ctx := context.Background()
	tk := &openfgav1.TupleKey{Object: "d:1", Relation: "r", User: "u:1"}
	mkReq := func(inval time.Time) *graph.ResolveCheckRequest {
		r, err := graph.NewResolveCheckRequest(graph.ResolveCheckRequestParams{StoreID: store, AuthorizationModelID: "M1", TupleKey: tk,
			LastCacheInvalidationTime: inval, Consistency: openfgav1.ConsistencyPreference_MINIMIZE_LATENCY})
		vt.Assert(err == nil && r != nil, "request constructor failed")
		return r
	}
	key := storage.CheckCacheKey(store, tk.GetObject(), tk.GetRelation(), tk.GetUser(), mkReq(time.Time{}).GetInvariantCacheKey())

	hasPrev, tp := verifK11PrevChangelog(clk, cache, store, qttl)

	// fill: a cache miss stores the pre-write answer
	clk.step("gap-fill", 0)
	r0, err0 := res.ResolveCheck(ctx, mkReq(time.Time{}))
	clk.still()
	vt.Assert(err0 == nil && r0.GetAllowed() == del.allowed && del.calls == 1, "fill: miss not answered by the delegate")
	ev, s := cache.raw(key)
	entry, ok := ev.(*graph.CheckResponseCacheEntry)
	vt.Assert(ok && entry != nil, "fill: answer not stored under the request's key")
	if !ok || entry == nil {
		return false
	}
	t0 := entry.LastModified
	vt.Reach("filled")

	// the write: committed after the entry was populated; the truth flips
	tw := clk.step("gap-write", 1)
	vt.Assume(tw.After(s) && !s.Before(t0))
	if hasPrev {
		if vt.ParamInt("tie", 0) == 1 {
			vt.Assume(!tp.After(tw))
		} else {
			vt.Assume(tp.Before(tw))
		}
	}
	del.allowed = !del.allowed
	n := vt.ParamInt("page", 1) // exact page size (one job per size)
	w := vt.ParamInt("w", -1)   // position of the write on the page (enumerated unless given)
	if w < 0 {
		w = vt.Choose("write-position", n)
	}
	ds.changes, ds.newest = verifK11Page(clk, n, w, tw, tk)
	if vt.ParamInt("fail", 0) == 1 && vt.ForkBool("readchanges-fails") {
		ds.err = errVerifK11
	}
	vt.Reach("written")

	// an invalidation run that starts after the write has completed, and completes
	clk.step("gap-run", 0)
	setsBefore := cache.sets
	cc.InvalidateIfNeeded(ctx, store)
	cachecontroller.VerifK11Wait(cc)
	clk.still()
	vt.Assert(ds.calls == 1, "invalidation run did not read the changelog exactly once")
	cur, _ := cache.raw(key)
	vt.Assert(cur == any(entry) || cur == nil, "the invalidation run fabricated a query cache entry")
	if cache.sets == setsBefore {
		// the run's own 1 s deadline expired before the changelog page arrived (the abstract clock may jump): it
		// gives up without touching anything ("a new attempt will be done") - not a completed invalidation
		vt.Reach("invalidation-run-timed-out")
		return false
	}
	vt.Reach("invalidation-run-complete")

	// a later Check
	g := clk.step("gap-request", 0)
	verifK11EarlyWindow(clk, jitter, g, s, qttl)
	inval := cc.DetermineInvalidationTime(ctx, store)
	r1, err1 := res.ResolveCheck(ctx, mkReq(inval))
	clk.still()
	cachecontroller.VerifK11Wait(cc) // a refresh triggered by the request itself finishes
	vt.Reach("request-after-invalidation")
	vt.Assert(err1 == nil && r1 != nil, "check failed")
	fresh := del.calls == 2 && r1.GetAllowed() == del.allowed
	vt.Assert(fresh, "a query cache entry populated before the write was served after an invalidation run that started after the write had completed")
	return !fresh
}

// K11 (iterator caches; impl 0 CachedDatastore, 1 CachedTupleReader). Timeline: [optional older
// ChangelogCacheEntry] → a query (api 0 Read, 1 ReadUsersetTuples, 2 ReadStartingWithUser) misses, is consumed and
// stopped, the real background flush stores entry E (LastModified t0 = query start, Set at s ≥ t0 with the
// iterator TTL, jittered for impl 0) → a tuple the query must return is written at tw > s → an invalidation run
// starts after the write and completes (most recent page: ≤ 3 changes, the write among them, or — overflow —
// older than all of them) → the same query arrives again.
// Claim: it is answered by the datastore; E is not served. On a ReadChanges failure the run condemns every
// iterator entry of the store.
func VerifK11IteratorCache() {
	trials := 1
	if !vt.Symbolic() {
		trials = vt.ParamInt("trials", 12)
	}
	for i := 0; i < trials; i++ {
		if verifK11Run(verifK11IteratorScenario) {
			return
		}
	}
}

func verifK11IteratorScenario() (stale bool) {
	verifK11Stubs()
	const store = "s"
	clk := newVerifK11Clock()
	jitter := uint32(vt.ParamInt("jitter", 0))
	impl := vt.ParamInt("impl", -1)
	if impl < 0 {
		impl = vt.Choose("impl", 2)
	}
	api := vt.ParamInt("api", -1)
	if api < 0 {
		api = vt.Choose("api", 3)
	}
	qttl := clk.ttl("query-ttl", "qttl", 20)
	ittl := clk.ttl("iterator-ttl", "ittl", 20) // the controller's iterator TTL (checkIteratorCache.ttl)
	ettl := ittl                               // the TTL the entries are stored with
	if vt.ParamInt("ownttl", 0) == 1 {
		// the ListObjects iterator cache has its own TTL setting (listObjectsIteratorCache.ttl)
		ettl = clk.ttl("entry-ttl", "ettl", 30)
	}
	ctlTTL := verifK11ControllerTTL()
	cache := &verifK11Cache{}
	cds := &verifK11Datastore{}
	cc := cachecontroller.NewCacheController(cds, cache, ctlTTL, qttl, ittl)
	// the result before the write: one tuple (the second iterator cache does not store empty results)
	existing := &openfgav1.TupleKey{Object: "d:1", Relation: "r", User: "u:5"}
	if api == 2 {
		existing = &openfgav1.TupleKey{Object: "d:3", Relation: "r", User: "u:1"}
	}
	old := &verifK11Iter{items: []*openfgav1.Tuple{{Key: existing}}, errAt: -1}
	rd := &verifK11Reader{it: old}
	wg := &sync.WaitGroup{}
	var ds storage.RelationshipTupleReader
	if impl == 0 {
		ds = storagewrappers.NewCachedDatastore(context.Background(), rd, cache, 10, ettl, &singleflight.Group{}, wg, storagewrappers.WithCachedDatastoreJitterPercentage(jitter))
	} else {
		ds = storagewrappers.NewCachedTupleReader(context.Background(), rd, cache, 10, ettl, &singleflight.Group{}, wg, time.Minute)
	}
	ctx := context.Background()
	var key keys.Key
	switch api {
	case 0:
		key = storage.ReadKey(store, storage.ReadFilter{Object: "d:1", Relation: "r"})
	case 1:
		key = storage.ReadUsersetTuplesKey(store, storage.ReadUsersetTuplesFilter{Object: "d:1", Relation: "r"})
	default:
		key = storage.ReadStartingWithUserKey(store, storage.ReadStartingWithUserFilter{ObjectType: "d", Relation: "r",
			UserFilter: []*openfgav1.ObjectRelation{{Object: "u:1"}, {Object: "u:*"}}})
	}

	hasPrev, tp := verifK11PrevChangelog(clk, cache, store, qttl)
	verifK11PrevMarker(clk, cache, store, api, ittl)

	// fill: the query misses, the (empty) result is consumed, stopped and flushed by the real background path
	clk.step("gap-fill", 0)
	it0, err0 := verifK11Query(ctx, ds, api, openfgav1.ConsistencyPreference_MINIMIZE_LATENCY)
	vt.Assert(err0 == nil && it0 != nil && rd.reads == 1, "fill: miss did not reach the datastore")
	if it0 == nil {
		return false
	}
	f0, ferr := it0.Next(ctx)
	_, nerr := it0.Next(ctx)
	vt.Assert(ferr == nil && f0.GetKey().GetUser() == existing.GetUser() && nerr != nil, "fill: the query does not yield the datastore's single tuple")
	it0.Stop()
	wg.Wait()
	clk.still()
	ev, s := cache.raw(key)
	if ev == nil {
		// the background drain's own deadline (30 s / 1 min) was already over when it started (the abstract clock may
		// jump): nothing was stored, nothing to check on this timeline
		vt.Reach("fill-not-stored")
		return false
	}
	vt.Reach("filled")
	var t0 time.Time
	switch e := ev.(type) {
	case *storage.TupleIteratorCacheEntry:
		t0 = e.LastModified
	case *storagewrappers.V2IteratorCacheEntry:
		t0 = e.LastModified
	default:
		vt.Assert(false, "fill: unexpected value stored")
		return false
	}

	// the write: a tuple the query returns from now on
	tw := clk.step("gap-write", 1)
	vt.Assume(tw.After(s) && !s.Before(t0))
	if hasPrev {
		if vt.ParamInt("tie", 0) == 1 {
			vt.Assume(!tp.After(tw))
		} else {
			vt.Assume(tp.Before(tw))
		}
	}
	wk := &openfgav1.TupleKey{Object: "d:1", Relation: "r", User: "u:1"}
	if api == 2 {
		wk.Object = "d:2"
		wild := vt.ParamInt("wild", -1)
		if wild < 0 {
			wild = vt.Choose("write-is-wildcard", 2)
		}
		if wild == 1 {
			wk.User = "u:*"
		}
	}
	rd.it = &verifK11Iter{items: []*openfgav1.Tuple{{Key: existing}, {Key: wk}}, errAt: -1}
	n := vt.ParamInt("page", 1) // exact page size (one job per size)
	maxW := n
	if vt.ParamInt("overflow", 1) == 1 {
		maxW = n + 1 // w == n: the write is older than everything on the page
	}
	w := vt.ParamInt("w", -1) // position of the write on the page (enumerated unless given)
	if w < 0 {
		w = vt.Choose("write-position", maxW)
	}
	cds.changes, cds.newest = verifK11Page(clk, n, w, tw, wk)
	if w == n {
		lastTS := cds.changes[n-1].GetTimestamp().AsTime()
		vt.Assume(!tw.After(lastTS))
	}
	if vt.ParamInt("fail", 0) == 1 && vt.ForkBool("readchanges-fails") {
		cds.err = errVerifK11
	}

	// an invalidation run that starts after the write has completed, and completes
	clk.step("gap-run", 0)
	setsBefore := cache.sets
	cc.InvalidateIfNeeded(ctx, store)
	cachecontroller.VerifK11Wait(cc)
	clk.still()
	vt.Assert(cds.calls == 1, "invalidation run did not read the changelog exactly once")
	cur, _ := cache.raw(key)
	vt.Assert(cur == ev || cur == nil, "the invalidation run fabricated an iterator cache entry")
	if cache.sets == setsBefore {
		// the run's own 1 s deadline expired first: it gives up without touching anything - not a completed run
		vt.Reach("invalidation-run-timed-out")
		return false
	}
	vt.Reach("invalidation-run-complete")

	// the same query again; its cache look-ups (entry, then markers) are taken to happen at one instant
	g := clk.step("gap-request", 0)
	verifK11EarlyWindow(clk, jitter, g, s, ettl)
	it1, err1 := verifK11Query(ctx, ds, api, openfgav1.ConsistencyPreference_MINIMIZE_LATENCY)
	if vt.Symbolic() && vt.ParamInt("atomic", 1) == 1 {
		vt.Assume(time.Now().Equal(g))
		clk.last = g
	}
	vt.Reach("request-after-invalidation")
	vt.Assert(err1 == nil && it1 != nil, "query failed")
	if it1 == nil {
		return false
	}
	_, e1 := it1.Next(ctx)
	t, terr := it1.Next(ctx)
	fresh := rd.reads == 2 && e1 == nil && terr == nil && t.GetKey().GetUser() == wk.GetUser() && t.GetKey().GetObject() == wk.GetObject()
	vt.Assert(fresh, "an iterator cache entry populated before the write was served after an invalidation run that started after the write had completed")
	it1.Stop()
	wg.Wait()
	return !fresh
}

// JitteredTTL contract used by the argument above: the result lies in [base, base + base*min(pct,100)/100], and
// is exactly base when pct == 0.
func VerifK11JitteredTTL() {
	// base TTLs are enumerated (the function divides the base by 100: symbolic 64-bit division defeats the solver),
	// the percentage and the random draw stay symbolic
	bases := []time.Duration{1, 7, 99, 100, 101, 1999, 20500 * time.Microsecond, 10 * time.Second, time.Hour, 1 << 40}
	base := bases[vt.Choose("base", len(bases))]
	pct := uint32(vt.IntRange("pct", 0, 150))
	got := storage.JitteredTTL(base, pct)
	eff := int64(pct)
	if eff > 100 {
		eff = 100
	}
	vt.Reach("called")
	vt.Assert(got >= base, "jittered TTL below the base TTL")
	vt.Assert(int64(got-base)*100 <= int64(base)*eff, "jitter above the configured percentage of the base TTL")
	if pct == 0 {
		vt.Assert(got == base, "TTL changed although jitter is 0")
	}
}

// ---- datastore-side fakes of the iterator scenario ----

var errVerifK11 = errors.New("verif: injected changelog error")

// verifK11Iter yields its items in order, then ErrIteratorDone (also after Stop).
type verifK11Iter struct {
	items []*openfgav1.Tuple
	pos   int
	errAt int
	stops int
}

func (s *verifK11Iter) Head(ctx context.Context) (*openfgav1.Tuple, error) {
	if err := ctx.Err(); err != nil {
		return nil, err
	}
	if s.stops > 0 || s.pos >= len(s.items) {
		return nil, storage.ErrIteratorDone
	}
	return s.items[s.pos], nil
}

func (s *verifK11Iter) Next(ctx context.Context) (*openfgav1.Tuple, error) {
	t, err := s.Head(ctx)
	if err == nil {
		s.pos++
	}
	return t, err
}

func (s *verifK11Iter) Stop()           { s.stops++ }
func (s *verifK11Iter) IsOrdered() bool { return true }

// verifK11Reader is the datastore below the iterator cache: it serves the current result and counts queries.
type verifK11Reader struct {
	storage.RelationshipTupleReader
	it    storage.TupleIterator
	reads int
}

func (r *verifK11Reader) Read(ctx context.Context, store string, f storage.ReadFilter, o storage.ReadOptions) (storage.TupleIterator, error) {
	r.reads++
	return r.it, nil
}

func (r *verifK11Reader) ReadUsersetTuples(ctx context.Context, store string, f storage.ReadUsersetTuplesFilter, o storage.ReadUsersetTuplesOptions) (storage.TupleIterator, error) {
	r.reads++
	return r.it, nil
}

func (r *verifK11Reader) ReadStartingWithUser(ctx context.Context, store string, f storage.ReadStartingWithUserFilter, o storage.ReadStartingWithUserOptions) (storage.TupleIterator, error) {
	r.reads++
	return r.it, nil
}

func verifK11Query(ctx context.Context, ds storage.RelationshipTupleReader, api int, pref openfgav1.ConsistencyPreference) (storage.TupleIterator, error) {
	co := storage.ConsistencyOptions{Preference: pref}
	switch api {
	case 0:
		return ds.Read(ctx, "s", storage.ReadFilter{Object: "d:1", Relation: "r"}, storage.ReadOptions{Consistency: co})
	case 1:
		return ds.ReadUsersetTuples(ctx, "s", storage.ReadUsersetTuplesFilter{Object: "d:1", Relation: "r"}, storage.ReadUsersetTuplesOptions{Consistency: co})
	default:
		return ds.ReadStartingWithUser(ctx, "s", storage.ReadStartingWithUserFilter{ObjectType: "d", Relation: "r",
			UserFilter: []*openfgav1.ObjectRelation{{Object: "u:1"}, {Object: "u:*"}}}, storage.ReadStartingWithUserOptions{Consistency: co})
	}
}
