package commands

import (
	"context"
	"errors"
	"sync"
	"time"

	"github.com/prometheus/client_golang/prometheus"
	"golang.org/x/sync/singleflight"

	openfgav1 "github.com/openfga/api/proto/openfga/v1"

	"github.com/openfga/openfga/internal/graph"
	"github.com/openfga/openfga/internal/shared"
	"github.com/openfga/openfga/internal/vt"
	"github.com/openfga/openfga/internal/vtmodels"
	"github.com/openfga/openfga/pkg/server/config"
	"github.com/openfga/openfga/pkg/storage"
	"github.com/openfga/openfga/pkg/storage/cache/keys"
	"github.com/openfga/openfga/pkg/storage/storagewrappers"
	"github.com/openfga/openfga/pkg/storage/storagewrappers/sharediterator"
	"github.com/openfga/openfga/pkg/typesystem"
)

// ---- K10: CheckQuery.Execute (invalidation-time lookup and the request's storage wrapper) ---------------

// verifK10Controller records every call; its invalidation time is an arbitrary (late) instant.
type verifK10Controller struct {
	determines  int
	invalidates int
	t           time.Time
}

func (c *verifK10Controller) DetermineInvalidationTime(ctx context.Context, store string) time.Time {
	c.determines++
	return c.t
}
func (c *verifK10Controller) InvalidateIfNeeded(ctx context.Context, store string) { c.invalidates++ }

// verifK10AdvCache: every Get answers with a valid looking stale iterator entry, every call is recorded.
type verifK10AdvCache struct {
	entry   any
	gets    int
	sets    int
	deletes int
}

func (c *verifK10AdvCache) Get(k keys.Key) any                       { c.gets++; return c.entry }
func (c *verifK10AdvCache) Set(k keys.Key, v any, ttl time.Duration) { c.sets++ }
func (c *verifK10AdvCache) Delete(k keys.Key)                        { c.deletes++ }
func (c *verifK10AdvCache) Stop()                                    {}

// verifK10Iter: a one-tuple datastore iterator.
type verifK10Iter struct {
	t     *openfgav1.Tuple
	pos   int
	stops int
}

func (s *verifK10Iter) Head(ctx context.Context) (*openfgav1.Tuple, error) {
	if s.stops > 0 || s.pos > 0 {
		return nil, storage.ErrIteratorDone
	}
	return s.t, nil
}
func (s *verifK10Iter) Next(ctx context.Context) (*openfgav1.Tuple, error) {
	t, err := s.Head(ctx)
	if err == nil {
		s.pos++
	}
	return t, err
}
func (s *verifK10Iter) Stop()           { s.stops++ }
func (s *verifK10Iter) IsOrdered() bool { return true }

// verifK10Datastore is the real datastore's stand-in: it yields the current tuple and records the preference.
type verifK10Datastore struct {
	storage.RelationshipTupleReader
	user  string
	reads int
	pref  openfgav1.ConsistencyPreference
}

func (d *verifK10Datastore) it(p openfgav1.ConsistencyPreference) (storage.TupleIterator, error) {
	d.reads++
	d.pref = p
	return &verifK10Iter{t: &openfgav1.Tuple{Key: &openfgav1.TupleKey{Object: "document:1", Relation: "viewer", User: d.user}}}, nil
}
func (d *verifK10Datastore) Read(ctx context.Context, store string, f storage.ReadFilter, o storage.ReadOptions) (storage.TupleIterator, error) {
	return d.it(o.Consistency.Preference)
}
func (d *verifK10Datastore) ReadUsersetTuples(ctx context.Context, store string, f storage.ReadUsersetTuplesFilter, o storage.ReadUsersetTuplesOptions) (storage.TupleIterator, error) {
	return d.it(o.Consistency.Preference)
}
func (d *verifK10Datastore) ReadStartingWithUser(ctx context.Context, store string, f storage.ReadStartingWithUserFilter, o storage.ReadStartingWithUserOptions) (storage.TupleIterator, error) {
	return d.it(o.Consistency.Preference)
}

var errVerifK10 = errors.New("verif: resolver failed")

// verifK10Resolver is the check resolver seam: it records the request it is handed and performs one datastore
// query of the given kind through the reader Execute put into the context, with the request's consistency
// preference (what every real resolver does), returning the user it read.
type verifK10Resolver struct {
	api   int
	calls int
	req   *graph.ResolveCheckRequest
	user  string
	rerr  error
}

func (r *verifK10Resolver) ResolveCheck(ctx context.Context, req *graph.ResolveCheckRequest) (*graph.ResolveCheckResponse, error) {
	r.calls++
	r.req = req
	ds, ok := storage.RelationshipTupleReaderFromContext(ctx)
	vt.Assert(ok && ds != nil, "no tuple reader in the context handed to the resolver")
	if !ok || ds == nil {
		return nil, errVerifK10
	}
	co := storage.ConsistencyOptions{Preference: req.GetConsistency()}
	var it storage.TupleIterator
	switch r.api {
	case 0:
		it, r.rerr = ds.Read(ctx, req.GetStoreID(), storage.ReadFilter{Object: "document:1", Relation: "viewer"}, storage.ReadOptions{Consistency: co})
	case 1:
		it, r.rerr = ds.ReadUsersetTuples(ctx, req.GetStoreID(), storage.ReadUsersetTuplesFilter{Object: "document:1", Relation: "viewer"}, storage.ReadUsersetTuplesOptions{Consistency: co})
	default:
		it, r.rerr = ds.ReadStartingWithUser(ctx, req.GetStoreID(), storage.ReadStartingWithUserFilter{ObjectType: "document", Relation: "viewer",
			UserFilter: []*openfgav1.ObjectRelation{{Object: "user:a"}}}, storage.ReadStartingWithUserOptions{Consistency: co})
	}
	if r.rerr != nil || it == nil {
		return nil, errVerifK10
	}
	t, err := it.Next(ctx)
	it.Stop()
	if err != nil {
		r.rerr = err
		return nil, errVerifK10
	}
	r.user = t.GetKey().GetUser()
	return &graph.ResolveCheckResponse{Allowed: true}, nil
}
func (r *verifK10Resolver) Close()                             {}
func (r *verifK10Resolver) SetDelegate(graph.CheckResolver)    {}
func (r *verifK10Resolver) GetDelegate() graph.CheckResolver   { return nil }

// For every combination of the cache flags (query cache, iterator cache, shared iterators; the controller is a
// recording fake, i.e. "enabled") and every consistency preference, the real CheckQuery.Execute runs with an
// adversarial shared cache. HIGHER_CONSISTENCY: the cache controller is not asked for an invalidation time, the
// request handed to the resolver carries the zero invalidation time and the HIGHER_CONSISTENCY preference, and a
// datastore query issued by the resolver through the request's storage wrapper reaches the datastore with that
// preference and yields the datastore's current tuple without a single cache Get.
// Other preferences: the controller is asked exactly once and its instant is what the request carries.
func VerifK10Execute() {
	vt.Assert(errVerifK10 != nil, "init")
	if vt.Symbolic() {
		// metrics only: float64(duration) is handed to histograms (no-ops); the engine has no symbolic floats
		vt.Stub("(*github.com/openfga/openfga/pkg/storage/storagewrappers.BoundedTupleReader).instrument",
			func(b *storagewrappers.BoundedTupleReader, ctx context.Context, op string, d time.Duration, vec *prometheus.HistogramVec) {})
		vt.Stub("(time.Duration).Milliseconds", func(d time.Duration) int64 { return 0 })
	}
	m := vtmodels.Model("direct")
	ts, err := typesystem.New(m)
	vt.Assert(err == nil && ts != nil, "typesystem.New failed on a validated model")
	flags := vt.Choose("flags", 8)
	queryCache, iterCache, sharedIter := flags&1 != 0, flags&2 != 0, flags&4 != 0
	api := vt.Choose("api", 3)
	prefs := []openfgav1.ConsistencyPreference{openfgav1.ConsistencyPreference_UNSPECIFIED,
		openfgav1.ConsistencyPreference_MINIMIZE_LATENCY, openfgav1.ConsistencyPreference_HIGHER_CONSISTENCY}
	pref := prefs[vt.Choose("consistency", 3)]

	freshUser := "user:" + vt.ASCII("fresh-user", 2)
	staleID := vt.ASCII("stale-user", 2)
	vt.Assume(len(staleID) > 0 && "user:"+staleID != freshUser)
	cache := &verifK10AdvCache{entry: &storage.TupleIteratorCacheEntry{LastModified: time.Time{}.Add(time.Hour),
		Tuples: []*storage.TupleRecord{{ObjectType: "document", ObjectID: "1", Relation: "viewer", UserObjectType: "user", UserObjectID: staleID}}}}
	ctl := &verifK10Controller{t: time.Time{}.Add(time.Duration(vt.IntRange("invalidation-time", 1, 1000)))}
	ds := &verifK10Datastore{user: freshUser}
	res := &verifK10Resolver{api: api}

	settings := config.NewDefaultCacheSettings()
	settings.CheckCacheLimit = 100
	settings.CacheControllerEnabled = true
	settings.CheckQueryCacheEnabled = queryCache
	settings.CheckIteratorCacheEnabled = iterCache
	settings.CheckIteratorCacheMaxResults = 10
	settings.CheckIteratorCacheTTL = time.Hour
	settings.SharedIteratorEnabled = sharedIter
	resources := &shared.SharedDatastoreResources{
		SingleflightGroup:     &singleflight.Group{},
		WaitGroup:             &sync.WaitGroup{},
		ServerCtx:             context.Background(),
		CheckCache:            cache,
		CacheController:       ctl,
		SharedIteratorStorage: sharediterator.NewSharedIteratorDatastoreStorage(),
	}
	q := NewCheckCommand(ds, res, ts, WithCheckCommandCache(resources, settings), WithCheckCommandMaxConcurrentReads(4))
	out, xerr := q.Execute(context.Background(), &CheckCommandParams{
		StoreID:     "01HVMMBCMGZNT3SED4Z17ECXCB",
		TupleKey:    &openfgav1.CheckRequestTupleKey{Object: "document:1", Relation: "viewer", User: "user:a"},
		Consistency: pref,
	})
	resources.WaitGroup.Wait()
	vt.Assert(res.calls == 1 && res.req != nil, "resolver not called exactly once")
	if res.req == nil {
		return
	}
	vt.Assert(res.req.GetConsistency() == pref, "consistency preference not passed to the resolver")
	if pref == openfgav1.ConsistencyPreference_HIGHER_CONSISTENCY {
		vt.Reach("higher-consistency")
		vt.Assert(ctl.determines == 0, "cache controller asked for an invalidation time on a HIGHER_CONSISTENCY check")
		vt.Assert(res.req.GetLastCacheInvalidationTime().IsZero(), "HIGHER_CONSISTENCY request carries an invalidation time")
		vt.Assert(cache.gets == 0, "a cache Get happened on a HIGHER_CONSISTENCY check")
		vt.Assert(ds.reads == 1 && ds.pref == openfgav1.ConsistencyPreference_HIGHER_CONSISTENCY, "datastore not queried exactly once with the HIGHER_CONSISTENCY preference")
		vt.Assert(xerr == nil && out != nil && res.rerr == nil && res.user == freshUser, "the resolver's query did not yield the datastore's current tuple")
		vt.Assert(cache.sets == 0 && cache.deletes == 0, "cache written by a HIGHER_CONSISTENCY check")
		return
	}
	vt.Reach("cache-may-be-used")
	vt.Assert(ctl.determines == 1, "cache controller not asked exactly once")
	vt.Assert(res.req.GetLastCacheInvalidationTime().Equal(ctl.t), "the request does not carry the controller's invalidation time")
	vt.Assert(xerr == nil && res.rerr == nil, "check failed")
	if iterCache {
		vt.Reach("iterator-cache-used")
		vt.Assert(cache.gets > 0 && ds.reads == 0 && res.user == "user:"+staleID, "iterator cache enabled but not used")
	} else {
		vt.Reach("no-iterator-cache")
		vt.Assert(cache.gets == 0 && ds.reads == 1 && res.user == freshUser, "iterator cache disabled but the cache was consulted")
	}
}
