package commands

import (
	"context"

	"google.golang.org/protobuf/proto"
	"google.golang.org/protobuf/types/known/structpb"

	openfgav1 "github.com/openfga/api/proto/openfga/v1"

	"github.com/openfga/openfga/internal/vt"
	"github.com/openfga/openfga/internal/vtmodels"
	"github.com/openfga/openfga/pkg/storage/memory"
	"github.com/openfga/openfga/pkg/typesystem"
)

// ---- K31b: assertions go through the commands verbatim ---------------------------------------------------------
//
// The real WriteAssertionsCommand.Execute and ReadAssertionsQuery.Execute over the real memory datastore: a list of
// 0..n assertions drawn (solver-chosen, repeats allowed) from a vocabulary whose members differ in the tuple key,
// in the expectation, only in their contextual tuples, or only in their context. What is read back is the list
// that was written: same length, same order, every field of every element.

func verifK31bVocab() []*openfgav1.Assertion {
	tk := func(o string) *openfgav1.AssertionTupleKey {
		return &openfgav1.AssertionTupleKey{Object: "document:" + o, Relation: "viewer", User: "user:a"}
	}
	ct := func(u string) []*openfgav1.TupleKey {
		return []*openfgav1.TupleKey{{Object: "document:9", Relation: "viewer", User: "user:" + u}}
	}
	cx := func(v string) *structpb.Struct {
		return &structpb.Struct{Fields: map[string]*structpb.Value{"k": structpb.NewStringValue(v)}}
	}
	return []*openfgav1.Assertion{
		{TupleKey: tk("1"), Expectation: true},
		{TupleKey: tk("1"), Expectation: false},
		{TupleKey: tk("2"), Expectation: true},
		{TupleKey: tk("1"), Expectation: true, ContextualTuples: ct("b")},
		{TupleKey: tk("1"), Expectation: true, ContextualTuples: ct("c")},
		{TupleKey: tk("1"), Expectation: true, Context: cx("x")},
		{TupleKey: tk("1"), Expectation: true, Context: cx("y")},
	}
}

func VerifK31bAssertionCommands() {
	N := vt.ParamInt("n", 2)
	m := vtmodels.Model("direct")
	if vt.Symbolic() {
		ts, err := typesystem.New(m)
		vt.Assert(err == nil, "typesystem.New failed on a family model")
		vt.Stub("github.com/openfga/openfga/pkg/typesystem.New",
			func(x *openfgav1.AuthorizationModel) (*typesystem.TypeSystem, error) { return ts, err })
		// protobuf reflection is not interpretable; the lists here are far below the size limit
		vt.Stub("google.golang.org/protobuf/proto.Size", func(proto.Message) int { return 10 })
	}
	ctx := context.Background()
	ds := memory.New()
	vt.Assert(ds.WriteAuthorizationModel(ctx, "S", m) == nil, "set-up: model")
	voc := verifK31bVocab()
	// an earlier, different list for the same pair must be replaced
	if vt.ForkBool("earlier-list") {
		_, err := NewWriteAssertionsCommand(ds).Execute(ctx, &openfgav1.WriteAssertionsRequest{StoreId: "S", AuthorizationModelId: m.GetId(),
			Assertions: []*openfgav1.Assertion{voc[2], voc[1]}})
		vt.Assert(err == nil, "earlier WriteAssertions failed")
	}
	n := vt.Choose("n", N+1)
	idx := make([]int, n)
	var list []*openfgav1.Assertion
	for i := 0; i < n; i++ {
		idx[i] = vt.Choose("a"+string(rune('0'+i)), len(voc))
		list = append(list, verifK31bVocab()[idx[i]])
	}
	_, err := NewWriteAssertionsCommand(ds).Execute(ctx, &openfgav1.WriteAssertionsRequest{StoreId: "S", AuthorizationModelId: m.GetId(), Assertions: list})
	vt.Assert(err == nil, "WriteAssertions failed on valid assertions")
	if err != nil {
		return
	}
	resp, rerr := NewReadAssertionsQuery(ds).Execute(ctx, "S", m.GetId())
	vt.Reach("read-back")
	vt.Assert(rerr == nil && resp.GetAuthorizationModelId() == m.GetId(), "ReadAssertions failed")
	got := resp.GetAssertions()
	vt.Assert(len(got) == n, "ReadAssertions returns another number of assertions than were written")
	for i := 0; i < n && i < len(got); i++ {
		w, g := voc[idx[i]], got[i]
		same := g.GetTupleKey().GetObject() == w.GetTupleKey().GetObject() && g.GetTupleKey().GetRelation() == w.GetTupleKey().GetRelation() &&
			g.GetTupleKey().GetUser() == w.GetTupleKey().GetUser() && g.GetExpectation() == w.GetExpectation() &&
			len(g.GetContextualTuples()) == len(w.GetContextualTuples()) &&
			g.GetContext().GetFields()["k"].GetStringValue() == w.GetContext().GetFields()["k"].GetStringValue() &&
			len(g.GetContext().GetFields()) == len(w.GetContext().GetFields())
		if same && len(w.GetContextualTuples()) == 1 {
			same = g.GetContextualTuples()[0].GetUser() == w.GetContextualTuples()[0].GetUser()
		}
		vt.Assert(same, "an assertion read back differs from the one written at its position")
	}
}
