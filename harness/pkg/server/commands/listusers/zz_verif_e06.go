package listusers

import (
	"context"
	"sort"
	"time"

	openfgav1 "github.com/openfga/api/proto/openfga/v1"
	"google.golang.org/protobuf/types/known/structpb"

	"github.com/openfga/openfga/internal/vt"
	"github.com/openfga/openfga/internal/vtsem"
	"github.com/openfga/openfga/pkg/typesystem"
)

// ---- E06 (C06): ListUsers returns exactly the permitted users -------------------------------------------
//
// The real listUsersQuery (constructor with the request storage wrapper, possible-edges pruning, expand
// over direct / computed / tuple-to-userset / union / intersection / exclusion with its goroutines,
// channels and pools) runs on the symbolic store of vtsem. The reference is the Check semantics of vtsem
// (three-valued least fixpoint), evaluated once per subject of the requested filter:
//
//	filter T        -> subjects T:1 .. T:n (every object of the universe of type T) and the wildcard T:*
//	filter T#R      -> subjects T:1#R .. T:n#R
//
//	sound        every returned entry is a subject of the filter (type, relation, shape) and the reference
//	             permits it: Check(object#relation@entry) is true. For a typed wildcard that is Check with
//	             the wildcard as the user ("public access"), which does not promise every object of the type.
//	distinct     no entry is returned twice
//	complete     every concrete subject the reference permits is returned, or - objects only - the typed
//	             wildcard of its type is returned (the response has no excluded_users, so a wildcard stands
//	             for "ask Check"); a permitted wildcard is returned as a wildcard
//	errors       only if the store holds a tuple whose condition cannot be evaluated under the request context
//	             (ListUsers evaluates the condition of every tuple it reads, also of tuples whose user is of
//	             another type than the filter, so the finer policy of the Check harness - "only if the answer
//	             depends on that condition" - does not apply to it)
//
// The deadline is switched off (a deadline yields a partial answer by design). The response of this API
// version has no excluded_users field.

type verifE06Req struct {
	obj, rel string
	ftype    string
	frel     string
}

func verifE06SortedRelations(td *openfgav1.TypeDefinition) []string {
	var rs []string
	for r := range td.GetRelations() {
		rs = append(rs, r)
	}
	sort.Strings(rs)
	return rs
}

// verifE06Requests: every object#relation of the universe against every filter: each type, and (filters
// = "all") each type#relation of the model.
func verifE06Requests(u *vtsem.Universe, filters string) []verifE06Req {
	type flt struct{ t, r string }
	var fs []flt
	for _, td := range u.Model.GetTypeDefinitions() {
		fs = append(fs, flt{td.GetType(), ""})
	}
	if filters == "all" {
		for _, td := range u.Model.GetTypeDefinitions() {
			for _, r := range verifE06SortedRelations(td) {
				fs = append(fs, flt{td.GetType(), r})
			}
		}
	}
	var out []verifE06Req
	for _, td := range u.Model.GetTypeDefinitions() {
		for _, r := range verifE06SortedRelations(td) {
			for _, o := range u.Objects[td.GetType()] {
				for _, f := range fs {
					out = append(out, verifE06Req{o, r, f.t, f.r})
				}
			}
		}
	}
	return out
}

func verifE06UserString(x *openfgav1.User) string {
	switch v := x.GetUser().(type) {
	case *openfgav1.User_Object:
		return v.Object.GetType() + ":" + v.Object.GetId()
	case *openfgav1.User_Userset:
		return v.Userset.GetType() + ":" + v.Userset.GetId() + "#" + v.Userset.GetRelation()
	case *openfgav1.User_Wildcard:
		return v.Wildcard.GetType() + ":*"
	}
	return ""
}

func verifE06Index(xs []string, s string) int {
	for i, x := range xs {
		if x == s {
			return i
		}
	}
	return -1
}

func verifE06Split(obj string) (string, string) {
	for i := 0; i < len(obj); i++ {
		if obj[i] == ':' {
			return obj[:i], obj[i+1:]
		}
	}
	return obj, ""
}

// VerifE06ListUsers: for one model, every (object, relation, filter) over the universe (forked index or
// "req" parameter) and EVERY store content over the candidate universe, the answer of ListUsers is sound,
// duplicate free and complete with respect to the reference semantics of Check.
func VerifE06ListUsers() {
	m := verifE06Model(vt.Param("model", "direct"))
	ts, err := typesystem.New(m)
	vt.Assert(err == nil && ts != nil, "typesystem.New failed on a validated model")
	if !vt.Symbolic() {
		// native replay: the model (the hand-written lu_* ones in particular) passes the real model validation
		_, verr := typesystem.NewAndValidate(context.Background(), m)
		vt.Assert(verr == nil, "harness: the model is rejected by the model validation")
	}
	vtsem.StarSecondID = vt.ParamInt("starid", 0) == 1
	vtsem.LowFirstID = vt.ParamInt("lowid", 0) == 1
	u := vtsem.NewUniverse(m, vt.ParamInt("nobj", 2), vt.ParamInt("invalid", 1) == 1)
	u.Restrict(vt.ParamInt("maxcands", 12), vt.ParamInt("seed", 0))
	st := vtsem.NewSymbolicStore(u)
	reqs := verifE06Requests(u, vt.Param("filters", "all"))
	if parts := vt.ParamInt("parts", 1); parts > 1 {
		// split the request family over several jobs: this job takes the requests k with k % parts == part
		var mine []verifE06Req
		for k, r := range reqs {
			if k%parts == vt.ParamInt("part", 0) {
				mine = append(mine, r)
			}
		}
		reqs = mine
	}
	ri := vt.ParamInt("req", -1)
	if ri < 0 {
		ri = vt.Choose("req", len(reqs))
	}
	if ri >= len(reqs) {
		vt.Reach("no-such-request")
		return
	}
	rq := reqs[ri]
	flt := rq.ftype
	if rq.frel != "" {
		flt += "#" + rq.frel
	}
	vt.Event("listusers " + rq.obj + "#" + rq.rel + " filter " + flt)
	vt.Event(u.Describe())

	ctx := typesystem.ContextWithTypesystem(context.Background(), ts)
	// no deadline: on a deadline ListUsers answers with the users found so far (partial by design), and the
	// abstract clock of the engine may jump past any deadline between two instructions
	deadline := time.Duration(0)
	if !vt.Symbolic() {
		// native replay of a stall (deadlock under the engine): let the real deadline end it, the partial
		// answer then fails the completeness assertions instead of hanging the test binary
		deadline = 5 * time.Second
	}
	opts := []ListUsersQueryOption{WithListUsersDeadline(deadline)}
	if b := vt.ParamInt("breadth", 0); b > 0 {
		opts = append(opts, WithResolveNodeBreadthLimit(uint32(b)))
	}
	maxres := vt.ParamInt("maxres", 0)
	if maxres > 0 {
		// C20: a result limit - the collector stops early and cancels; every expansion goroutine must still come to
		// an end (a goroutine left blocked when the harness ends is reported by the engine), and what is returned
		// must be permitted users, at most `maxres` of them
		opts = append(opts, WithListUsersMaxResults(uint32(maxres)))
	}
	// "ctx" = k: the first k valid candidates travel as contextual tuples of the request instead of being
	// stored (the reference counts them like stored tuples)
	var ctxTuples []*openfgav1.TupleKey
	if k := vt.ParamInt("ctx", 0); k > 0 {
		ctxTuples = st.SplitContextual(k)
	}
	q := NewListUsersQuery(&vtsem.Reader{S: st}, ctxTuples, opts...)
	st.StubConditions()
	var reqCtx *structpb.Struct
	if !vt.Symbolic() {
		reqCtx = st.RequestContext() // native replay: the real CEL evaluator sees a context with the chosen outcomes
	}
	ot, oid := verifE06Split(rq.obj)
	req := &openfgav1.ListUsersRequest{
		StoreId:              "01HVMMBCMGZNT3SED4Z17ECXCB",
		AuthorizationModelId: m.GetId(),
		Object:               &openfgav1.Object{Type: ot, Id: oid},
		Relation:             rq.rel,
		UserFilters:          []*openfgav1.UserTypeFilter{{Type: rq.ftype, Relation: rq.frel}},
		Context:              reqCtx,
		ContextualTuples:     ctxTuples,
	}
	verr := ValidateListUsersRequest(ctx, req, ts)
	vt.Assert(verr == nil, "listusers: a request over the model's own types and relations was refused by validation")
	started := time.Now()
	resp, lerr := q.ListUsers(ctx, req)
	vt.Reach("listed")
	if !vt.Symbolic() {
		// the universe is tiny: a native run takes milliseconds unless the command stalls until its deadline
		vt.Assert(time.Since(started) < 4*time.Second, "listusers: the request stalled until its deadline (deadlock without the deadline)")
	}

	if lerr != nil {
		vt.Reach("error")
		vt.Assert(st.AnyPresentConditionError(), "listusers: error although every condition in the store can be evaluated")
		return
	}
	vt.Assert(resp != nil, "listusers: neither a response nor an error")
	if resp == nil {
		return
	}

	// subjects of the filter and what the reference says about each
	var subjects []string
	for _, o := range u.Objects[rq.ftype] {
		if rq.frel == "" {
			subjects = append(subjects, o)
		} else {
			subjects = append(subjects, o+"#"+rq.frel)
		}
	}
	wild := ""
	if rq.frel == "" {
		wild = rq.ftype + ":*"
		subjects = append(subjects, wild)
	}
	permitted := make([]bool, len(subjects))
	rounds := vt.ParamInt("rounds", 0)
	for i, s := range subjects {
		permitted[i] = vtsem.NewOracle(st, s, rounds).Holds(rq.obj, rq.rel).IsTrue()
	}

	var got []string
	for _, x := range resp.GetUsers() {
		if x.GetObject() != nil && rq.frel != "" && x.GetObject().GetType() == rq.ftype {
			// Finding: under a filter type#relation expandDirect also returns plain objects of that type.
			// The strict jobs (parameter unset) report it. Jobs that set the parameter drop exactly those
			// entries so that every other obligation is still explored on all paths (the engine stops a run
			// after five violations).
			if vt.ParamInt("known_objects_under_userset_filter", 0) == 1 {
				vt.Reach("known-finding-entry-dropped")
			} else {
				vt.Assert(false, "listusers: a plain object of the filter type is returned under a type#relation user filter")
			}
			continue
		}
		got = append(got, verifE06UserString(x))
	}
	vt.Reach("answered")
	for i, g := range got {
		for j := i + 1; j < len(got); j++ {
			vt.Assert(got[j] != g, "listusers: an entry is returned twice")
		}
		k := verifE06Index(subjects, g)
		vt.Assert(k >= 0, "listusers: an entry does not match the user filter (type, relation or shape)")
		if k >= 0 {
			vt.Assert(permitted[k], "listusers: returned a user the semantics does not permit")
		}
	}
	if maxres > 0 {
		vt.Reach("limited")
		vt.Assert(len(got) <= maxres, "listusers: more users than the result limit")
		return // completeness is not claimed under a limit
	}
	hasWild := wild != "" && verifE06Index(got, wild) >= 0
	for i, s := range subjects {
		if s == wild {
			vt.Assert(!permitted[i] || hasWild, "listusers: a permitted typed wildcard is not returned")
			continue
		}
		vt.Assert(!permitted[i] || verifE06Index(got, s) >= 0 || hasWild, "listusers: a permitted user is neither returned nor covered by a returned typed wildcard")
	}
}
