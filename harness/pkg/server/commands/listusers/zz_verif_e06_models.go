package listusers

import (
	openfgav1 "github.com/openfga/api/proto/openfga/v1"

	"github.com/openfga/openfga/internal/vtmodels"
)

// Extra models for the ListUsers harness (names "lu_*"), written as protobuf literals because the shared
// generated family (vtmodels, from /verif/models/*.fga) has no exclusion over a recursive userset, no nested
// exclusion with wildcards and no intersection over an exclusion - the shapes for which ListUsers carries
// bespoke code (cycle flag, relationship status, excluded users).
//
//	lu_excl_cycle       type user; type group { blocked: [user, group#blocked]; viewer: [user] but not blocked }
//	lu_nested_excl      type user; type document { b: [user]; a: [user, user:*] but not b;
//	                                               viewer: [user, user:*] but not a }
//	lu_inter_excl       type user; type document { banned: [user]; member: [user, user:*]; active: [user, user:*];
//	                                               viewer: (member but not banned) and active }
//	lu_userset_wild     type user; type group { member: [user, user:*] };
//	                    type document { blocked: [group#member]; viewer: [group#member] but not blocked }

func verifE06This() *openfgav1.Userset {
	return &openfgav1.Userset{Userset: &openfgav1.Userset_This{}}
}

func verifE06Computed(rel string) *openfgav1.Userset {
	return &openfgav1.Userset{Userset: &openfgav1.Userset_ComputedUserset{ComputedUserset: &openfgav1.ObjectRelation{Relation: rel}}}
}

func verifE06Diff(base, sub *openfgav1.Userset) *openfgav1.Userset {
	return &openfgav1.Userset{Userset: &openfgav1.Userset_Difference{Difference: &openfgav1.Difference{Base: base, Subtract: sub}}}
}

func verifE06Inter(cs ...*openfgav1.Userset) *openfgav1.Userset {
	return &openfgav1.Userset{Userset: &openfgav1.Userset_Intersection{Intersection: &openfgav1.Usersets{Child: cs}}}
}

func verifE06Ref(t string) *openfgav1.RelationReference { return &openfgav1.RelationReference{Type: t} }

func verifE06RefRel(t, r string) *openfgav1.RelationReference {
	return &openfgav1.RelationReference{Type: t, RelationOrWildcard: &openfgav1.RelationReference_Relation{Relation: r}}
}

func verifE06RefWild(t string) *openfgav1.RelationReference {
	return &openfgav1.RelationReference{Type: t, RelationOrWildcard: &openfgav1.RelationReference_Wildcard{Wildcard: &openfgav1.Wildcard{}}}
}

func verifE06Meta(m map[string][]*openfgav1.RelationReference) *openfgav1.Metadata {
	out := &openfgav1.Metadata{Relations: map[string]*openfgav1.RelationMetadata{}}
	for r, refs := range m {
		out.Relations[r] = &openfgav1.RelationMetadata{DirectlyRelatedUserTypes: refs}
	}
	return out
}

func verifE06ModelOf(tds ...*openfgav1.TypeDefinition) *openfgav1.AuthorizationModel {
	all := append([]*openfgav1.TypeDefinition{{Type: "user", Relations: map[string]*openfgav1.Userset{}}}, tds...)
	return &openfgav1.AuthorizationModel{
		Id:              "01HVMMBCMGZNT3SED4Z17ECXCA",
		SchemaVersion:   "1.1",
		TypeDefinitions: all,
		Conditions:      map[string]*openfgav1.Condition{},
	}
}

// verifE06Model resolves a model name: "lu_*" are the local models, everything else is the shared family.
func verifE06Model(name string) *openfgav1.AuthorizationModel {
	switch name {
	case "lu_excl_cycle":
		return verifE06ModelOf(&openfgav1.TypeDefinition{
			Type: "group",
			Relations: map[string]*openfgav1.Userset{
				"blocked": verifE06This(),
				"viewer":  verifE06Diff(verifE06This(), verifE06Computed("blocked")),
			},
			Metadata: verifE06Meta(map[string][]*openfgav1.RelationReference{
				"blocked": {verifE06Ref("user"), verifE06RefRel("group", "blocked")},
				"viewer":  {verifE06Ref("user")},
			}),
		})
	case "lu_nested_excl":
		return verifE06ModelOf(&openfgav1.TypeDefinition{
			Type: "document",
			Relations: map[string]*openfgav1.Userset{
				"b":      verifE06This(),
				"a":      verifE06Diff(verifE06This(), verifE06Computed("b")),
				"viewer": verifE06Diff(verifE06This(), verifE06Computed("a")),
			},
			Metadata: verifE06Meta(map[string][]*openfgav1.RelationReference{
				"b":      {verifE06Ref("user")},
				"a":      {verifE06Ref("user"), verifE06RefWild("user")},
				"viewer": {verifE06Ref("user"), verifE06RefWild("user")},
			}),
		})
	case "lu_inter_excl":
		return verifE06ModelOf(&openfgav1.TypeDefinition{
			Type: "document",
			Relations: map[string]*openfgav1.Userset{
				"banned": verifE06This(),
				"member": verifE06This(),
				"active": verifE06This(),
				"viewer": verifE06Inter(verifE06Diff(verifE06Computed("member"), verifE06Computed("banned")), verifE06Computed("active")),
			},
			Metadata: verifE06Meta(map[string][]*openfgav1.RelationReference{
				"banned": {verifE06Ref("user")},
				"member": {verifE06Ref("user"), verifE06RefWild("user")},
				"active": {verifE06Ref("user"), verifE06RefWild("user")},
				"viewer": {},
			}),
		})
	case "lu_userset_wild":
		return verifE06ModelOf(&openfgav1.TypeDefinition{
			Type:      "group",
			Relations: map[string]*openfgav1.Userset{"member": verifE06This()},
			Metadata: verifE06Meta(map[string][]*openfgav1.RelationReference{
				"member": {verifE06Ref("user"), verifE06RefWild("user")},
			}),
		}, &openfgav1.TypeDefinition{
			Type: "document",
			Relations: map[string]*openfgav1.Userset{
				"blocked": verifE06This(),
				"viewer":  verifE06Diff(verifE06This(), verifE06Computed("blocked")),
			},
			Metadata: verifE06Meta(map[string][]*openfgav1.RelationReference{
				"blocked": {verifE06RefRel("group", "member")},
				"viewer":  {verifE06RefRel("group", "member")},
			}),
		})
	}
	return vtmodels.Model(name)
}
