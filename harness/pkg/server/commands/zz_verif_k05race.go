package commands

import (
	"context"
	"strconv"
	"sync"

	openfgav1 "github.com/openfga/api/proto/openfga/v1"

	"github.com/openfga/openfga/internal/graph"
	"github.com/openfga/openfga/internal/vt"
	"github.com/openfga/openfga/internal/vtmodels"
	"github.com/openfga/openfga/pkg/featureflags"
	"github.com/openfga/openfga/pkg/storage"
	"github.com/openfga/openfga/pkg/tuple"
	"github.com/openfga/openfga/pkg/typesystem"
)

// ---- K05 (hypothesis H7): a counted object is lost when the limit cancels the in-flight Check -----------
//
// The real ListObjectsQuery.Execute / evaluate / trySendObject / TrySendThroughChannel / CheckCommand run
// with the two constructor seams implemented by the harness, so that later candidates arrive exactly while
// the first Check is being answered (no engine stubs, the same code runs natively):
//
//   - the datastore yields the candidate tuples document:1..n#viewer@user:1 one after the other, but the
//     second and later ones only after the first Check has been answered (a slow page of a datastore),
//   - the check resolver answers "allowed" for every candidate and opens that gate when it is asked first.
//
// Model "exclusion" (viewer: [user, user:*] but not blocked): every candidate needs a Check. With max results m
// and n >= m permitted objects the answer must hold exactly m objects. Interleaving aimed at (H7): the Check
// goroutine of candidate 1 increments objectsFound and reaches the select in TrySendThroughChannel; the
// consumer receives candidate 2, sees objectsFound >= m and cancels; the select of the Check goroutine now
// has both cases ready (ctx.Done and the send into the buffered results channel) and may drop the object.
// What the engine explores here: its cooperative round-robin schedule plus every choice of the first
// `sched` selects with several ready cases. In that schedule the later candidate is forwarded by a fresh
// dispatch goroutine that runs after the Check goroutine has passed its select, so the consumer cancels too
// late: the obligation holds on all explored schedules and H7 stays open (it needs a preemption between
// objectsFound.Add and the select, or true parallelism, which the engine does not enumerate).

type verifK05GatedIter struct {
	mu    sync.Mutex
	items []*openfgav1.Tuple
	pos   int
	gate  chan struct{}
	done  bool
}

func (it *verifK05GatedIter) Next(ctx context.Context) (*openfgav1.Tuple, error) {
	it.mu.Lock()
	if it.done || it.pos >= len(it.items) {
		it.mu.Unlock()
		return nil, storage.ErrIteratorDone
	}
	i := it.pos
	it.pos++
	it.mu.Unlock()
	if i >= 1 {
		select {
		case <-it.gate:
		case <-ctx.Done():
			return nil, ctx.Err()
		}
	}
	return it.items[i], nil
}

func (it *verifK05GatedIter) Head(ctx context.Context) (*openfgav1.Tuple, error) {
	it.mu.Lock()
	defer it.mu.Unlock()
	if it.done || it.pos >= len(it.items) {
		return nil, storage.ErrIteratorDone
	}
	return it.items[it.pos], nil
}

func (it *verifK05GatedIter) Stop() {
	it.mu.Lock()
	it.done = true
	it.mu.Unlock()
}

func (it *verifK05GatedIter) IsOrdered() bool { return true }

type verifK05Store struct {
	n    int
	gate chan struct{}
}

func (s *verifK05Store) Read(context.Context, string, storage.ReadFilter, storage.ReadOptions) (storage.TupleIterator, error) {
	return storage.NewStaticTupleIterator(nil), nil
}

func (s *verifK05Store) ReadPage(context.Context, string, storage.ReadFilter, storage.ReadPageOptions) ([]*openfgav1.Tuple, string, error) {
	return nil, "", nil
}

func (s *verifK05Store) ReadUserTuple(context.Context, string, storage.ReadUserTupleFilter, storage.ReadUserTupleOptions) (*openfgav1.Tuple, error) {
	return nil, storage.ErrNotFound
}

func (s *verifK05Store) ReadUsersetTuples(context.Context, string, storage.ReadUsersetTuplesFilter, storage.ReadUsersetTuplesOptions) (storage.TupleIterator, error) {
	return storage.NewStaticTupleIterator(nil), nil
}

func (s *verifK05Store) ReadStartingWithUser(_ context.Context, _ string, f storage.ReadStartingWithUserFilter, _ storage.ReadStartingWithUserOptions) (storage.TupleIterator, error) {
	forUser := false
	for _, uf := range f.UserFilter {
		if uf.GetObject() == "user:1" && uf.GetRelation() == "" {
			forUser = true
		}
	}
	if f.ObjectType != "document" || f.Relation != "viewer" || !forUser {
		return storage.NewStaticTupleIterator(nil), nil
	}
	var items []*openfgav1.Tuple
	for i := 1; i <= s.n; i++ {
		items = append(items, &openfgav1.Tuple{Key: tuple.NewTupleKey("document:"+strconv.Itoa(i), "viewer", "user:1")})
	}
	return &verifK05GatedIter{items: items, gate: s.gate}, nil
}

type verifK05Resolver struct {
	once  sync.Once
	gate  chan struct{}
	calls int
	mu    sync.Mutex
}

func (r *verifK05Resolver) ResolveCheck(context.Context, *graph.ResolveCheckRequest) (*graph.ResolveCheckResponse, error) {
	r.mu.Lock()
	r.calls++
	r.mu.Unlock()
	r.once.Do(func() { close(r.gate) })
	return &graph.ResolveCheckResponse{Allowed: true}, nil
}

func (r *verifK05Resolver) Close()                             {}
func (r *verifK05Resolver) SetDelegate(graph.CheckResolver)    {}
func (r *verifK05Resolver) GetDelegate() graph.CheckResolver   { return nil }

// VerifK05LimitRace: n permitted candidates (param "n"), result limit m (param "max"): the answer holds exactly
// min(m, n) objects, whatever case the select in TrySendThroughChannel takes.
func VerifK05LimitRace() {
	m := vtmodels.Model("exclusion")
	ts, err := typesystem.New(m)
	vt.Assert(err == nil && ts != nil, "typesystem.New failed on a validated model")
	n := vt.ParamInt("n", 2)
	max := vt.ParamInt("max", 1)
	if k := vt.ParamInt("sched", 0); k > 0 {
		vt.SchedChoices(k)
	}
	gate := make(chan struct{})
	res := &verifK05Resolver{gate: gate}
	q, qerr := NewListObjectsQuery(&verifK05Store{n: n, gate: gate}, res, "01HVMMBCMGZNT3SED4Z17ECXCB",
		WithListObjectsPipelineEnabled(false),
		WithFeatureFlagClient(featureflags.NewDefaultClient(nil)),
		WithListObjectsDeadline(0),
		WithListObjectsMaxResults(uint32(max)),
	)
	vt.Assert(qerr == nil && q != nil && !q.pipelineEnabled, "NewListObjectsQuery failed")
	ctx := typesystem.ContextWithTypesystem(context.Background(), ts)
	vt.Event("listobjects document#viewer@user:1 max=" + strconv.Itoa(max) + " with " + strconv.Itoa(n) + " permitted candidates, the later ones gated behind the first Check")
	resp, lerr := q.Execute(ctx, &openfgav1.ListObjectsRequest{
		StoreId:              "01HVMMBCMGZNT3SED4Z17ECXCB",
		AuthorizationModelId: m.GetId(),
		Type:                 "document",
		Relation:             "viewer",
		User:                 "user:1",
	})
	vt.Reach("listed")
	vt.Assert(lerr == nil && resp != nil, "listobjects failed")
	if lerr != nil || resp == nil {
		return
	}
	want := n
	if max > 0 && want > max {
		want = max
	}
	for i, g := range resp.Objects {
		for j := i + 1; j < len(resp.Objects); j++ {
			vt.Assert(resp.Objects[j] != g, "listobjects: an object is returned twice")
		}
	}
	vt.Assert(len(resp.Objects) <= want, "listobjects: more objects than min(limit, number of permitted objects)")
	vt.Assert(len(resp.Objects) == want, "listobjects: fewer objects than min(limit, number of permitted objects) although every candidate is permitted (a counted object was dropped by the cancellation)")
}
