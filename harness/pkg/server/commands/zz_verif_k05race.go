package commands

import (
	"context"
	"runtime"
	"strconv"
	"sync"

	openfgav1 "github.com/openfga/api/proto/openfga/v1"

	"github.com/openfga/openfga/internal/graph"
	"github.com/openfga/openfga/internal/vt"
	"github.com/openfga/openfga/internal/vtmodels"
	"github.com/openfga/openfga/internal/vtplan"
	"github.com/openfga/openfga/internal/vtsem"
	"github.com/openfga/openfga/pkg/featureflags"
	"github.com/openfga/openfga/pkg/storage"
	"github.com/openfga/openfga/pkg/tuple"
	"github.com/openfga/openfga/pkg/typesystem"
)

// ---- K05 (hypothesis H7): a counted object is lost when the limit cancels the in-flight Check -----------
//
// The real ListObjectsQuery.Execute / evaluate / trySendObject / TrySendThroughChannel / CheckCommand run
// with the two constructor seams implemented by the harness, so that later candidates arrive exactly while
// the first Check is being answered (no engine stubs, the same code runs natively):
//
//   - the datastore yields the candidate tuples document:1..n#viewer@user:1 one after the other, but the
//     second and later ones only after the first Check has been answered (a slow page of a datastore),
//   - the check resolver answers "allowed" for every candidate and opens that gate when it is asked first.
//
// Model "exclusion" (viewer: [user, user:*] but not blocked): every candidate needs a Check. With max results m
// and n >= m permitted objects the answer must hold exactly m objects. Interleaving aimed at (H7): the Check
// goroutine of candidate 1 increments objectsFound and reaches the select in TrySendThroughChannel; the
// consumer receives candidate 2, sees objectsFound >= m and cancels; the select of the Check goroutine now
// has both cases ready (ctx.Done and the send into the buffered results channel) and may drop the object.
// What the engine explores here: its cooperative round-robin schedule plus every choice of the first
// `sched` selects with several ready cases. In that schedule the later candidate is forwarded by a fresh
// dispatch goroutine that runs after the Check goroutine has passed its select, so the consumer cancels too
// late: the obligation holds on all explored schedules and H7 stays open (it needs a preemption between
// objectsFound.Add and the select, or true parallelism, which the engine does not enumerate).

type verifK05GatedIter struct {
	mu    sync.Mutex
	items []*openfgav1.Tuple
	pos   int
	gate  chan struct{}
	done  bool
}

func (it *verifK05GatedIter) Next(ctx context.Context) (*openfgav1.Tuple, error) {
	it.mu.Lock()
	if it.done || it.pos >= len(it.items) {
		it.mu.Unlock()
		return nil, storage.ErrIteratorDone
	}
	i := it.pos
	it.pos++
	it.mu.Unlock()
	if i >= 1 {
		select {
		case <-it.gate:
		case <-ctx.Done():
			return nil, ctx.Err()
		}
	}
	return it.items[i], nil
}

func (it *verifK05GatedIter) Head(ctx context.Context) (*openfgav1.Tuple, error) {
	it.mu.Lock()
	defer it.mu.Unlock()
	if it.done || it.pos >= len(it.items) {
		return nil, storage.ErrIteratorDone
	}
	return it.items[it.pos], nil
}

func (it *verifK05GatedIter) Stop() {
	it.mu.Lock()
	it.done = true
	it.mu.Unlock()
}

func (it *verifK05GatedIter) IsOrdered() bool { return true }

type verifK05Store struct {
	n    int
	gate chan struct{}
}

func (s *verifK05Store) Read(context.Context, string, storage.ReadFilter, storage.ReadOptions) (storage.TupleIterator, error) {
	return storage.NewStaticTupleIterator(nil), nil
}

func (s *verifK05Store) ReadPage(context.Context, string, storage.ReadFilter, storage.ReadPageOptions) ([]*openfgav1.Tuple, string, error) {
	return nil, "", nil
}

func (s *verifK05Store) ReadUserTuple(context.Context, string, storage.ReadUserTupleFilter, storage.ReadUserTupleOptions) (*openfgav1.Tuple, error) {
	return nil, storage.ErrNotFound
}

func (s *verifK05Store) ReadUsersetTuples(context.Context, string, storage.ReadUsersetTuplesFilter, storage.ReadUsersetTuplesOptions) (storage.TupleIterator, error) {
	return storage.NewStaticTupleIterator(nil), nil
}

func (s *verifK05Store) ReadStartingWithUser(_ context.Context, _ string, f storage.ReadStartingWithUserFilter, _ storage.ReadStartingWithUserOptions) (storage.TupleIterator, error) {
	forUser := false
	for _, uf := range f.UserFilter {
		if uf.GetObject() == "user:1" && uf.GetRelation() == "" {
			forUser = true
		}
	}
	if f.ObjectType != "document" || f.Relation != "viewer" || !forUser {
		return storage.NewStaticTupleIterator(nil), nil
	}
	var items []*openfgav1.Tuple
	for i := 1; i <= s.n; i++ {
		items = append(items, &openfgav1.Tuple{Key: tuple.NewTupleKey("document:"+strconv.Itoa(i), "viewer", "user:1")})
	}
	return &verifK05GatedIter{items: items, gate: s.gate}, nil
}

type verifK05Resolver struct {
	once  sync.Once
	gate  chan struct{}
	calls int
	mu    sync.Mutex
}

func (r *verifK05Resolver) ResolveCheck(context.Context, *graph.ResolveCheckRequest) (*graph.ResolveCheckResponse, error) {
	r.mu.Lock()
	r.calls++
	r.mu.Unlock()
	r.once.Do(func() { close(r.gate) })
	return &graph.ResolveCheckResponse{Allowed: true}, nil
}

func (r *verifK05Resolver) Close()                             {}
func (r *verifK05Resolver) SetDelegate(graph.CheckResolver)    {}
func (r *verifK05Resolver) GetDelegate() graph.CheckResolver   { return nil }

// VerifK05LimitRace: n permitted candidates (param "n"), result limit m (param "max"): the answer holds exactly
// min(m, n) objects, whatever case the select in TrySendThroughChannel takes.
func VerifK05LimitRace() {
	m := vtmodels.Model("exclusion")
	ts, err := typesystem.New(m)
	vt.Assert(err == nil && ts != nil, "typesystem.New failed on a validated model")
	n := vt.ParamInt("n", 2)
	max := vt.ParamInt("max", 1)
	if k := vt.ParamInt("sched", 0); k > 0 {
		vt.SchedChoices(k)
	}
	gate := make(chan struct{})
	res := &verifK05Resolver{gate: gate}
	q, qerr := NewListObjectsQuery(&verifK05Store{n: n, gate: gate}, res, "01HVMMBCMGZNT3SED4Z17ECXCB",
		WithListObjectsPipelineEnabled(false),
		WithFeatureFlagClient(featureflags.NewDefaultClient(nil)),
		WithListObjectsDeadline(0),
		WithListObjectsMaxResults(uint32(max)),
	)
	vt.Assert(qerr == nil && q != nil && !q.pipelineEnabled, "NewListObjectsQuery failed")
	ctx := typesystem.ContextWithTypesystem(context.Background(), ts)
	vt.Event("listobjects document#viewer@user:1 max=" + strconv.Itoa(max) + " with " + strconv.Itoa(n) + " permitted candidates, the later ones gated behind the first Check")
	resp, lerr := q.Execute(ctx, &openfgav1.ListObjectsRequest{
		StoreId:              "01HVMMBCMGZNT3SED4Z17ECXCB",
		AuthorizationModelId: m.GetId(),
		Type:                 "document",
		Relation:             "viewer",
		User:                 "user:1",
	})
	vt.Reach("listed")
	vt.Assert(lerr == nil && resp != nil, "listobjects failed")
	if lerr != nil || resp == nil {
		return
	}
	want := n
	if max > 0 && want > max {
		want = max
	}
	for i, g := range resp.Objects {
		for j := i + 1; j < len(resp.Objects); j++ {
			vt.Assert(resp.Objects[j] != g, "listobjects: an object is returned twice")
		}
	}
	vt.Assert(len(resp.Objects) <= want, "listobjects: more objects than min(limit, number of permitted objects)")
	vt.Assert(len(resp.Objects) == want, "listobjects: fewer objects than min(limit, number of permitted objects) although every candidate is permitted (a counted object was dropped by the cancellation)")
}

// verifK05TwoHopModel: type user; type group { member: [user] };
// type document { blocked: [user]; viewer: [group#member, user:*] but not blocked }.
func verifK05TwoHopModel() *openfgav1.AuthorizationModel {
	this := func() *openfgav1.Userset { return &openfgav1.Userset{Userset: &openfgav1.Userset_This{}} }
	ref := func(t string) *openfgav1.RelationReference { return &openfgav1.RelationReference{Type: t} }
	return &openfgav1.AuthorizationModel{
		Id:            "01HVMMBCMGZNT3SED4Z17ECXCA",
		SchemaVersion: "1.1",
		TypeDefinitions: []*openfgav1.TypeDefinition{
			{Type: "user", Relations: map[string]*openfgav1.Userset{}},
			{
				Type:      "group",
				Relations: map[string]*openfgav1.Userset{"member": this()},
				Metadata: &openfgav1.Metadata{Relations: map[string]*openfgav1.RelationMetadata{
					"member": {DirectlyRelatedUserTypes: []*openfgav1.RelationReference{ref("user")}},
				}},
			},
			{
				Type: "document",
				Relations: map[string]*openfgav1.Userset{
					"blocked": this(),
					"viewer": {Userset: &openfgav1.Userset_Difference{Difference: &openfgav1.Difference{
						Base:     this(),
						Subtract: &openfgav1.Userset{Userset: &openfgav1.Userset_ComputedUserset{ComputedUserset: &openfgav1.ObjectRelation{Relation: "blocked"}}},
					}}},
				},
				Metadata: &openfgav1.Metadata{Relations: map[string]*openfgav1.RelationMetadata{
					"blocked": {DirectlyRelatedUserTypes: []*openfgav1.RelationReference{ref("user")}},
					"viewer": {DirectlyRelatedUserTypes: []*openfgav1.RelationReference{
						{Type: "group", RelationOrWildcard: &openfgav1.RelationReference_Relation{Relation: "member"}},
						{Type: "user", RelationOrWildcard: &openfgav1.RelationReference_Wildcard{Wildcard: &openfgav1.Wildcard{}}},
					}},
				}},
			},
		},
		Conditions: map[string]*openfgav1.Condition{},
	}
}

// VerifK05TwoHop: a fully concrete instance (no symbolic input, one path per select choice) of the situation
// in which the engine's canonical schedule realises hypothesis H7. Store: document:1#viewer@user:*,
// group:2#member@user:1, document:2#viewer@group:2#member: user:1 may view both documents; document:1 is
// found in one reverse-expansion step, document:2 in two. Real LocalChecker, result limit 1: the answer must
// hold exactly one object. The second candidate reaches the consumer after the Check goroutine of the first
// one has incremented objectsFound and before it has executed the select in TrySendThroughChannel; the
// consumer cancels (limit reached) and the select - both cases ready - may take ctx.Done: the counted object
// is dropped and the answer is empty.
//
// Native replay: the schedule cannot be forced on the real runtime without hooks, so the native run repeats
// the request (40 documents, limit 5, GOMAXPROCS 4) "native_iters" times and fails if an answer holds fewer
// than the limit (observed rate: about 1 in 2000 on the build machine).
func VerifK05TwoHop() {
	m := verifK05TwoHopModel()
	ts, err := typesystem.New(m)
	vt.Assert(err == nil && ts != nil, "typesystem.New failed")
	max := vt.ParamInt("max", 1)
	if k := vt.ParamInt("sched", 0); k > 0 {
		vt.SchedChoices(k)
	}
	if !vt.Symbolic() {
		_, verr := typesystem.NewAndValidate(context.Background(), m)
		vt.Assert(verr == nil, "harness: the model is rejected by the model validation")
		old := runtime.GOMAXPROCS(4)
		defer runtime.GOMAXPROCS(old)
		short := 0
		iters := vt.ParamInt("native_iters", 40000)
		for it := 0; it < iters && short == 0; it++ {
			n, lerr := verifK05TwoHopRun(m, ts, 40, 5)
			vt.Assert(lerr == nil, "listobjects failed")
			if lerr == nil && n < 5 {
				short++
			}
		}
		vt.Assert(short == 0, "listobjects: fewer objects than min(limit, number of permitted objects): a counted object was dropped when the limit cancelled the request (native stress run, 40 permitted documents, limit 5)")
		return
	}
	vt.Event("listobjects document#viewer@user:1 max=" + strconv.Itoa(max) + " on document:1#viewer@user:*, group:2#member@user:1, document:2#viewer@group:2#member")
	n, lerr := verifK05TwoHopRun(m, ts, 2, max)
	vt.Reach("listed")
	vt.Assert(lerr == nil, "listobjects failed")
	if lerr != nil {
		return
	}
	want := 2
	if max > 0 && want > max {
		want = max
	}
	vt.Assert(n <= want, "listobjects: more objects than min(limit, number of permitted objects)")
	vt.Assert(n == want, "listobjects: fewer objects than min(limit, number of permitted objects): a counted object was dropped when the limit cancelled the request")
}

// verifK05TwoHopRun lists document#viewer@user:1 on the store document:1#viewer@user:*, group:i#member@user:1,
// document:i#viewer@group:i#member (i = 2..docs) - every document is permitted - and returns the size of the answer.
func verifK05TwoHopRun(m *openfgav1.AuthorizationModel, ts *typesystem.TypeSystem, docs, max int) (int, error) {
	u := &vtsem.Universe{Model: m, Types: []string{"user", "group", "document"}, Objects: map[string][]string{
		"user": {"user:1"}, "document": {"document:1"},
	}}
	tks := []*openfgav1.TupleKey{tuple.NewTupleKey("document:1", "viewer", "user:*")}
	for i := 2; i <= docs; i++ {
		g, d := "group:"+strconv.Itoa(i), "document:"+strconv.Itoa(i)
		u.Objects["group"] = append(u.Objects["group"], g)
		u.Objects["document"] = append(u.Objects["document"], d)
		tks = append(tks, tuple.NewTupleKey(g, "member", "user:1"), tuple.NewTupleKey(d, "viewer", g+"#member"))
	}
	st := &vtsem.Store{U: u}
	for _, tk := range tks {
		u.Cands = append(u.Cands, vtsem.Cand{Key: tk, Valid: true})
		st.P, st.Q, st.Met, st.Err = append(st.P, true), append(st.Q, true), append(st.Met, true), append(st.Err, false)
	}
	checker := graph.NewLocalChecker(graph.WithPlanner(vtplan.New(vt.ParamInt("plan", 0))))
	defer checker.Close()
	q, qerr := NewListObjectsQuery(&vtsem.Reader{S: st}, checker, "01HVMMBCMGZNT3SED4Z17ECXCB",
		WithListObjectsPipelineEnabled(false),
		WithFeatureFlagClient(featureflags.NewDefaultClient(nil)),
		WithListObjectsDeadline(0),
		WithListObjectsMaxResults(uint32(max)),
	)
	if qerr != nil {
		return 0, qerr
	}
	resp, lerr := q.Execute(typesystem.ContextWithTypesystem(context.Background(), ts), &openfgav1.ListObjectsRequest{
		StoreId:              "01HVMMBCMGZNT3SED4Z17ECXCB",
		AuthorizationModelId: m.GetId(),
		Type:                 "document",
		Relation:             "viewer",
		User:                 "user:1",
	})
	if lerr != nil {
		return 0, lerr
	}
	return len(resp.Objects), nil
}
