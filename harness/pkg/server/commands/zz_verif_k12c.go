package commands

import (
	"context"

	"google.golang.org/protobuf/proto"

	openfgav1 "github.com/openfga/api/proto/openfga/v1"

	"github.com/openfga/openfga/internal/vt"
	"github.com/openfga/openfga/internal/vtmodels"
	"github.com/openfga/openfga/pkg/storage"
	"github.com/openfga/openfga/pkg/storage/memory"
	"github.com/openfga/openfga/pkg/tuple"
	"github.com/openfga/openfga/pkg/typesystem"
)

// ---- K12c: the Write command honours on_duplicate / on_missing per section, atomically ---------------------
//
// The real WriteCommand.Execute over the real memory datastore. Store pre-state (t1 present?, t2 present?), the
// request (write t1?, delete t2?) and the two option strings are solver-chosen. Expected by the API contract:
// the request fails iff it is empty, an option string of a present section is not ""/"error"/"ignore", the write
// duplicates an existing tuple and on_duplicate != "ignore", or the delete misses and on_missing != "ignore";
// a failed request changes nothing; a successful one leaves exactly (pre - deletes) + writes.

type verifK12cStore struct {
	storage.OpenFGADatastore
	model *openfgav1.AuthorizationModel
}

func (s *verifK12cStore) ReadAuthorizationModel(ctx context.Context, store, id string) (*openfgav1.AuthorizationModel, error) {
	return s.model, nil
}

var verifK12cOpts = []string{"", "error", "ignore", "skip"}

func VerifK12cWriteOptions() {
	m := vtmodels.Model("direct")
	if vt.Symbolic() {
		ts, err := typesystem.New(m)
		vt.Assert(err == nil, "typesystem.New failed on a family model")
		vt.Stub("github.com/openfga/openfga/pkg/typesystem.New",
			func(x *openfgav1.AuthorizationModel) (*typesystem.TypeSystem, error) { return ts, err })
		// protobuf reflection is not interpretable; every tuple here has a nil condition context (size 0)
		vt.Stub("google.golang.org/protobuf/proto.Size", func(proto.Message) int { return 0 })
	}
	ctx := context.Background()
	ds := memory.New()
	t1 := &openfgav1.TupleKey{Object: "document:1", Relation: "viewer", User: "user:a"}
	t2 := &openfgav1.TupleKey{Object: "document:2", Relation: "viewer", User: "user:a"}
	e1 := vt.ForkBool("pre-t1")
	e2 := vt.ForkBool("pre-t2")
	var pre []*openfgav1.TupleKey
	if e1 {
		pre = append(pre, t1)
	}
	if e2 {
		pre = append(pre, t2)
	}
	if len(pre) > 0 {
		vt.Assert(ds.Write(ctx, "S", nil, pre) == nil, "set-up write failed")
	}
	w1 := vt.ForkBool("write-t1")
	d2 := vt.ForkBool("delete-t2")
	dup := verifK12cOpts[vt.Choose("on_duplicate", len(verifK12cOpts))]
	miss := verifK12cOpts[vt.Choose("on_missing", len(verifK12cOpts))]
	req := &openfgav1.WriteRequest{StoreId: "S", AuthorizationModelId: m.GetId()}
	if w1 {
		req.Writes = &openfgav1.WriteRequestWrites{TupleKeys: []*openfgav1.TupleKey{t1}, OnDuplicate: dup}
	}
	if d2 {
		req.Deletes = &openfgav1.WriteRequestDeletes{TupleKeys: []*openfgav1.TupleKeyWithoutCondition{tuple.TupleKeyToTupleKeyWithoutCondition(t2)}, OnMissing: miss}
	}
	cmd := NewWriteCommand(&verifK12cStore{OpenFGADatastore: ds, model: m})
	_, err := cmd.Execute(ctx, req)

	valid := func(o string) bool { return o == "" || o == "error" || o == "ignore" }
	wantErr := (!w1 && !d2) ||
		(w1 && !valid(dup)) || (d2 && !valid(miss)) ||
		(w1 && e1 && dup != "ignore") ||
		(d2 && !e2 && miss != "ignore")
	vt.Reach("executed")
	if wantErr {
		vt.Assert(err != nil, "Write succeeded although a duplicate write / missing delete / invalid option must fail it")
	} else {
		vt.Assert(err == nil, "Write failed although on_duplicate / on_missing of its own section allow it")
	}
	has := func(t *openfgav1.TupleKey) bool {
		got, rerr := ds.ReadUserTuple(ctx, "S", storage.ReadUserTupleFilter{Object: t.GetObject(), Relation: t.GetRelation(), User: t.GetUser()}, storage.ReadUserTupleOptions{})
		return rerr == nil && got != nil
	}
	want1, want2 := e1, e2
	if err == nil {
		want1 = e1 || w1
		want2 = e2 && !d2
	}
	vt.Assert(has(t1) == want1 && has(t2) == want2, "store content after Write is neither the old content (failed) nor old - deletes + writes (succeeded)")
}
