package server

import (
	"context"

	openfgav1 "github.com/openfga/api/proto/openfga/v1"

	"github.com/openfga/openfga/internal/authz"
	"github.com/openfga/openfga/internal/vt"
	"github.com/openfga/openfga/internal/vtmodels"
	"github.com/openfga/openfga/pkg/encoder"
	"github.com/openfga/openfga/pkg/gateway"
	"github.com/openfga/openfga/pkg/logger"
	"github.com/openfga/openfga/pkg/storage/memory"
	"github.com/openfga/openfga/pkg/typesystem"
)

// ---- K30b: a sequence of Expand requests on one server ------------------------------------------------------
//
// Server.Expand is executed twice on the same Server (real handler, real ExpandQuery, real memory datastore):
// first with a contextual tuple, then without. Each answer lists exactly the users of ITS request: the stored
// users plus the request's own contextual users - nothing of an earlier request survives in the server.
func VerifK30bExpandSequence() {
	m := vtmodels.Model("direct")
	ts, err := typesystem.New(m)
	vt.Assert(err == nil, "set-up: model")
	ctx := context.Background()
	ds := memory.New()
	store := verifK32Store
	stored := vt.ForkBool("stored-user-1")
	if stored {
		vt.Assert(ds.Write(ctx, store, nil, []*openfgav1.TupleKey{{Object: "document:1", Relation: "viewer", User: "user:1"}}) == nil, "set-up: write")
	}
	s := &Server{
		logger:      logger.NewNoopLogger(),
		serviceName: "verif",
		encoder:     encoder.NoopEncoder{},
		transport:   gateway.NewNoopTransport(),
		datastore:   ds,
		authorizer:  authz.NewAuthorizerNoop(),
		typesystemResolver: func(ctx context.Context, storeID, modelID string) (*typesystem.TypeSystem, error) {
			return ts, nil
		},
	}
	if vt.Symbolic() {
		vt.Stub("github.com/openfga/openfga/pkg/middleware/validator.RequestIsValidatedFromContext",
			func(ctx context.Context) bool { return true })
	}
	users := func(r *openfgav1.ExpandResponse) (n int, has1, has2 bool) {
		us := r.GetTree().GetRoot().GetLeaf().GetUsers().GetUsers()
		for i := 0; i < len(us) && i < 4; i++ {
			if us[i] == "user:1" {
				has1 = true
			}
			if us[i] == "user:2" {
				has2 = true
			}
		}
		return len(us), has1, has2
	}
	tk := &openfgav1.ExpandRequestTupleKey{Object: "document:1", Relation: "viewer"}
	withCtx := vt.ForkBool("first-request-has-contextual-tuple")
	req1 := &openfgav1.ExpandRequest{StoreId: store, TupleKey: tk}
	if withCtx {
		req1.ContextualTuples = &openfgav1.ContextualTupleKeys{TupleKeys: []*openfgav1.TupleKey{{Object: "document:1", Relation: "viewer", User: "user:2"}}}
	}
	r1, err1 := s.Expand(ctx, req1)
	vt.Assert(err1 == nil, "first Expand failed")
	if err1 != nil {
		return
	}
	n1, a1, b1 := users(r1)
	vt.Assert(a1 == stored && b1 == withCtx && n1 == btoi(stored)+btoi(withCtx), "first Expand does not list exactly the stored and the contextual users")

	r2, err2 := s.Expand(ctx, &openfgav1.ExpandRequest{StoreId: store, TupleKey: tk})
	vt.Assert(err2 == nil, "second Expand failed")
	if err2 != nil {
		return
	}
	n2, a2, b2 := users(r2)
	vt.Reach("second-answer")
	vt.Assert(!b2, "the contextual tuple of an earlier Expand request shows up in a later request")
	vt.Assert(a2 == stored && n2 == btoi(stored), "second Expand does not list exactly the stored users")
}

func btoi(b bool) int {
	if b {
		return 1
	}
	return 0
}
