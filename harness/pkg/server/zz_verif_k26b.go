package server

import (
	"context"
	"errors"

	openfgav1 "github.com/openfga/api/proto/openfga/v1"

	"github.com/openfga/openfga/internal/authz"
	"github.com/openfga/openfga/internal/vt"
	"github.com/openfga/openfga/pkg/authclaims"
	"github.com/openfga/openfga/pkg/encoder"
	"github.com/openfga/openfga/pkg/logger"
	"github.com/openfga/openfga/pkg/storage/memory"
)

// ---- K26b: ListStores returns only stores the caller may get --------------------------------------------
//
// Real code on the path: (*Server).ListStores -> getAccessibleStores -> the REAL authz.Authorizer
// (AuthorizeListStores, ListAuthorizedStores) -> commands.ListStoresQuery.Execute -> MemoryBackend.ListStores.
// Only the access-control store behind the Authorizer is a stub: its Check answer for
// (can_call_list_stores, system:fga) is `mayList`, its ListObjects answer (the stores the caller
// can_call_get_store) is a symbolic list of 0..2 ids out of {A, B, C, Z}; the backend holds 0..3 of the
// stores A, B, C.

type verifK26Ctl struct {
	mayList bool
	granted []string // object strings "store:<id>"
}

func (c *verifK26Ctl) Check(ctx context.Context, req *openfgav1.CheckRequest) (*openfgav1.CheckResponse, error) {
	vt.Assert(authclaims.SkipAuthzCheckFromContext(ctx), "control-store Check not marked skip-authz")
	tk := req.GetTupleKey()
	if tk.GetRelation() == authz.CanCallListStores && tk.GetObject() == "system:fga" {
		return &openfgav1.CheckResponse{Allowed: c.mayList}, nil
	}
	return nil, errors.New("unexpected control-store check")
}

func (c *verifK26Ctl) ListObjects(ctx context.Context, req *openfgav1.ListObjectsRequest) (*openfgav1.ListObjectsResponse, error) {
	vt.Assert(authclaims.SkipAuthzCheckFromContext(ctx), "control-store ListObjects not marked skip-authz")
	if req.GetRelation() != authz.CanCallGetStore || req.GetType() != "store" {
		return nil, errors.New("unexpected control-store list")
	}
	return &openfgav1.ListObjectsResponse{Objects: c.granted}, nil
}

var verifK26IDs = []string{"A", "B", "C", "Z"}

func VerifK26bListStores() {
	nS := vt.Choose("stores", vt.ParamInt("stores", 3)+1) // stores A.. in the backend
	nG := vt.Choose("granted", vt.ParamInt("granted", 2)+1)
	skip := vt.ForkBool("skipAuthz")
	mayList := vt.ForkBool("mayList")

	ctx := context.Background()
	ds := memory.New()
	for i := 0; i < nS; i++ {
		_, err := ds.CreateStore(ctx, &openfgav1.Store{Id: verifK26IDs[i], Name: "name-" + verifK26IDs[i]})
		vt.Assert(err == nil, "CreateStore failed")
	}
	// which ids the control store grants: concrete choice per slot (fork) out of A, B, C, Z(unknown store)
	granted := make([]string, nG)
	gidx := make([]int, nG)
	for i := 0; i < nG; i++ {
		gidx[i] = vt.Choose("g"+string(rune('0'+i)), len(verifK26IDs))
		granted[i] = "store:" + verifK26IDs[gidx[i]]
	}
	ctl := &verifK26Ctl{mayList: mayList, granted: granted}
	s := &Server{
		logger:      logger.NewNoopLogger(),
		datastore:   ds,
		encoder:     encoder.NoopEncoder{},
		serviceName: "verif",
		authorizer:  authz.NewAuthorizer(&authz.Config{StoreID: "CTL", ModelID: "MDL"}, ctl, logger.NewNoopLogger()),
	}
	if vt.Symbolic() {
		// request validation is generated regex code (not interpretable); the request below is valid
		// (no token, no name, no page size) and the native replay runs the real Validate
		vt.Stub("github.com/openfga/openfga/pkg/middleware/validator.RequestIsValidatedFromContext",
			func(ctx context.Context) bool { return true })
	}
	ctx = authclaims.ContextWithAuthClaims(ctx, &authclaims.AuthClaims{Subject: "sub", ClientID: "client1"})
	if skip {
		ctx = authclaims.ContextWithSkipAuthzCheck(ctx, true)
	}

	resp, err := s.ListStores(ctx, &openfgav1.ListStoresRequest{})

	if skip {
		vt.Reach("skip-authz")
		vt.Assert(err == nil && len(resp.GetStores()) == nS, "internal (skip-authz) listing is filtered")
		return
	}
	if !mayList {
		vt.Reach("may-not-list")
		vt.Assert(err != nil && resp == nil, "ListStores served although can_call_list_stores is not granted")
		return
	}
	vt.Reach("filtered")
	vt.Assert(err == nil, "authorized ListStores failed")
	if err != nil {
		return
	}
	isGranted := func(id string) bool {
		for i := 0; i < nG; i++ {
			if verifK26IDs[gidx[i]] == id {
				return true
			}
		}
		return false
	}
	got := resp.GetStores()
	for k := 0; k < len(got) && k < 8; k++ {
		vt.Assert(isGranted(got[k].GetId()), "ListStores returned a store the caller is not granted can_call_get_store on")
	}
	// completeness (page size default 50 > 3): every granted existing store is listed
	for i := 0; i < nS; i++ {
		if isGranted(verifK26IDs[i]) {
			found := false
			for k := 0; k < len(got) && k < 8; k++ {
				if got[k].GetId() == verifK26IDs[i] {
					found = true
				}
			}
			vt.Assert(found, "a granted existing store is missing from ListStores")
		}
	}
	if nG == 0 {
		vt.Reach("nothing-granted")
		vt.Assert(len(got) == 0, "caller without any can_call_get_store grant received stores")
	}
}
