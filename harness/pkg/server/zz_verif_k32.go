package server

import (
	"context"

	"google.golang.org/grpc/codes"
	"google.golang.org/grpc/status"
	"google.golang.org/protobuf/types/known/structpb"

	authzenv1 "github.com/openfga/api/proto/authzen/v1"
	openfgav1 "github.com/openfga/api/proto/openfga/v1"

	"github.com/openfga/openfga/internal/vt"
	"github.com/openfga/openfga/pkg/logger"
	servererrors "github.com/openfga/openfga/pkg/server/errors"
	"github.com/openfga/openfga/pkg/storage/memory"
)

// ---- K32a: AuthZEN -> Check request mapping (pure functions, no stub) ----------------------------------

func verifK32Props(present bool, kv map[string]string) *structpb.Struct {
	if !present {
		return nil
	}
	s := &structpb.Struct{Fields: map[string]*structpb.Value{}}
	for k, v := range kv {
		s.Fields[k] = structpb.NewStringValue(v)
	}
	return s
}

// VerifK32aBuildCheckRequest: user = <subject.type>:<subject.id>, relation = action.name, object =
// <resource.type>:<resource.id>; the context is subject_/resource_/action_-prefixed properties overlaid
// by the request context (request context wins); nothing to merge => nil context; a missing subject /
// resource / action is an error.
func VerifK32aBuildCheckRequest() {
	L := vt.ParamInt("len", 2)
	hasS, hasR, hasA := vt.ForkBool("hasSubject"), vt.ForkBool("hasResource"), vt.ForkBool("hasAction")
	pS, pR, pA, pC := vt.ForkBool("subjectProps"), vt.ForkBool("resourceProps"), vt.ForkBool("actionProps"), vt.ForkBool("reqContext")
	sid, rid := vt.ASCII("sid", L), vt.ASCII("rid", L)
	vS, vR, vA := vt.ASCII("vS", 1), vt.ASCII("vR", 1), vt.ASCII("vA", 1)
	cS, cR, cA, cK := vt.ASCII("cS", 1), vt.ASCII("cR", 1), vt.ASCII("cA", 1), vt.ASCII("cK", 1)
	// which prefixed keys the request context overrides
	ovS, ovR, ovA := vt.ForkBool("ctxOverridesSubject"), vt.ForkBool("ctxOverridesResource"), vt.ForkBool("ctxOverridesAction")

	var subject *authzenv1.Subject
	var resource *authzenv1.Resource
	var action *authzenv1.Action
	if hasS {
		subject = &authzenv1.Subject{Type: "user", Id: sid, Properties: verifK32Props(pS, map[string]string{"k": vS})}
	}
	if hasR {
		resource = &authzenv1.Resource{Type: "doc", Id: rid, Properties: verifK32Props(pR, map[string]string{"k": vR})}
	}
	if hasA {
		action = &authzenv1.Action{Name: "viewer", Properties: verifK32Props(pA, map[string]string{"k": vA})}
	}
	var reqCtx *structpb.Struct
	if pC {
		kv := map[string]string{"k": cK}
		if ovS {
			kv["subject_k"] = cS
		}
		if ovR {
			kv["resource_k"] = cR
		}
		if ovA {
			kv["action_k"] = cA
		}
		reqCtx = verifK32Props(true, kv)
	}

	req, err := buildCheckRequest("S1", "M1", subject, resource, action, reqCtx)

	if !hasS || !hasR || !hasA {
		vt.Reach("incomplete")
		vt.Assert(err != nil && req == nil, "evaluation without subject/resource/action was mapped to a Check")
		return
	}
	vt.Reach("mapped")
	vt.Assert(err == nil && req != nil, "complete evaluation not mapped")
	if err != nil || req == nil {
		return
	}
	vt.Assert(req.GetStoreId() == "S1" && req.GetAuthorizationModelId() == "M1", "store/model not passed through")
	tk := req.GetTupleKey()
	vt.Assert(tk.GetUser() == "user:"+sid, "user is not <subject.type>:<subject.id>")
	vt.Assert(tk.GetRelation() == "viewer", "relation is not the action name")
	vt.Assert(tk.GetObject() == "doc:"+rid, "object is not <resource.type>:<resource.id>")
	vt.Assert(len(req.GetContextualTuples().GetTupleKeys()) == 0, "contextual tuples invented")

	// reference merge
	want := map[string]string{}
	if pS {
		want["subject_k"] = vS
	}
	if pR {
		want["resource_k"] = vR
	}
	if pA {
		want["action_k"] = vA
	}
	if pC {
		want["k"] = cK
		if ovS {
			want["subject_k"] = cS
		}
		if ovR {
			want["resource_k"] = cR
		}
		if ovA {
			want["action_k"] = cA
		}
	}
	got := req.GetContext().GetFields()
	if len(want) == 0 {
		vt.Reach("no-context")
		vt.Assert(req.GetContext() == nil, "empty merge must yield no context")
		return
	}
	vt.Reach("merged-context")
	vt.Assert(len(got) == len(want), "merged context has extra or missing keys")
	for _, key := range []string{"k", "subject_k", "resource_k", "action_k"} {
		w, inWant := want[key]
		g, inGot := got[key]
		vt.Assert(inWant == inGot, "merged context key set differs")
		if inWant && inGot {
			_, isStr := g.GetKind().(*structpb.Value_StringValue)
			vt.Assert(isStr && g.GetStringValue() == w, "merged context value is not the highest-precedence one (request context > action/resource/subject properties)")
		}
	}
}

// ---- K32b: Evaluation / Evaluations decisions = native Check of the mapped request ---------------------
//
// The native API is a function `allow` of the mapped tuple (2 users x 2 relations x 2 objects, symbolic
// bits); relation "bogus" makes the native call fail.
//   * under the engine (*Server).Check / BatchCheck are replaced by that function (vt.Stub) and the stub
//     also checks the context each mapped request carries;
//   * natively the REAL server is built (memory datastore, model with viewer/editor, one tuple per true
//     `allow` bit), so a counterexample is replayed end to end; "bogus" is rejected by real validation.

var verifK32Users = []string{"user:a", "user:b"}
var verifK32Rels = []string{"viewer", "editor"}
var verifK32Objs = []string{"doc:1", "doc:2"}

func verifK32Index(list []string, s string) int {
	for i, x := range list {
		if x == s {
			return i
		}
	}
	return -1
}

type verifK32Native struct {
	allow      [8]bool
	topCtx     bool
	checkCalls int
	hasOther   bool // some item carries its own context {k: other}
	flipOther  bool // ... under which the native decision is the opposite one
}

// answer: (allowed, failed) for a mapped tuple; also validates the context the mapped request carries.
func (n *verifK32Native) answer(tk *openfgav1.CheckRequestTupleKey, c *structpb.Struct) (bool, bool) {
	u, r, o := verifK32Index(verifK32Users, tk.GetUser()), verifK32Index(verifK32Rels, tk.GetRelation()), verifK32Index(verifK32Objs, tk.GetObject())
	vt.Assert(u >= 0 && o >= 0, "mapped request names an unknown user/object")
	f := c.GetFields()
	// subject a carries properties {dept: eng}; subject b none
	_, hasDept := f["subject_dept"]
	vt.Assert(hasDept == (u == 0), "subject properties of the evaluated subject not merged as subject_<key>")
	// the item (user:a, editor, doc:2) has its own context {k: item}: it replaces the top-level one
	wantK := ""
	if n.topCtx {
		wantK = "top"
	}
	if u == 0 && r == 1 && o == 1 {
		wantK = "item"
	}
	other := n.hasOther && u == 0 && r == 0 && o == 0 && f["k"].GetStringValue() == "other"
	vt.Assert(other || f["k"].GetStringValue() == wantK, "context of the evaluation is not item context, else top-level context")
	if r < 0 || u < 0 || o < 0 {
		return false, true
	}
	if other {
		// the decision of the native Check depends on the context it is given (think of a condition on k)
		return n.allow[0] != n.flipOther, false
	}
	return n.allow[u*4+r*2+o], false
}

type verifK32Flags struct{}

func (verifK32Flags) Boolean(flag string, storeID string) bool { return true }

const verifK32Store = "01HVMMBCMGZNT3SED4Z17ECXCA"

// verifK32Item: evaluation item by kind; expected mapped tuple (u,r,o), r=-1 for the bogus action.
func verifK32Item(kind int) (*authzenv1.EvaluationsItemRequest, int, int, int) {
	switch kind {
	case 1:
		return &authzenv1.EvaluationsItemRequest{Subject: &authzenv1.Subject{Type: "user", Id: "b"}}, 1, 0, 0
	case 2:
		return &authzenv1.EvaluationsItemRequest{Resource: &authzenv1.Resource{Type: "doc", Id: "2"}}, 0, 0, 1
	case 3:
		return &authzenv1.EvaluationsItemRequest{Action: &authzenv1.Action{Name: "editor"}}, 0, 1, 0
	case 4:
		return &authzenv1.EvaluationsItemRequest{Action: &authzenv1.Action{Name: "bogus"}}, 0, -1, 0
	case 5:
		return &authzenv1.EvaluationsItemRequest{
			Resource: &authzenv1.Resource{Type: "doc", Id: "2"}, Action: &authzenv1.Action{Name: "editor"},
			Context: verifK32Props(true, map[string]string{"k": "item"}),
		}, 0, 1, 1
	case 6:
		// same subject / action / resource as the request, but its own context: differs from an inheriting item in
		// nothing but the context
		return &authzenv1.EvaluationsItemRequest{Context: verifK32Props(true, map[string]string{"k": "other"})}, 0, 0, 0
	}
	return &authzenv1.EvaluationsItemRequest{}, 0, 0, 0
}

func VerifK32bEvaluations() {
	N := vt.ParamInt("n", 3)
	n := vt.Choose("n", N+1)        // 0 = "behaves like a single evaluation"
	sem := vt.Choose("semantic", 4) // 0 no options, 1 execute_all, 2 deny_on_first_deny, 3 permit_on_first_permit
	nat := &verifK32Native{topCtx: vt.ForkBool("topContext")}
	nat.flipOther = vt.Symbolic() && vt.Bool("flipOther") // natively the model has no condition: same decision
	for k := 0; k < 8; k++ {
		nat.allow[k] = vt.Bool("allow" + string(rune('0'+k)))
	}
	kinds := make([]int, n)
	us, rs, os := make([]int, n), make([]int, n), make([]int, n)
	req := &authzenv1.EvaluationsRequest{
		StoreId:  verifK32Store,
		Subject:  &authzenv1.Subject{Type: "user", Id: "a", Properties: verifK32Props(true, map[string]string{"dept": "eng"})},
		Resource: &authzenv1.Resource{Type: "doc", Id: "1"},
		Action:   &authzenv1.Action{Name: "viewer"},
	}
	if nat.topCtx {
		req.Context = verifK32Props(true, map[string]string{"k": "top"})
	}
	for i := 0; i < n; i++ {
		kinds[i] = vt.Choose("kind"+string(rune('0'+i)), 7)
		if kinds[i] == 6 {
			nat.hasOther = true
		}
		var it *authzenv1.EvaluationsItemRequest
		it, us[i], rs[i], os[i] = verifK32Item(kinds[i])
		req.Evaluations = append(req.Evaluations, it)
	}
	switch sem {
	case 1:
		req.Options = &authzenv1.EvaluationsOptions{EvaluationsSemantic: authzenv1.EvaluationsSemantic_execute_all}
	case 2:
		req.Options = &authzenv1.EvaluationsOptions{EvaluationsSemantic: authzenv1.EvaluationsSemantic_deny_on_first_deny}
	case 3:
		req.Options = &authzenv1.EvaluationsOptions{EvaluationsSemantic: authzenv1.EvaluationsSemantic_permit_on_first_permit}
	}

	ctx := context.Background()
	var s *Server
	if vt.Symbolic() {
		s = &Server{logger: logger.NewNoopLogger(), serviceName: "verif", featureFlagClient: verifK32Flags{}}
		vt.Stub("github.com/openfga/openfga/pkg/middleware/validator.RequestIsValidatedFromContext",
			func(ctx context.Context) bool { return true })
		vt.Stub("(*github.com/openfga/openfga/pkg/server.Server).Check",
			func(s *Server, ctx context.Context, r *openfgav1.CheckRequest) (*openfgav1.CheckResponse, error) {
				nat.checkCalls++
				vt.Assert(r.GetStoreId() == verifK32Store && r.GetAuthorizationModelId() == "", "store / model id of the mapped Check")
				allowed, failed := nat.answer(r.GetTupleKey(), r.GetContext())
				if failed {
					return nil, status.Error(codes.InvalidArgument, "relation not found")
				}
				return &openfgav1.CheckResponse{Allowed: allowed}, nil
			})
		vt.Stub("(*github.com/openfga/openfga/pkg/server.Server).BatchCheck",
			func(s *Server, ctx context.Context, r *openfgav1.BatchCheckRequest) (*openfgav1.BatchCheckResponse, error) {
				vt.Assert(r.GetStoreId() == verifK32Store && r.GetAuthorizationModelId() == "", "store / model id of the mapped BatchCheck")
				out := map[string]*openfgav1.BatchCheckSingleResult{}
				for _, it := range r.GetChecks() {
					allowed, failed := nat.answer(it.GetTupleKey(), it.GetContext())
					if failed {
						out[it.GetCorrelationId()] = &openfgav1.BatchCheckSingleResult{CheckResult: &openfgav1.BatchCheckSingleResult_Error{
							Error: &openfgav1.CheckError{Code: &openfgav1.CheckError_InputError{InputError: openfgav1.ErrorCode_validation_error}, Message: "relation not found"}}}
					} else {
						out[it.GetCorrelationId()] = &openfgav1.BatchCheckSingleResult{CheckResult: &openfgav1.BatchCheckSingleResult_Allowed{Allowed: allowed}}
					}
				}
				return &openfgav1.BatchCheckResponse{Result: out}, nil
			})
		// HTTP status tables (regex sanitising, enum names by reflection) are outside: validation codes => 400
		vt.Stub("github.com/openfga/openfga/pkg/server/errors.NewEncodedError",
			func(code int32, msg string) *servererrors.EncodedError {
				return &servererrors.EncodedError{HTTPStatusCode: 400}
			})
	} else {
		s = MustNewServerWithOpts(WithDatastore(memory.New()), WithExperimentals("authzen"))
		defer s.Close()
		st, err := s.CreateStore(ctx, &openfgav1.CreateStoreRequest{Name: "verif"})
		vt.Assert(err == nil, "native set-up: CreateStore")
		if err != nil {
			return
		}
		req.StoreId = st.GetId()
		this := func() *openfgav1.Userset {
			return &openfgav1.Userset{Userset: &openfgav1.Userset_This{This: &openfgav1.DirectUserset{}}}
		}
		users := []*openfgav1.RelationReference{{Type: "user"}}
		_, err = s.WriteAuthorizationModel(ctx, &openfgav1.WriteAuthorizationModelRequest{
			StoreId:       st.GetId(),
			SchemaVersion: "1.1",
			TypeDefinitions: []*openfgav1.TypeDefinition{
				{Type: "user"},
				{Type: "doc", Relations: map[string]*openfgav1.Userset{"viewer": this(), "editor": this()},
					Metadata: &openfgav1.Metadata{Relations: map[string]*openfgav1.RelationMetadata{
						"viewer": {DirectlyRelatedUserTypes: users}, "editor": {DirectlyRelatedUserTypes: users}}}},
			},
		})
		vt.Assert(err == nil, "native set-up: WriteAuthorizationModel")
		var tks []*openfgav1.TupleKey
		for k := 0; k < 8; k++ {
			if nat.allow[k] {
				tks = append(tks, &openfgav1.TupleKey{User: verifK32Users[k/4], Relation: verifK32Rels[(k/2)%2], Object: verifK32Objs[k%2]})
			}
		}
		if len(tks) > 0 {
			_, err = s.Write(ctx, &openfgav1.WriteRequest{StoreId: st.GetId(), Writes: &openfgav1.WriteRequestWrites{TupleKeys: tks}})
			vt.Assert(err == nil, "native set-up: Write")
		}
	}

	resp, err := s.Evaluations(ctx, req)

	// reference decisions
	dec := func(i int) (allowed, failed bool) {
		if rs[i] < 0 {
			return false, true
		}
		if kinds[i] == 6 {
			return nat.allow[0] != nat.flipOther, false
		}
		return nat.allow[us[i]*4+rs[i]*2+os[i]], false
	}
	if n == 0 {
		vt.Reach("single")
		vt.Assert(err == nil && len(resp.GetEvaluations()) == 1, "empty evaluations list is not answered like a single evaluation")
		if err == nil && len(resp.GetEvaluations()) == 1 {
			vt.Assert(resp.GetEvaluations()[0].GetDecision() == nat.allow[0], "single evaluation decision differs from the native Check")
		}
		return
	}
	vt.Assert(err == nil && resp != nil, "Evaluations failed although every item is well formed")
	if err != nil || resp == nil {
		return
	}
	got := resp.GetEvaluations()
	// expected number of answered items
	wantLen := n
	if sem >= 2 {
		for i := 0; i < n; i++ {
			a, f := dec(i)
			stop := (sem == 2 && (f || !a)) || (sem == 3 && !f && a)
			if stop {
				wantLen = i + 1
				break
			}
		}
	}
	if sem < 2 {
		vt.Reach("execute-all")
	} else {
		vt.Reach("short-circuit")
		if vt.Symbolic() {
			vt.Assert(nat.checkCalls == wantLen, "short-circuit did not stop exactly at the first deny/permit (native checks issued)")
		}
	}
	vt.Assert(len(got) == wantLen, "number of evaluation responses")
	for i := 0; i < n && i < len(got); i++ {
		if i >= wantLen {
			break
		}
		a, f := dec(i)
		if f {
			vt.Assert(!got[i].GetDecision() && got[i].GetContext() != nil, "failed native check is not a deny with an error context")
		} else {
			vt.Assert(got[i].GetDecision() == a, "decision of evaluation i differs from the native Check of its mapped request")
			vt.Assert(got[i].GetContext() == nil, "error context on a successful evaluation")
		}
	}
}
