package server

import (
	"context"
	"errors"

	authzenv1 "github.com/openfga/api/proto/authzen/v1"
	openfgav1 "github.com/openfga/api/proto/openfga/v1"
	"google.golang.org/grpc"

	"github.com/openfga/openfga/internal/authz"
	"github.com/openfga/openfga/internal/vt"
	"github.com/openfga/openfga/internal/vtmodels"
	"github.com/openfga/openfga/pkg/authclaims"
	"github.com/openfga/openfga/pkg/encoder"
	"github.com/openfga/openfga/pkg/gateway"
	"github.com/openfga/openfga/pkg/logger"
	"github.com/openfga/openfga/pkg/storage"
	"github.com/openfga/openfga/pkg/typesystem"
)

// ---- K26d: every RPC entry point is gated -------------------------------------------------------------------
//
// Access control is on and the caller is NOT entitled: either the access-control store denies every relation,
// or it fails, or it would grant everything but the call carries no client identity. Then every store-scoped
// handler of the real Server (incl. the AuthZEN front-ends, which reach the data through Check / BatchCheck /
// ListUsers / StreamedListObjects) must answer with an error per call (per item for short-circuit Evaluations)
// and must not reach the datastore or the model resolver (Write may resolve the model, which it needs to find
// the modules of the request). The datastore is a nil-backed stub: any access panics and is recorded.

type verifK26dCtl struct {
	mode int // 0 deny, 1 fail, 2 allow
}

func (c *verifK26dCtl) Check(ctx context.Context, req *openfgav1.CheckRequest) (*openfgav1.CheckResponse, error) {
	switch c.mode {
	case 0:
		return &openfgav1.CheckResponse{Allowed: false}, nil
	case 1:
		return nil, errors.New("control store unavailable")
	}
	return &openfgav1.CheckResponse{Allowed: true}, nil
}

func (c *verifK26dCtl) ListObjects(ctx context.Context, req *openfgav1.ListObjectsRequest) (*openfgav1.ListObjectsResponse, error) {
	switch c.mode {
	case 0:
		return &openfgav1.ListObjectsResponse{}, nil
	case 1:
		return nil, errors.New("control store unavailable")
	}
	return &openfgav1.ListObjectsResponse{Objects: []string{"store:" + verifK32Store}}, nil
}

// verifK26dDS: every method of the embedded (nil) interface panics when called.
type verifK26dDS struct{ storage.OpenFGADatastore }

type verifK26dStream struct {
	grpc.ServerStream
	ctx  context.Context
	sent int
}

func (s *verifK26dStream) Context() context.Context { return s.ctx }
func (s *verifK26dStream) Send(*openfgav1.StreamedListObjectsResponse) error {
	s.sent++
	return nil
}

const verifK26dModel = "01HVMMBCMGZNT3SED4Z17ECXCB"

func VerifK26dDenyGate() {
	nH := 24
	h := vt.Choose("handler", nH)
	if p := vt.ParamInt("handler", -1); p >= 0 {
		vt.Assume(h == p)
	}
	mode := vt.Choose("ctl", 3)
	who := 2 // identified caller
	if mode == 2 {
		who = vt.Choose("anonymous", 2) // 0: no claims at all, 1: claims with an empty client id
	}
	resolved := 0
	ts, tsErr := typesystem.New(vtmodels.Model("direct"))
	vt.Assert(tsErr == nil, "set-up: model")
	s := &Server{
		logger:            logger.NewNoopLogger(),
		serviceName:       "verif",
		encoder:           encoder.NoopEncoder{},
		transport:         gateway.NewNoopTransport(),
		featureFlagClient: verifK32Flags{},
		datastore:         verifK26dDS{},
		authorizer:        authz.NewAuthorizer(&authz.Config{StoreID: "CTL", ModelID: "MDL"}, &verifK26dCtl{mode: mode}, logger.NewNoopLogger()),
		typesystemResolver: func(ctx context.Context, storeID, modelID string) (*typesystem.TypeSystem, error) {
			resolved++
			return ts, nil
		},
	}
	if vt.Symbolic() {
		vt.Stub("github.com/openfga/openfga/pkg/middleware/validator.RequestIsValidatedFromContext",
			func(ctx context.Context) bool { return true })
	}
	ctx := context.Background()
	switch who {
	case 1:
		ctx = authclaims.ContextWithAuthClaims(ctx, &authclaims.AuthClaims{Subject: "sub"})
	case 2:
		ctx = authclaims.ContextWithAuthClaims(ctx, &authclaims.AuthClaims{Subject: "sub", ClientID: "client1"})
	}
	st := verifK32Store
	tk := &openfgav1.CheckRequestTupleKey{User: "user:a", Relation: "viewer", Object: "document:1"}
	subj := &authzenv1.Subject{Type: "user", Id: "a"}
	res := &authzenv1.Resource{Type: "document", Id: "1"}
	act := &authzenv1.Action{Name: "viewer"}

	var err error
	answered := false // a non-error answer that carries a decision or data
	perItem := false
	touched := false
	stream := &verifK26dStream{ctx: ctx}
	vt.ExpectPanics()
	func() {
		defer func() {
			if r := recover(); r != nil {
				touched = true
			}
		}()
		switch h {
		case 0:
			var r *openfgav1.CheckResponse
			r, err = s.Check(ctx, &openfgav1.CheckRequest{StoreId: st, TupleKey: tk})
			answered = r != nil
		case 1:
			var r *openfgav1.BatchCheckResponse
			r, err = s.BatchCheck(ctx, &openfgav1.BatchCheckRequest{StoreId: st, Checks: []*openfgav1.BatchCheckItem{{TupleKey: tk, CorrelationId: "1"}}})
			answered = r != nil
		case 2:
			var r *openfgav1.ListObjectsResponse
			r, err = s.ListObjects(ctx, &openfgav1.ListObjectsRequest{StoreId: st, Type: "document", Relation: "viewer", User: "user:a"})
			answered = r != nil
		case 3:
			err = s.StreamedListObjects(&openfgav1.StreamedListObjectsRequest{StoreId: st, Type: "document", Relation: "viewer", User: "user:a"}, stream)
			answered = err == nil
		case 4:
			var r *openfgav1.ListUsersResponse
			r, err = s.ListUsers(ctx, &openfgav1.ListUsersRequest{StoreId: st, Object: &openfgav1.Object{Type: "document", Id: "1"}, Relation: "viewer",
				UserFilters: []*openfgav1.UserTypeFilter{{Type: "user"}}})
			answered = r != nil
		case 5:
			var r *openfgav1.ExpandResponse
			r, err = s.Expand(ctx, &openfgav1.ExpandRequest{StoreId: st, TupleKey: &openfgav1.ExpandRequestTupleKey{Object: "document:1", Relation: "viewer"}})
			answered = r != nil
		case 6:
			var r *openfgav1.ReadResponse
			r, err = s.Read(ctx, &openfgav1.ReadRequest{StoreId: st})
			answered = r != nil
		case 7:
			var r *openfgav1.WriteResponse
			r, err = s.Write(ctx, &openfgav1.WriteRequest{StoreId: st, Writes: &openfgav1.WriteRequestWrites{
				TupleKeys: []*openfgav1.TupleKey{{User: "user:a", Relation: "viewer", Object: "document:1"}}}})
			answered = r != nil
		case 8:
			var r *openfgav1.ReadChangesResponse
			r, err = s.ReadChanges(ctx, &openfgav1.ReadChangesRequest{StoreId: st})
			answered = r != nil
		case 9:
			var r *openfgav1.ReadAuthorizationModelResponse
			r, err = s.ReadAuthorizationModel(ctx, &openfgav1.ReadAuthorizationModelRequest{StoreId: st, Id: verifK26dModel})
			answered = r != nil
		case 10:
			var r *openfgav1.ReadAuthorizationModelsResponse
			r, err = s.ReadAuthorizationModels(ctx, &openfgav1.ReadAuthorizationModelsRequest{StoreId: st})
			answered = r != nil
		case 11:
			var r *openfgav1.WriteAuthorizationModelResponse
			r, err = s.WriteAuthorizationModel(ctx, &openfgav1.WriteAuthorizationModelRequest{StoreId: st, SchemaVersion: "1.1",
				TypeDefinitions: []*openfgav1.TypeDefinition{{Type: "user"}}})
			answered = r != nil
		case 12:
			var r *openfgav1.ReadAssertionsResponse
			r, err = s.ReadAssertions(ctx, &openfgav1.ReadAssertionsRequest{StoreId: st, AuthorizationModelId: verifK26dModel})
			answered = r != nil
		case 13:
			var r *openfgav1.WriteAssertionsResponse
			r, err = s.WriteAssertions(ctx, &openfgav1.WriteAssertionsRequest{StoreId: st, AuthorizationModelId: verifK26dModel})
			answered = r != nil
		case 14:
			var r *openfgav1.GetStoreResponse
			r, err = s.GetStore(ctx, &openfgav1.GetStoreRequest{StoreId: st})
			answered = r != nil
		case 15:
			var r *openfgav1.DeleteStoreResponse
			r, err = s.DeleteStore(ctx, &openfgav1.DeleteStoreRequest{StoreId: st})
			answered = r != nil
		case 16:
			var r *openfgav1.CreateStoreResponse
			r, err = s.CreateStore(ctx, &openfgav1.CreateStoreRequest{Name: "abc"})
			answered = r != nil
		case 17:
			var r *authzenv1.EvaluationResponse
			r, err = s.Evaluation(ctx, &authzenv1.EvaluationRequest{StoreId: st, Subject: subj, Resource: res, Action: act})
			answered = r != nil
		case 18, 19, 20:
			sem := []authzenv1.EvaluationsSemantic{authzenv1.EvaluationsSemantic_execute_all, authzenv1.EvaluationsSemantic_deny_on_first_deny,
				authzenv1.EvaluationsSemantic_permit_on_first_permit}[h-18]
			var r *authzenv1.EvaluationsResponse
			r, err = s.Evaluations(ctx, &authzenv1.EvaluationsRequest{StoreId: st, Subject: subj, Action: act,
				Options: &authzenv1.EvaluationsOptions{EvaluationsSemantic: sem},
				Evaluations: []*authzenv1.EvaluationsItemRequest{
					{Resource: res}, {Resource: &authzenv1.Resource{Type: "document", Id: "2"}}, {Resource: &authzenv1.Resource{Type: "document", Id: "3"}}}})
			if err == nil && r != nil {
				// answered per item: every item must carry an error, never a decision taken from the data
				perItem = true
				for i := 0; i < len(r.GetEvaluations()) && i < 4; i++ {
					it := r.GetEvaluations()[i]
					if it.GetDecision() || it.GetContext() == nil {
						answered = true
					}
				}
				if len(r.GetEvaluations()) == 0 {
					answered = true
				}
			}
		case 21:
			var r *authzenv1.SubjectSearchResponse
			r, err = s.SubjectSearch(ctx, &authzenv1.SubjectSearchRequest{StoreId: st, Subject: &authzenv1.SubjectFilter{Type: "user"}, Resource: res, Action: act})
			answered = r != nil
		case 22:
			var r *authzenv1.ResourceSearchResponse
			r, err = s.ResourceSearch(ctx, &authzenv1.ResourceSearchRequest{StoreId: st, Subject: subj, Resource: &authzenv1.ResourceFilter{Type: "document"}, Action: act})
			answered = r != nil
		case 23:
			var r *authzenv1.ActionSearchResponse
			r, err = s.ActionSearch(ctx, &authzenv1.ActionSearchRequest{StoreId: st, Subject: subj, Resource: res})
			answered = r != nil
		}
	}()
	vt.Reach("handler-returned")
	vt.Assert(!touched, "a handler reached the datastore although the caller is not authorized")
	if h != 7 {
		vt.Assert(resolved == 0, "a handler resolved the authorization model although the caller is not authorized")
	}
	vt.Assert(stream.sent == 0, "StreamedListObjects streamed objects to a caller that is not authorized")
	vt.Assert(!answered, "a handler answered a caller that is not authorized")
	if !perItem {
		vt.Assert(err != nil, "a handler returned no error to a caller that is not authorized")
	}
}
