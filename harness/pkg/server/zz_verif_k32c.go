package server

import (
	"context"

	authzenv1 "github.com/openfga/api/proto/authzen/v1"
	openfgav1 "github.com/openfga/api/proto/openfga/v1"

	"github.com/openfga/openfga/internal/vt"
	"github.com/openfga/openfga/pkg/logger"
	"github.com/openfga/openfga/pkg/storage/memory"
)

// ---- K32c: SubjectSearch / ResourceSearch = ListUsers / StreamedListObjects of the mapped request ------
//
// Native side: which of user:a, user:b (and the wildcard user:*) are viewers of doc:1, and which of
// doc:1, doc:2 user:a can view, are symbolic bits. Under the engine (*Server).ListUsers and
// (*Server).StreamedListObjects are replaced by functions answering from those bits (and checking the
// mapped request); natively the real server is built with exactly those tuples.

type verifK32Search struct {
	viewA1, viewB1, viewAny1, viewA2 bool
}

func verifK32SearchServer(ctx context.Context, b *verifK32Search) (*Server, string, bool) {
	if vt.Symbolic() {
		s := &Server{logger: logger.NewNoopLogger(), serviceName: "verif", featureFlagClient: verifK32Flags{}}
		vt.Stub("github.com/openfga/openfga/pkg/middleware/validator.RequestIsValidatedFromContext",
			func(ctx context.Context) bool { return true })
		vt.Stub("(*github.com/openfga/openfga/pkg/server.Server).ListUsers",
			func(s *Server, ctx context.Context, r *openfgav1.ListUsersRequest) (*openfgav1.ListUsersResponse, error) {
				vt.Assert(r.GetStoreId() == verifK32Store && r.GetObject().GetType() == "doc" && r.GetObject().GetId() == "1" && r.GetRelation() == "viewer",
					"SubjectSearch: object/relation of the mapped ListUsers")
				vt.Assert(len(r.GetUserFilters()) == 1 && r.GetUserFilters()[0].GetType() == "user" && r.GetUserFilters()[0].GetRelation() == "",
					"SubjectSearch: user filter is not the subject type")
				vt.Assert(r.GetContext().GetFields()["resource_tier"].GetStringValue() == "gold" && len(r.GetContext().GetFields()) == 1,
					"SubjectSearch: properties not merged into the context")
				var us []*openfgav1.User
				if b.viewAny1 {
					us = append(us, &openfgav1.User{User: &openfgav1.User_Wildcard{Wildcard: &openfgav1.TypedWildcard{Type: "user"}}})
				}
				if b.viewA1 {
					us = append(us, &openfgav1.User{User: &openfgav1.User_Object{Object: &openfgav1.Object{Type: "user", Id: "a"}}})
				}
				if b.viewB1 {
					us = append(us, &openfgav1.User{User: &openfgav1.User_Object{Object: &openfgav1.Object{Type: "user", Id: "b"}}})
				}
				return &openfgav1.ListUsersResponse{Users: us}, nil
			})
		vt.Stub("(*github.com/openfga/openfga/pkg/server.Server).StreamedListObjects",
			func(s *Server, r *openfgav1.StreamedListObjectsRequest, srv openfgav1.OpenFGAService_StreamedListObjectsServer) error {
				vt.Assert(r.GetStoreId() == verifK32Store && r.GetUser() == "user:a" && r.GetRelation() == "viewer" && r.GetType() == "doc",
					"ResourceSearch: user/relation/type of the mapped ListObjects")
				vt.Assert(r.GetContext().GetFields()["subject_dept"].GetStringValue() == "eng" && len(r.GetContext().GetFields()) == 1,
					"ResourceSearch: properties not merged into the context")
				if b.viewA1 || b.viewAny1 {
					if err := srv.Send(&openfgav1.StreamedListObjectsResponse{Object: "doc:1"}); err != nil {
						return err
					}
				}
				if b.viewA2 {
					if err := srv.Send(&openfgav1.StreamedListObjectsResponse{Object: "doc:2"}); err != nil {
						return err
					}
				}
				return nil
			})
		return s, verifK32Store, true
	}
	s := MustNewServerWithOpts(WithDatastore(memory.New()), WithExperimentals("authzen"))
	st, err := s.CreateStore(ctx, &openfgav1.CreateStoreRequest{Name: "verif"})
	vt.Assert(err == nil, "native set-up: CreateStore")
	if err != nil {
		return s, "", false
	}
	_, err = s.WriteAuthorizationModel(ctx, &openfgav1.WriteAuthorizationModelRequest{
		StoreId:       st.GetId(),
		SchemaVersion: "1.1",
		TypeDefinitions: []*openfgav1.TypeDefinition{
			{Type: "user"},
			{Type: "doc", Relations: map[string]*openfgav1.Userset{"viewer": {Userset: &openfgav1.Userset_This{This: &openfgav1.DirectUserset{}}}},
				Metadata: &openfgav1.Metadata{Relations: map[string]*openfgav1.RelationMetadata{
					"viewer": {DirectlyRelatedUserTypes: []*openfgav1.RelationReference{
						{Type: "user"},
						{Type: "user", RelationOrWildcard: &openfgav1.RelationReference_Wildcard{Wildcard: &openfgav1.Wildcard{}}},
					}}}}},
		},
	})
	vt.Assert(err == nil, "native set-up: WriteAuthorizationModel")
	var tks []*openfgav1.TupleKey
	add := func(on bool, u, o string) {
		if on {
			tks = append(tks, &openfgav1.TupleKey{User: u, Relation: "viewer", Object: o})
		}
	}
	add(b.viewA1, "user:a", "doc:1")
	add(b.viewB1, "user:b", "doc:1")
	add(b.viewAny1, "user:*", "doc:1")
	add(b.viewA2, "user:a", "doc:2")
	if len(tks) > 0 {
		_, err = s.Write(ctx, &openfgav1.WriteRequest{StoreId: st.GetId(), Writes: &openfgav1.WriteRequestWrites{TupleKeys: tks}})
		vt.Assert(err == nil, "native set-up: Write")
	}
	return s, st.GetId(), err == nil
}

func VerifK32cSearch() {
	b := &verifK32Search{viewA1: vt.Bool("viewA1"), viewB1: vt.Bool("viewB1"), viewAny1: vt.Bool("viewAny1"), viewA2: vt.Bool("viewA2")}
	ctx := context.Background()
	s, store, ok := verifK32SearchServer(ctx, b)
	if !vt.Symbolic() {
		defer s.Close()
	}
	if !ok {
		return
	}
	if vt.Choose("which", 2) == 0 {
		resp, err := s.SubjectSearch(ctx, &authzenv1.SubjectSearchRequest{
			StoreId:  store,
			Subject:  &authzenv1.SubjectFilter{Type: "user"},
			Action:   &authzenv1.Action{Name: "viewer"},
			Resource: &authzenv1.Resource{Type: "doc", Id: "1", Properties: verifK32Props(true, map[string]string{"tier": "gold"})},
		})
		vt.Reach("subject-search")
		vt.Assert(err == nil && resp != nil, "SubjectSearch failed")
		if err != nil || resp == nil {
			return
		}
		var gotA, gotB, gotAny, other int
		for k := 0; k < len(resp.GetResults()) && k < 6; k++ {
			r := resp.GetResults()[k]
			switch {
			case r.GetType() == "user" && r.GetId() == "a":
				gotA++
			case r.GetType() == "user" && r.GetId() == "b":
				gotB++
			case r.GetType() == "user" && r.GetId() == "*":
				gotAny++
			default:
				other++
			}
		}
		vt.Assert(other == 0, "SubjectSearch returned a subject the native ListUsers did not")
		vt.Assert((gotA == 1) == b.viewA1 && gotA <= 1, "user:a in SubjectSearch iff in ListUsers")
		vt.Assert((gotB == 1) == b.viewB1 && gotB <= 1, "user:b in SubjectSearch iff in ListUsers")
		vt.Assert((gotAny == 1) == b.viewAny1 && gotAny <= 1, "wildcard in SubjectSearch iff in ListUsers (as id \"*\")")
		return
	}
	resp, err := s.ResourceSearch(ctx, &authzenv1.ResourceSearchRequest{
		StoreId:  store,
		Subject:  &authzenv1.Subject{Type: "user", Id: "a", Properties: verifK32Props(true, map[string]string{"dept": "eng"})},
		Action:   &authzenv1.Action{Name: "viewer"},
		Resource: &authzenv1.ResourceFilter{Type: "doc"},
	})
	vt.Reach("resource-search")
	vt.Assert(err == nil && resp != nil, "ResourceSearch failed")
	if err != nil || resp == nil {
		return
	}
	var got1, got2, other int
	for k := 0; k < len(resp.GetResults()) && k < 6; k++ {
		r := resp.GetResults()[k]
		switch {
		case r.GetType() == "doc" && r.GetId() == "1":
			got1++
		case r.GetType() == "doc" && r.GetId() == "2":
			got2++
		default:
			other++
		}
	}
	vt.Assert(other == 0, "ResourceSearch returned a resource the native ListObjects did not")
	vt.Assert((got1 == 1) == (b.viewA1 || b.viewAny1) && got1 <= 1, "doc:1 in ResourceSearch iff in ListObjects")
	vt.Assert((got2 == 1) == b.viewA2 && got2 <= 1, "doc:2 in ResourceSearch iff in ListObjects")
}
