package keys

import (
	"google.golang.org/protobuf/types/known/structpb"

	openfgav1 "github.com/openfga/api/proto/openfga/v1"

	"github.com/openfga/openfga/internal/vt"
)

// ---- K24b (keys package part): PbValue.WriteTo and Tuple.WriteTo are injective up to semantic equality ----
//
// Value trees: the shape (kind of every node, number of children, nil-ness) is chosen by vt.Choose /
// vt.ForkBool, i.e. concrete on each path; payloads (strings, map keys, bools) are symbolic. Numbers come
// from a small concrete set because the engine keeps floats concrete.

// VerifPbGen builds a value tree of depth <= depth. width[0] bounds the children of a container at this
// level, width[1:] the levels below (the last entry repeats).
func VerifPbGen(name string, depth int, width []int, strLen int) *structpb.Value {
	nk := 6
	if depth > 0 {
		nk = 8
	}
	if k := vt.ParamInt("kinds", nk); k < nk {
		nk = k // a job may restrict the kinds (in the order of the switch below)
	}
	w, below := 1, width
	if len(width) > 0 {
		w = width[0]
		if len(width) > 1 {
			below = width[1:]
		}
	}
	kind := vt.ParamInt("pin."+name+"k", -1) // a job may pin the kind of a node (splits the shape space over jobs)
	if kind < 0 || kind >= nk {
		kind = vt.Choose(name+"k", nk)
	}
	switch kind {
	case 0:
		return nil // absent value (nil pointer)
	case 1:
		return &structpb.Value{} // kind not set
	case 2:
		return structpb.NewNullValue()
	case 3:
		return structpb.NewBoolValue(vt.Bool(name + "b"))
	case 4:
		return structpb.NewStringValue(vt.String(name+"s", strLen))
	case 5:
		nums := []float64{0, 1, -2.5}
		return structpb.NewNumberValue(nums[vt.Choose(name+"f", len(nums))])
	case 6:
		if vt.ForkBool(name + "nil") {
			return &structpb.Value{Kind: &structpb.Value_ListValue{}} // list kind with nil list
		}
		n := vt.Choose(name+"n", w+1)
		l := &structpb.ListValue{}
		for i := 0; i < n; i++ {
			l.Values = append(l.Values, VerifPbGen(name+"e"+string(rune('0'+i)), depth-1, below, strLen))
		}
		return structpb.NewListValue(l)
	default:
		if vt.ForkBool(name + "nil") {
			return &structpb.Value{Kind: &structpb.Value_StructValue{}} // struct kind with nil struct
		}
		n := vt.Choose(name+"n", w+1)
		return structpb.NewStructValue(VerifPbStruct(name, n, depth-1, below, strLen))
	}
}

// VerifPbKeys: n pairwise different map keys. A single key is an arbitrary string. Several keys get a
// concrete, pairwise different first byte ('a'+rank, every assignment of ranks to positions by fork) and a
// tail of strLen-1 symbolic bytes, which keeps the order in which WriteTo's sort leaves them concrete on
// each path (a symbolic order makes the explicit stack of WriteTo a merge of all orders).
func VerifPbKeys(name string, n, strLen int) []string {
	if n == 1 {
		return []string{vt.String(name+"key0", strLen)}
	}
	var ks []string
	var ranks []int
	for i := 0; i < n; i++ {
		p := string(rune('0' + i))
		r := vt.Choose(name+"rank"+p, n)
		for _, o := range ranks {
			vt.Assume(r != o)
		}
		ranks = append(ranks, r)
		tail := ""
		if strLen > 1 {
			// exactly strLen-1 symbolic bytes: with a concrete length the comparison of two keys is decided
			// by their (concrete) first bytes already in the engine's term simplifier
			tail = vt.String(name+"key"+p, strLen-1)
			vt.Assume(len(tail) == strLen-1)
			tail = tail[:strLen-1]
		}
		ks = append(ks, string(rune('a'+r))+tail)
	}
	return ks
}

// VerifPbStruct: a struct with n fields (keys: VerifPbKeys).
func VerifPbStruct(name string, n, depth int, width []int, strLen int) *structpb.Struct {
	s := &structpb.Struct{Fields: map[string]*structpb.Value{}}
	for i, k := range VerifPbKeys(name, n, strLen) {
		s.Fields[k] = VerifPbGen(name+"f"+string(rune('0'+i)), depth, width, strLen)
	}
	return s
}

// VerifPbSame: semantic equality of two value trees. An absent value and a value without kind are both
// "unset"; a nil list is the empty list; a nil struct is the empty struct; struct fields are compared as
// a key -> value mapping (order is meaningless).
func VerifPbSame(a, b *structpb.Value) bool {
	ka, kb := a.GetKind(), b.GetKind()
	switch x := ka.(type) {
	case nil:
		return kb == nil
	case *structpb.Value_NullValue:
		_, ok := kb.(*structpb.Value_NullValue)
		return ok
	case *structpb.Value_BoolValue:
		y, ok := kb.(*structpb.Value_BoolValue)
		return ok && x.BoolValue == y.BoolValue
	case *structpb.Value_StringValue:
		y, ok := kb.(*structpb.Value_StringValue)
		return ok && x.StringValue == y.StringValue
	case *structpb.Value_NumberValue:
		y, ok := kb.(*structpb.Value_NumberValue)
		return ok && x.NumberValue == y.NumberValue
	case *structpb.Value_ListValue:
		y, ok := kb.(*structpb.Value_ListValue)
		if !ok || len(x.ListValue.GetValues()) != len(y.ListValue.GetValues()) {
			return false
		}
		same := true
		for i, e := range x.ListValue.GetValues() {
			if !VerifPbSame(e, y.ListValue.GetValues()[i]) {
				same = false
			}
		}
		return same
	case *structpb.Value_StructValue:
		y, ok := kb.(*structpb.Value_StructValue)
		return ok && VerifPbSameStruct(x.StructValue, y.StructValue)
	}
	return false
}

func VerifPbSameStruct(a, b *structpb.Struct) bool {
	fa, fb := a.GetFields(), b.GetFields()
	if len(fa) != len(fb) {
		return false
	}
	same := true
	for k, v := range fa {
		found := false
		for k2, v2 := range fb {
			// the recursive call is made unconditionally (not under the symbolic guard k == k2): the engine
			// turns loads made under an undecided guard into guarded unions, which `range` cannot iterate
			sv := VerifPbSame(v, v2)
			if k == k2 && sv {
				found = true
			}
		}
		if !found {
			same = false
		}
	}
	return same
}

func verifK24Widths() []int {
	return []int{vt.ParamInt("w", 1), vt.ParamInt("w2", 1)}
}

func verifK24Key(v *structpb.Value) Key {
	var kb Builder
	(*PbValue)(v).WriteTo(&kb)
	return kb.Key()
}

// Two value trees with equal encodings are semantically equal, and semantically equal trees encode equally.
func VerifK24bPbValueInjective() {
	d, L := vt.ParamInt("depth", 1), vt.ParamInt("str", 2)
	a := VerifPbGen("a", d, verifK24Widths(), L)
	b := VerifPbGen("b", d, verifK24Widths(), L)
	ka, kb := verifK24Key(a), verifK24Key(b)
	same := VerifPbSame(a, b)
	vt.Reach("encoded")
	if ka == kb {
		vt.Assert(same, "two semantically different context values have the same key bytes")
	}
	// prefix-freeness (what makes the concatenations in Tuple.WriteTo / InvariantCacheKey decodable): the
	// encoding of one value is a prefix of the encoding of another only if they are the same value
	if len(ka.data) <= len(kb.data) && kb.data[:len(ka.data)] == ka.data {
		vt.Assert(same, "the encoding of a context value is a proper prefix of the encoding of a different value")
	}
	if same {
		vt.Assert(ka == kb, "two semantically equal context values have different key bytes")
	}
}

// The same fields inserted in the opposite order give the same bytes (map order is irrelevant).
func VerifK24bPbValuePermute() {
	d, L := vt.ParamInt("depth", 1), vt.ParamInt("str", 2)
	n := vt.Choose("n", vt.ParamInt("fields", 3)) + 1
	ks := VerifPbKeys("p", n, L)
	var vs []*structpb.Value
	for i := 0; i < n; i++ {
		vs = append(vs, VerifPbGen("v"+string(rune('0'+i)), d, verifK24Widths(), L))
	}
	fwd := &structpb.Struct{Fields: map[string]*structpb.Value{}}
	rev := &structpb.Struct{Fields: map[string]*structpb.Value{}}
	for i := 0; i < n; i++ {
		fwd.Fields[ks[i]] = vs[i]
		rev.Fields[ks[n-1-i]] = vs[n-1-i]
	}
	vt.Reach("built")
	vt.Assert(verifK24Key(structpb.NewStructValue(fwd)) == verifK24Key(structpb.NewStructValue(rev)), "field insertion order changes the key bytes")
}

// ---- Tuple.WriteTo ----

type VerifK24Tuple struct {
	Obj, Rel, User string
	HasCond        bool
	Cond           string
	Ctx            *structpb.Struct // nil allowed
}

// VerifK24GenTuple: fields symbolic; condition present or not (fork); context nil or a struct with up to
// w fields of depth <= depth (fork).
//
// fixoru=1 (job parameter): object, relation and user have exactly L symbolic bytes. These three are plain
// EncodeString fields whose length framing is K24a's subject; with concrete lengths the offsets of the
// optional condition part, which is what is specific to tuples, stay concrete.
func VerifK24GenTuple(name string, depth int, width []int, L int) VerifK24Tuple {
	str := func(n string) string {
		s := vt.String(n, L)
		if vt.ParamInt("fixoru", 0) == 1 {
			vt.Assume(len(s) == L)
			s = s[:L]
		}
		return s
	}
	t := VerifK24Tuple{Obj: str(name + "o"), Rel: str(name + "r"), User: str(name + "u")}
	if vt.ForkBool(name + "cond") {
		t.HasCond = true
		t.Cond = vt.String(name+"c", L)
		if !vt.ForkBool(name + "nilctx") {
			w := 1
			if len(width) > 0 {
				w = width[0]
			}
			below := width
			if len(width) > 1 {
				below = width[1:]
			}
			t.Ctx = VerifPbStruct(name+"x", vt.Choose(name+"xn", w+1), depth, below, L)
		}
	}
	return t
}

func (t VerifK24Tuple) Key() *openfgav1.TupleKey {
	tk := &openfgav1.TupleKey{Object: t.Obj, Relation: t.Rel, User: t.User}
	if t.HasCond {
		tk.Condition = &openfgav1.RelationshipCondition{Name: t.Cond, Context: t.Ctx}
	}
	return tk
}

func VerifK24SameTuple(a, b VerifK24Tuple) bool {
	if a.HasCond != b.HasCond {
		return false
	}
	fields := a.Obj == b.Obj && a.Rel == b.Rel && a.User == b.User
	if !a.HasCond {
		return fields
	}
	ctx := VerifPbSameStruct(a.Ctx, b.Ctx) // evaluated before any symbolic branch (see VerifPbSameStruct)
	return fields && a.Cond == b.Cond && ctx
}

func VerifK24bTupleInjective() {
	d, L := vt.ParamInt("depth", 0), vt.ParamInt("str", 2)
	a := VerifK24GenTuple("a", d, verifK24Widths(), L)
	b := VerifK24GenTuple("b", d, verifK24Widths(), L)
	var ba, bb Builder
	(*Tuple)(a.Key()).WriteTo(&ba)
	(*Tuple)(b.Key()).WriteTo(&bb)
	same := VerifK24SameTuple(a, b)
	vt.Reach("encoded")
	if ba.Key() == bb.Key() {
		vt.Assert(same, "two different tuples have the same key bytes")
	}
	if same {
		vt.Assert(ba.Key() == bb.Key(), "two equal tuples have different key bytes")
	}
}

// A sequence of two tuples (as InvariantCacheKey writes contextual tuples: array header + tuples) is
// decodable: equal bytes imply the same tuples in the same positions, i.e. the optional condition part of
// one tuple cannot be confused with the start of the next tuple.
func VerifK24bTupleSequence() {
	L := vt.ParamInt("str", 2)
	N := vt.ParamInt("seq", 2)
	na, nb := vt.Choose("na", N+1), vt.Choose("nb", N+1)
	vt.Assume(na <= nb) // the claim is symmetric in the two lists
	// three tuple shapes: no condition / condition with nil context / condition with a one-field context
	// (the value kinds of contexts are VerifK24bTupleInjective's and VerifK24bPbValueInjective's subject)
	gen := func(name string) VerifK24Tuple {
		str := func(n string) string {
			s := vt.String(n, L)
			if vt.ParamInt("fixoru", 0) == 1 {
				vt.Assume(len(s) == L)
				s = s[:L]
			}
			return s
		}
		t := VerifK24Tuple{Obj: str(name + "o"), Rel: str(name + "r"), User: str(name + "u")}
		switch vt.Choose(name+"shape", 3) {
		case 1:
			t.HasCond, t.Cond = true, vt.String(name+"c", L)
		case 2:
			t.HasCond, t.Cond = true, vt.String(name+"c", L)
			t.Ctx = &structpb.Struct{Fields: map[string]*structpb.Value{vt.String(name+"k", L): structpb.NewStringValue(vt.String(name+"v", L))}}
		}
		return t
	}
	var as, bs []VerifK24Tuple
	var ea, eb []Serializable
	for i := 0; i < na; i++ {
		t := gen("a" + string(rune('0'+i)))
		as = append(as, t)
		ea = append(ea, (*Tuple)(t.Key()))
	}
	for i := 0; i < nb; i++ {
		t := gen("b" + string(rune('0'+i)))
		bs = append(bs, t)
		eb = append(eb, (*Tuple)(t.Key()))
	}
	var ba, bb Builder
	ba.EncodeArray(ea)
	bb.EncodeArray(eb)
	same := na == nb
	if na == nb {
		for i := 0; i < na; i++ {
			s := VerifK24SameTuple(as[i], bs[i]) // evaluated outside the symbolic branch below
			same = same && s
		}
	}
	vt.Reach("encoded")
	if ba.Key() == bb.Key() {
		vt.Assert(na == nb, "tuple lists of different length have the same key bytes")
		vt.Assert(same, "different tuple lists have the same key bytes")
	}
}
