package keys

import (
	"google.golang.org/protobuf/types/known/structpb"

	openfgav1 "github.com/openfga/api/proto/openfga/v1"

	"github.com/openfga/openfga/internal/vt"
)

// ---- K19 (cache keys): serialising hostile context values never panics ------------------------------
//
// Value trees of depth <= 3 with every kind at every node, including absent values (nil pointers), values
// without kind, list kind with nil list, struct kind with nil struct, nil list elements and nil field
// values (shape by vt.Choose, payloads symbolic; generator in zz_verif_k24b.go). The obligation is the
// implicit one (no reachable runtime panic) plus: the explicit stack is empty at the end, i.e. WriteTo
// terminates having emitted at least one byte per node.

func VerifK19PbValueWriteTo() {
	d, L := vt.ParamInt("depth", 3), vt.ParamInt("str", 2)
	v := VerifPbGen("v", d, []int{vt.ParamInt("w", 2), vt.ParamInt("w2", 1), vt.ParamInt("w3", 1)}, L)
	var kb Builder
	(*PbValue)(v).WriteTo(&kb)
	vt.Reach("written")
	vt.Assert(len(kb.Bytes()) >= 1, "nothing was written for a value")
	var nilv *PbValue
	nilv.WriteTo(&kb)
}

// Tuple.WriteTo on nil tuples, nil conditions, nil contexts, contexts with nil field maps and hostile values.
func VerifK19TupleWriteTo() {
	d, L := vt.ParamInt("depth", 2), vt.ParamInt("str", 2)
	var tk *openfgav1.TupleKey
	switch vt.Choose("shape", 5) {
	case 0:
		tk = nil
	case 1:
		tk = &openfgav1.TupleKey{Object: vt.String("o", L), Relation: vt.String("r", L), User: vt.String("u", L)}
	case 2:
		tk = &openfgav1.TupleKey{Object: vt.String("o", L), Condition: &openfgav1.RelationshipCondition{Name: vt.String("c", L)}}
	case 3:
		tk = &openfgav1.TupleKey{Condition: &openfgav1.RelationshipCondition{Context: &structpb.Struct{}}}
	default:
		ctx := VerifPbStruct("x", vt.Choose("n", vt.ParamInt("fields", 2)+1), d, []int{vt.ParamInt("w", 1), 1}, L)
		tk = &openfgav1.TupleKey{User: vt.String("u", L), Condition: &openfgav1.RelationshipCondition{Name: vt.String("c", L), Context: ctx}}
	}
	var kb Builder
	(*Tuple)(tk).WriteTo(&kb)
	kb.Serialize((*Tuple)(tk))
	vt.Reach("written")
	vt.Assert(len(kb.Bytes()) >= 6, "a tuple encodes to fewer bytes than three empty strings take")
}
