package keys

import (
	"encoding/binary"

	"github.com/openfga/openfga/internal/vt"
)

// ---- K24a: the Builder's framing is uniquely decodable ----

type verifOp struct {
	kind int
	s    string
	u    uint64
	b    byte
	bl   bool
	n    int
}

func verifSymOp(name string, maxStr int) verifOp {
	return verifOp{
		kind: vt.Pick(name+".kind", 9),
		s:    vt.String(name+".s", maxStr),
		u:    vt.Uint64(name + ".u"),
		b:    vt.Byte(name + ".b"),
		bl:   vt.Bool(name + ".bl"),
		n:    vt.IntRange(name+".n", 0, 70000), // crosses the uvarint boundaries at 128 and 16384 (1/2/3 length bytes)
	}
}

func (o verifOp) apply(kb *Builder) {
	switch o.kind {
	case 0:
		kb.EncodeString(o.s)
	case 1:
		kb.EncodeBytes([]byte(o.s))
	case 2:
		kb.EncodeBool(o.bl)
	case 3:
		kb.EncodeByte(o.b)
	case 4:
		kb.EncodeUint64(o.u)
	case 5:
		kb.EncodeNull()
	case 6:
		kb.EncodeUnset()
	case 7:
		kb.EncodeArrayHeader(o.n)
	default:
		kb.EncodeMapHeader(o.n)
	}
}

func verifSameOp(a, b verifOp) bool {
	if a.kind != b.kind {
		return false
	}
	switch a.kind {
	case 0, 1:
		return a.s == b.s
	case 2:
		return a.bl == b.bl
	case 3:
		return a.b == b.b
	case 4:
		return a.u == b.u
	case 5, 6:
		return true
	default:
		return a.n == b.n
	}
}

// Two arbitrary sequences of Encode* calls (up to K each, arbitrary payloads) that produce the same
// bytes are the same sequence with the same payloads.
func VerifK24aUniqueDecoding() {
	K := vt.ParamInt("k", 2)
	maxStr := vt.ParamInt("str", 2)
	la := vt.IntRange("la", 0, K)
	lb := vt.IntRange("lb", 0, K)
	var a, b [3]verifOp
	var ka, kb Builder
	for i := 0; i < K && i < 3; i++ {
		a[i] = verifSymOp("a"+string(rune('0'+i)), maxStr)
		b[i] = verifSymOp("b"+string(rune('0'+i)), maxStr)
		if i < la {
			a[i].apply(&ka)
		}
		if i < lb {
			b[i].apply(&kb)
		}
	}
	vt.Reach("built")
	if ka.Key() == kb.Key() {
		vt.Reach("equal-keys")
		vt.Assert(la == lb, "different numbers of fields encode to the same bytes")
		for i := 0; i < K && i < 3; i++ {
			if i < la && i < lb {
				vt.Assert(verifSameOp(a[i], b[i]), "different fields encode to the same bytes")
			}
		}
	}
}

// uvarint framing is prefix-free for every pair of uint64 (covers lengths the string bound cannot reach).
func VerifK24aUvarintPrefixFree() {
	x, y := vt.Uint64("x"), vt.Uint64("y")
	ex := binary.AppendUvarint(nil, x)
	ey := binary.AppendUvarint(nil, y)
	vt.Reach("encoded")
	vt.Assert(len(ex) >= 1 && len(ex) <= 10, "uvarint length out of range")
	// ex is a prefix of ey only if x == y
	if len(ex) <= len(ey) {
		same := true
		for i := 0; i < 10; i++ {
			if i < len(ex) && ex[i] != ey[i] {
				same = false
			}
		}
		if same {
			vt.Assert(x == y, "uvarint encoding of one value is a prefix of another value's encoding")
		}
	}
}

// Key.String (hex rendering used by key-restricted cache back ends) is injective.
func VerifK24aHexInjective() {
	n := vt.ParamInt("len", 5)
	a, b := vt.String("a", n), vt.String("b", n)
	ka, kb := Key{data: a}, Key{data: b}
	vt.Reach("any")
	if ka.String() == kb.String() {
		vt.Assert(a == b, "two different keys render to the same hex string")
	}
	vt.Assert(len(ka.String()) == 2*len(a), "hex rendering has the wrong length")
}
