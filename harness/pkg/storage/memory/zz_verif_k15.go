package memory

import (
	"context"
	"errors"
	"time"

	openfgav1 "github.com/openfga/api/proto/openfga/v1"
	"google.golang.org/protobuf/types/known/timestamppb"

	"github.com/openfga/openfga/internal/vt"
	"github.com/openfga/openfga/pkg/storage"
)

// ---- K15: the changelog of the memory backend ----

// verifCReplayHolds replays the store's change entries, oldest first, onto an empty tuple set over the
// four keys of the K12 vocabulary and compares the outcome with the stored tuples (conditions included).
func verifCReplayHolds(ds *MemoryBackend, store string) bool {
	var present [4]bool
	var cond [4]int
	ok := true
	for _, c := range ds.changes[store] {
		k := c.Change.GetTupleKey()
		o, u := -1, -1
		for i := 0; i < 2; i++ {
			if k.GetObject() == "d:"+verifMObjID(i) {
				o = i
			}
			if k.GetUser() == verifMUser(i) {
				u = i
			}
		}
		if o < 0 || u < 0 || k.GetRelation() != "viewer" {
			ok = false // a change about a tuple outside the vocabulary
			continue
		}
		cn := 0
		if k.GetCondition().GetName() == verifMCond(1) {
			cn = 1
		} else if k.GetCondition().GetName() != "" {
			ok = false
		}
		for key := 0; key < 4; key++ {
			if key != 2*o+u {
				continue
			}
			switch c.Change.GetOperation() {
			case openfgav1.TupleOperation_TUPLE_OPERATION_WRITE:
				if present[key] {
					ok = false // write of a tuple that the log says exists
				}
				present[key], cond[key] = true, cn
			case openfgav1.TupleOperation_TUPLE_OPERATION_DELETE:
				if !present[key] {
					ok = false // delete of a tuple that the log says does not exist
				}
				present[key] = false
			default:
				ok = false
			}
		}
	}
	total := 0
	for key := 0; key < 4; key++ {
		t := verifMTup{o: key / 2, u: key % 2, c: cond[key]}
		cnt := 0
		for _, r := range ds.tuples[store] {
			if r.ObjectType == "d" && r.ObjectID == verifMObjID(t.o) && r.Relation == "viewer" && r.User == verifMUser(t.u) {
				cnt++
				if present[key] && !t.isRecord(r) {
					ok = false // same key, other condition
				}
			}
		}
		if present[key] {
			total++
			if cnt != 1 {
				ok = false
			}
		} else if cnt != 0 {
			ok = false
		}
	}
	return ok && len(ds.tuples[store]) == total
}

// K15 (inductive step): in a state reached through Write in which replay(changes) = tuples, one more
// Write (same inputs as K12: symbolic content, forked list lengths and options) preserves
// replay(changes) = tuples, and the changelog grows by exactly the number of effective operations
// (0 on failure).
func VerifK15WriteKeepsReplay() {
	n0 := verifMCount("n0", "pre") // tuples inserted by the first Write of the history
	pd := 0                        // ... one of which a second Write deletes again
	if n0 > 0 {
		if k := vt.ParamInt("pd", -1); k >= 0 {
			pd = k
		} else {
			pd = vt.Choose("pd", 2)
		}
	}
	nd := verifMCount("nd", "del")
	nw := verifMCount("nw", "wr")
	ignDup := verifMFlag("ignDup", "dup")
	ignMiss := verifMFlag("ignMiss", "miss")

	names := [...]string{"0", "1", "2", "3"}
	var hist, dels, wrs []verifMTup
	for i := 0; i < n0; i++ {
		hist = append(hist, verifMSymTup("pre"+names[i]))
	}
	for i := 0; i < nd; i++ {
		t := verifMSymTup("del" + names[i])
		t.c = 0
		dels = append(dels, t)
	}
	for i := 0; i < nw; i++ {
		wrs = append(wrs, verifMSymTup("wr"+names[i]))
	}
	vt.Assume(verifMPairwiseDistinctKeys(hist))
	var req []verifMTup
	req = append(req, dels...)
	req = append(req, wrs...)
	vt.Assume(verifMPairwiseDistinctKeys(req))

	ctx := context.Background()
	ds := New().(*MemoryBackend)
	var w0 storage.Writes
	for _, t := range hist {
		w0 = append(w0, t.writeKey())
	}
	vt.Assert(ds.Write(ctx, "s", nil, w0) == nil, "history: initial Write failed")
	if pd == 1 {
		vt.Assert(ds.Write(ctx, "s", storage.Deletes{hist[0].deleteKey()}, nil) == nil, "history: Write deleting an existing tuple failed")
	}
	pre := hist[pd:]
	vt.Assert(verifCReplayHolds(ds, "s"), "replay(changes) differs from the tuples after the history Writes")
	before := len(ds.changes["s"])
	vt.Assert(before == n0+pd, "history Writes did not log one entry per operation")

	var deletes storage.Deletes
	var writes storage.Writes
	for _, d := range dels {
		deletes = append(deletes, d.deleteKey())
	}
	for _, w := range wrs {
		writes = append(writes, w.writeKey())
	}
	err := ds.Write(ctx, "s", deletes, writes, verifMWriteOpts(ignDup, ignMiss)...)
	invalid, conflict, _, wantChanges := verifMReference(pre, dels, wrs, ignDup, ignMiss)
	vt.Reach("stepped")
	vt.Assert(verifCReplayHolds(ds, "s"), "after one more Write replay(changes) differs from the tuples")
	if err != nil {
		vt.Reach("rejected")
		vt.Assert(invalid || conflict, "a request the reference accepts was rejected")
		vt.Assert(len(ds.changes["s"]) == before, "a failed Write grew the changelog")
		return
	}
	vt.Reach("accepted")
	vt.Assert(len(ds.changes["s"]) == before+len(wantChanges), "the changelog did not grow by the number of effective operations")
	if len(wantChanges) > 0 {
		vt.Reach("effective")
	}
}

// ---- ReadChanges ----

func verifCType(i int) string {
	if i == 0 {
		return "d"
	}
	return "de" // "d" is a proper prefix of it: the type filter must compare up to the colon
}

// verifCHistory performs n Writes (each at its own instant of the abstract clock) of one tuple each:
// <type_i>:<i> # viewer @ user:a with a symbolic type.
func verifCHistory(ds *MemoryBackend, n int) []int {
	names := [...]string{"0", "1", "2", "3", "4"}
	var types []int
	for i := 0; i < n && i < 5; i++ {
		ty := vt.Pick("type"+names[i], 2)
		types = append(types, ty)
		err := ds.Write(context.Background(), "s", nil, storage.Writes{{Object: verifCType(ty) + ":" + names[i], Relation: "viewer", User: "user:a"}})
		vt.Assert(err == nil, "history Write failed")
	}
	return types
}

func verifCIndexOf(ch *openfgav1.TupleChange, types []int) int {
	names := [...]string{"0", "1", "2", "3", "4"}
	idx := -1
	for i, ty := range types {
		if ch.GetTupleKey().GetObject() == verifCType(ty)+":"+names[i] {
			idx = i
		}
	}
	return idx
}

// K15 horizon and type filter: ReadChanges never returns a change newer than now-horizon, returns
// every change that is old enough (and of the requested type: exact type, i.e. prefix "type:"), in the
// order of occurrence.
func VerifK15ReadChangesHorizon() {
	n := vt.Choose("n", vt.ParamInt("n", 3)+1)
	ds := New().(*MemoryBackend)
	types := verifCHistory(ds, n)
	ft := vt.Pick("ftype", 4) // 0 none, 1 "d", 2 "de", 3 "e" (no such objects)
	filter := ""
	if ft == 1 {
		filter = "d"
	} else if ft == 2 {
		filter = "de"
	} else if ft == 3 {
		filter = "e"
	}
	h := time.Duration(vt.Int64("horizon"))
	vt.Assume(h >= 0 && h < 1<<40)
	t1 := time.Now()
	res, tok, err := ds.ReadChanges(context.Background(), "s", storage.ReadChangesFilter{ObjectType: filter, HorizonOffset: h},
		storage.ReadChangesOptions{Pagination: storage.PaginationOptions{PageSize: 10}})
	t2 := time.Now()

	// reference: which history entries may / must be returned
	var must, may []bool
	nmust := 0
	for i := 0; i < n; i++ {
		ts := ds.changes["s"][i].Change.GetTimestamp().AsTime()
		typeOK := ft == 0 || (ft == 1 && types[i] == 0) || (ft == 2 && types[i] == 1)
		must = append(must, typeOK && !ts.After(t1.Add(-h))) // old enough whatever instant the call read the clock at
		may = append(may, typeOK && !ts.After(t2.Add(-h)))
		if must[i] {
			nmust++
		}
	}
	if err != nil {
		vt.Reach("not-found")
		vt.Assert(errors.Is(err, storage.ErrNotFound), "ReadChanges failed with an error other than ErrNotFound")
		vt.Assert(tok == "" && len(res) == 0, "ReadChanges returned data together with ErrNotFound")
		vt.Assert(nmust == 0, "ReadChanges reports ErrNotFound although a change is older than the horizon")
		return
	}
	vt.Reach("found")
	vt.Assert(len(res) > 0 && tok != "", "successful ReadChanges without changes or without token")
	last := -1
	for _, ch := range res {
		i := verifCIndexOf(ch, types)
		vt.Assert(i >= 0, "ReadChanges returned an entry that is not in the history")
		if i < 0 {
			continue
		}
		vt.Assert(may[i], "ReadChanges returned a change newer than now-horizon, or of another object type")
		vt.Assert(i > last, "ReadChanges did not return the changes in the order they occurred")
		vt.Assert(ch.GetOperation() == openfgav1.TupleOperation_TUPLE_OPERATION_WRITE, "wrong operation")
		last = i
	}
	for i := 0; i < n; i++ {
		if must[i] {
			found := false
			for _, ch := range res {
				if verifCIndexOf(ch, types) == i {
					found = true
				}
			}
			vt.Assert(found, "ReadChanges withheld a change that is older than the horizon and of the requested type")
		}
	}
	if len(res) < n {
		vt.Reach("withheld")
	}
}

// verifCPages follows continuation tokens and returns the indexes of the returned changes.
func verifCPages(ds *MemoryBackend, types []int, ps int, desc bool, maxPages int) []int {
	var out []int
	tok := ""
	for p := 0; p <= maxPages; p++ {
		res, next, err := ds.ReadChanges(context.Background(), "s", storage.ReadChangesFilter{},
			storage.ReadChangesOptions{Pagination: storage.PaginationOptions{PageSize: ps, From: tok}, SortDesc: desc})
		if err != nil {
			vt.Assert(errors.Is(err, storage.ErrNotFound), "ReadChanges with an issued token failed with an error other than ErrNotFound")
			return out
		}
		vt.Assert(len(res) >= 1 && len(res) <= ps, "page size not respected")
		for _, ch := range res {
			out = append(out, verifCIndexOf(ch, types))
		}
		tok = next
	}
	vt.Assert(false, "paging did not end within n+1 pages")
	return out
}

// verifCConcreteClock (engine only; param clock=1): Writes happen at the concrete instants 10, 20, ... and
// readers see the concrete instant 2^20. Change ulids and continuation tokens are then concrete, which
// keeps token parsing (26 table look-ups per token) out of the solver. With clock=0 the engine's
// abstract clock is used (symbolic instants, affordable for n <= 1).
func verifCConcreteClock() {
	if !vt.Symbolic() || vt.ParamInt("clock", 1) == 0 {
		return
	}
	tick := int64(0)
	vt.Stub("google.golang.org/protobuf/types/known/timestamppb.Now", func() *timestamppb.Timestamp {
		tick += 10
		return &timestamppb.Timestamp{Seconds: tick}
	})
	vt.Stub("time.Now", func() time.Time { return (&timestamppb.Timestamp{Seconds: 1 << 20}).AsTime() })
}

// K15 descending order: for every page size the descending page sequence is the exact reverse of the
// ascending one, which is the history itself.
func VerifK15ReadChangesDesc() {
	N := vt.ParamInt("n", 3)
	n := vt.Choose("n", N+1)
	verifCConcreteClock()
	ds := New().(*MemoryBackend)
	types := verifCHistory(ds, n)
	ps := 1 + vt.Choose("ps", N) // forked: page boundaries are structure
	asc := verifCPages(ds, types, ps, false, n)
	desc := verifCPages(ds, types, ps, true, n)
	vt.Reach("paged")
	vt.Assert(len(asc) == n && len(desc) == n, "paging does not return every change exactly once")
	for i := 0; i < n; i++ {
		vt.Assert(i < len(asc) && asc[i] == i, "ascending pages are not the history in order")
		vt.Assert(i < len(desc) && desc[i] == n-1-i, "descending pages are not the exact reverse of the ascending ones")
	}
}
