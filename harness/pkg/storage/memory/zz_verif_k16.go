package memory

import (
	"context"
	"errors"

	openfgav1 "github.com/openfga/api/proto/openfga/v1"

	"github.com/openfga/openfga/internal/vt"
	"github.com/openfga/openfga/pkg/storage"
)

// ---- K16b: frame property of the MemoryBackend mutators; K17b: model history; K31: assertions ----

func verifSNoBar(s string) bool {
	for i := 0; i < len(s); i++ {
		if s[i] == '|' {
			return false
		}
	}
	return true
}

func verifSModel(id string) *openfgav1.AuthorizationModel {
	return &openfgav1.AuthorizationModel{Id: id, SchemaVersion: "1.1", TypeDefinitions: []*openfgav1.TypeDefinition{{Type: "user"}}}
}

func verifSAssertion(obj string) *openfgav1.Assertion {
	return &openfgav1.Assertion{TupleKey: &openfgav1.AssertionTupleKey{Object: obj, Relation: "viewer", User: "user:a"}, Expectation: true}
}

// param models (K16bFrame): 1 = the stores hold authorization models and the model mutator/readers take
// part. The model table is a map of maps keyed by store; with fully symbolic store ids the engine cannot
// range over the inner map (guarded union of maps, see ENGINE_ISSUES), so models=1 runs with the concrete
// ids "A" and "B" and models=0 runs every other mutator and reader with arbitrary distinct symbolic ids.
func verifSWithModels() bool { return vt.ParamInt("models", 0) != 0 }

// verifSPopulate gives store id one tuple, one model "m1" and one assertion list for "m1".
func verifSPopulate(ds *MemoryBackend, id string, create bool) {
	ctx := context.Background()
	if create {
		_, err := ds.CreateStore(ctx, &openfgav1.Store{Id: id, Name: "n"})
		vt.Assert(err == nil, "setup: CreateStore failed")
	}
	vt.Assert(ds.Write(ctx, id, nil, storage.Writes{{Object: "d:1", Relation: "viewer", User: "user:a"}}) == nil, "setup: Write failed")
	if verifSWithModels() {
		vt.Assert(ds.WriteAuthorizationModel(ctx, id, verifSModel("m1")) == nil, "setup: WriteAuthorizationModel failed")
	}
	vt.Assert(ds.WriteAssertions(ctx, id, "m1", []*openfgav1.Assertion{verifSAssertion("d:1")}) == nil, "setup: WriteAssertions failed")
}

// verifSView is everything the read API shows about one store.
type verifSView struct {
	tuples     []*openfgav1.Tuple
	changes    []*openfgav1.TupleChange
	changesErr error
	latest     *openfgav1.AuthorizationModel
	latestErr  error
	byID       *openfgav1.AuthorizationModel
	models     []*openfgav1.AuthorizationModel
	assertions []*openfgav1.Assertion
	store      *openfgav1.Store
	storeErr   error
	listed     int
}

func verifSRead(ds *MemoryBackend, id string) verifSView {
	ctx := context.Background()
	var v verifSView
	var err error
	// (filter by object type: the unfiltered path uses the copy builtin, which the engine cannot apply to
	// the guarded union that a map lookup with a symbolic store id yields)
	v.tuples, _, err = ds.ReadPage(ctx, id, storage.ReadFilter{Object: "d:"}, storage.ReadPageOptions{Pagination: storage.PaginationOptions{PageSize: 10}})
	vt.Assert(err == nil, "ReadPage failed")
	v.changes, _, v.changesErr = ds.ReadChanges(ctx, id, storage.ReadChangesFilter{}, storage.ReadChangesOptions{Pagination: storage.PaginationOptions{PageSize: 10}})
	if verifSWithModels() {
		v.latest, v.latestErr = ds.FindLatestAuthorizationModel(ctx, id)
		v.byID, _ = ds.ReadAuthorizationModel(ctx, id, "m1")
		v.models, _, err = ds.ReadAuthorizationModels(ctx, id, storage.ReadAuthorizationModelsOptions{})
		vt.Assert(err == nil, "ReadAuthorizationModels failed")
	}
	v.assertions, err = ds.ReadAssertions(ctx, id, "m1")
	vt.Assert(err == nil, "ReadAssertions failed")
	v.store, v.storeErr = ds.GetStore(ctx, id)
	all, _, err := ds.ListStores(ctx, storage.ListStoresOptions{})
	vt.Assert(err == nil, "ListStores failed")
	for _, s := range all {
		if s.GetId() == id {
			v.listed++
		}
	}
	return v
}

func verifSSameView(x, y verifSView) bool {
	ok := len(x.tuples) == len(y.tuples) && len(x.changes) == len(y.changes) && len(x.models) == len(y.models) && len(x.assertions) == len(y.assertions)
	for i := 0; ok && i < len(x.tuples); i++ {
		a, b := x.tuples[i].GetKey(), y.tuples[i].GetKey()
		ok = a.GetObject() == b.GetObject() && a.GetRelation() == b.GetRelation() && a.GetUser() == b.GetUser() && a.GetCondition().GetName() == b.GetCondition().GetName()
	}
	for i := 0; ok && i < len(x.changes); i++ {
		ok = x.changes[i] == y.changes[i]
	}
	for i := 0; ok && i < len(x.models); i++ {
		ok = x.models[i] == y.models[i]
	}
	for i := 0; ok && i < len(x.assertions); i++ {
		ok = x.assertions[i] == y.assertions[i]
	}
	return ok && (x.changesErr == nil) == (y.changesErr == nil) && x.latest == y.latest && (x.latestErr == nil) == (y.latestErr == nil) &&
		x.byID == y.byID && x.store == y.store && (x.storeErr == nil) == (y.storeErr == nil) && x.listed == y.listed
}

// K16b: every mutator called for store A leaves every read of store B unchanged; a deleted store is gone
// from GetStore and ListStores. Store ids are arbitrary distinct strings (also empty, also with '|').
// Both stores hold a tuple with the same key, a model with the same id and assertions for that id.
func VerifK16bFrame() {
	L := vt.ParamInt("len", 2)
	a, b := vt.String("a", L), vt.String("b", L)
	op := vt.Choose("op", 5)
	if verifSWithModels() {
		a, b = "A", "B"
	} else {
		vt.Assume(a != b)
		vt.Assume(op != 1) // the model mutator runs in the models=1 job
	}
	verifCConcreteClock()
	ctx := context.Background()
	ds := New().(*MemoryBackend)
	verifSPopulate(ds, b, true)
	verifSPopulate(ds, a, op != 3)
	before := verifSRead(ds, b)
	vt.Assert(len(before.tuples) == 1 && len(before.changes) == 1 && len(before.assertions) == 1 && before.store != nil && before.listed == 1, "setup: store B is not fully visible")
	if verifSWithModels() {
		vt.Assert(before.latest != nil && before.byID == before.latest && len(before.models) == 1, "setup: the model of store B is not visible")
	}
	beforeA := verifSRead(ds, a)

	switch op {
	case 0:
		err := ds.Write(ctx, a, storage.Deletes{{Object: "d:1", Relation: "viewer", User: "user:a"}}, storage.Writes{{Object: "d:2", Relation: "viewer", User: "user:a"}})
		vt.Assert(err == nil, "Write on store A failed")
	case 1:
		vt.Assert(ds.WriteAuthorizationModel(ctx, a, verifSModel("m2")) == nil, "WriteAuthorizationModel on store A failed")
	case 2:
		vt.Assert(ds.WriteAssertions(ctx, a, "m1", []*openfgav1.Assertion{verifSAssertion("d:2"), verifSAssertion("d:3")}) == nil, "WriteAssertions on store A failed")
	case 3:
		_, err := ds.CreateStore(ctx, &openfgav1.Store{Id: a, Name: "n"})
		vt.Assert(err == nil, "CreateStore A failed")
	default:
		vt.Assert(ds.DeleteStore(ctx, a) == nil, "DeleteStore A failed")
	}

	vt.Reach("mutated")
	after := verifSRead(ds, b)
	vt.Assert(verifSSameView(before, after), "a mutator called for store A changed what store B reads")
	afterA := verifSRead(ds, a)
	switch op {
	case 0:
		vt.Assert(len(afterA.tuples) == 1 && afterA.tuples[0].GetKey().GetObject() == "d:2" && len(afterA.changes) == 3, "Write on store A had no effect on A")
	case 1:
		vt.Assert(afterA.latest != beforeA.latest && afterA.latest.GetId() == "m2" && len(afterA.models) == 2, "WriteAuthorizationModel on store A had no effect on A")
	case 2:
		vt.Assert(len(afterA.assertions) == 2, "WriteAssertions on store A had no effect on A")
	case 3:
		vt.Assert(beforeA.store == nil && beforeA.listed == 0 && afterA.store != nil && afterA.store.GetId() == a && afterA.listed == 1, "CreateStore A had no effect on A")
	default:
		vt.Assert(beforeA.store != nil && beforeA.listed == 1, "setup: store A was not visible")
		vt.Assert(afterA.store == nil && errors.Is(afterA.storeErr, storage.ErrNotFound), "GetStore returns a deleted store")
		vt.Assert(afterA.listed == 0, "ListStores returns a deleted store")
	}
}

// K16b (assertion keys): assertions are kept under fmt.Sprintf("%s|%s", store, model). Two different
// (store, model) pairs must not share an entry. param bar=0: ids come from an alphabet without '|'
// (ULIDs); bar=1: arbitrary bytes (reports what the solver finds).
func VerifK16bAssertionKey() {
	L := vt.ParamInt("len", 2)
	sa, ma, sb, mb := vt.String("sa", L), vt.String("ma", L), vt.String("sb", L), vt.String("mb", L)
	vt.Assume(sa != sb || ma != mb)
	if vt.ParamInt("bar", 0) == 0 {
		vt.Assume(verifSNoBar(sa) && verifSNoBar(ma) && verifSNoBar(sb) && verifSNoBar(mb))
	}
	ctx := context.Background()
	ds := New().(*MemoryBackend)
	list := []*openfgav1.Assertion{verifSAssertion("d:1")}
	vt.Assert(ds.WriteAssertions(ctx, sa, ma, list) == nil, "WriteAssertions failed")
	got, err := ds.ReadAssertions(ctx, sa, ma)
	vt.Assert(err == nil && len(got) == 1 && got[0] == list[0], "ReadAssertions does not return what was written")
	other, err := ds.ReadAssertions(ctx, sb, mb)
	vt.Reach("read-other")
	vt.Assert(err == nil && other != nil && len(other) == 0, "assertions written for one (store, model) pair are returned for a different pair")
}

// K17b: over a symbolic sequence of n <= N model writes into two stores (store of each write and model
// ids symbolic, ids pairwise distinct and non-empty): FindLatestAuthorizationModel is the last model
// written to that store, ReadAuthorizationModel returns every written model unchanged (the very
// object) in its own store only, models without types are reported as not found, and
// ReadAuthorizationModels lists exactly the store's models, greatest id first.
func VerifK17bModelHistory() {
	N := vt.ParamInt("n", 3)
	n := vt.Choose("n", N+1)
	L := vt.ParamInt("len", 2)
	names := [...]string{"0", "1", "2", "3"}
	stores := [...]string{"s", "t"}
	var ids []string
	var where []int
	var typed []bool
	for i := 0; i < n && i < 4; i++ {
		id := vt.String("id"+names[i], L)
		vt.Assume(id != "")
		for _, p := range ids {
			vt.Assume(p != id)
		}
		ids = append(ids, id)
		// forked, not merged: the model table is a map of maps keyed by store and the engine cannot range
		// over an inner map selected by a symbolic key
		where = append(where, vt.Choose("store"+names[i], 2))
		typed = append(typed, vt.Bool("typed"+names[i]))
	}
	ctx := context.Background()
	ds := New().(*MemoryBackend)
	var models []*openfgav1.AuthorizationModel
	for i := 0; i < n; i++ {
		m := &openfgav1.AuthorizationModel{Id: ids[i], SchemaVersion: "1.1"}
		if typed[i] {
			m.TypeDefinitions = []*openfgav1.TypeDefinition{{Type: "user"}}
		}
		models = append(models, m)
		st := stores[0]
		if where[i] == 1 {
			st = stores[1]
		}
		vt.Assert(ds.WriteAuthorizationModel(ctx, st, m) == nil, "WriteAuthorizationModel failed")
	}
	vt.Reach("written")
	for s := 0; s < 2; s++ {
		last := -1
		count := 0
		for i := 0; i < n; i++ {
			if where[i] == s {
				last = i
				count++
			}
		}
		got, err := ds.FindLatestAuthorizationModel(ctx, stores[s])
		if last < 0 {
			vt.Assert(errors.Is(err, storage.ErrNotFound) && got == nil, "FindLatestAuthorizationModel finds a model in a store without models")
		} else {
			ok := err == nil
			for i := 0; i < n; i++ {
				if i == last && got != models[i] {
					ok = false
				}
			}
			vt.Assert(ok, "FindLatestAuthorizationModel is not the last model written to the store")
		}
		for i := 0; i < n; i++ {
			m, err := ds.ReadAuthorizationModel(ctx, stores[s], ids[i])
			if where[i] == s && typed[i] {
				vt.Assert(err == nil && m == models[i], "ReadAuthorizationModel does not return the written model unchanged")
				vt.Assert(m == nil || (m.GetId() == ids[i] && m.GetSchemaVersion() == "1.1" && len(m.GetTypeDefinitions()) == 1), "a stored model was modified")
			} else {
				vt.Assert(errors.Is(err, storage.ErrNotFound) && m == nil, "ReadAuthorizationModel returns a model of another store, or a model without types")
			}
		}
		page, tok, err := ds.ReadAuthorizationModels(ctx, stores[s], storage.ReadAuthorizationModelsOptions{})
		vt.Assert(err == nil && tok == "" && len(page) == count, "ReadAuthorizationModels does not list exactly the store's models")
		for i := 0; i < n; i++ {
			cnt := 0
			for _, m := range page {
				if m == models[i] {
					cnt++
				}
			}
			if where[i] == s {
				vt.Assert(cnt == 1, "ReadAuthorizationModels misses or repeats a model of the store")
			} else {
				vt.Assert(cnt == 0, "ReadAuthorizationModels lists a model of another store")
			}
		}
		for k := 1; k < len(page); k++ {
			vt.Assert(page[k-1].GetId() > page[k].GetId(), "ReadAuthorizationModels is not ordered by descending id")
		}
	}
}

// K31: over a symbolic sequence of n <= N WriteAssertions on 2 stores x 2 models (ids symbolic strings
// without '|', which pair each operation addresses is symbolic, lists of 0..2 assertions):
// ReadAssertions returns the last list written for the pair (the very assertion objects, so contextual
// tuples and context are verbatim), other pairs are unaffected, a pair never written yields an empty
// non-nil list.
func VerifK31Assertions() {
	N := vt.ParamInt("n", 3)
	n := vt.Choose("n", N+1)
	L := vt.ParamInt("len", 2)
	names := [...]string{"0", "1", "2", "3"}
	var ps, pm, ln []int
	for i := 0; i < n && i < 4; i++ {
		ps = append(ps, vt.Pick("op"+names[i]+".store", 2))
		pm = append(pm, vt.Pick("op"+names[i]+".model", 2))
		ln = append(ln, vt.Pick("op"+names[i]+".len", 3))
	}
	s0, s1, m0, m1 := vt.String("s0", L), vt.String("s1", L), vt.String("m0", L), vt.String("m1", L)
	vt.Assume(s0 != s1)
	vt.Assume(m0 != m1)
	vt.Assume(verifSNoBar(s0))
	vt.Assume(verifSNoBar(s1))
	vt.Assume(verifSNoBar(m0))
	vt.Assume(verifSNoBar(m1))
	sel := func(i int, x, y string) string {
		if i == 0 {
			return x
		}
		return y
	}
	ctx := context.Background()
	ds := New().(*MemoryBackend)
	var lists [][]*openfgav1.Assertion
	for i := 0; i < n; i++ {
		full := []*openfgav1.Assertion{verifSAssertion("d:1"), verifSAssertion("d:2")}
		full[0].ContextualTuples = []*openfgav1.TupleKey{{Object: "d:9", Relation: "viewer", User: "user:c"}}
		list := full[:ln[i]]
		lists = append(lists, list)
		vt.Assert(ds.WriteAssertions(ctx, sel(ps[i], s0, s1), sel(pm[i], m0, m1), list) == nil, "WriteAssertions failed")
	}
	vt.Reach("written")
	for s := 0; s < 2; s++ {
		for m := 0; m < 2; m++ {
			last := -1
			for i := 0; i < n; i++ {
				if ps[i] == s && pm[i] == m {
					last = i
				}
			}
			got, err := ds.ReadAssertions(ctx, sel(s, s0, s1), sel(m, m0, m1))
			vt.Assert(err == nil, "ReadAssertions failed")
			if last < 0 {
				vt.Assert(got != nil && len(got) == 0, "a pair that was never written does not yield an empty, non-nil list")
				continue
			}
			for i := 0; i < n; i++ {
				if i != last {
					continue
				}
				ok := len(got) == len(lists[i])
				for k := 0; ok && k < len(got); k++ {
					ok = got[k] == lists[i][k]
				}
				vt.Assert(ok, "ReadAssertions does not return the last list written for the pair")
				if len(got) > 0 {
					vt.Assert(len(got[0].GetContextualTuples()) == 1 && got[0].GetContextualTuples()[0].GetObject() == "d:9" && got[0].GetExpectation(), "a stored assertion was modified")
					vt.Reach("non-empty")
				}
			}
		}
	}
}
