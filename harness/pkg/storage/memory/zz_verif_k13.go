package memory

import (
	"context"
	"errors"

	openfgav1 "github.com/openfga/api/proto/openfga/v1"

	"github.com/openfga/openfga/internal/vt"
	"github.com/openfga/openfga/pkg/storage"
)

// ---- K13: read semantics of the memory backend against the documented meaning of each filter ----
//
// Records and filters are tuples of small symbolic indexes; the strings handed to the backend are
// built from the indexes, the reference predicates are evaluated on the indexes (no string parsing in
// the reference). The harness forks on list lengths only.

func verifROType(i int) string {
	if i == 0 {
		return "d"
	}
	return "dd" // "d" is a strict prefix of it: a type filter must compare whole type names
}

func verifROID(i int) string {
	if i == 0 {
		return "1"
	}
	return "2"
}

func verifRRel(i int) string {
	if i == 0 {
		return "r"
	}
	return "w"
}

func verifRCond(i int) string {
	if i == 0 {
		return ""
	}
	if i == 1 {
		return "c1"
	}
	return "c2"
}

// user vocabulary: index -> string, user type, wildcard?, userset relation
const verifRUsers = 7

func verifRUser(u int) string {
	switch u {
	case 0:
		return "user:a"
	case 1:
		return "user:b"
	case 2:
		return "user:*"
	case 3:
		return "g:x#m"
	case 4:
		return "g:y#n"
	case 5:
		return "g:*"
	}
	return "gg:x#m" // type "g" is a strict prefix of type "gg"
}

// user object (without relation) and relation, as ReadStartingWithUser takes them
func verifRUserObject(u int) string {
	switch u {
	case 0:
		return "user:a"
	case 1:
		return "user:b"
	case 2:
		return "user:*"
	case 3:
		return "g:x"
	case 4:
		return "g:y"
	case 5:
		return "g:*"
	}
	return "gg:x"
}

func verifRUType(u int) int { // 0 user, 1 g, 2 h
	if u <= 2 {
		return 0
	}
	if u <= 5 {
		return 1
	}
	return 2
}

func verifRUTypeName(t int) string {
	if t == 0 {
		return "user"
	}
	if t == 1 {
		return "g"
	}
	return "gg"
}

func verifRUWild(u int) bool { return u == 2 || u == 5 }

func verifRURel(u int) int { // 0 none, 1 m, 2 n
	if u == 3 || u == 6 {
		return 1
	}
	if u == 4 {
		return 2
	}
	return 0
}

func verifRURelName(r int) string {
	if r == 1 {
		return "m"
	}
	if r == 2 {
		return "n"
	}
	return ""
}

type verifRRec struct{ ot, oid, rel, usr, cond int }

// param forkusers=1: the engine forks on each record's user (concrete user strings on every path; the
// userset classification decodes the user string rune by rune, which is costly on a merged string).
func verifRSymRec(name string) verifRRec {
	r := verifRRec{
		ot: vt.Pick(name+".ot", 2), oid: vt.Pick(name+".oid", 2), rel: vt.Pick(name+".rel", 2),
		cond: vt.Pick(name+".cond", 3),
	}
	if vt.ParamInt("forkusers", 0) != 0 {
		r.usr = vt.Choose(name+".usr", verifRUsers)
	} else {
		r.usr = vt.Pick(name+".usr", verifRUsers)
	}
	return r
}

func (r verifRRec) sameKey(x verifRRec) bool {
	return r.ot == x.ot && r.oid == x.oid && r.rel == x.rel && r.usr == x.usr
}

func (r verifRRec) record() *storage.TupleRecord {
	return &storage.TupleRecord{
		Store: "s", ObjectType: verifROType(r.ot), ObjectID: verifROID(r.oid), Relation: verifRRel(r.rel),
		User: verifRUser(r.usr), ConditionName: verifRCond(r.cond),
	}
}

// isTuple: the API tuple t renders record r (object, relation, user and the condition name round trip).
func (r verifRRec) isTuple(t *openfgav1.Tuple) bool {
	k := t.GetKey()
	return k.GetObject() == verifROType(r.ot)+":"+verifROID(r.oid) && k.GetRelation() == verifRRel(r.rel) &&
		k.GetUser() == verifRUser(r.usr) && k.GetCondition().GetName() == verifRCond(r.cond) &&
		(r.cond == 0) == (k.GetCondition() == nil)
}

// verifRStore builds a store "s" with n <= 3 symbolic records with pairwise distinct keys (store invariant).
func verifRStore() (*MemoryBackend, []verifRRec) {
	n := vt.ParamInt("nfix", -1) // pinned by the job (spreads the fork over parallel jobs) ...
	if n < 0 {
		n = vt.Choose("n", vt.ParamInt("n", 3)+1) // ... or forked over 0..n
	}
	names := [...]string{"0", "1", "2", "3"}
	var recs []verifRRec
	ds := New().(*MemoryBackend)
	for i := 0; i < n && i < 4; i++ {
		r := verifRSymRec("rec" + names[i])
		for _, x := range recs {
			vt.Assume(!r.sameKey(x))
		}
		recs = append(recs, r)
		ds.tuples["s"] = append(ds.tuples["s"], r.record())
	}
	// another store with a record that matches everything a filter can name: must never show up
	ds.tuples["t"] = append(ds.tuples["t"], &storage.TupleRecord{Store: "t", ObjectType: "d", ObjectID: "1", Relation: "r", User: "g:x#m"})
	return ds, recs
}

// verifRConds is a symbolic Conditions list: length forked (0..max), elements symbolic, duplicates and
// the empty name allowed. Length 0 is nil ("optional, can be nil").
func verifRConds(max int) ([]int, []string) {
	k := 0
	if max > 0 {
		k = vt.Choose("nconds", max+1)
	}
	names := [...]string{"0", "1", "2"}
	var idx []int
	var out []string
	for i := 0; i < k && i < 3; i++ {
		c := vt.Pick("cond"+names[i], 3)
		idx = append(idx, c)
		out = append(out, verifRCond(c))
	}
	return idx, out
}

func verifRCondOK(conds []int, c int) bool {
	if len(conds) == 0 {
		return true
	}
	for _, x := range conds {
		if x == c {
			return true
		}
	}
	return false
}

// verifRDrain consumes an iterator through its interface.
func verifRDrain(it storage.TupleIterator, max int) []*openfgav1.Tuple {
	var out []*openfgav1.Tuple
	for i := 0; i <= max; i++ {
		t, err := it.Next(context.Background())
		if err != nil {
			vt.Assert(errors.Is(err, storage.ErrIteratorDone), "iterator failed with an error other than ErrIteratorDone")
			return out
		}
		out = append(out, t)
	}
	vt.Assert(false, "iterator yields more tuples than the harness bound (more than two copies of every record)")
	return out
}

// verifRCompare: got is, as a multiset, exactly the records that satisfy want (each once).
func verifRCompare(recs []verifRRec, want []bool, got []*openfgav1.Tuple, dupMsg, missMsg, extraMsg string) {
	total := 0
	for i, r := range recs {
		cnt := 0
		for _, t := range got {
			if r.isTuple(t) {
				cnt++
			}
		}
		if want[i] {
			total++
			vt.Assert(cnt >= 1, missMsg)
			vt.Assert(cnt <= 1, dupMsg)
		} else {
			vt.Assert(cnt == 0, extraMsg)
		}
	}
	if len(got) != total {
		// attribute the surplus: every returned tuple must at least be one of the stored records
		for _, t := range got {
			known := false
			for _, r := range recs {
				if r.isTuple(t) {
					known = true
				}
			}
			vt.Assert(known, "a returned tuple is not a record of the store (content changed or foreign store)")
		}
	}
}

// verifRSelected is the list of records an iterator of this backend is going to yield (its state).
// That the iterator then yields records[i].AsTuple() one by one, in order, followed by ErrIteratorDone,
// and that AsTuple renders object, relation, user and condition unchanged is VerifK13Iterator.
func verifRSelected(it storage.TupleIterator) []*storage.TupleRecord {
	si, ok := it.(*staticIterator)
	vt.Assert(ok && si != nil, "memory backend returned an iterator that is not a staticIterator")
	if !ok || si == nil {
		return nil
	}
	vt.Assert(si.continuationToken == "", "unpaginated read carries a continuation token")
	return si.records
}

// verifRCompareRecs: got is, as a multiset of record pointers, exactly the stored records marked in want.
func verifRCompareRecs(stored []*storage.TupleRecord, want []bool, got []*storage.TupleRecord, dupMsg, missMsg, extraMsg string) {
	total := 0
	for i, s := range stored {
		cnt := 0
		for _, g := range got {
			if g == s {
				cnt++
			}
		}
		if want[i] {
			total++
			vt.Assert(cnt >= 1, missMsg)
			vt.Assert(cnt <= 1, dupMsg)
		} else {
			vt.Assert(cnt == 0, extraMsg)
		}
	}
	vt.Assert(len(got) == total, "the result holds something that is not a record of the store read from")
}

// verifRCheck compares the outcome of an iterator-returning read with the reference selection.
// param drain=1: consume the iterator through Next and compare tuple contents (small bounds);
// drain=0: compare the selected record pointers (the iterator protocol is VerifK13Iterator).
func verifRCheck(ds *MemoryBackend, recs []verifRRec, want []bool, it storage.TupleIterator, sorted bool, api string) {
	// jobs that isolate one input class name it (param case) so that their findings are told apart
	if c := vt.Param("case", ""); c != "" {
		api = "[" + c + "] " + api
	}
	nonEmpty := false
	if vt.ParamInt("drain", 0) != 0 {
		got := verifRDrain(it, 2*len(recs))
		vt.Reach("compared")
		verifRCompare(recs, want, got, api+" returned a tuple twice", api+" omitted a tuple that satisfies the filter", api+" returned a tuple that does not satisfy the filter")
		for i := 1; sorted && i < len(got); i++ {
			vt.Assert(got[i-1].GetKey().GetObject() <= got[i].GetKey().GetObject(), api+" results are not in ascending object order")
		}
		nonEmpty = len(got) > 0
	} else {
		got := verifRSelected(it)
		vt.Reach("compared")
		verifRCompareRecs(ds.tuples["s"], want, got, api+" returned a tuple twice", api+" omitted a tuple that satisfies the filter", api+" returned a tuple that does not satisfy the filter")
		for i := 1; sorted && i < len(got); i++ {
			vt.Assert(got[i-1].ObjectID <= got[i].ObjectID, api+" results are not in ascending object order")
		}
		nonEmpty = len(got) > 0
	}
	if nonEmpty {
		vt.Reach("non-empty")
	}
}

// K13 iterator protocol and AsTuple round trip: a staticIterator over n <= N symbolic records yields,
// through Head/Next, exactly the records' renderings in order and then ErrIteratorDone; ToArray likewise.
func VerifK13Iterator() {
	_, recs := verifRStore()
	var list []*storage.TupleRecord
	for _, r := range recs {
		list = append(list, r.record())
	}
	ctx := context.Background()
	it := &staticIterator{records: append([]*storage.TupleRecord(nil), list...)}
	for i := 0; i < len(recs); i++ {
		h, herr := it.Head(ctx)
		vt.Assert(herr == nil && recs[i].isTuple(h), "Head is not the next record")
		t, err := it.Next(ctx)
		vt.Assert(err == nil && recs[i].isTuple(t), "Next does not yield the records in order, unchanged")
	}
	vt.Reach("drained")
	_, err := it.Next(ctx)
	vt.Assert(errors.Is(err, storage.ErrIteratorDone), "Next after the last record is not ErrIteratorDone")
	_, err = it.Head(ctx)
	vt.Assert(errors.Is(err, storage.ErrIteratorDone), "Head after the last record is not ErrIteratorDone")
	all, tok, err := (&staticIterator{records: list}).ToArray(ctx)
	vt.Assert(err == nil && tok == "" && len(all) == len(recs), "ToArray does not return every record")
	for i := 0; i < len(recs) && i < len(all); i++ {
		vt.Assert(recs[i].isTuple(all[i]), "ToArray does not return the records in order, unchanged")
	}
}

// ---- ReadFilter (Read, ReadPage, ReadUserTuple) ----

type verifRFilter struct {
	okind, ot, oid int // okind: 0 no object, 1 type only ("T:"), 2 "T:ID"
	rkind, rel     int // rkind: 0 no relation
	ukind, usr, ut int // ukind: 0 no user, 1 type only ("T:"), 2 full user
	conds          []int
	f              storage.ReadFilter
}

func verifRSymFilter(maxConds int) verifRFilter {
	// (the condition list is drawn first: input names must be built while the path guard is literally true)
	conds, condNames := verifRConds(maxConds)
	x := verifRFilter{
		ot: vt.Pick("f.ot", 2), oid: vt.Pick("f.oid", 2),
		rkind: vt.Pick("f.rkind", 2), rel: vt.Pick("f.rel", 2),
		usr: vt.Pick("f.usr", verifRUsers), ut: vt.Pick("f.ut", 3),
	}
	// param forkkinds=1: fork on which of object / user is absent, type-only or complete (the filter
	// strings then have concrete lengths); content stays symbolic
	if vt.ParamInt("forkkinds", 0) != 0 {
		x.okind, x.ukind = vt.Choose("f.okind", 3), vt.Choose("f.ukind", 3)
	} else {
		x.okind, x.ukind = vt.Pick("f.okind", 3), vt.Pick("f.ukind", 3)
	}
	x.conds, x.f.Conditions = conds, condNames
	if x.okind == 1 {
		x.f.Object = verifROType(x.ot) + ":"
	} else if x.okind == 2 {
		x.f.Object = verifROType(x.ot) + ":" + verifROID(x.oid)
	}
	if x.rkind == 1 {
		x.f.Relation = verifRRel(x.rel)
	}
	if x.ukind == 1 {
		x.f.User = verifRUTypeName(x.ut) + ":"
	} else if x.ukind == 2 {
		x.f.User = verifRUser(x.usr)
	}
	return x
}

// matches is the documented meaning of ReadFilter: every non-empty field constrains the tuple; an
// object / user without id constrains the type only; Conditions, when present, lists the admissible
// condition names ("" = unconditioned).
func (x verifRFilter) matches(r verifRRec) bool {
	if x.okind >= 1 && r.ot != x.ot {
		return false
	}
	if x.okind == 2 && r.oid != x.oid {
		return false
	}
	if x.rkind == 1 && r.rel != x.rel {
		return false
	}
	if x.ukind == 1 && verifRUType(r.usr) != x.ut {
		return false
	}
	if x.ukind == 2 && r.usr != x.usr {
		return false
	}
	return verifRCondOK(x.conds, r.cond)
}

func (x verifRFilter) unconstrained() bool { return x.okind == 0 && x.rkind == 0 && x.ukind == 0 }

// K13 Read / ReadPage: the result is exactly the set of records that satisfy the filter.
// param api: 0 = Read (iterator), 1 = ReadPage with a page larger than the store.
// param allcond: 0 = the combination "no object, relation, user but Conditions" is excluded (covered by
// the allcond=1 job, which explores only that combination).
func VerifK13Read() {
	ds, recs := verifRStore()
	x := verifRSymFilter(vt.ParamInt("conds", 2))
	if vt.ParamInt("allcond", 0) == 0 {
		vt.Assume(!(x.unconstrained() && len(x.conds) > 0))
	} else {
		vt.Assume(x.unconstrained() && len(x.conds) > 0)
	}
	want := make([]bool, len(recs))
	for i, r := range recs {
		want[i] = x.matches(r)
	}
	if vt.ParamInt("api", 0) == 0 {
		it, err := ds.Read(context.Background(), "s", x.f, storage.ReadOptions{})
		vt.Assert(err == nil, "Read failed")
		if err != nil {
			return
		}
		verifRCheck(ds, recs, want, it, false, "Read")
		return
	}
	page, tok, err := ds.ReadPage(context.Background(), "s", x.f, storage.ReadPageOptions{Pagination: storage.PaginationOptions{PageSize: 10}})
	vt.Assert(err == nil, "ReadPage failed")
	vt.Assert(tok == "", "ReadPage issued a continuation token although the page holds everything")
	vt.Reach("compared")
	verifRCompare(recs, want, page,
		"ReadPage returned a tuple twice",
		"ReadPage omitted a tuple that satisfies the filter",
		"ReadPage returned a tuple that does not satisfy the filter")
	if len(page) > 0 {
		vt.Reach("non-empty")
	}
}

// K13 ReadUserTuple: ErrNotFound exactly when no record satisfies the filter, otherwise one that does.
func VerifK13ReadUserTuple() {
	ds, recs := verifRStore()
	x := verifRSymFilter(vt.ParamInt("conds", 2))
	t, err := ds.ReadUserTuple(context.Background(), "s", x.f, storage.ReadUserTupleOptions{})
	any := false
	for _, r := range recs {
		if x.matches(r) {
			any = true
		}
	}
	if err != nil {
		vt.Reach("not-found")
		vt.Assert(errors.Is(err, storage.ErrNotFound), "ReadUserTuple failed with an error other than ErrNotFound")
		vt.Assert(!any, "ReadUserTuple reports ErrNotFound although a record satisfies the filter")
		return
	}
	vt.Reach("found")
	ok := false
	for _, r := range recs {
		if x.matches(r) && r.isTuple(t) {
			ok = true
		}
	}
	vt.Assert(ok, "ReadUserTuple returned a tuple that is not a record satisfying the filter")
}

// ---- ReadUsersetTuples ----

// restriction vocabulary: 0 g#m, 1 g#n, 2 h#m, 3 g:*, 4 user:*   (5 = plain type "g", only with param plain=1)
func verifRRestriction(i int) *openfgav1.RelationReference {
	switch i {
	case 0:
		return &openfgav1.RelationReference{Type: "g", RelationOrWildcard: &openfgav1.RelationReference_Relation{Relation: "m"}}
	case 1:
		return &openfgav1.RelationReference{Type: "g", RelationOrWildcard: &openfgav1.RelationReference_Relation{Relation: "n"}}
	case 2:
		return &openfgav1.RelationReference{Type: "gg", RelationOrWildcard: &openfgav1.RelationReference_Relation{Relation: "m"}}
	case 3:
		return &openfgav1.RelationReference{Type: "g", RelationOrWildcard: &openfgav1.RelationReference_Wildcard{Wildcard: &openfgav1.Wildcard{}}}
	case 4:
		return &openfgav1.RelationReference{Type: "user", RelationOrWildcard: &openfgav1.RelationReference_Wildcard{Wildcard: &openfgav1.Wildcard{}}}
	}
	return &openfgav1.RelationReference{Type: "g"}
}

// verifRRestrictionAdmits: documented meaning of one AllowedUserTypeRestrictions entry: `T#R` admits
// usersets `T:id#R`, `T:*` admits the typed wildcard of T, a plain type admits no userset at all.
func verifRRestrictionAdmits(i, usr int) bool {
	switch i {
	case 0:
		return verifRUType(usr) == 1 && verifRURel(usr) == 1
	case 1:
		return verifRUType(usr) == 1 && verifRURel(usr) == 2
	case 2:
		return verifRUType(usr) == 2 && verifRURel(usr) == 1
	case 3:
		return verifRUType(usr) == 1 && verifRUWild(usr)
	case 4:
		return verifRUType(usr) == 0 && verifRUWild(usr)
	}
	return false
}

// K13 ReadUsersetTuples: exactly the userset tuples (object#relation or wildcard users) of the object and
// relation, restricted to the allowed userset types when given and to the condition names when given.
// params: restr = max number of restrictions (0..2), conds = max number of condition names,
// duprestr = 1 allows the same restriction twice, plain = 1 adds the plain-type restriction to the vocabulary.
func VerifK13ReadUsersetTuples() {
	ds, recs := verifRStore()
	conds, condNames := verifRConds(vt.ParamInt("conds", 2))
	ot, oid, rel := vt.Pick("f.ot", 2), vt.Pick("f.oid", 2), vt.Pick("f.rel", 2)
	f := storage.ReadUsersetTuplesFilter{Object: verifROType(ot) + ":" + verifROID(oid), Relation: verifRRel(rel)}
	nr := 0
	if m := vt.ParamInt("restr", 2); m > 0 {
		nr = vt.Choose("nrestr", m+1)
	}
	vocab := 5
	if vt.ParamInt("plain", 0) != 0 {
		vocab = 6
	}
	names := [...]string{"0", "1", "2"}
	var restr []int
	for i := 0; i < nr && i < 3; i++ {
		k := vt.Pick("restr"+names[i], vocab)
		if vt.ParamInt("duprestr", 0) == 0 {
			for _, p := range restr {
				vt.Assume(p != k)
			}
		}
		restr = append(restr, k)
		f.AllowedUserTypeRestrictions = append(f.AllowedUserTypeRestrictions, verifRRestriction(k))
	}
	f.Conditions = condNames

	it, err := ds.ReadUsersetTuples(context.Background(), "s", f, storage.ReadUsersetTuplesOptions{})
	vt.Assert(err == nil, "ReadUsersetTuples failed")
	if err != nil {
		return
	}
	want := make([]bool, len(recs))
	for i, r := range recs {
		w := r.ot == ot && r.oid == oid && r.rel == rel && (verifRURel(r.usr) != 0 || verifRUWild(r.usr))
		if w && len(restr) > 0 {
			admitted := false
			for _, k := range restr {
				if verifRRestrictionAdmits(k, r.usr) {
					admitted = true
				}
			}
			w = admitted
		}
		want[i] = w && verifRCondOK(conds, r.cond)
	}
	verifRCheck(ds, recs, want, it, false, "ReadUsersetTuples")
}

// ---- ReadStartingWithUser ----

// verifRSet is a list-backed storage.SortedSet (the red-black tree library behind storage.NewSortedSet
// is outside the claim; the memory backend only calls Exists).
type verifRSet struct{ vals []string }

func (s *verifRSet) Size() int { return len(s.vals) }
func (s *verifRSet) Min() string {
	m := ""
	for i, v := range s.vals {
		if i == 0 || v < m {
			m = v
		}
	}
	return m
}
func (s *verifRSet) Max() string {
	m := ""
	for _, v := range s.vals {
		if v > m {
			m = v
		}
	}
	return m
}
func (s *verifRSet) Add(v string) {
	if !s.Exists(v) {
		s.vals = append(s.vals, v)
	}
}
func (s *verifRSet) Exists(v string) bool {
	for _, x := range s.vals {
		if x == v {
			return true
		}
	}
	return false
}
func (s *verifRSet) Values() []string { return s.vals }

// K13 ReadStartingWithUser: exactly the tuples of the object type and relation whose user is one of
// the listed users/usersets, intersected with ObjectIDs when the set is present (nil = no restriction,
// empty = nothing) and with the condition names when given; ascending object ids; no tuple twice.
// params: users = max number of user filters (0..2), dupuf = 1 allows the same user filter twice.
func VerifK13ReadStartingWithUser() {
	ds, recs := verifRStore()
	conds, condNames := verifRConds(vt.ParamInt("conds", 2))
	ot, rel := vt.Pick("f.ot", 2), vt.Pick("f.rel", 2)
	f := storage.ReadStartingWithUserFilter{ObjectType: verifROType(ot), Relation: verifRRel(rel)}
	nu := vt.Choose("nusers", vt.ParamInt("users", 2)+1)
	names := [...]string{"0", "1", "2"}
	var users []int
	for i := 0; i < nu && i < 3; i++ {
		u := vt.Pick("user"+names[i], verifRUsers)
		if vt.ParamInt("dupuf", 0) == 0 {
			for _, p := range users {
				vt.Assume(p != u)
			}
		}
		users = append(users, u)
		f.UserFilter = append(f.UserFilter, &openfgav1.ObjectRelation{Object: verifRUserObject(u), Relation: verifRURelName(verifRURel(u))})
	}
	// ObjectIDs: nil, or a set with symbolic membership of the two ids
	hasSet := vt.ForkBool("idset")
	in1, in2 := false, false
	if hasSet {
		in1, in2 = vt.Bool("idset.1"), vt.Bool("idset.2")
		set := &verifRSet{}
		if in1 {
			set.Add(verifROID(0))
		}
		if in2 {
			set.Add(verifROID(1))
		}
		f.ObjectIDs = set
	}
	f.Conditions = condNames

	it, err := ds.ReadStartingWithUser(context.Background(), "s", f, storage.ReadStartingWithUserOptions{WithResultsSortedAscending: true})
	vt.Assert(err == nil, "ReadStartingWithUser failed")
	if err != nil {
		return
	}
	want := make([]bool, len(recs))
	for i, r := range recs {
		w := r.ot == ot && r.rel == rel
		if hasSet {
			w = w && ((r.oid == 0 && in1) || (r.oid == 1 && in2))
		}
		listed := false
		for _, u := range users {
			if u == r.usr {
				listed = true
			}
		}
		want[i] = w && listed && verifRCondOK(conds, r.cond)
	}
	verifRCheck(ds, recs, want, it, true, "ReadStartingWithUser")
}
