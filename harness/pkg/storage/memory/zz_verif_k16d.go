package memory

import (
	"context"
	"errors"

	openfgav1 "github.com/openfga/api/proto/openfga/v1"

	"github.com/openfga/openfga/internal/vt"
	"github.com/openfga/openfga/pkg/storage"
)

// ---- K16d: a deleted store is gone from every store-level read, the live stores stay visible ----------
//
// On the real MemoryBackend: create n (2..3, solver-chosen) stores whose ids are a solver-chosen rotation of
// a pool of 4 ids (creation order differs from id order) and whose names are solver-chosen among two names
// (so that stores share a name); delete one (solver-chosen). Then
//   GetStore(deleted) is ErrNotFound, GetStore(live) is the store;
//   ListStores without filter            = exactly the live stores (each once, ascending id, not tombstoned);
//   ListStores filtered by name          = exactly the live stores of that name;
//   ListStores restricted to IDs (the option the server fills from the access-control ListObjects result,
//     whose tuples outlive the store): {deleted, one live}, {all ids}, {deleted} alone, in both orders
//                                        = exactly the live stores among the requested ids;
//   ListStores with IDs and name         = the intersection;
//   paging with page size 1              = exactly the live stores.
// Reference: the set of created-and-not-deleted (id, name) pairs kept by the harness.

var verifK16dPool = [...]string{"01HVMMB0000000000000000AAA", "01HVMMB0000000000000000BBB", "01HVMMB0000000000000000CCC", "01HVMMB0000000000000000DDD"}
var verifK16dNames = [...]string{"alpha", "beta"}

// verifK16dExactly: got is exactly the stores want (ids, any order of want), each once, in ascending id
// order, carrying the right name and no deletion mark.
func verifK16dExactly(got []*openfgav1.Store, wantIDs, wantNames []string) bool {
	if len(got) != len(wantIDs) {
		return false
	}
	for i, w := range wantIDs {
		cnt := 0
		for _, s := range got {
			if s.GetId() == w {
				cnt++
				if s.GetName() != wantNames[i] || s.GetDeletedAt() != nil {
					return false
				}
			}
		}
		if cnt != 1 {
			return false
		}
	}
	for k := 1; k < len(got); k++ {
		if !(got[k-1].GetId() < got[k].GetId()) {
			return false
		}
	}
	return true
}

func VerifK16dDeletedStore() {
	ctx := context.Background()
	n := 2 + vt.Choose("n", 2)
	start := vt.Choose("start", len(verifK16dPool))
	labels := [...]string{"0", "1", "2"}
	var ids, names []string
	for i := 0; i < n; i++ {
		ids = append(ids, verifK16dPool[(start+i)%len(verifK16dPool)])
		names = append(names, verifK16dNames[vt.Choose("name"+labels[i], 2)])
	}
	del := vt.Choose("del", n)

	ds := New().(*MemoryBackend)
	for i := 0; i < n; i++ {
		st, err := ds.CreateStore(ctx, &openfgav1.Store{Id: ids[i], Name: names[i]})
		vt.Assert(err == nil && st.GetId() == ids[i] && st.GetName() == names[i], "setup: CreateStore failed")
	}
	all, tok, err := ds.ListStores(ctx, storage.ListStoresOptions{})
	vt.Assert(err == nil && tok == "" && verifK16dExactly(all, ids, names), "setup: ListStores does not list exactly the created stores")
	byIDs, _, err := ds.ListStores(ctx, storage.ListStoresOptions{IDs: ids})
	vt.Assert(err == nil && verifK16dExactly(byIDs, ids, names), "setup: ListStores by ids does not list exactly the created stores")

	vt.Assert(ds.DeleteStore(ctx, ids[del]) == nil, "DeleteStore failed")

	var liveIDs, liveNames []string
	for i := 0; i < n; i++ {
		if i != del {
			liveIDs = append(liveIDs, ids[i])
			liveNames = append(liveNames, names[i])
		}
	}
	// the live stores restricted to a set of requested ids and, if name != "", to a name
	sel := func(req []string, name string) (rid, rn []string) {
		for i := range liveIDs {
			in := false
			for _, r := range req {
				if r == liveIDs[i] {
					in = true
				}
			}
			if in && (name == "" || liveNames[i] == name) {
				rid = append(rid, liveIDs[i])
				rn = append(rn, liveNames[i])
			}
		}
		return
	}
	vt.Reach("deleted")

	// GetStore
	gone, gerr := ds.GetStore(ctx, ids[del])
	vt.Assert(gone == nil && errors.Is(gerr, storage.ErrNotFound), "GetStore returns a deleted store")
	for i := range liveIDs {
		st, err := ds.GetStore(ctx, liveIDs[i])
		vt.Assert(err == nil && st.GetId() == liveIDs[i] && st.GetName() == liveNames[i] && st.GetDeletedAt() == nil, "GetStore does not return a live store after another store was deleted")
	}

	// ListStores, no filter
	got, tok, err := ds.ListStores(ctx, storage.ListStoresOptions{})
	vt.Assert(err == nil && tok == "", "ListStores failed")
	vt.Assert(verifK16dExactly(got, liveIDs, liveNames), "ListStores (no filter) does not return exactly the live stores (deleted store listed, or live store missing)")

	// ListStores by name
	for _, nm := range verifK16dNames {
		wi, wn := sel(ids, nm)
		got, _, err := ds.ListStores(ctx, storage.ListStoresOptions{Name: nm})
		vt.Assert(err == nil, "ListStores by name failed")
		vt.Assert(verifK16dExactly(got, wi, wn), "ListStores filtered by name does not return exactly the live stores of that name")
	}

	// ListStores restricted to ids
	reqs := [][]string{
		{ids[del], liveIDs[0]},
		{liveIDs[0], ids[del]},
		{ids[del]},
		ids,
	}
	for _, req := range reqs {
		wi, wn := sel(req, "")
		got, tok, err := ds.ListStores(ctx, storage.ListStoresOptions{IDs: req})
		vt.Assert(err == nil && tok == "", "ListStores by ids failed")
		vt.Assert(verifK16dExactly(got, wi, wn), "ListStores restricted to IDs returns a deleted store (or misses a live one)")
		for _, nm := range verifK16dNames {
			wi, wn := sel(req, nm)
			got, _, err := ds.ListStores(ctx, storage.ListStoresOptions{IDs: req, Name: nm})
			vt.Assert(err == nil, "ListStores by ids and name failed")
			vt.Assert(verifK16dExactly(got, wi, wn), "ListStores restricted to IDs and name returns a deleted store (or misses a live one)")
		}
	}
	vt.Reach("listed")

	// paging, one store per page, with and without the id restriction
	for v := 0; v < 2; v++ {
		opts := storage.ListStoresOptions{Pagination: storage.PaginationOptions{PageSize: 1}}
		if v == 1 {
			opts.IDs = ids
		}
		var paged []*openfgav1.Store
		for k := 0; k <= n; k++ {
			page, next, err := ds.ListStores(ctx, opts)
			vt.Assert(err == nil && len(page) <= 1, "ListStores page failed")
			paged = append(paged, page...)
			if next == "" {
				break
			}
			opts.Pagination.From = next
		}
		vt.Assert(verifK16dExactly(paged, liveIDs, liveNames), "paging through ListStores does not return exactly the live stores")
	}
	vt.Reach("paged")
}
