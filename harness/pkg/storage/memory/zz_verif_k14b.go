package memory

import (
	"context"
	"strconv"

	openfgav1 "github.com/openfga/api/proto/openfga/v1"

	"github.com/openfga/openfga/internal/vt"
	"github.com/openfga/openfga/pkg/storage"
)

// ids are chosen so that lexicographic order = numeric order.
func verifID(i int) string { return "id" + strconv.Itoa(i) }

// K14a ListStores: any token, any page size: rejected, or the page at the clamped position in ID order.
func VerifK14aListStoresAnyToken() {
	N := vt.ParamInt("n", 3)
	n := vt.Choose("n", N+1)
	ds := New().(*MemoryBackend)
	ctx := context.Background()
	// created in reverse order: the documented order is by ID, not by creation
	for i := n - 1; i >= 0; i-- {
		_, err := ds.CreateStore(ctx, &openfgav1.Store{Id: verifID(i), Name: "n"})
		vt.Assert(err == nil, "CreateStore failed")
	}
	tok := vt.String("tok", vt.ParamInt("tok", 2))
	ps := vt.IntRange("ps", 1, N+1)
	var ids []string
	if vt.ParamInt("ids", 0) == 1 {
		// an ID filter naming every store (in descending order, plus an unknown id): the documented order is
		// still by store ID and the tokens still denote positions in that order
		ids = append(ids, "zz-unknown")
		for i := n - 1; i >= 0; i-- {
			ids = append(ids, verifID(i))
		}
	}
	page, next, err := ds.ListStores(ctx, storage.ListStoresOptions{IDs: ids, Pagination: storage.PaginationOptions{PageSize: ps, From: tok}})
	if err != nil {
		vt.Reach("rejected")
		return
	}
	vt.Reach("accepted")
	q := 0
	if tok != "" {
		var perr error
		q, perr = strconv.Atoi(tok)
		vt.Assert(perr == nil, "accepted token is not a number")
	}
	p := q
	if p < 0 {
		p = 0
	}
	if p > n {
		p = n
	}
	want := n - p
	if want > ps {
		want = ps
	}
	vt.Assert(len(page) == want, "page length is not min(pageSize, remaining)")
	for k := 0; k < len(page) && k <= N; k++ {
		vt.Assert(page[k].GetId() == verifID(p+k), "stores are not returned in ID order from the token position")
	}
	if p+ps < n {
		vt.Assert(next == strconv.Itoa(p+ps), "continuation token does not denote the position after the page")
	} else {
		vt.Assert(next == "", "token issued although the page reaches the end")
	}
}

// K14a ReadAuthorizationModels: newest first, any token.
func VerifK14aReadModelsAnyToken() {
	N := vt.ParamInt("n", 3)
	n := vt.Choose("n", N+1)
	ds := New().(*MemoryBackend)
	ctx := context.Background()
	for i := 0; i < n; i++ {
		err := ds.WriteAuthorizationModel(ctx, "s", &openfgav1.AuthorizationModel{Id: verifID(i), SchemaVersion: "1.1"})
		vt.Assert(err == nil, "WriteAuthorizationModel failed")
	}
	tok := vt.String("tok", vt.ParamInt("tok", 2))
	ps := vt.IntRange("ps", 1, N+1)
	page, next, err := ds.ReadAuthorizationModels(ctx, "s", storage.ReadAuthorizationModelsOptions{Pagination: storage.PaginationOptions{PageSize: ps, From: tok}})
	if err != nil {
		vt.Reach("rejected")
		return
	}
	vt.Reach("accepted")
	q := 0
	if tok != "" {
		var perr error
		q, perr = strconv.Atoi(tok)
		vt.Assert(perr == nil, "accepted token is not a number")
	}
	p := q
	if p < 0 {
		p = 0
	}
	if p > n {
		p = n
	}
	want := n - p
	if want > ps {
		want = ps
	}
	vt.Assert(len(page) == want, "page length is not min(pageSize, remaining)")
	for k := 0; k < len(page) && k <= N; k++ {
		vt.Assert(page[k].GetId() == verifID(n-1-(p+k)), "models are not returned newest first from the token position")
	}
	if p+ps < n {
		vt.Assert(next == strconv.Itoa(p+ps), "continuation token does not denote the position after the page")
	} else {
		vt.Assert(next == "", "token issued although the page reaches the end")
	}
	// latest model is the last one written
	if n > 0 {
		m, err := ds.FindLatestAuthorizationModel(ctx, "s")
		vt.Assert(err == nil && m.GetId() == verifID(n-1), "FindLatestAuthorizationModel is not the last model written")
	}
}
