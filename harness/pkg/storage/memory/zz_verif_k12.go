package memory

import (
	"context"
	"errors"

	openfgav1 "github.com/openfga/api/proto/openfga/v1"
	"google.golang.org/protobuf/types/known/structpb"

	"github.com/openfga/openfga/internal/vt"
	"github.com/openfga/openfga/pkg/storage"
)

// ---- shared vocabulary of the memory-group harnesses (K12, K15) ----
//
// A tuple is d:<o> # viewer @ <u> with condition <c>; o, u, c are symbolic indexes into small
// vocabularies, so tuple CONTENT stays symbolic (merged) while the harness forks on list lengths.

func verifMObjID(i int) string {
	if i == 0 {
		return "1"
	}
	return "2"
}

func verifMUser(i int) string {
	if i == 0 {
		return "user:a"
	}
	return "user:b"
}

func verifMCond(i int) string {
	if i == 0 {
		return ""
	}
	return "c1"
}

// x distinguishes the two renderings of "condition without context": 0 = nil context, 1 = empty
// context {} (only explored when the job sets param ctx=1; both read back as {} through AsTuple).
type verifMTup struct{ o, u, c, x int }

func verifMSymTup(name string) verifMTup {
	t := verifMTup{o: vt.Pick(name+".o", 2), c: vt.Pick(name+".c", 2)}
	if vt.ParamInt("users", 2) > 1 { // users=1: the user is user:a everywhere (two keys instead of four)
		t.u = vt.Pick(name+".u", 2)
	}
	if vt.ParamInt("ctx", 0) != 0 {
		if vt.ParamInt("ctx", 0) == 2 {
			t.c = vt.Choose(name+".cf", 2)
			t.x = vt.Choose(name+".x", 3) // nil | {} | {"k": "v"} (forked: the message renderer needs a concrete shape)
		} else {
			t.x = vt.Pick(name+".x", 2) // nil | {}
		}
	}
	return t
}

func (t verifMTup) sameKey(x verifMTup) bool { return t.o == x.o && t.u == x.u }

func (t verifMTup) object() string { return "d:" + verifMObjID(t.o) }

func (t verifMTup) record(store string) *storage.TupleRecord {
	r := &storage.TupleRecord{
		Store: store, ObjectType: "d", ObjectID: verifMObjID(t.o), Relation: "viewer", User: verifMUser(t.u),
		ConditionName: verifMCond(t.c),
	}
	if t.c != 0 && t.x != 0 {
		if vt.ParamInt("ctx", 0) == 2 {
			r.ConditionContext = verifMCtx(t.x) // x is concrete on every path of the ctx=2 job
		} else {
			r.ConditionContext = &structpb.Struct{}
		}
	}
	return r
}

func (t verifMTup) writeKey() *openfgav1.TupleKey {
	tk := &openfgav1.TupleKey{Object: t.object(), Relation: "viewer", User: verifMUser(t.u)}
	if t.c != 0 {
		tk.Condition = &openfgav1.RelationshipCondition{Name: verifMCond(t.c)}
		if t.x != 0 {
			if vt.ParamInt("ctx", 0) == 2 {
				tk.Condition.Context = verifMCtx(t.x)
			} else {
				tk.Condition.Context = &structpb.Struct{}
			}
		}
	}
	return tk
}

// verifMCtx: rendering 1 is the empty context, rendering 2 a context with one field.
func verifMCtx(x int) *structpb.Struct {
	if x == 2 {
		return &structpb.Struct{Fields: map[string]*structpb.Value{"k": structpb.NewStringValue("v")}}
	}
	return &structpb.Struct{}
}

func (t verifMTup) deleteKey() *openfgav1.TupleKeyWithoutCondition {
	return &openfgav1.TupleKeyWithoutCondition{Object: t.object(), Relation: "viewer", User: verifMUser(t.u)}
}

// isRecord: the stored record r denotes tuple t (condition included).
func (t verifMTup) isRecord(r *storage.TupleRecord) bool {
	return r.ObjectType == "d" && r.ObjectID == verifMObjID(t.o) && r.Relation == "viewer" &&
		r.User == verifMUser(t.u) && r.ConditionName == verifMCond(t.c)
}

// isChange: the change entry ch is the operation op on tuple t. Deletes carry no condition.
func (t verifMTup) isChange(ch *openfgav1.TupleChange, del bool) bool {
	k := ch.GetTupleKey()
	if k.GetObject() != t.object() || k.GetRelation() != "viewer" || k.GetUser() != verifMUser(t.u) {
		return false
	}
	if del {
		return ch.GetOperation() == openfgav1.TupleOperation_TUPLE_OPERATION_DELETE && k.GetCondition() == nil
	}
	return ch.GetOperation() == openfgav1.TupleOperation_TUPLE_OPERATION_WRITE && k.GetCondition().GetName() == verifMCond(t.c)
}

func verifMPairwiseDistinctKeys(ts []verifMTup) bool {
	ok := true
	for i := 0; i < len(ts); i++ {
		for j := i + 1; j < len(ts); j++ {
			if ts[i].sameKey(ts[j]) {
				ok = false
			}
		}
	}
	return ok
}

func verifMWriteOpts(ignDup, ignMiss bool) []storage.TupleWriteOption {
	var opts []storage.TupleWriteOption
	if ignDup {
		opts = append(opts, storage.WithOnDuplicateInsert(storage.OnDuplicateInsertIgnore))
	}
	if ignMiss {
		opts = append(opts, storage.WithOnMissingDelete(storage.OnMissingDeleteIgnore))
	}
	return opts
}

// verifMCount is a list length: the job either pins it (param <name>=k, used to spread the forks of
// one bound vector over parallel jobs) or the engine forks over 0..<bound> (param <bound>, default 2).
func verifMCount(name, bound string) int {
	if k := vt.ParamInt(name, -1); k >= 0 {
		return k
	}
	return vt.Choose(name, vt.ParamInt(bound, 2)+1)
}

// verifMFlag is an option: pinned by the job (param=0/1) or forked.
func verifMFlag(name, param string) bool {
	if k := vt.ParamInt(param, -1); k >= 0 {
		return k != 0
	}
	return vt.ForkBool(name)
}

type verifMOp struct {
	t   verifMTup
	del bool
}

// verifMReference is the reference model of one Write step (written from the doc comments of
// storage.RelationshipTupleWriter.Write and of the OnMissingDelete/OnDuplicateInsert options):
// validate everything against the pre-state first, then remove the deleted tuples and append the
// written ones. It returns whether the request must be rejected (and why), the expected tuples and the
// expected change entries.
func verifMReference(pre, dels, wrs []verifMTup, ignDup, ignMiss bool) (invalid, conflict bool, tuples []verifMTup, changes []verifMOp) {
	exists := func(t verifMTup) (found, sameCond bool) {
		for _, p := range pre {
			if p.sameKey(t) {
				found, sameCond = true, p.c == t.c && (p.c == 0 || (p.x == 2) == (t.x == 2)) // nil and {} are the same context
			}
		}
		return
	}
	for _, d := range dels {
		if found, _ := exists(d); !found && !ignMiss {
			invalid = true // deleting a missing tuple fails the whole request unless ignored
		}
	}
	for _, w := range wrs {
		if found, same := exists(w); found {
			if !ignDup {
				invalid = true // writing an existing tuple fails the whole request unless ignored
			} else if !same {
				conflict = true // ... and even then only an identical tuple is a no-op
			}
		}
	}
	for _, p := range pre {
		deleted := false
		for _, d := range dels {
			if d.sameKey(p) {
				deleted = true
			}
		}
		if deleted {
			changes = append(changes, verifMOp{p, true})
		} else {
			tuples = append(tuples, p)
		}
	}
	for _, w := range wrs {
		if found, _ := exists(w); !found {
			tuples = append(tuples, w)
			changes = append(changes, verifMOp{w, false})
		}
	}
	return
}

// K12: one step of MemoryBackend.Write from an arbitrary small pre-state against the reference model.
// Forks on the number of pre-existing records / deletes / writes and on the two options; tuple content
// is symbolic. Precondition (command layer, validateNoDuplicatesAndCorrectSize): no tuple appears twice
// within one request; store invariant: stored records have pairwise distinct keys.
func VerifK12WriteStep() {
	np := verifMCount("np", "pre")
	nd := verifMCount("nd", "del")
	nw := verifMCount("nw", "wr")
	ignDup := verifMFlag("ignDup", "dup")
	ignMiss := verifMFlag("ignMiss", "miss")

	names := [...]string{"0", "1", "2", "3"}
	var pre, dels, wrs []verifMTup
	for i := 0; i < np; i++ {
		pre = append(pre, verifMSymTup("pre"+names[i]))
	}
	for i := 0; i < nd; i++ {
		t := verifMSymTup("del" + names[i])
		t.c = 0
		dels = append(dels, t)
	}
	for i := 0; i < nw; i++ {
		wrs = append(wrs, verifMSymTup("wr"+names[i]))
	}
	vt.Assume(verifMPairwiseDistinctKeys(pre))
	var req []verifMTup
	req = append(req, dels...)
	req = append(req, wrs...)
	vt.Assume(verifMPairwiseDistinctKeys(req))

	ds := New().(*MemoryBackend)
	for _, p := range pre {
		ds.tuples["s"] = append(ds.tuples["s"], p.record("s"))
	}
	// one older change entry: the changelog is appended to, never rewritten
	old := &tupleChangeRec{Change: &openfgav1.TupleChange{TupleKey: &openfgav1.TupleKey{Object: "d:0", Relation: "viewer", User: "user:z"}}}
	ds.changes["s"] = append(ds.changes["s"], old)
	before := append([]*storage.TupleRecord(nil), ds.tuples["s"]...)

	var deletes storage.Deletes
	var writes storage.Writes
	for _, d := range dels {
		deletes = append(deletes, d.deleteKey())
	}
	for _, w := range wrs {
		writes = append(writes, w.writeKey())
	}
	err := ds.Write(context.Background(), "s", deletes, writes, verifMWriteOpts(ignDup, ignMiss)...)

	invalid, conflict, wantTuples, wantChanges := verifMReference(pre, dels, wrs, ignDup, ignMiss)
	got := ds.tuples["s"]
	chg := ds.changes["s"]
	vt.Assert(len(chg) >= 1 && chg[0] == old, "older change entry lost or replaced")

	tag := "" // the ctx=1 job (nil vs empty condition context) names its findings
	if vt.ParamInt("ctx", 0) != 0 {
		tag = "[nil-vs-empty-context] "
	}
	if err != nil {
		vt.Reach("rejected")
		vt.Assert(invalid || conflict, tag+"a request the reference accepts was rejected")
		if errors.Is(err, storage.ErrInvalidWriteInput) {
			vt.Assert(invalid, "ErrInvalidWriteInput although no delete is missing and no write is a duplicate (options considered)")
		} else {
			vt.Assert(errors.Is(err, storage.ErrTransactionalWriteFailed), "rejected with an error that is neither ErrInvalidWriteInput nor a conflict")
			vt.Assert(conflict, tag+"condition conflict reported although no existing tuple differs in its condition")
		}
		// atomicity: nothing changed
		vt.Assert(len(got) == len(before), "failed Write changed the number of tuples")
		for i := 0; i < len(before); i++ {
			vt.Assert(i < len(got) && got[i] == before[i] && pre[i].isRecord(got[i]), "failed Write changed the tuples")
		}
		vt.Assert(len(chg) == 1, "failed Write left entries in the changelog")
		return
	}
	vt.Reach("accepted")
	vt.Assert(!invalid && !conflict, "a request the reference rejects was accepted")
	vt.Assert(len(got) == len(wantTuples), "number of tuples after Write differs from the reference")
	for i := 0; i < len(wantTuples); i++ {
		vt.Assert(i < len(got) && wantTuples[i].isRecord(got[i]), "tuples after Write differ from (old minus deletes) followed by the new writes")
	}
	vt.Assert(len(chg) == 1+len(wantChanges), "not exactly one change entry per effective operation")
	for i := 0; i < len(wantChanges); i++ {
		vt.Assert(1+i < len(chg) && wantChanges[i].t.isChange(chg[1+i].Change, wantChanges[i].del), "change entries differ from the effective operations in order")
	}
	for i := 1; i < len(chg); i++ {
		vt.Assert(chg[i].Change.GetTimestamp() != nil && chg[i].Change.GetTimestamp() == chg[1].Change.GetTimestamp(), "change entries of one Write carry different timestamps")
		if i > 1 {
			vt.Assert(chg[i-1].Ulid.Compare(chg[i].Ulid) < 0, "change ulids are not strictly increasing")
		}
	}
	if len(wantChanges) > 0 {
		vt.Reach("effective")
	}
}
