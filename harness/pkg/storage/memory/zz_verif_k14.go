package memory

import (
	"context"
	"strconv"

	"github.com/openfga/openfga/internal/vt"
	"github.com/openfga/openfga/pkg/storage"
)

// verifStore builds a backend whose store "s" holds n records d:0 .. d:(n-1), viewer, user:u<i>.
func verifStore(n int) *MemoryBackend {
	ds := New().(*MemoryBackend)
	for i := 0; i < n; i++ {
		id := strconv.Itoa(i)
		ds.tuples["s"] = append(ds.tuples["s"], &storage.TupleRecord{
			Store: "s", ObjectType: "d", ObjectID: id, Relation: "viewer", User: "user:u" + id,
		})
	}
	return ds
}

// K14a (tuple pages): for every number of records n <= N, every page size >= 1 and EVERY token string
// (forged ones included) ReadPage either rejects the token or returns the contiguous page that starts at
// the position p in [0, n] the token denotes, and the token it hands back is exactly p+pageSize (or
// empty when the page reaches the end). Never a panic (implicit obligation of the engine).
func VerifK14aReadPageAnyToken() {
	N := vt.ParamInt("n", 3)
	n := vt.Choose("n", N+1)
	ds := verifStore(n)
	tok := vt.String("tok", vt.ParamInt("tok", 2))
	ps := vt.IntRange("ps", 1, N+1)
	page, next, err := ds.ReadPage(context.Background(), "s", storage.ReadFilter{}, storage.ReadPageOptions{
		Pagination: storage.PaginationOptions{PageSize: ps, From: tok},
	})
	if err != nil {
		vt.Reach("rejected")
		return
	}
	vt.Reach("accepted")
	// position denoted by the page: first returned object id, or n when the page is empty
	p := n
	if len(page) > 0 {
		first := page[0].GetKey().GetObject()
		p = -1
		for i := 0; i < n; i++ {
			if first == "d:"+strconv.Itoa(i) {
				p = i
			}
		}
		vt.Assert(p >= 0, "page starts with an unknown record")
	}
	want := n - p
	if want > ps {
		want = ps
	}
	vt.Assert(len(page) == want, "page length is not min(pageSize, remaining)")
	for k := 0; k < len(page) && k < N; k++ {
		vt.Assert(page[k].GetKey().GetObject() == "d:"+strconv.Itoa(p+k), "page is not contiguous in store order")
	}
	if p+ps < n {
		vt.Assert(next == strconv.Itoa(p+ps), "continuation token does not denote the position after the page")
	} else {
		vt.Assert(next == "", "token issued although the page reaches the end")
	}
	// an accepted non-empty token must denote the position where the page starts
	if tok != "" {
		q, perr := strconv.Atoi(tok)
		vt.Assert(perr == nil, "accepted token is not a number")
		// positions outside [0, n] are clamped (as ListStores / ReadAuthorizationModels do): never a restart
		vt.Assert(q == p || (q < 0 && p == 0) || (q >= n && len(page) == 0), "accepted token denotes another position than the page start")
	}
}

// K14a (follow the tokens): concatenating pages obtained by following issued tokens yields every record
// exactly once, in order.
func VerifK14aReadPageFollow() {
	N := vt.ParamInt("n", 4)
	n := vt.Choose("n", N+1)
	ds := verifStore(n)
	ps := vt.IntRange("ps", 1, N+1)
	tok := ""
	seen := 0
	for step := 0; step <= N; step++ {
		page, next, err := ds.ReadPage(context.Background(), "s", storage.ReadFilter{}, storage.ReadPageOptions{
			Pagination: storage.PaginationOptions{PageSize: ps, From: tok},
		})
		vt.Assert(err == nil, "issued token rejected")
		if err != nil {
			return
		}
		for k := 0; k < len(page) && k <= N; k++ {
			vt.Assert(page[k].GetKey().GetObject() == "d:"+strconv.Itoa(seen+k), "record skipped, repeated or out of order")
		}
		seen += len(page)
		if next == "" {
			vt.Reach("finished")
			vt.Assert(seen == n, "pagination ended before all records were returned")
			return
		}
		tok = next
	}
	vt.Assert(false, "pagination did not finish within n+1 pages")
}
