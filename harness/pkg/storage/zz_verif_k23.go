package storage

import (
	"context"
	"errors"
	"strconv"

	openfgav1 "github.com/openfga/api/proto/openfga/v1"

	"github.com/openfga/openfga/internal/vt"
)

// ---- K23 (pkg/storage/tuple_iterators.go) ----
//
// Inputs are harness stubs over symbolic sequences of tuples whose object is picked from an ordered
// vocabulary. A stub yields items[0..n), fails with verifErrInj at position errAt (persistently, without
// consuming; -1: never) and reports ErrIteratorDone at the end and after Stop.

var (
	verifErrInj = errors.New("verif: injected iterator error")
	verifErrA   = errors.New("verif: filter error A")
	verifErrB   = errors.New("verif: filter error B")
	verifVocab  = []string{"d:a", "d:b", "d:c", "d:d", "d:e", "d:f"}
)

const verifCap = 8

type verifStub[T any] struct {
	items []T
	key   []int // vocabulary index of each item (bookkeeping for the reference only)
	pos   int
	errAt int
	stops int
}

func (s *verifStub[T]) Head(ctx context.Context) (T, error) {
	var zero T
	if s.stops > 0 || (s.pos >= len(s.items) && s.pos != s.errAt) {
		return zero, ErrIteratorDone
	}
	if s.pos == s.errAt {
		return zero, verifErrInj
	}
	return s.items[s.pos], nil
}

func (s *verifStub[T]) Next(ctx context.Context) (T, error) {
	v, err := s.Head(ctx)
	if err == nil {
		s.pos++
	}
	return v, err
}

func (s *verifStub[T]) Stop()           { s.stops++ }
func (s *verifStub[T]) IsOrdered() bool { return true }

func (s *verifStub[T]) seen() int {
	if s.errAt >= 0 && s.errAt < len(s.items) {
		return s.errAt
	}
	return len(s.items)
}

func (s *verifStub[T]) failing() bool { return s.errAt >= 0 }

// verifTupleStub: n tuples with objects picked among V vocabulary entries; sorted => assumed non-descending.
func verifTupleStub(name string, n, V int, sorted, withErr bool) *verifStub[*openfgav1.Tuple] {
	s := &verifStub[*openfgav1.Tuple]{items: make([]*openfgav1.Tuple, n), key: make([]int, n), errAt: -1}
	for i := 0; i < n; i++ {
		k := vt.Pick(name+strconv.Itoa(i), V)
		s.key[i] = k
		s.items[i] = &openfgav1.Tuple{Key: &openfgav1.TupleKey{Object: verifVocab[k], Relation: "r", User: "user:" + name + strconv.Itoa(i)}}
		if sorted && i > 0 {
			vt.Assume(s.key[i-1] <= s.key[i])
		}
	}
	if withErr {
		s.errAt = vt.IntRange(name+".err", -1, n)
	}
	return s
}

func verifKeyStub(name string, n, V int, withErr bool) *verifStub[*openfgav1.TupleKey] {
	s := &verifStub[*openfgav1.TupleKey]{items: make([]*openfgav1.TupleKey, n), key: make([]int, n), errAt: -1}
	for i := 0; i < n; i++ {
		k := vt.Pick(name+strconv.Itoa(i), V)
		s.key[i] = k
		s.items[i] = &openfgav1.TupleKey{Object: verifVocab[k], Relation: "r", User: "user:" + name + strconv.Itoa(i)}
	}
	if withErr {
		s.errAt = vt.IntRange(name+".err", -1, n)
	}
	return s
}

type verifOut[T any] struct {
	v   [verifCap]T
	n   int   // number of items obtained before the first error
	err error // the first error (nil: none within the step budget)
}

// verifDrain calls Next until the first error, at most steps times. With peek, a symbolic subset of the
// Next calls is preceded by two Head calls which must agree with each other and with the Next that follows
// (Head returns what the next Next returns and does not consume).
func verifDrain[T comparable](it Iterator[T], steps int, peek bool) verifOut[T] {
	ctx := context.Background()
	var o verifOut[T]
	for i := 0; i < steps && i < verifCap; i++ {
		p := peek && vt.Bool("peek"+strconv.Itoa(i))
		var hv T
		var herr error
		if p {
			hv, herr = it.Head(ctx)
			hv2, herr2 := it.Head(ctx)
			vt.Assert(herr != nil || (herr2 == nil && hv2 == hv), "two consecutive Head calls disagree on the item")
			vt.Assert(herr == nil || herr2 == herr, "Head reported an error that the next Head does not report")
		}
		v, err := it.Next(ctx)
		if p {
			vt.Assert(herr != nil || (err == nil && v == hv), "Next does not return the item Head announced")
			vt.Assert(herr == nil || err == herr, "Head reported an error that the following Next does not report")
		}
		if err != nil {
			o.err = err
			o.n = i
			return o
		}
		o.v[i] = v
	}
	o.n = steps
	return o
}

// verifAfterDone: once ErrIteratorDone was returned the iterator stays done; Stop can be called twice and
// afterwards Next still reports ErrIteratorDone.
func verifAfterDone[T any](it Iterator[T]) {
	ctx := context.Background()
	_, err := it.Next(ctx)
	vt.Assert(errors.Is(err, ErrIteratorDone), "Next yields again after ErrIteratorDone")
	_, err = it.Head(ctx)
	vt.Assert(errors.Is(err, ErrIteratorDone), "Head yields again after ErrIteratorDone")
	it.Stop()
	it.Stop()
	_, err = it.Next(ctx)
	vt.Assert(errors.Is(err, ErrIteratorDone), "Next after Stop is not ErrIteratorDone")
}

// verifSplit forks on how a total of at most N items is spread over three inputs.
func verifSplit(N int) (int, int, int) {
	n1 := vt.Choose("n1", N+1)
	n2 := vt.Choose("n2", N+1-n1)
	n3 := vt.Choose("n3", N+1-n1-n2)
	return n1, n2, n3
}

// K23 combinedIterator: all items of the first input, then the second, then the third (nil inputs are
// skipped); an injected error ends the sequence exactly where it sits in the concatenation.
func VerifK23Combined() {
	N := vt.ParamInt("n", 3)
	V := vt.ParamInt("v", 3)
	n1, n2, n3 := verifSplit(N)
	in := []*verifStub[*openfgav1.Tuple]{
		verifTupleStub("a", n1, V, false, true), verifTupleStub("b", n2, V, false, true), verifTupleStub("c", n3, V, false, true),
	}
	var it TupleIterator
	if n2 == 0 && vt.ForkBool("nil-second") {
		in[1].errAt = -1
		it = NewCombinedIterator[*openfgav1.Tuple](in[0], nil, in[2])
	} else {
		it = NewCombinedIterator[*openfgav1.Tuple](in[0], in[1], in[2])
	}
	// reference: concatenation of the readable parts up to and including the first failing input
	var want [verifCap]*openfgav1.Tuple
	wn := 0
	wantErr := false
	for _, s := range in {
		for i := 0; i < len(s.items); i++ {
			if !wantErr && i < s.seen() {
				want[wn] = s.items[i]
				wn++
			}
		}
		wantErr = wantErr || s.failing()
	}
	o := verifDrain[*openfgav1.Tuple](it, n1+n2+n3+1, true)
	vt.Assert(o.n == wn, "combined iterator yields a wrong number of items")
	for i := 0; i < verifCap; i++ {
		if i < o.n && i < wn {
			vt.Assert(o.v[i] == want[i], "combined iterator: item wrong or out of order")
		}
	}
	if wantErr {
		vt.Reach("combined-error")
		vt.Assert(o.err == verifErrInj, "injected error lost or replaced")
		return
	}
	vt.Reach("combined-done")
	vt.Assert(errors.Is(o.err, ErrIteratorDone), "combined iterator did not finish with ErrIteratorDone")
	verifAfterDone[*openfgav1.Tuple](it)
}

func verifKeyIndex(t *openfgav1.Tuple, V int) int {
	k := -1
	for i := 0; i < V; i++ {
		if t.GetKey().GetObject() == verifVocab[i] {
			k = i
		}
	}
	return k
}

func verifKeySet(s *verifStub[*openfgav1.Tuple]) int {
	m := 0
	for i := 0; i < len(s.key); i++ {
		if i < s.seen() {
			m |= 1 << uint(s.key[i])
		}
	}
	return m
}

// K23 OrderedCombinedIterator with the object mapper: inputs individually non-descending (duplicates
// allowed inside and across inputs). "Iterators can yield the same value multiple times, but it will only
// be returned once": the output is strictly ascending and its key set is the union of the inputs' key
// sets (this determines the key sequence uniquely), then ErrIteratorDone. With an injected error the drain
// ends with that error and what was yielded before is a prefix of the merge of the readable parts.
func VerifK23OrderedCombined() {
	N := vt.ParamInt("n", 3)
	V := vt.ParamInt("v", 3)
	withErr := vt.ParamInt("err", 1) == 1
	n1, n2, n3 := verifSplit(N)
	a, b, c := verifTupleStub("a", n1, V, true, withErr), verifTupleStub("b", n2, V, true, withErr), verifTupleStub("c", n3, V, true, withErr)
	it := NewOrderedCombinedIterator(ObjectMapper(), a, b, c)
	vt.Assert(it.IsOrdered(), "all inputs ordered but the merge is not reported ordered")
	o := verifDrain[*openfgav1.Tuple](it, n1+n2+n3+1, true)
	vt.Assert(o.err != nil, "more items than the inputs hold")
	all := verifKeySet(a) | verifKeySet(b) | verifKeySet(c)
	got, last := 0, -1
	for i := 0; i < verifCap; i++ {
		if i < o.n {
			k := verifKeyIndex(o.v[i], V)
			vt.Assert(k > last, "ordered merge output is not strictly ascending")
			got |= 1 << uint(k)
			last = k
		}
	}
	if a.failing() || b.failing() || c.failing() {
		vt.Reach("ordered-error")
		vt.Assert(o.err == verifErrInj, "injected error lost or replaced")
		vt.Assert(got&^all == 0, "ordered merge output contains a key that is in no input")
		vt.Assert(all&((1<<uint(last+1))-1) == got, "ordered merge skipped a key")
		return
	}
	vt.Reach("ordered-done")
	vt.Assert(errors.Is(o.err, ErrIteratorDone), "unexpected error from the ordered merge")
	vt.Assert(got == all, "ordered merge output is not the union of the inputs")
	verifAfterDone[*openfgav1.Tuple](it)
	vt.Assert(a.stops > 0 && b.stops > 0 && c.stops > 0, "Stop/exhaustion does not stop every input")
}

// K23 tupleKeyIterator: the keys of the inner tuples, one to one.
func VerifK23TupleKeyIterator() {
	N := vt.ParamInt("n", 3)
	n := vt.Choose("n", N+1)
	in := verifTupleStub("a", n, 2, false, true)
	it := NewTupleKeyIteratorFromTupleIterator(in)
	o := verifDrain[*openfgav1.TupleKey](it, n+1, true)
	vt.Reach("drained")
	vt.Assert(o.n == in.seen(), "tuple-key iterator yields a wrong number of items")
	for i := 0; i < n; i++ {
		if i < o.n {
			vt.Assert(o.v[i] == in.items[i].GetKey(), "tuple-key iterator yields a wrong key")
		}
	}
	if in.failing() {
		vt.Assert(o.err == verifErrInj, "injected error lost or replaced")
		return
	}
	vt.Assert(errors.Is(o.err, ErrIteratorDone), "tuple-key iterator did not finish with ErrIteratorDone")
	verifAfterDone[*openfgav1.TupleKey](it)
	vt.Assert(in.stops > 0, "Stop does not stop the input")
}

// K23 StaticIterator (tuples and tuple keys): yields the slice in order, Head does not consume, Stop ends
// it; with a cancelled context Next/Head report the context error and consume nothing.
func VerifK23Static() {
	N := vt.ParamInt("n", 3)
	n := vt.Choose("n", N+1)
	in := verifTupleStub("a", n, 2, false, false)
	var items []*openfgav1.Tuple
	items = append(items, in.items...)
	it := NewStaticTupleIterator(items)
	stopAfter := vt.IntRange("stop-after", 0, n+1) // Stop after that many items (n+1: never)
	cancelAfter := vt.IntRange("cancel-after", 0, n+1)
	ctx, cancel := context.WithCancel(context.Background())
	defer cancel()
	for i := 0; i <= n; i++ {
		if i == cancelAfter {
			cancel()
		}
		if i == stopAfter {
			it.Stop()
		}
		h, herr := it.Head(ctx)
		v, err := it.Next(ctx)
		vt.Assert(herr == err && h == v, "Next does not return what Head announced")
		switch {
		case i >= cancelAfter:
			vt.Reach("cancelled")
			vt.Assert(errors.Is(err, context.Canceled), "cancelled context not reported")
		case i >= stopAfter || i >= n:
			vt.Reach("done")
			vt.Assert(errors.Is(err, ErrIteratorDone), "not done after Stop or at the end")
		default:
			vt.Reach("item")
			vt.Assert(err == nil && v == in.items[i], "static iterator yields a wrong item")
		}
	}
	// the tuple-key flavour
	ks := verifKeyStub("k", n, 2, false)
	kit := NewStaticTupleKeyIterator(append([]*openfgav1.TupleKey(nil), ks.items...))
	ko := verifDrain[*openfgav1.TupleKey](kit, n+1, true)
	vt.Assert(ko.n == n && errors.Is(ko.err, ErrIteratorDone), "static key iterator yields a wrong number of items")
	for i := 0; i < n; i++ {
		vt.Assert(ko.v[i] == ks.items[i], "static key iterator yields a wrong item")
	}
	verifAfterDone[*openfgav1.TupleKey](kit)
}

// K23 filteredTupleKeyIterator: exactly the accepted keys, in order (verdict symbolic per element).
func VerifK23Filtered() {
	N := vt.ParamInt("n", 3)
	n := vt.Choose("n", N+1)
	in := verifKeyStub("a", n, 2, true)
	verdict := make([]bool, n)
	for i := range verdict {
		verdict[i] = vt.Bool("ok" + strconv.Itoa(i))
	}
	it := NewFilteredTupleKeyIterator(in, func(tk *openfgav1.TupleKey) bool {
		for i, k := range in.items {
			if k == tk {
				return verdict[i]
			}
		}
		vt.Assert(false, "filter called with a key that is not an input")
		return false
	})
	var want [verifCap]*openfgav1.TupleKey
	wn := 0
	for i := 0; i < n; i++ {
		if i < in.seen() && verdict[i] {
			want[wn] = in.items[i]
			wn++
		}
	}
	o := verifDrain[*openfgav1.TupleKey](it, n+1, true)
	vt.Assert(o.n == wn, "filtered iterator yields a wrong number of items")
	for i := 0; i < verifCap; i++ {
		if i < o.n && i < wn {
			vt.Assert(o.v[i] == want[i], "filtered iterator yields a wrong item")
		}
	}
	if in.failing() {
		vt.Reach("filtered-error")
		vt.Assert(o.err == verifErrInj, "injected error lost or replaced")
		return
	}
	vt.Reach("filtered-done")
	vt.Assert(errors.Is(o.err, ErrIteratorDone), "filtered iterator did not finish with ErrIteratorDone")
	verifAfterDone[*openfgav1.TupleKey](it)
	vt.Assert(in.stops > 0, "Stop does not stop the input")
}

// K23 ConditionsFilteredTupleKeyIterator: yields the accepted keys in order; filter errors count as
// rejections; "if none of the tuples are valid AND there are errors, Next() will return the last error"
// (once, then ErrIteratorDone); Head and Next agree.
func VerifK23ConditionsFiltered() {
	N := vt.ParamInt("n", 3)
	n := vt.Choose("n", N+1)
	in := verifKeyStub("a", n, 2, true)
	verdict := make([]int, n) // 0 reject, 1 accept, 2 error A, 3 error B
	for i := range verdict {
		verdict[i] = vt.Pick("verdict"+strconv.Itoa(i), 4)
	}
	it := NewConditionsFilteredTupleKeyIterator(in, func(tk *openfgav1.TupleKey) (bool, error) {
		for i, k := range in.items {
			if k == tk {
				switch verdict[i] {
				case 0:
					return false, nil
				case 1:
					return true, nil
				case 2:
					return false, verifErrA
				default:
					return false, verifErrB
				}
			}
		}
		vt.Assert(false, "filter called with a key that is not an input")
		return false, nil
	})
	var want [verifCap]*openfgav1.TupleKey
	wn := 0
	var lastErr error
	for i := 0; i < n; i++ {
		if i < in.seen() {
			switch verdict[i] {
			case 1:
				want[wn] = in.items[i]
				wn++
			case 2:
				lastErr = verifErrA
			case 3:
				lastErr = verifErrB
			}
		}
	}
	o := verifDrain[*openfgav1.TupleKey](it, n+1, true)
	vt.Assert(o.n == wn, "conditions-filtered iterator yields a wrong number of items")
	for i := 0; i < verifCap; i++ {
		if i < o.n && i < wn {
			vt.Assert(o.v[i] == want[i], "conditions-filtered iterator yields a wrong item")
		}
	}
	switch {
	case in.failing():
		vt.Reach("cond-inner-error")
		vt.Assert(o.err == verifErrInj, "injected error lost or replaced")
	case wn == 0 && lastErr != nil:
		vt.Reach("cond-last-error")
		vt.Assert(o.err == lastErr, "nothing valid and filter errors: the last filter error must be returned")
		verifAfterDone[*openfgav1.TupleKey](it)
	default:
		vt.Reach("cond-done")
		vt.Assert(errors.Is(o.err, ErrIteratorDone), "conditions-filtered iterator did not finish with ErrIteratorDone")
		verifAfterDone[*openfgav1.TupleKey](it)
		vt.Assert(in.stops > 0, "Stop does not stop the input")
	}
}

// K23 Stop contract (Iterator doc: "Stop terminates iteration. Any subsequent calls to Next must return
// ErrIteratorDone"): consume a symbolic number of items with a symbolic mix of Head/Next, Stop (twice),
// then Next must report ErrIteratorDone and every input must have been stopped.
// kind: 0 combined, 1 ordered combined, 2 static, 3 tuple-key + filtered + conditions-filtered stack.
func VerifK23StopThenNext() {
	N := vt.ParamInt("n", 3)
	kind := vt.ParamInt("kind", 0)
	n1 := vt.Choose("n1", N+1)
	n2 := vt.Choose("n2", N+1-n1)
	a, b := verifTupleStub("a", n1, 3, true, false), verifTupleStub("b", n2, 3, true, false)
	ctx := context.Background()
	k := vt.IntRange("consume", 0, n1+n2)
	var next func() error
	var stop func()
	drive := func(it TupleIterator) {
		next = func() error { _, err := it.Next(ctx); return err }
		stop = it.Stop
		for i := 0; i < n1+n2; i++ {
			if i < k {
				if vt.Bool("peek" + strconv.Itoa(i)) {
					_, _ = it.Head(ctx)
				}
				_, _ = it.Next(ctx)
			}
		}
	}
	switch kind {
	case 0:
		drive(NewCombinedIterator[*openfgav1.Tuple](a, b))
	case 1:
		drive(NewOrderedCombinedIterator(ObjectMapper(), a, b))
	case 2:
		a.stops, b.stops = 1, 1 // no inputs to stop
		drive(NewStaticTupleIterator(append(append([]*openfgav1.Tuple(nil), a.items...), b.items...)))
	default:
		kit := NewConditionsFilteredTupleKeyIterator(
			NewFilteredTupleKeyIterator(NewTupleKeyIteratorFromTupleIterator(NewCombinedIterator[*openfgav1.Tuple](a, b)),
				func(tk *openfgav1.TupleKey) bool { return tk.GetObject() != verifVocab[1] }),
			func(tk *openfgav1.TupleKey) (bool, error) { return tk.GetObject() != verifVocab[2], nil })
		next = func() error { _, err := kit.Next(ctx); return err }
		stop = kit.Stop
		for i := 0; i < n1+n2; i++ {
			if i < k {
				if vt.Bool("peek" + strconv.Itoa(i)) {
					_, _ = kit.Head(ctx)
				}
				_, _ = kit.Next(ctx)
			}
		}
	}
	stop()
	stop()
	vt.Reach("stopped")
	vt.Assert(errors.Is(next(), ErrIteratorDone), "Next after Stop yields an item or another error instead of ErrIteratorDone")
	vt.Assert(a.stops > 0 && b.stops > 0, "Stop does not stop every input")
}
