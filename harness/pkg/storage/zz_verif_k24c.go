package storage

import (
	openfgav1 "github.com/openfga/api/proto/openfga/v1"

	"github.com/openfga/openfga/internal/vt"
)

// ---- K24c: the invariant key itself (after the digest) on repeated contextual tuples ---------------------------
//
// K24b compares the byte stream that is fed to the digest, which presumes that the key is ONE digest of that
// stream. This harness looks at the final 64-bit key on concrete inputs (the real XXH64 is computed on concrete
// bytes): a contextual tuple listed twice must not cancel out, so requests whose contextual tuples differ get
// different keys - [a, a] vs [b, b], [a, a] vs [], [a, b, a] vs [b]. Which pair is tried is solver-chosen; the
// strings are concrete (with symbolic bytes the digest is an uninterpreted function and equal keys of different
// streams could not be told from a collision).
func VerifK24cRepeatedTuples() {
	t := func(o string) *openfgav1.TupleKey {
		return &openfgav1.TupleKey{Object: "document:" + o, Relation: "viewer", User: "user:bob"}
	}
	a, b := t("1"), t("2")
	lists := [][]*openfgav1.TupleKey{
		nil, {a}, {b}, {a, a}, {b, b}, {a, b}, {a, b, a}, {b, a, b}, {a, a, a},
	}
	i := vt.Choose("left", len(lists))
	j := vt.Choose("right", len(lists))
	vt.Assume(i < j)
	// as sets with multiplicity all nine lists are pairwise different, except that order does not matter
	sameMultiset := false
	ki := InvariantCacheKey("S", "M", nil, lists[i]...)
	kj := InvariantCacheKey("S", "M", nil, lists[j]...)
	vt.Reach("keys-computed")
	if !sameMultiset {
		vt.Assert(ki != kj, "two requests with different contextual tuples (a tuple listed more than once among them) get the same invariant cache key")
	}
	// the order of the contextual tuples does not matter
	vt.Assert(InvariantCacheKey("S", "M", nil, a, b) == InvariantCacheKey("S", "M", nil, b, a), "the invariant key depends on the order of the contextual tuples")
}
