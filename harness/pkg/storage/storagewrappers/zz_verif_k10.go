package storagewrappers

import (
	"context"
	"errors"
	"sync"
	"time"

	"golang.org/x/sync/singleflight"

	openfgav1 "github.com/openfga/api/proto/openfga/v1"

	"github.com/openfga/openfga/internal/vt"
	"github.com/openfga/openfga/pkg/storage"
	"github.com/openfga/openfga/pkg/storage/cache/keys"
)

// ---- K10: the iterator cache layers are bypassed by HIGHER_CONSISTENCY ---------------------------------

// verifK10AdvCache is the adversarial cache: for EVERY key it returns the prepared entry (a perfectly valid
// looking, stale iterator entry; invalidation-marker lookups therefore find no marker) and records every call.
type verifK10AdvCache struct {
	entry   any
	gets    int
	sets    int
	deletes int
}

func (c *verifK10AdvCache) Get(k keys.Key) any                       { c.gets++; return c.entry }
func (c *verifK10AdvCache) Set(k keys.Key, v any, ttl time.Duration) { c.sets++ }
func (c *verifK10AdvCache) Delete(k keys.Key)                        { c.deletes++ }
func (c *verifK10AdvCache) Stop()                                    {}

var errVerifK10 = errors.New("verif: datastore error")

// verifK10Reader is the inner reader: it hands out the prepared iterator (or error) and records the
// consistency preference it was asked with.
type verifK10Reader struct {
	storage.RelationshipTupleReader
	it    storage.TupleIterator
	err   error
	reads int
	pref  openfgav1.ConsistencyPreference
}

func (r *verifK10Reader) answer(p openfgav1.ConsistencyPreference) (storage.TupleIterator, error) {
	r.reads++
	r.pref = p
	if r.err != nil {
		return nil, r.err
	}
	return r.it, nil
}

func (r *verifK10Reader) Read(ctx context.Context, store string, f storage.ReadFilter, o storage.ReadOptions) (storage.TupleIterator, error) {
	return r.answer(o.Consistency.Preference)
}

func (r *verifK10Reader) ReadUsersetTuples(ctx context.Context, store string, f storage.ReadUsersetTuplesFilter, o storage.ReadUsersetTuplesOptions) (storage.TupleIterator, error) {
	return r.answer(o.Consistency.Preference)
}

func (r *verifK10Reader) ReadStartingWithUser(ctx context.Context, store string, f storage.ReadStartingWithUserFilter, o storage.ReadStartingWithUserOptions) (storage.TupleIterator, error) {
	return r.answer(o.Consistency.Preference)
}

func verifK10Pref(i int) openfgav1.ConsistencyPreference {
	switch i {
	case 1:
		return openfgav1.ConsistencyPreference_MINIMIZE_LATENCY
	case 2:
		return openfgav1.ConsistencyPreference_HIGHER_CONSISTENCY
	}
	return openfgav1.ConsistencyPreference_UNSPECIFIED
}

func verifK10Query(ctx context.Context, ds storage.RelationshipTupleReader, api int, pref openfgav1.ConsistencyPreference) (storage.TupleIterator, error) {
	co := storage.ConsistencyOptions{Preference: pref}
	switch api {
	case 0:
		return ds.Read(ctx, "s", storage.ReadFilter{Object: "d:1", Relation: "r"}, storage.ReadOptions{Consistency: co})
	case 1:
		return ds.ReadUsersetTuples(ctx, "s", storage.ReadUsersetTuplesFilter{Object: "d:1", Relation: "r"}, storage.ReadUsersetTuplesOptions{Consistency: co})
	default:
		return ds.ReadStartingWithUser(ctx, "s", storage.ReadStartingWithUserFilter{ObjectType: "d", Relation: "r",
			UserFilter: []*openfgav1.ObjectRelation{{Object: "u:1"}, {Object: "u:*"}}}, storage.ReadStartingWithUserOptions{Consistency: co})
	}
}

// For both iterator caches (impl 0: CachedDatastore, 1: CachedTupleReader), each of the three cached queries
// and each consistency preference, against the adversarial cache:
// HIGHER_CONSISTENCY: the cache is never consulted (no Get), nothing is written to it even after the result
// was consumed and stopped, the inner reader is asked exactly once WITH the HIGHER_CONSISTENCY preference and
// what it returned (iterator object or error) is returned unchanged.
// Otherwise the cache is consulted and its entry is served (the inner reader is not asked).
func VerifK10IteratorCaches() {
	vt.Assert(errVerifK10 != nil && verifErrInj != nil, "init")
	impl := vt.Choose("impl", 2)
	api := vt.Choose("api", 3)
	pref := verifK10Pref(vt.Choose("consistency", 3))
	freshUser := "u:" + vt.ASCII("fresh-user", 2)
	staleID := vt.ASCII("stale-user", 2)
	vt.Assume(len(staleID) > 0)
	fresh := &openfgav1.Tuple{Key: &openfgav1.TupleKey{Object: "d:1", Relation: "r", User: freshUser}}
	inner := &verifInner{items: []*openfgav1.Tuple{fresh}, errAt: -1}
	rd := &verifK10Reader{it: inner}
	if vt.ForkBool("datastore-fails") {
		rd.err = errVerifK10
	}
	cache := &verifK10AdvCache{}
	far := time.Time{}.Add(time.Hour) // "valid": no marker exists, and any marker lookup yields a non-marker value
	if impl == 0 {
		cache.entry = &storage.TupleIteratorCacheEntry{LastModified: far,
			Tuples: []*storage.TupleRecord{{ObjectType: "d", ObjectID: "9", Relation: "r", UserObjectType: "u", UserObjectID: staleID}}}
	} else {
		cache.entry = &V2IteratorCacheEntry{LastModified: far, Ordered: true,
			Entries: []MinimalCacheEntry{{ObjectID: "9", User: "u:" + staleID}}}
	}
	wg := &sync.WaitGroup{}
	var ds storage.RelationshipTupleReader
	if impl == 0 {
		ds = NewCachedDatastore(context.Background(), rd, cache, 10, time.Hour, &singleflight.Group{}, wg)
	} else {
		ds = NewCachedTupleReader(context.Background(), rd, cache, 10, time.Hour, &singleflight.Group{}, wg, time.Minute)
	}
	ctx := context.Background()
	it, err := verifK10Query(ctx, ds, api, pref)

	if pref == openfgav1.ConsistencyPreference_HIGHER_CONSISTENCY {
		vt.Reach("higher-consistency")
		vt.Assert(cache.gets == 0, "iterator cache consulted for a HIGHER_CONSISTENCY query")
		vt.Assert(rd.reads == 1 && rd.pref == openfgav1.ConsistencyPreference_HIGHER_CONSISTENCY,
			"inner reader not asked exactly once with the HIGHER_CONSISTENCY preference")
		if rd.err != nil {
			vt.Assert(it == nil && err == errVerifK10, "inner reader's error not returned")
			return
		}
		vt.Assert(err == nil && it == storage.TupleIterator(inner), "the returned iterator is not the inner reader's")
		if it == nil {
			return
		}
		t, nerr := it.Next(ctx)
		vt.Assert(nerr == nil && t == fresh && t.GetKey().GetUser() == freshUser, "HIGHER_CONSISTENCY query does not yield the datastore's tuple")
		it.Stop()
		wg.Wait()
		vt.Assert(cache.gets == 0 && cache.sets == 0 && cache.deletes == 0, "cache touched by a HIGHER_CONSISTENCY query")
		return
	}
	vt.Reach("cache-may-be-used")
	vt.Assert(cache.gets > 0 && rd.reads == 0, "cache not consulted although the preference allows it")
	vt.Assert(err == nil && it != nil, "valid looking cache entry not served")
	if it == nil {
		return
	}
	t, nerr := it.Next(ctx)
	vt.Assert(nerr == nil && t.GetKey().GetUser() == "u:"+staleID,"the (adversarial) cache entry is not what is served")
	it.Stop()
}
