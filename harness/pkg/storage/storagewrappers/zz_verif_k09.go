package storagewrappers

import (
	"context"
	"errors"
	"strconv"
	"sync"
	"time"

	"golang.org/x/sync/singleflight"
	"google.golang.org/protobuf/types/known/structpb"
	"google.golang.org/protobuf/types/known/timestamppb"

	openfgav1 "github.com/openfga/api/proto/openfga/v1"

	"github.com/openfga/openfga/internal/vt"
	"github.com/openfga/openfga/pkg/storage"
	"github.com/openfga/openfga/pkg/storage/cache/keys"
	"github.com/openfga/openfga/pkg/tuple"
)

// ---- shared fakes ----

// verifCache is a harness cache implementing storage.InMemoryCache[any]: an association list that also
// counts Set and Delete calls. TTL expiry is outside this model (entries never expire).
type verifCache struct {
	ks      []keys.Key
	vs      []any
	sets    int
	deletes int
	lastSet any
}

func (c *verifCache) Get(k keys.Key) any {
	for i := range c.ks {
		if c.ks[i] == k {
			return c.vs[i]
		}
	}
	return nil
}

func (c *verifCache) put(k keys.Key, v any) {
	for i := range c.ks {
		if c.ks[i] == k {
			c.vs[i] = v
			return
		}
	}
	c.ks = append(c.ks, k)
	c.vs = append(c.vs, v)
}

func (c *verifCache) Set(k keys.Key, v any, ttl time.Duration) {
	c.sets++
	c.lastSet = v
	c.put(k, v)
}

func (c *verifCache) Delete(k keys.Key) {
	c.deletes++
	for i := range c.ks {
		if c.ks[i] == k {
			c.vs[i] = nil
		}
	}
}

func (c *verifCache) Stop() {}

// verifInstant is a symbolic instant lo..hi nanoseconds after the zero time.
func verifInstant(name string, lo, hi int) time.Time {
	return time.Time{}.Add(time.Duration(vt.IntRange(name, lo, hi)))
}

// ---- K09b: addToBuffer then buildTuple is the identity on tuples the query can return ----

// verifPart is a symbolic string; ascii=1 restricts to ASCII (longer bounds).
func verifPart(name string, max int) string {
	if vt.ParamInt("ascii", 0) == 1 {
		return vt.ASCII(name, max)
	}
	return vt.String(name, max)
}

// For every valid tuple (object type:id, relation, user = object | typed wildcard | userset, optional
// condition, timestamp) and every combination of the four elision parameters that is consistent with the
// query (a parameter is either empty or equal to the tuple's field, which is what a query that returned the
// tuple guarantees), the record stored by addToBuffer is rebuilt by buildTuple into the same tuple.
func VerifK09bRoundTrip() {
	L := vt.ParamInt("len", 2)
	ot, oid, rel := verifPart("ot", L), verifPart("oid", L), verifPart("rel", L)
	ut, uid, urel := verifPart("ut", L), verifPart("uid", L), verifPart("urel", L)
	object := ot + ":" + oid
	vt.Assume(tuple.IsValidObject(object) && tuple.IsValidRelation(rel))
	user := ut + ":" + uid
	switch vt.Choose("userkind", 3) {
	case 0: // object
		vt.Assume(tuple.IsValidObject(user))
		urel = ""
	case 1: // typed wildcard
		vt.Assume(tuple.IsValidObject(user) && uid == "*")
		urel = ""
	default: // userset
		vt.Assume(tuple.IsValidObject(user) && tuple.IsValidRelation(urel))
		user = user + "#" + urel
	}
	var cond *openfgav1.RelationshipCondition
	var cctx *structpb.Struct
	condName := ""
	if vt.ForkBool("has-cond") {
		condName = verifPart("cond", L)
		vt.Assume(condName != "")
		if vt.ForkBool("has-cond-context") {
			cctx = &structpb.Struct{}
		}
		cond = &openfgav1.RelationshipCondition{Name: condName, Context: cctx}
	}
	when := verifInstant("inserted", 1, 1000)
	in := &openfgav1.Tuple{
		Key:       &openfgav1.TupleKey{Object: object, Relation: rel, User: user, Condition: cond},
		Timestamp: timestamppb.New(when),
	}
	// the elision parameters: each empty or equal to the tuple's field
	pOT, pOID, pRel, pUT := "", "", "", ""
	if vt.Bool("know-object-type") {
		pOT = ot
	}
	if vt.Bool("know-object-id") {
		pOID = oid
	}
	if vt.Bool("know-relation") {
		pRel = rel
	}
	if vt.Bool("know-user-type") {
		pUT = ut
	}
	c := &cachedIterator{objectType: pOT, objectID: pOID, relation: pRel, userType: pUT,
		tuples: make([]*openfgav1.Tuple, 0, 1), maxResultSize: 10}
	ok := c.addToBuffer(in)
	vt.Assert(ok && len(c.records) == 1, "addToBuffer did not buffer the tuple")
	if len(c.records) != 1 {
		return
	}
	rd := &cachedTupleIterator{objectType: pOT, objectID: pOID, relation: pRel, userType: pUT}
	out := rd.buildTuple(c.records[0])
	vt.Reach("rebuilt")
	vt.Assert(out.GetKey().GetObject() == object, "object changed by the cache round trip")
	vt.Assert(out.GetKey().GetRelation() == rel, "relation changed by the cache round trip")
	vt.Assert(out.GetKey().GetUser() == user, "user changed by the cache round trip")
	vt.Assert(out.GetKey().GetCondition().GetName() == condName, "condition name changed by the cache round trip")
	vt.Assert((out.GetKey().GetCondition() != nil) == (cond != nil), "condition appeared or disappeared in the cache round trip")
	if cctx != nil {
		vt.Assert(out.GetKey().GetCondition().GetContext() == cctx, "condition context changed by the cache round trip")
	} else {
		vt.Assert(len(out.GetKey().GetCondition().GetContext().GetFields()) == 0, "condition context invented by the cache round trip")
	}
	vt.Assert(out.GetTimestamp().AsTime().Equal(when), "timestamp changed by the cache round trip")
}

// ---- K09c: findInCache / isInvalidAt ----

// The cache holds (each symbolically present or absent): the entry under key with time te (or a value of
// another type), a store-wide invalidation marker with time ts, and up to two entity markers with times
// t0, t1. Documented contract: "returns true if and only if the key is present, and TS(key) >= TS(store),
// and all of the invalidEntityKeys satisfy TS(key) >= TS(invalid)". An invalidated entry is deleted.
func VerifK09cFindInCache() {
	T := vt.ParamInt("t", 4)
	cache := &verifCache{}
	key := storage.ReadKey("s", storage.ReadFilter{Object: "d:1", Relation: "r"})
	storeKey := storage.InvalidIteratorCacheKey("s")
	ek := []keys.Key{
		storage.InvalidIteratorByObjectRelationCacheKey("s", "d:1", "r"),
		storage.InvalidIteratorByUserObjectTypeCacheKey("s", "u:1", "d"),
	}
	nEnt := vt.Choose("entity-keys", 3)
	entry := &storage.TupleIteratorCacheEntry{Tuples: []*storage.TupleRecord{{ObjectID: "1"}}, LastModified: verifInstant("te", 0, T)}
	kind := vt.Choose("entry", 3) // 0 absent, 1 present, 2 a value of another type under the key
	switch kind {
	case 1:
		cache.put(key, entry)
	case 2:
		cache.put(key, &storage.InvalidEntityCacheEntry{LastModified: entry.LastModified})
	}
	valid := true
	if vt.ForkBool("store-marker") {
		m := &storage.InvalidEntityCacheEntry{LastModified: verifInstant("ts", 0, T)}
		cache.put(storeKey, m)
		valid = valid && !entry.LastModified.Before(m.LastModified)
	}
	for i := 0; i < nEnt; i++ {
		if vt.ForkBool("entity-marker" + strconv.Itoa(i)) {
			m := &storage.InvalidEntityCacheEntry{LastModified: verifInstant("t"+strconv.Itoa(i), 0, T)}
			cache.put(ek[i], m)
			valid = valid && !entry.LastModified.Before(m.LastModified)
		}
	}
	got, hit := findInCache(cache, key, storeKey, ek[:nEnt])
	if kind == 1 && valid {
		vt.Reach("hit")
		vt.Assert(hit && got == entry, "valid entry not served")
		vt.Assert(cache.deletes == 0 && cache.Get(key) == any(entry), "valid entry deleted")
	} else {
		vt.Reach("miss")
		vt.Assert(!hit && got == nil, "entry served although absent, of another type, or older than an invalidation marker")
		if kind == 1 {
			vt.Reach("invalidated")
			vt.Assert(cache.Get(key) == nil, "invalidated entry left in the cache")
		}
	}
	// isInvalidAt alone, at an arbitrary instant
	at := verifInstant("at", 0, T)
	inv := false
	for _, k := range append([]keys.Key{storeKey}, ek[:nEnt]...) {
		if m, ok := cache.Get(k).(*storage.InvalidEntityCacheEntry); ok && at.Before(m.LastModified) {
			inv = true
		}
	}
	vt.Assert(isInvalidAt(cache, at, storeKey, ek[:nEnt]) == inv, "isInvalidAt differs from: some marker is newer than the instant")
}

// ---- K09a: cachedIterator life cycle through CachedDatastore ----

var verifErrInj = errors.New("verif: injected datastore error")

// verifInner is the datastore iterator: items in order; like a real datastore iterator it reports the
// context's error when called with a cancelled context (without consuming); at position errAt it fails
// persistently with verifErrInj.
type verifInner struct {
	items []*openfgav1.Tuple
	pos   int
	errAt int
	stops int
	// cancel (if set) is called while row number cancelAfter is being handed over: the request is cancelled
	// after the datastore's own context check and before the caller sees the row
	cancelAfter int
	cancel      context.CancelFunc
}

func (s *verifInner) Head(ctx context.Context) (*openfgav1.Tuple, error) {
	if err := ctx.Err(); err != nil {
		return nil, err
	}
	if s.stops > 0 || (s.pos >= len(s.items) && s.pos != s.errAt) {
		return nil, storage.ErrIteratorDone
	}
	if s.pos == s.errAt {
		return nil, verifErrInj
	}
	return s.items[s.pos], nil
}

func (s *verifInner) Next(ctx context.Context) (*openfgav1.Tuple, error) {
	t, err := s.Head(ctx)
	if err == nil {
		if s.cancel != nil && s.pos == s.cancelAfter {
			s.cancel()
		}
		s.pos++
	}
	return t, err
}

func (s *verifInner) Stop()           { s.stops++ }
func (s *verifInner) IsOrdered() bool { return true }

// verifReader serves the prepared iterator for every query.
type verifReader struct {
	storage.RelationshipTupleReader
	it    storage.TupleIterator
	reads int
}

func (r *verifReader) Read(ctx context.Context, store string, f storage.ReadFilter, o storage.ReadOptions) (storage.TupleIterator, error) {
	r.reads++
	return r.it, nil
}

func (r *verifReader) ReadUsersetTuples(ctx context.Context, store string, f storage.ReadUsersetTuplesFilter, o storage.ReadUsersetTuplesOptions) (storage.TupleIterator, error) {
	r.reads++
	return r.it, nil
}

func (r *verifReader) ReadStartingWithUser(ctx context.Context, store string, f storage.ReadStartingWithUserFilter, o storage.ReadStartingWithUserOptions) (storage.TupleIterator, error) {
	r.reads++
	return r.it, nil
}

// verifQuery issues one of the three cached queries (api 0 Read, 1 ReadUsersetTuples, 2 ReadStartingWithUser).
func verifQuery(ctx context.Context, ds storage.RelationshipTupleReader, api int) (storage.TupleIterator, error) {
	switch api {
	case 0:
		return ds.Read(ctx, "s", storage.ReadFilter{Object: "d:1", Relation: "r"}, storage.ReadOptions{})
	case 1:
		return ds.ReadUsersetTuples(ctx, "s", storage.ReadUsersetTuplesFilter{Object: "d:1", Relation: "r"}, storage.ReadUsersetTuplesOptions{})
	default:
		return ds.ReadStartingWithUser(ctx, "s", storage.ReadStartingWithUserFilter{ObjectType: "d", Relation: "r",
			UserFilter: []*openfgav1.ObjectRelation{{Object: "u:1"}, {Object: "u:*"}}}, storage.ReadStartingWithUserOptions{})
	}
}

// verifTuples: n tuples that the query of the given api can return, users/objects picked symbolically.
func verifTuples(api, n int) []*openfgav1.Tuple {
	users := []string{"u:1", "u:*", "g:1#m"}
	objs := []string{"d:1", "d:2", "d:3"}
	out := make([]*openfgav1.Tuple, n)
	for i := range out {
		p := vt.Pick("tuple"+strconv.Itoa(i), 2)
		k := &openfgav1.TupleKey{Object: "d:1", Relation: "r", User: users[p]}
		switch api {
		case 1:
			k.User = users[1+p]
		case 2:
			k.Object = objs[vt.Pick("obj"+strconv.Itoa(i), 3)]
		}
		out[i] = &openfgav1.Tuple{Key: k, Timestamp: timestamppb.New(verifInstant("when"+strconv.Itoa(i), 1, 9))}
	}
	return out
}

// K09a: the consumer reads a symbolic number of tuples (Head/Next mix) with a request context that may be
// cancelled at a symbolic step, then stops; the background drain runs; the datastore context may be
// cancelled before Stop. Whatever happened: if the cache was written, the entry holds the COMPLETE inner
// sequence (a partially read result is never stored as complete), its LastModified is the query's start,
// nothing is stored after a non-cancellation error or at/over maxResultSize; and a second identical query
// served from the cache yields exactly the inner sequence.
func VerifK09aLifeCycle() { verifLifeCycle(false) }

// K09a for the second implementation (CachedTupleReader / CachingIterator / LockFreeCachedIterator): same
// obligations; the rebuilt tuples carry no timestamp (the minimal entry does not keep it).
func VerifK09aLifeCycleV2() { verifLifeCycle(true) }

func verifLifeCycle(v2 bool) {
	N := vt.ParamInt("n", 3)
	api := vt.ParamInt("api", -1)
	if api < 0 {
		api = vt.Choose("api", 3)
	}
	n := vt.Choose("n", N+1)
	maxSize := vt.ParamInt("max", N+1)
	if vt.ForkBool("small-max") {
		maxSize = vt.ParamInt("smallmax", 2)
	}
	items := verifTuples(api, n)
	inner := &verifInner{items: items, errAt: vt.Choose("err-at", n+2) - 1}
	cache := &verifCache{}
	dsCtx, dsCancel := context.WithCancel(context.Background())
	defer dsCancel()
	reqCtx, reqCancel := context.WithCancel(context.Background())
	defer reqCancel()
	wg := &sync.WaitGroup{}
	rd := &verifReader{it: inner}
	var ds storage.RelationshipTupleReader
	if v2 {
		ds = NewCachedTupleReader(dsCtx, rd, cache, maxSize, time.Hour, &singleflight.Group{}, wg, time.Minute)
	} else {
		ds = NewCachedDatastore(dsCtx, rd, cache, maxSize, time.Hour, &singleflight.Group{}, wg)
	}

	if vt.ParamInt("inside", 0) == 1 {
		// the request is cancelled INSIDE a datastore read (row k already consumed from the datastore iterator)
		inner.cancelAfter = vt.Choose("cancel-inside-read", n+1) // == n: never
		inner.cancel = reqCancel
	}
	it, err := verifQuery(reqCtx, ds, api)
	vt.Assert(err == nil && rd.reads == 1, "first query did not reach the datastore")
	var started time.Time
	switch ci := it.(type) {
	case *cachedIterator:
		started = ci.initializedAt
	case *CachingIterator:
		started = ci.createdAt
	default:
		vt.Assert(false, "cache miss did not produce a caching iterator")
		return
	}
	calls := vt.Choose("calls", n+2)
	cancelAt := vt.Choose("req-cancel-at", calls+1) // == calls: never
	sawOtherErr := false
	for i := 0; i < calls; i++ {
		if i == cancelAt {
			reqCancel()
		}
		if vt.ForkBool("peek" + strconv.Itoa(i)) {
			_, _ = it.Head(reqCtx)
		}
		_, nerr := it.Next(reqCtx)
		if nerr != nil && !storage.IterIsDoneOrCancelled(nerr) {
			sawOtherErr = true
		}
	}
	if vt.ForkBool("ds-cancel") {
		dsCancel()
	}
	it.Stop()
	it.Stop()
	wg.Wait()
	vt.Reach("stopped")
	vt.Assert(inner.stops > 0, "inner iterator not stopped")
	vt.Assert(cache.sets <= 1, "cache written more than once")
	if cache.sets == 0 {
		vt.Reach("nothing-stored")
		return
	}
	vt.Reach("stored")
	vt.Assert(!sawOtherErr && inner.errAt < 0, "stored although the datastore reported an error")
	vt.Assert(n <= maxSize, "stored although the result exceeds maxResultSize")
	switch e := cache.lastSet.(type) {
	case *storage.TupleIteratorCacheEntry:
		vt.Assert(!v2 && e.LastModified.Equal(started), "entry not stamped with the query's start time")
		vt.Assert(len(e.Tuples) == n, "a partial (or padded) result was stored as complete")
	case *V2IteratorCacheEntry:
		vt.Assert(v2 && e.LastModified.Equal(started), "entry not stamped with the query's start time")
		vt.Assert(len(e.Entries) == n, "a partial (or padded) result was stored as complete")
	default:
		vt.Assert(false, "unexpected value stored in the cache")
	}
	// second, identical query: served from the cache, yields the inner sequence
	it2, err2 := verifQuery(context.Background(), ds, api)
	vt.Assert(err2 == nil && rd.reads == 1, "second query went to the datastore although the entry is valid")
	for i := 0; i < n; i++ {
		h, herr := it2.Head(context.Background())
		t, terr := it2.Next(context.Background())
		vt.Assert(herr == nil && terr == nil, "cached iterator ended early")
		if herr != nil || terr != nil {
			return
		}
		vt.Assert(h.GetKey().GetObject() == t.GetKey().GetObject() && h.GetKey().GetUser() == t.GetKey().GetUser(), "cached Head and Next disagree")
		vt.Assert(t.GetKey().GetObject() == items[i].GetKey().GetObject() && t.GetKey().GetRelation() == items[i].GetKey().GetRelation() &&
			t.GetKey().GetUser() == items[i].GetKey().GetUser(), "cached tuple differs from the datastore's tuple")
		if !v2 {
			vt.Assert(t.GetTimestamp().AsTime().Equal(items[i].GetTimestamp().AsTime()), "cached tuple timestamp differs")
		}
	}
	_, derr := it2.Next(context.Background())
	vt.Assert(errors.Is(derr, storage.ErrIteratorDone), "cached iterator yields more than the datastore did")
	it2.Stop()
}
