package sharediterator

import (
	"context"
	"errors"
	"strconv"

	openfgav1 "github.com/openfga/api/proto/openfga/v1"

	"github.com/openfga/openfga/internal/vt"
	"github.com/openfga/openfga/pkg/storage"
)

// ---- K09d / K23: sharedIterator clones, sequentially consistent at the granularity of whole calls ----

var verifErrInj = errors.New("verif: injected datastore error")

// verifInner yields items in order, fails persistently with verifErrInj at position errAt (-1: never),
// reports ErrIteratorDone at the end and after Stop, and counts Stop calls.
type verifInner struct {
	items []*openfgav1.Tuple
	pos   int
	errAt int
	stops int
	reads int
}

func (s *verifInner) Head(ctx context.Context) (*openfgav1.Tuple, error) {
	if s.stops > 0 || (s.pos >= len(s.items) && s.pos != s.errAt) {
		return nil, storage.ErrIteratorDone
	}
	if s.pos == s.errAt {
		return nil, verifErrInj
	}
	return s.items[s.pos], nil
}

func (s *verifInner) Next(ctx context.Context) (*openfgav1.Tuple, error) {
	s.reads++
	t, err := s.Head(ctx)
	if err == nil {
		s.pos++
	}
	return t, err
}

func (s *verifInner) Stop()           { s.stops++ }
func (s *verifInner) IsOrdered() bool { return true }

// Two clones of one shared iterator (plus the storage's own handle, which is only ever stopped) are driven
// by a symbolic sequence of whole Next/Head/Stop calls. Every clone that is not stopped sees the complete
// inner sequence from its own position 0, in order, then the inner terminal error (ErrIteratorDone or the
// injected error), however the other clone reads or stops; Head does not consume; a stopped clone reports
// ErrIteratorDone; the inner iterator is stopped exactly once, exactly when the last handle stops; every inner
// item is read from the datastore at most once.
func VerifK09dSharedClones() {
	n := vt.ParamInt("n", 2) // exact inner length (one job per length)
	K := vt.ParamInt("ops", 4)
	inner := &verifInner{items: make([]*openfgav1.Tuple, n), errAt: vt.Choose("err-at", n+2) - 1}
	for i := range inner.items {
		inner.items[i] = &openfgav1.Tuple{Key: &openfgav1.TupleKey{Object: "d:" + strconv.Itoa(i), Relation: "r", User: "u:1"}}
	}
	seen := n
	var terminal error = storage.ErrIteratorDone
	if inner.errAt >= 0 {
		terminal = verifErrInj
		if inner.errAt < n {
			seen = inner.errAt
		}
	}
	root := newSharedIterator(inner)
	h := []*sharedIterator{root.clone(), root.clone(), root}
	vt.Assert(h[0] != nil && h[1] != nil, "clone of a live iterator is nil")
	pos := []int{0, 0, 0}
	stopped := []bool{false, false, false}
	live := 3
	ctx := context.Background()
	for k := 0; k < K; k++ {
		step := vt.Choose("step"+strconv.Itoa(k), 7) // 0-2: clone 0 Next/Head/Stop, 3-5: clone 1, 6: the storage's handle stops
		who, op := step/3, step%3                    // op: 0 Next, 1 Head, 2 Stop
		if who == 2 {
			op = 2
		}
		switch op {
		case 2:
			h[who].Stop()
			if !stopped[who] {
				stopped[who] = true
				live--
			}
			vt.Assert((inner.stops == 1) == (live == 0) && inner.stops <= 1, "inner iterator not stopped exactly when the last handle stops")
		default:
			var t *openfgav1.Tuple
			var err error
			if op == 0 {
				t, err = h[who].Next(ctx)
			} else {
				t, err = h[who].Head(ctx)
			}
			switch {
			case stopped[who]:
				vt.Reach("call-on-stopped-clone")
				vt.Assert(errors.Is(err, storage.ErrIteratorDone), "stopped clone yields")
			case pos[who] < seen:
				vt.Reach("item")
				vt.Assert(err == nil && t == inner.items[pos[who]], "clone does not see the inner sequence in order from its own start")
				if op == 0 {
					pos[who]++
				}
			default:
				vt.Reach("terminal")
				vt.Assert(t == nil && err == terminal, "clone does not end with the inner terminal error")
			}
		}
	}
	vt.Assert(inner.reads <= seen+1, "an inner item was read from the datastore more than once")
	for i := range h {
		h[i].Stop()
		h[i].Stop()
	}
	vt.Reach("all-stopped")
	vt.Assert(inner.stops == 1, "inner iterator not stopped exactly once after every handle stopped")
	vt.Assert(root.clone() == nil, "clone of a stopped iterator is not nil")
}
