package sharediterator

import (
	"context"
	"errors"
	"time"

	openfgav1 "github.com/openfga/api/proto/openfga/v1"

	"github.com/openfga/openfga/internal/vt"
	"github.com/openfga/openfga/pkg/storage"
)

// ---- K10: the shared-iterator layer is bypassed by HIGHER_CONSISTENCY ---------------------------------

var errVerifK10 = errors.New("verif: datastore error")

// verifK10Reader is the inner reader: hands out the prepared iterator (or error) and records the preference.
type verifK10Reader struct {
	storage.RelationshipTupleReader
	it    storage.TupleIterator
	err   error
	reads int
	pref  openfgav1.ConsistencyPreference
}

func (r *verifK10Reader) answer(p openfgav1.ConsistencyPreference) (storage.TupleIterator, error) {
	r.reads++
	r.pref = p
	if r.err != nil {
		return nil, r.err
	}
	return r.it, nil
}

func (r *verifK10Reader) Read(ctx context.Context, store string, f storage.ReadFilter, o storage.ReadOptions) (storage.TupleIterator, error) {
	return r.answer(o.Consistency.Preference)
}

func (r *verifK10Reader) ReadUsersetTuples(ctx context.Context, store string, f storage.ReadUsersetTuplesFilter, o storage.ReadUsersetTuplesOptions) (storage.TupleIterator, error) {
	return r.answer(o.Consistency.Preference)
}

func (r *verifK10Reader) ReadStartingWithUser(ctx context.Context, store string, f storage.ReadStartingWithUserFilter, o storage.ReadStartingWithUserOptions) (storage.TupleIterator, error) {
	return r.answer(o.Consistency.Preference)
}

func verifK10Query(ctx context.Context, ds storage.RelationshipTupleReader, api int, pref openfgav1.ConsistencyPreference) (storage.TupleIterator, error) {
	co := storage.ConsistencyOptions{Preference: pref}
	switch api {
	case 0:
		return ds.Read(ctx, "s", storage.ReadFilter{Object: "d:1", Relation: "r"}, storage.ReadOptions{Consistency: co})
	case 1:
		return ds.ReadUsersetTuples(ctx, "s", storage.ReadUsersetTuplesFilter{Object: "d:1", Relation: "r"}, storage.ReadUsersetTuplesOptions{Consistency: co})
	default:
		return ds.ReadStartingWithUser(ctx, "s", storage.ReadStartingWithUserFilter{ObjectType: "d", Relation: "r",
			UserFilter: []*openfgav1.ObjectRelation{{Object: "u:1"}}}, storage.ReadStartingWithUserOptions{Consistency: co})
	}
}

// The shared-iterator storage is first filled (optionally) by a query without the HIGHER_CONSISTENCY preference,
// so that a live shared iterator over the OLD datastore result sits under the query's key. Then the datastore
// result changes and the same query arrives:
// with HIGHER_CONSISTENCY it gets exactly what the inner reader returns now (the object itself, or its error),
// the inner reader is asked with the HIGHER_CONSISTENCY preference and the storage is left alone;
// with another preference (and a warm storage) it gets a clone of the shared iterator and the inner reader is
// not asked again, which shows that the storage is effective here.
func VerifK10SharedIterator() {
	vt.Assert(errVerifK10 != nil && verifErrInj != nil, "init")
	if vt.Symbolic() {
		// the only use is float64(time.Since(start).Milliseconds()) handed to a histogram (a no-op here); the
		// engine has no symbolic floats, so the metric value is pinned
		vt.Stub("(time.Duration).Milliseconds", func(d time.Duration) int64 { return 0 })
	}
	api := vt.Choose("api", 3)
	warm := vt.ForkBool("warm")
	prefs := []openfgav1.ConsistencyPreference{openfgav1.ConsistencyPreference_UNSPECIFIED,
		openfgav1.ConsistencyPreference_MINIMIZE_LATENCY, openfgav1.ConsistencyPreference_HIGHER_CONSISTENCY}
	pref := prefs[vt.Choose("consistency", 3)]
	ctx := context.Background()

	old := &verifInner{items: []*openfgav1.Tuple{{Key: &openfgav1.TupleKey{Object: "d:1", Relation: "r", User: "u:old"}}}, errAt: -1}
	fresh := &verifInner{items: []*openfgav1.Tuple{{Key: &openfgav1.TupleKey{Object: "d:1", Relation: "r", User: "u:new"}}}, errAt: -1}
	rd := &verifK10Reader{it: old}
	st := NewSharedIteratorDatastoreStorage()
	ds := NewSharedIteratorDatastore(rd, st)
	var first storage.TupleIterator
	if warm {
		var err error
		first, err = verifK10Query(ctx, ds, api, prefs[vt.Choose("first-consistency", 2)])
		vt.Assert(err == nil && first != nil && rd.reads == 1, "first query failed")
		vt.Assert(st.ctr.Load() == 1, "first query did not register a shared iterator")
	}
	ctrBefore := st.ctr.Load()
	readsBefore := rd.reads
	rd.it = fresh
	if vt.ForkBool("datastore-fails") {
		rd.err = errVerifK10
	}
	it, err := verifK10Query(ctx, ds, api, pref)

	if pref == openfgav1.ConsistencyPreference_HIGHER_CONSISTENCY {
		vt.Reach("higher-consistency")
		vt.Assert(rd.reads == readsBefore+1 && rd.pref == openfgav1.ConsistencyPreference_HIGHER_CONSISTENCY,
			"inner reader not asked exactly once with the HIGHER_CONSISTENCY preference")
		vt.Assert(st.ctr.Load() == ctrBefore, "shared-iterator storage changed by a HIGHER_CONSISTENCY query")
		if rd.err != nil {
			vt.Assert(it == nil && err == errVerifK10, "inner reader's error not returned")
		} else {
			vt.Assert(err == nil && it == storage.TupleIterator(fresh), "the returned iterator is not the inner reader's")
			if it != nil {
				t, nerr := it.Next(ctx)
				vt.Assert(nerr == nil && t.GetKey().GetUser() == "u:new", "HIGHER_CONSISTENCY query does not yield the datastore's current tuple")
				it.Stop()
			}
		}
	} else if warm {
		vt.Reach("shared-reused")
		vt.Assert(err == nil && it != nil && rd.reads == readsBefore, "warm storage not used although the preference allows it")
		if it != nil {
			t, nerr := it.Next(ctx)
			vt.Assert(nerr == nil && t.GetKey().GetUser() == "u:old", "the shared (older) result is not what is served")
			it.Stop()
		}
	} else {
		vt.Reach("cold")
		vt.Assert(rd.reads == readsBefore+1, "cold storage: inner reader not asked")
		if it != nil {
			it.Stop()
		}
	}
	if first != nil {
		first.Stop()
	}
}
