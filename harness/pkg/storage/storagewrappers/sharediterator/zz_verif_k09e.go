package sharediterator

import (
	"context"
	"errors"
	"strconv"

	openfgav1 "github.com/openfga/api/proto/openfga/v1"

	"github.com/openfga/openfga/internal/vt"
	"github.com/openfga/openfga/pkg/storage"
)

// verifCtxInner is verifInner for a datastore iterator that honours its context (as StaticIterator and the SQL
// iterators do). Before its cancelAt-th read it cancels the context of clone 0 - a request that is cancelled or
// times out while the datastore read it triggered is in flight.
type verifCtxInner struct {
	verifInner
	cancelAt int
	cancel   context.CancelFunc
}

func (s *verifCtxInner) Next(ctx context.Context) (*openfgav1.Tuple, error) {
	if s.reads == s.cancelAt {
		s.cancel()
	}
	if err := ctx.Err(); err != nil {
		s.reads++
		return nil, err
	}
	return s.verifInner.Next(ctx)
}

func (s *verifCtxInner) Head(ctx context.Context) (*openfgav1.Tuple, error) {
	if err := ctx.Err(); err != nil {
		return nil, err
	}
	return s.verifInner.Head(ctx)
}

// Clone 0 belongs to a request whose context is cancelled in the middle of a datastore read (any read position,
// solver-chosen); clone 1 belongs to a healthy request. Whatever the order of their whole Next/Head/Stop calls,
// clone 1 sees the complete inner sequence and then ErrIteratorDone; clone 0 sees a prefix of it and then either
// the rest or its own context error.
func VerifK09eCancelDuringFetch() {
	n := vt.ParamInt("n", 2)
	K := vt.ParamInt("ops", 4)
	ctx0, cancel := context.WithCancel(context.Background())
	defer cancel()
	inner := &verifCtxInner{cancel: cancel, cancelAt: vt.Choose("cancel-at-read", n+2)}
	inner.items = make([]*openfgav1.Tuple, n)
	inner.errAt = -1
	for i := range inner.items {
		inner.items[i] = &openfgav1.Tuple{Key: &openfgav1.TupleKey{Object: "d:" + strconv.Itoa(i), Relation: "r", User: "u:1"}}
	}
	root := newSharedIterator(inner)
	h := []*sharedIterator{root.clone(), root.clone()}
	ctxs := []context.Context{ctx0, context.Background()}
	pos := []int{0, 0}
	stopped := []bool{false, false}
	for k := 0; k < K; k++ {
		step := vt.Choose("step"+strconv.Itoa(k), 6)
		who, op := step/3, step%3 // op: 0 Next, 1 Head, 2 Stop
		if op == 2 {
			h[who].Stop()
			stopped[who] = true
			continue
		}
		var t *openfgav1.Tuple
		var err error
		if op == 0 {
			t, err = h[who].Next(ctxs[who])
		} else {
			t, err = h[who].Head(ctxs[who])
		}
		switch {
		case who == 0 && err != nil && ctx0.Err() != nil && errors.Is(err, context.Canceled):
			vt.Reach("cancelled-clone-reports-its-context")
		case stopped[who]:
			vt.Assert(errors.Is(err, storage.ErrIteratorDone), "stopped clone yields")
		case pos[who] < n:
			if who == 1 {
				vt.Reach("healthy-clone-item")
			}
			vt.Assert(err == nil && t == inner.items[pos[who]], "a clone with a live context does not see the inner sequence in order (another clone's cancelled request leaked into it)")
			if op == 0 {
				pos[who]++
			}
		default:
			vt.Reach("terminal")
			vt.Assert(t == nil && errors.Is(err, storage.ErrIteratorDone), "a clone with a live context does not end with ErrIteratorDone")
		}
	}
	// the healthy clone drains the rest
	if !stopped[1] {
		for ; pos[1] < n; pos[1]++ {
			t, err := h[1].Next(ctxs[1])
			vt.Assert(err == nil && t == inner.items[pos[1]], "healthy clone loses the tail of the sequence after another clone's request was cancelled")
		}
		_, err := h[1].Next(ctxs[1])
		vt.Assert(errors.Is(err, storage.ErrIteratorDone), "healthy clone does not end with ErrIteratorDone")
		vt.Reach("healthy-drained")
	}
	h[0].Stop()
	h[1].Stop()
	root.Stop()
}
