package storagewrappers

import (
	"context"
	"errors"
	"strconv"
	"time"

	"google.golang.org/protobuf/types/known/structpb"

	openfgav1 "github.com/openfga/api/proto/openfga/v1"

	"github.com/openfga/openfga/internal/vt"
	"github.com/openfga/openfga/pkg/storage"
	"github.com/openfga/openfga/pkg/storage/cache/keys"
	"github.com/openfga/openfga/pkg/tuple"
)

// ---- K09b/K09c for the second iterator cache (CachingIterator.flush, LockFreeCachedIterator, tryGetFromCache) ----

// K09b (V2): flush then reconstruct is the identity on the tuple key for every valid tuple the query can
// return (object type and relation are taken from the query, the rest from the minimal entry). The
// timestamp is not kept by design ("minimum data needed to reconstruct a tuple for condition evaluation").
func VerifK09bRoundTripV2() {
	L := vt.ParamInt("len", 2)
	ot, oid, rel := verifPart("ot", L), verifPart("oid", L), verifPart("rel", L)
	user := verifPart("user", L+2) // kept verbatim by the minimal entry: any string
	object := ot + ":" + oid
	vt.Assume(tuple.IsValidObject(object) && tuple.IsValidRelation(rel))
	var cond *openfgav1.RelationshipCondition
	var cctx *structpb.Struct
	condName := ""
	if vt.ForkBool("has-cond") {
		condName = verifPart("cond", L)
		vt.Assume(condName != "")
		if vt.ForkBool("has-cond-context") {
			cctx = &structpb.Struct{}
		}
		cond = &openfgav1.RelationshipCondition{Name: condName, Context: cctx}
	}
	in := &openfgav1.Tuple{Key: &openfgav1.TupleKey{Object: object, Relation: rel, User: user, Condition: cond}}
	cache := &verifCache{}
	key := storage.ReadKey("s", storage.ReadFilter{Object: "d:1", Relation: "r"})
	ci := &CachingIterator{inner: &verifInner{errAt: -1}, tuples: []*openfgav1.Tuple{in}, cache: cache, cacheKey: key,
		maxSize: 10, ttl: time.Hour, objectType: ot, relation: rel}
	ci.flush()
	e, ok := cache.Get(key).(*V2IteratorCacheEntry)
	vt.Assert(ok && len(e.Entries) == 1, "flush did not store the tuple")
	if !ok || len(e.Entries) != 1 {
		return
	}
	it := NewLockFreeCachedIterator(e.Entries, ot, rel, e.Ordered)
	h, herr := it.Head(context.Background())
	out, err := it.Next(context.Background())
	vt.Reach("rebuilt")
	vt.Assert(herr == nil && err == nil, "cached iterator does not yield the stored tuple")
	if herr != nil || err != nil {
		return
	}
	vt.Assert(h.GetKey().GetObject() == out.GetKey().GetObject() && h.GetKey().GetUser() == out.GetKey().GetUser(), "Head and Next disagree")
	vt.Assert(out.GetKey().GetObject() == object, "object changed by the cache round trip")
	vt.Assert(out.GetKey().GetRelation() == rel, "relation changed by the cache round trip")
	vt.Assert(out.GetKey().GetUser() == user, "user changed by the cache round trip")
	vt.Assert(out.GetKey().GetCondition().GetName() == condName, "condition name changed by the cache round trip")
	vt.Assert((out.GetKey().GetCondition() != nil) == (cond != nil), "condition appeared or disappeared in the cache round trip")
	vt.Assert(out.GetKey().GetCondition().GetContext() == cctx, "condition context changed by the cache round trip")
	_, err = it.Next(context.Background())
	vt.Assert(errors.Is(err, storage.ErrIteratorDone), "cached iterator yields more than was stored")
}

// K09c (V2) tryGetFromCache: a cached iterator is returned iff the entry is present, of the right type, and
// not older than the store-wide marker nor any entity marker; an invalidated entry is deleted.
func VerifK09cTryGetFromCacheV2() {
	T := vt.ParamInt("t", 4)
	cache := &verifCache{}
	rd := NewCachedTupleReader(context.Background(), &verifReader{}, cache, 10, time.Hour, nil, nil, 0)
	key := storage.ReadKey("s", storage.ReadFilter{Object: "d:1", Relation: "r"})
	storeKey := storage.InvalidIteratorCacheKey("s")
	ek := []keys.Key{
		storage.InvalidIteratorByObjectRelationCacheKey("s", "d:1", "r"),
		storage.InvalidIteratorByUserObjectTypeCacheKey("s", "u:1", "d"),
	}
	nEnt := vt.Choose("entity-keys", 3)
	entry := &V2IteratorCacheEntry{Entries: []MinimalCacheEntry{{ObjectID: "1", User: "u:1"}}, LastModified: verifInstant("te", 0, T)}
	kind := vt.Choose("entry", 3) // 0 absent, 1 present, 2 a value of another type under the key
	switch kind {
	case 1:
		cache.put(key, entry)
	case 2:
		cache.put(key, &storage.TupleIteratorCacheEntry{LastModified: entry.LastModified})
	}
	valid := true
	if vt.ForkBool("store-marker") {
		m := &storage.InvalidEntityCacheEntry{LastModified: verifInstant("ts", 0, T)}
		cache.put(storeKey, m)
		valid = valid && !entry.LastModified.Before(m.LastModified)
	}
	for i := 0; i < nEnt; i++ {
		if vt.ForkBool("entity-marker" + strconv.Itoa(i)) {
			m := &storage.InvalidEntityCacheEntry{LastModified: verifInstant("t"+strconv.Itoa(i), 0, T)}
			cache.put(ek[i], m)
			valid = valid && !entry.LastModified.Before(m.LastModified)
		}
	}
	it := rd.tryGetFromCache(key, "s", "d", "r", "Read", ek[:nEnt])
	if kind == 1 && valid {
		vt.Reach("hit")
		vt.Assert(it != nil && cache.deletes == 0, "valid entry not served")
		if it != nil {
			t, err := it.Next(context.Background())
			vt.Assert(err == nil && t.GetKey().GetObject() == "d:1" && t.GetKey().GetRelation() == "r" && t.GetKey().GetUser() == "u:1", "hit serves a wrong tuple")
		}
	} else {
		vt.Reach("miss")
		vt.Assert(it == nil, "entry served although absent, of another type, or older than an invalidation marker")
		if kind == 1 {
			vt.Reach("invalidated")
			vt.Assert(cache.Get(key) == nil, "invalidated entry left in the cache")
		}
	}
}
