package storage

import (
	"encoding/binary"

	"google.golang.org/protobuf/types/known/structpb"

	openfgav1 "github.com/openfga/api/proto/openfga/v1"

	"github.com/openfga/openfga/internal/vt"
	"github.com/openfga/openfga/pkg/storage/cache/keys"
)

// ---- K24b (pkg/storage): cache-key constructors are injective before the digest ----------------------
//
// The constructors hash an inner encoding with the seeded xxhash (InvariantCacheKey: everything; the
// iterator keys: the filter lists) - the property excludes digest collisions, so the object of the check is
// the byte string handed to the digest ("pre-digest bytes") plus the outer key. Under the engine
// (*keys.Digest).Write is replaced by a recorder and Sum64 by the constant 0, i.e. a key is the pair
// (recorded pre-digest bytes, outer key bytes with a constant suffix). Natively nothing is replaced: the
// recorded part is empty and the real digest sits in the key/return value, so a collision of pre-digest
// bytes found by the solver shows up natively as two equal keys.

var verifK24Rec []string

func verifK24Hook() {
	verifK24Rec = nil
	if vt.Symbolic() {
		vt.Stub("(*github.com/openfga/openfga/pkg/storage/cache/keys.Digest).Write",
			func(d *keys.Digest, b []byte) (int, error) {
				verifK24Rec = append(verifK24Rec, string(b))
				return len(b), nil
			})
		vt.Stub("(*github.com/openfga/openfga/pkg/storage/cache/keys.Digest).Sum64",
			func(d *keys.Digest) uint64 { return 0 })
	}
}

// verifK24Take returns what was handed to the digest since the last call.
func verifK24Take() string {
	s := ""
	for _, r := range verifK24Rec {
		s += r
	}
	verifK24Rec = nil
	return s
}

type verifK24Pre struct{ inner, outer string }

func (a verifK24Pre) same(b verifK24Pre) bool { return a.inner == b.inner && a.outer == b.outer }

func verifK24Invariant(store, model string, ctx *structpb.Struct, tks []*openfgav1.TupleKey) verifK24Pre {
	h := InvariantCacheKey(store, model, ctx, tks...)
	var b [8]byte
	binary.LittleEndian.PutUint64(b[:], h)
	return verifK24Pre{inner: verifK24Take(), outer: string(b[:])}
}

// ---- InvariantCacheKey ----

type verifK24Inv struct {
	store, model string
	ctx          *structpb.Struct
	tuples       []keys.VerifK24Tuple
}

// verifK24GenInv: the composition level. The parts are checked on their own in the keys package (value
// trees: VerifK24bPbValueInjective incl. prefix-freeness; tuples and tuple sequences: VerifK24bTuple*), so
// the shapes here are a small catalogue: context nil / empty / one string field (key and value symbolic);
// contextual tuples: none, or up to `tuples` tuples each without condition / with a condition and nil
// context / with a condition and a one-field context.
func verifK24GenInv(name string, L int) verifK24Inv {
	in := verifK24Inv{store: vt.String(name+"store", L), model: vt.String(name+"model", L)}
	// fix=1 (default): every string but store and model has exactly L symbolic bytes. The length framing of
	// the individual strings is K24a's subject; what is checked here is how the parts are put together,
	// and symbolic lengths everywhere make the comparison of the two byte strings undecidable in practice
	// (solver unknown after 60 s per query).
	str := func(n string) string {
		s := vt.String(n, L)
		if vt.ParamInt("fix", 1) == 1 {
			vt.Assume(len(s) == L)
			s = s[:L]
		}
		return s
	}
	oneField := func(p string) *structpb.Struct {
		return &structpb.Struct{Fields: map[string]*structpb.Value{str(p + "k"): structpb.NewStringValue(str(p + "v"))}}
	}
	// a job may pin a structural choice (`pin.<name>` = value): splits the shape space over jobs
	choose := func(nm string, k int) int {
		if p := vt.ParamInt("pin."+nm, -1); p >= 0 && p < k {
			return p
		}
		return vt.Choose(nm, k)
	}
	switch choose(name+"ctx", 3) {
	case 1:
		in.ctx = &structpb.Struct{}
	case 2:
		in.ctx = oneField(name + "ctx")
	}
	n := choose(name+"n", vt.ParamInt("tuples", 1)+1)
	for i := 0; i < n; i++ {
		p := name + "t" + string(rune('0'+i))
		t := keys.VerifK24Tuple{Obj: str(p + "o"), Rel: str(p + "r"), User: str(p + "u")}
		switch choose(p+"shape", 3) {
		case 1:
			t.HasCond, t.Cond = true, str(p+"c")
		case 2:
			t.HasCond, t.Cond, t.Ctx = true, str(p+"c"), oneField(p+"x")
		}
		in.tuples = append(in.tuples, t)
	}
	// dups=1: the same contextual tuple may be listed more than once (no validation rejects that); the two inputs
	// are then compared as multisets (see verifK24SameTupleSet), at most two tuples per side
	if vt.ParamInt("dups", 0) == 1 {
		return in
	}
	// default: no two contextual tuples with the same object, relation and user
	for i := range in.tuples {
		for j := 0; j < i; j++ {
			a, b := in.tuples[i], in.tuples[j]
			vt.Assume(a.Obj != b.Obj || a.Rel != b.Rel || a.User != b.User)
		}
	}
	return in
}

func (in verifK24Inv) pre() verifK24Pre {
	var tks []*openfgav1.TupleKey
	for _, t := range in.tuples {
		tks = append(tks, t.Key())
	}
	return verifK24Invariant(in.store, in.model, in.ctx, tks)
}

// sameTupleSet: equal as sets (both lists are duplicate-free in object/relation/user).
func verifK24SameTupleSet(a, b []keys.VerifK24Tuple) bool {
	if len(a) != len(b) {
		return false
	}
	all := true
	for _, x := range a {
		found := false
		for _, y := range b {
			if keys.VerifK24SameTuple(x, y) {
				found = true
			}
		}
		if !found {
			all = false
		}
	}
	// ... and the other way round: with repeated tuples (dups=1, <= 2 tuples per side) equal length plus mutual
	// containment is multiset equality
	for _, y := range b {
		found := false
		for _, x := range a {
			if keys.VerifK24SameTuple(x, y) {
				found = true
			}
		}
		if !found {
			all = false
		}
	}
	return all
}

func VerifK24bInvariantInjective() {
	verifK24Hook()
	L := vt.ParamInt("str", 1)
	a, b := verifK24GenInv("a", L), verifK24GenInv("b", L)
	pa, pb := a.pre(), b.pre()
	sameCtx, sameTuples := keys.VerifPbSameStruct(a.ctx, b.ctx), verifK24SameTupleSet(a.tuples, b.tuples)
	same := a.store == b.store && a.model == b.model && sameCtx && sameTuples
	vt.Reach("built")
	if pa.same(pb) {
		vt.Assert(same, "two semantically different invariant inputs (store, model, context, contextual tuples) have the same pre-digest bytes")
	}
	if same && vt.ParamInt("dups", 0) == 0 {
		// (with repeated tuples only soundness is claimed: two copies of one (object, relation, user) that differ in
		// their condition context keep their request order, so a permuted request gets another key - a cache miss)
		vt.Assert(pa.same(pb), "two semantically equal invariant inputs have different pre-digest bytes")
	}
}

// Reordered contextual tuples and reordered context fields give the same bytes. Tuples get objects with a
// concrete first byte (every order by fork) so that the sort inside InvariantCacheKey is decided on each path.
func VerifK24bInvariantPermute() {
	verifK24Hook()
	L := vt.ParamInt("str", 2)
	n := vt.Choose("n", vt.ParamInt("tuples", 3)-1) + 2
	objs := keys.VerifPbKeys("obj", n, L)
	// fixed-length symbolic strings: permutation invariance does not depend on lengths, and concrete
	// lengths keep every offset of the encodings concrete
	fixed := func(name string) string {
		s := vt.String(name, L)
		vt.Assume(len(s) == L)
		return s[:L]
	}
	var ts []keys.VerifK24Tuple
	for i := 0; i < n; i++ {
		p := "t" + string(rune('0'+i))
		t := keys.VerifK24Tuple{Obj: objs[i], Rel: fixed(p + "r"), User: fixed(p + "u")}
		if vt.ForkBool(p + "cond") {
			t.HasCond, t.Cond = true, fixed(p+"c")
		}
		ts = append(ts, t)
	}
	fk := keys.VerifPbKeys("f", 2, L)
	v0, v1 := structpb.NewStringValue(fixed("v0")), structpb.NewBoolValue(vt.Bool("v1"))
	fwd := &structpb.Struct{Fields: map[string]*structpb.Value{}}
	rev := &structpb.Struct{Fields: map[string]*structpb.Value{}}
	fwd.Fields[fk[0]], fwd.Fields[fk[1]] = v0, v1
	rev.Fields[fk[1]] = v1
	rev.Fields[fk[0]] = v0
	var ka, kb []*openfgav1.TupleKey
	for i := 0; i < n; i++ {
		ka = append(ka, ts[i].Key())
		kb = append(kb, ts[n-1-i].Key())
	}
	if n == 3 && vt.ForkBool("rotate") {
		kb = []*openfgav1.TupleKey{ts[1].Key(), ts[2].Key(), ts[0].Key()}
	}
	store, model := fixed("store"), fixed("model")
	pa := verifK24Invariant(store, model, fwd, ka)
	pb := verifK24Invariant(store, model, rev, kb)
	vt.Reach("built")
	vt.Assert(pa.same(pb), "reordering contextual tuples / context fields changes the invariant key")
}

// ---- CheckCacheKey ----

func VerifK24bCheckCacheKey() {
	L := vt.ParamInt("str", 1)
	type in struct {
		s, o, r, u string
		inv        uint64
	}
	gen := func(p string) in {
		return in{vt.String(p+"s", L), vt.String(p+"o", L), vt.String(p+"r", L), vt.String(p+"u", L), vt.Uint64(p + "inv")}
	}
	a, b := gen("a"), gen("b")
	ka := CheckCacheKey(a.s, a.o, a.r, a.u, a.inv)
	kb := CheckCacheKey(b.s, b.o, b.r, b.u, b.inv)
	vt.Reach("built")
	if ka == kb {
		vt.Assert(a == b, "two different (store, object, relation, user, invariant) have the same sub-problem key")
	}
	if a == b {
		vt.Assert(ka == kb, "equal inputs give different sub-problem keys")
	}
}

// ---- iterator keys ----

// verifK24Name: a name without the separators the key constructors rely on ('#' and ':'), as the tuple
// grammar guarantees for object types, relations and (for '#') objects.
func verifK24Name(name string, L int) string {
	s := vt.String(name, L)
	for i := 0; i < len(s) && i < 4; i++ {
		vt.Assume(s[i] != '#' && s[i] != ':')
	}
	return s
}

func verifK24Strs(name string, max, L int, nilable bool) []string {
	if max == 0 {
		return nil
	}
	if nilable && vt.ForkBool(name+"nil") {
		return nil
	}
	n := vt.Choose(name+"n", max+1)
	out := []string{}
	for i := 0; i < n; i++ {
		out = append(out, vt.String(name+string(rune('0'+i)), L))
	}
	return out
}

// sameMultiset of <= 2 strings; nil and empty are the same filter (no condition filter).
func verifK24SameStrs(a, b []string) bool {
	if len(a) != len(b) {
		return false
	}
	switch len(a) {
	case 0:
		return true
	case 1:
		return a[0] == b[0]
	default:
		return (a[0] == b[0] && a[1] == b[1]) || (a[0] == b[1] && a[1] == b[0])
	}
}

type verifK24Set struct{ vals []string }

func (s *verifK24Set) Size() int { return len(s.vals) }
func (s *verifK24Set) Min() string {
	if len(s.vals) == 0 {
		return ""
	}
	return s.vals[0]
}
func (s *verifK24Set) Max() string {
	if len(s.vals) == 0 {
		return ""
	}
	return s.vals[len(s.vals)-1]
}
func (s *verifK24Set) Add(v string)         { s.vals = append(s.vals, v) }
func (s *verifK24Set) Exists(v string) bool { return false }
func (s *verifK24Set) Values() []string     { return s.vals }

func VerifK24bReadKey() {
	verifK24Hook()
	L := vt.ParamInt("str", 1)
	gen := func(p string) (string, ReadFilter) {
		return vt.String(p+"store", L), ReadFilter{Object: vt.String(p+"o", L), Relation: vt.String(p+"r", L), User: vt.String(p+"u", L),
			Conditions: verifK24Strs(p+"c", vt.ParamInt("conds", 2), L, true)}
	}
	sa, a := gen("a")
	sb, b := gen("b")
	ka := verifK24Pre{outer: string(ReadKey(sa, a).Bytes()), inner: verifK24Take()}
	kb := verifK24Pre{outer: string(ReadKey(sb, b).Bytes()), inner: verifK24Take()}
	same := sa == sb && a.Object == b.Object && a.Relation == b.Relation && a.User == b.User && verifK24SameStrs(a.Conditions, b.Conditions)
	vt.Reach("built")
	if ka.same(kb) {
		vt.Assert(same, "two different Read filters have the same iterator key (before the digest)")
	}
	if same {
		vt.Assert(ka.same(kb), "equal Read filters (conditions reordered) have different iterator keys")
	}
}

type verifK24Ref struct {
	typ, rel string
	kind     int // 0 plain, 1 relation, 2 wildcard
}

func (r verifK24Ref) proto() *openfgav1.RelationReference {
	switch r.kind {
	case 1:
		return &openfgav1.RelationReference{Type: r.typ, RelationOrWildcard: &openfgav1.RelationReference_Relation{Relation: r.rel}}
	case 2:
		return &openfgav1.RelationReference{Type: r.typ, RelationOrWildcard: &openfgav1.RelationReference_Wildcard{Wildcard: &openfgav1.Wildcard{}}}
	}
	return &openfgav1.RelationReference{Type: r.typ}
}

func verifK24SameRef(a, b verifK24Ref) bool {
	return a.typ == b.typ && a.kind == b.kind && (a.kind != 1 || a.rel == b.rel)
}

func VerifK24bReadUsersetTuplesKey() {
	verifK24Hook()
	L := vt.ParamInt("str", 1)
	type in struct {
		store string
		f     ReadUsersetTuplesFilter
		refs  []verifK24Ref
	}
	gen := func(p string) in {
		x := in{store: vt.String(p+"store", L)}
		x.f = ReadUsersetTuplesFilter{Object: vt.String(p+"o", L), Relation: vt.String(p+"r", L), Conditions: verifK24Strs(p+"c", vt.ParamInt("conds", 1), L, true)}
		n := vt.Choose(p+"refs", vt.ParamInt("refs", 2)+1)
		for i := 0; i < n; i++ {
			q := p + "ref" + string(rune('0'+i))
			r := verifK24Ref{typ: verifK24Name(q+"t", L), kind: vt.Choose(q+"k", 3)}
			if r.kind == 1 {
				r.rel = verifK24Name(q+"r", L)
				vt.Assume(r.rel != "") // a userset restriction names a relation
			}
			vt.Assume(r.typ != "")
			x.refs = append(x.refs, r)
			x.f.AllowedUserTypeRestrictions = append(x.f.AllowedUserTypeRestrictions, r.proto())
		}
		return x
	}
	a, b := gen("a"), gen("b")
	ka := verifK24Pre{outer: string(ReadUsersetTuplesKey(a.store, a.f).Bytes()), inner: verifK24Take()}
	kb := verifK24Pre{outer: string(ReadUsersetTuplesKey(b.store, b.f).Bytes()), inner: verifK24Take()}
	sameRefs := len(a.refs) == len(b.refs)
	if sameRefs {
		switch len(a.refs) {
		case 1:
			sameRefs = verifK24SameRef(a.refs[0], b.refs[0])
		case 2:
			sameRefs = (verifK24SameRef(a.refs[0], b.refs[0]) && verifK24SameRef(a.refs[1], b.refs[1])) ||
				(verifK24SameRef(a.refs[0], b.refs[1]) && verifK24SameRef(a.refs[1], b.refs[0]))
		}
	}
	same := a.store == b.store && a.f.Object == b.f.Object && a.f.Relation == b.f.Relation && verifK24SameStrs(a.f.Conditions, b.f.Conditions) && sameRefs
	vt.Reach("built")
	if ka.same(kb) {
		vt.Assert(same, "two different ReadUsersetTuples filters have the same iterator key (before the digest)")
	}
	if same {
		vt.Assert(ka.same(kb), "equal ReadUsersetTuples filters (lists reordered) have different iterator keys")
	}
}

func VerifK24bReadStartingWithUserKey() {
	verifK24Hook()
	L := vt.ParamInt("str", 1)
	type uf struct{ obj, rel string }
	type in struct {
		store string
		f     ReadStartingWithUserFilter
		ufs   []uf
		oids  []string
	}
	gen := func(p string) in {
		x := in{store: vt.String(p+"store", L)}
		x.f = ReadStartingWithUserFilter{ObjectType: vt.String(p+"ot", L), Relation: vt.String(p+"r", L), Conditions: verifK24Strs(p+"c", vt.ParamInt("conds", 1), L, true)}
		n := vt.Choose(p+"ufs", vt.ParamInt("ufs", 2)) + 1 // mandatory, at least one
		for i := 0; i < n; i++ {
			q := p + "uf" + string(rune('0'+i))
			u := uf{obj: vt.String(q+"o", L+1)}
			for k := 0; k < len(u.obj) && k < 4; k++ {
				vt.Assume(u.obj[k] != '#') // objects cannot contain '#'
			}
			if vt.ForkBool(q + "rel") {
				u.rel = verifK24Name(q+"r", L)
				vt.Assume(u.rel != "")
			}
			x.ufs = append(x.ufs, u)
			x.f.UserFilter = append(x.f.UserFilter, &openfgav1.ObjectRelation{Object: u.obj, Relation: u.rel})
		}
		// ObjectIDs: nil or a non-empty ascending set (the shapes callers pass)
		switch vt.Choose(p+"oids", vt.ParamInt("oids", 2)+1) {
		case 1:
			x.oids = []string{vt.String(p+"oid0", L)}
		case 2:
			x.oids = []string{vt.String(p+"oid0", L), vt.String(p+"oid1", L)}
			vt.Assume(x.oids[0] < x.oids[1])
		}
		if x.oids != nil {
			x.f.ObjectIDs = &verifK24Set{vals: x.oids}
		}
		return x
	}
	a, b := gen("a"), gen("b")
	ka := verifK24Pre{outer: string(ReadStartingWithUserKey(a.store, a.f).Bytes()), inner: verifK24Take()}
	kb := verifK24Pre{outer: string(ReadStartingWithUserKey(b.store, b.f).Bytes()), inner: verifK24Take()}
	sameUF := len(a.ufs) == len(b.ufs)
	if sameUF {
		switch len(a.ufs) {
		case 1:
			sameUF = a.ufs[0] == b.ufs[0]
		case 2:
			sameUF = (a.ufs[0] == b.ufs[0] && a.ufs[1] == b.ufs[1]) || (a.ufs[0] == b.ufs[1] && a.ufs[1] == b.ufs[0])
		}
	}
	sameOIDs := len(a.oids) == len(b.oids)
	if sameOIDs {
		for i := range a.oids {
			if a.oids[i] != b.oids[i] {
				sameOIDs = false
			}
		}
	}
	same := a.store == b.store && a.f.ObjectType == b.f.ObjectType && a.f.Relation == b.f.Relation &&
		verifK24SameStrs(a.f.Conditions, b.f.Conditions) && sameUF && sameOIDs
	vt.Reach("built")
	if ka.same(kb) {
		vt.Assert(same, "two different ReadStartingWithUser filters have the same iterator key (before the digest)")
	}
	if same {
		vt.Assert(ka.same(kb), "equal ReadStartingWithUser filters (lists reordered) have different iterator keys")
	}
}

// Keys of different families (sub-problem, the three iterator keys, changelog, invalidation keys) never
// coincide: the namespace prefix / operation tag separates them whatever the field contents are.
func VerifK24bFamiliesDisjoint() {
	verifK24Hook()
	L := vt.ParamInt("str", 1)
	s := func(n string) string { return vt.String(n, L) }
	fam := func(p string, k int) string {
		switch k {
		case 0:
			return string(CheckCacheKey(s(p+"a"), s(p+"b"), s(p+"c"), s(p+"d"), vt.Uint64(p+"i")).Bytes())
		case 1:
			return string(ReadKey(s(p+"a"), ReadFilter{Object: s(p + "b"), Relation: s(p + "c"), User: s(p + "d")}).Bytes())
		case 2:
			return string(ReadUsersetTuplesKey(s(p+"a"), ReadUsersetTuplesFilter{Object: s(p + "b"), Relation: s(p + "c")}).Bytes())
		case 3:
			return string(ReadStartingWithUserKey(s(p+"a"), ReadStartingWithUserFilter{ObjectType: s(p + "b"), Relation: s(p + "c")}).Bytes())
		case 4:
			return string(ChangelogCacheKey(s(p + "a")).Bytes())
		case 5:
			return string(InvalidIteratorCacheKey(s(p + "a")).Bytes())
		case 6:
			return string(InvalidIteratorByObjectRelationCacheKey(s(p+"a"), s(p+"b"), s(p+"c")).Bytes())
		default:
			return string(InvalidIteratorByUserObjectTypeCacheKey(s(p+"a"), s(p+"b"), s(p+"c")).Bytes())
		}
	}
	i := vt.Choose("fa", 8)
	j := vt.Choose("fb", 8)
	vt.Assume(i < j)
	ka, kb := fam("a", i), fam("b", j)
	vt.Reach("built")
	vt.Assert(ka != kb, "keys of two different cache-key families coincide")
}
