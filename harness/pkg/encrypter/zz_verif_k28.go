package encrypter

import "crypto/cipher"

// VerifNewGCM builds the real GCMEncrypter around a supplied AEAD (harnesses pass an ideal AEAD;
// AES-GCM itself is outside what a solver can decide).
func VerifNewGCM(a cipher.AEAD) *GCMEncrypter { return &GCMEncrypter{cipherMode: a} }
