package encrypter

import (
	"crypto/sha256"

	"github.com/openfga/openfga/internal/vt"
)

// ---- K28d: different configured keys derive different AES keys ------------------------------------------------
//
// A token sealed under one configured key must not open under another one. AES-GCM itself is outside the
// solver's reach (ideal AEAD in K28b), but which AES key a configured key string becomes is ordinary code:
// create32ByteKey. Property: two configured keys that derive the same 32 bytes are the same key, given that
// SHA-256 (an uninterpreted function here) does not collide on them. Key lengths 1, 31, 32, 33 cover both sides
// of the AES-256 key size.
func VerifK28dKeyDerivation() {
	lens := []int{1, 31, 32, 33}
	la := lens[vt.Choose("len-a", len(lens))]
	lb := lens[vt.Choose("len-b", len(lens))]
	// both keys on the same side of the AES key size: a short key whose digest happens to EQUAL another configured
	// key's bytes would be a pre-image of SHA-256 - excluded as a cryptographic assumption, like collisions
	vt.Assume((la < 32) == (lb < 32))
	ka := vt.Bytes("ka", 33)
	kb := vt.Bytes("kb", 33)
	vt.Assume(len(ka) == la && len(kb) == lb)
	a, b := string(ka), string(kb)
	// collision freedom of the digest on the two keys
	ha, hb := sha256.Sum256([]byte(a)), sha256.Sum256([]byte(b))
	vt.Assume(ha != hb || a == b)
	da, db := create32ByteKey(a), create32ByteKey(b)
	vt.Assert(len(da) == 32 && len(db) == 32, "derived key is not 32 bytes long")
	same := len(da) == len(db)
	for i := 0; i < 32 && i < len(da) && i < len(db); i++ {
		if da[i] != db[i] {
			same = false
		}
	}
	vt.Reach("derived")
	vt.Assert(!same || a == b, "two different configured keys derive the same AES key: tokens issued under one are accepted under the other")
}
