package tuple

import (
	"github.com/openfga/openfga/internal/vt"
)

// refValidUserset: `type:id#relation` — exactly one ':' (not first) and exactly one '#', the ':' before
// the '#', a non-empty id between them, a non-empty relation after the '#', no space, no control
// character anywhere, and no '*' in the id or the relation (a wildcard has no relation).
func refValidUserset(s string) bool {
	ri := refScanStr(s)
	if ri.ctrl != 0 || ri.spaces != 0 || ri.colons != 1 || ri.hashes != 1 {
		return false
	}
	c, h := ri.firstColon, ri.firstHash
	if c <= 0 || h < c+2 || h >= len(s)-1 {
		return false
	}
	for i := c + 1; i < len(s); i++ {
		if s[i] == '*' {
			return false
		}
	}
	return true
}

func VerifK29cUserset() {
	s := sym("s", vt.ParamInt("len", 6))
	vt.Reach("any")
	vt.Assert(IsValidUserset(s) == refValidUserset(s), "IsValidUserset differs from the documented grammar")
	vt.Assert(IsObjectRelation(s) == refValidUserset(s), "IsObjectRelation differs from the documented grammar")
}

// IsValidUser = wildcard | user id | object | userset, by the reference predicates.
func VerifK29cUser() {
	s := sym("s", vt.ParamInt("len", 5))
	vt.Reach("any")
	want := s == "*" || refValidUserID(s) || refValidObject(s) || refValidUserset(s)
	vt.Assert(IsValidUser(s) == want, "IsValidUser differs from the documented grammar")
}

// Typed wildcard: `type:*` with a non-empty type; IsWildcard additionally accepts the bare "*".
func VerifK29cWildcard() {
	s := sym("s", vt.ParamInt("len", 5))
	vt.Reach("any")
	ri := refScanStr(s)
	typed := ri.firstColon > 0 && ri.firstColon == len(s)-2 && s[len(s)-1] == '*'
	vt.Assert(IsTypedWildcard(s) == typed, "IsTypedWildcard differs from `type:*`")
	vt.Assert(IsWildcard(s) == (typed || s == "*"), "IsWildcard differs from `*` | `type:*`")
	if typed {
		t, id := SplitObject(s)
		vt.Assert(TypedPublicWildcard(t) == s && id == "*", "TypedPublicWildcard(SplitObject(s)) != s")
	}
}

// User protos: string -> proto -> string is the identity on valid users that carry a type.
func VerifK29bUserProto() {
	s := sym("s", vt.ParamInt("len", 6))
	vt.Assume(refValidObject(s) || refValidUserset(s))
	vt.Reach("valid")
	vt.Assert(UserProtoToString(StringToUserProto(s)) == s, "UserProtoToString(StringToUserProto(s)) != s")
}
