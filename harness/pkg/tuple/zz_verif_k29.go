package tuple

import (
	"unicode/utf8"

	"github.com/openfga/openfga/internal/vt"
)

// ---- reference grammar (written from the doc comments, independent of the implementation) ----

// refScan classifies a string byte-wise. It decodes runes with the standard decoder so that control
// characters (C0, DEL, C1) are recognised exactly as documented ("no control characters").
type refInfo struct {
	colons, hashes, ats, spaces, stars, ctrl int
	firstColon, firstHash                    int
	n                                        int // runes
}

func refScanStr(s string) refInfo {
	ri := refInfo{firstColon: -1, firstHash: -1}
	for i := 0; i < len(s); {
		r, sz := utf8.DecodeRuneInString(s[i:])
		switch {
		case r < 0x20 || (r >= 0x7f && r < 0xa0):
			ri.ctrl++
		case r == ':':
			if ri.firstColon < 0 {
				ri.firstColon = i
			}
			ri.colons++
		case r == '#':
			if ri.firstHash < 0 {
				ri.firstHash = i
			}
			ri.hashes++
		case r == '@':
			ri.ats++
		case r == ' ':
			ri.spaces++
		case r == '*':
			ri.stars++
		}
		ri.n++
		i += sz
	}
	return ri
}

// refValidObject: exactly one ':' not at position 0, at least one character after it, no '#', no space, no control.
func refValidObject(s string) bool {
	ri := refScanStr(s)
	return ri.ctrl == 0 && ri.hashes == 0 && ri.spaces == 0 && ri.colons == 1 && ri.firstColon > 0 && ri.firstColon < len(s)-1
}

func refValidRelation(s string) bool {
	ri := refScanStr(s)
	return len(s) > 0 && ri.ctrl == 0 && ri.hashes == 0 && ri.spaces == 0 && ri.colons == 0 && ri.ats == 0
}

func refValidUserID(s string) bool {
	ri := refScanStr(s)
	return len(s) > 0 && ri.ctrl == 0 && ri.hashes == 0 && ri.spaces == 0 && ri.colons == 0
}

// sym is a symbolic string: any bytes, or ASCII only when the job says ascii=1 (longer bounds).
func sym(name string, max int) string {
	if vt.ParamInt("ascii", 0) == 1 {
		return vt.ASCII(name, max)
	}
	return vt.String(name, max)
}

// ---- K29c: grammar predicates equal the reference for every byte string up to the bound ----

func VerifK29cObject() {
	s := sym("s", vt.ParamInt("len", 5))
	vt.Reach("any")
	vt.Assert(IsValidObject(s) == refValidObject(s), "IsValidObject differs from the documented grammar")
}

func VerifK29cRelation() {
	s := sym("s", vt.ParamInt("len", 5))
	vt.Reach("any")
	vt.Assert(IsValidRelation(s) == refValidRelation(s), "IsValidRelation differs from the documented grammar")
}

func VerifK29cUserID() {
	s := sym("s", vt.ParamInt("len", 5))
	vt.Reach("any")
	vt.Assert(IsValidUserID(s) == refValidUserID(s), "IsValidUserID differs from the documented grammar")
}

// ---- K29a: tuple string round trip ----

func VerifK29aRoundTrip() {
	obj := sym("obj", vt.ParamInt("obj", 4))
	rel := sym("rel", vt.ParamInt("rel", 2))
	usr := sym("usr", vt.ParamInt("usr", 4))
	vt.Assume(IsValidObject(obj) && IsValidRelation(rel) && IsValidUser(usr))
	vt.Reach("valid-input")
	tk, err := ParseTupleString(TupleKeyToString(NewTupleKey(obj, rel, usr)))
	vt.Assert(err == nil, "valid tuple does not parse")
	if err == nil {
		vt.Assert(tk.GetObject() == obj && tk.GetRelation() == rel && tk.GetUser() == usr, "round trip changed a field")
	}
}

// converse: whatever parses prints back to the same string
func VerifK29aParsePrint() {
	s := sym("s", vt.ParamInt("len", 8))
	tk, err := ParseTupleString(s)
	if err == nil {
		vt.Reach("parsed")
		vt.Assert(TupleKeyToString(tk) == s, "ParseTupleString accepted a string that does not print back")
	}
}

// ---- K29b: split / build inverses ----

func VerifK29bSplitObjectRelation() {
	o := sym("o", vt.ParamInt("o", 4))
	r := sym("r", vt.ParamInt("r", 3))
	vt.Assume(IsValidObject(o) && IsValidRelation(r))
	vt.Reach("valid")
	o2, r2 := SplitObjectRelation(ToObjectRelationString(o, r))
	vt.Assert(o2 == o && r2 == r, "SplitObjectRelation is not the inverse of ToObjectRelationString")
	t, id := SplitObject(o)
	vt.Assert(BuildObject(t, id) == o, "BuildObject(SplitObject(o)) != o")
}

func VerifK29bUserParts() {
	u := sym("u", vt.ParamInt("len", 7))
	vt.Assume(IsValidUser(u))
	vt.Reach("valid-user")
	t, id, rel := ToUserParts(u)
	vt.Assert(FromUserParts(t, id, rel) == u, "FromUserParts(ToUserParts(u)) != u")
}
