package tuple

import (
	"errors"
	"sort"

	"google.golang.org/protobuf/types/known/structpb"

	openfgav1 "github.com/openfga/api/proto/openfga/v1"

	"github.com/openfga/openfga/internal/vt"
)

// ---- K19 (pkg/tuple): no exported function panics on arbitrary strings ------------------------------
//
// No assertion is needed: a reachable runtime panic (index, slice bounds, nil dereference) is a violation
// by itself. Strings are arbitrary bytes (ascii=1: 7-bit only, longer bound).

func verifK19Str(name string, max int) string {
	if vt.ParamInt("ascii", 0) == 1 {
		return vt.ASCII(name, max)
	}
	return vt.String(name, max)
}

var verifK19Sink int

func verifK19Use(ss ...string) {
	for _, s := range ss {
		verifK19Sink += len(s)
	}
}

// predicates and classifiers of one string
func VerifK19TuplePredicates() {
	s := verifK19Str("s", vt.ParamInt("len", 6))
	n := 0
	for _, b := range []bool{
		IsValidObject(s), IsValidRelation(s), IsValidUserID(s), IsValidUserset(s), IsValidUser(s),
		IsWildcard(s), IsTypedWildcard(s), IsObjectRelation(s),
	} {
		if b {
			n++
		}
	}
	verifK19Sink += n
	verifK19Use(string(GetUserTypeFromUser(s)))
	vt.Reach("end")
}

// splitters of one string and the user proto conversion in both directions
func VerifK19TupleSplit() {
	s := verifK19Str("s", vt.ParamInt("len", 6))
	a, b := SplitObject(s)
	c, d := SplitObjectRelation(s)
	e, f, g := ToUserParts(s)
	verifK19Use(a, b, c, d, e, f, g, GetType(s), GetRelation(s), TypedPublicWildcard(s), BuildObject(s, s), ToObjectRelationString(s, s))
	up := StringToUserProto(s)
	verifK19Use(UserProtoToString(up))
	verifK19Sink += len(ObjectKey(&openfgav1.Object{Type: a, Id: b})) + len(ObjectKey(nil))
	x, y, z := ToUserPartsFromObjectRelation(&openfgav1.ObjectRelation{Object: s, Relation: d})
	verifK19Use(x, y, z, GetObjectRelationAsString(&openfgav1.ObjectRelation{Object: s, Relation: d}), GetObjectRelationAsString(nil))
	x, y, z = ToUserPartsFromObjectRelation(nil)
	verifK19Use(x, y, z)
	vt.Reach("end")
}

// user protos of every kind, including kinds whose inner message is nil (the unset kind panics by design:
// "unsupported type"; UserProtoToString is only applied to users the server built itself)
func VerifK19TupleUserProto() {
	L := vt.ParamInt("len", 3)
	t, id, r := verifK19Str("t", L), verifK19Str("id", L), verifK19Str("r", L)
	var u *openfgav1.User
	switch vt.Choose("kind", 6) {
	case 0:
		u = &openfgav1.User{User: &openfgav1.User_Object{Object: &openfgav1.Object{Type: t, Id: id}}}
	case 1:
		u = &openfgav1.User{User: &openfgav1.User_Userset{Userset: &openfgav1.UsersetUser{Type: t, Id: id, Relation: r}}}
	case 2:
		u = &openfgav1.User{User: &openfgav1.User_Wildcard{Wildcard: &openfgav1.TypedWildcard{Type: t}}}
	case 3:
		u = &openfgav1.User{User: &openfgav1.User_Object{}}
	case 4:
		u = &openfgav1.User{User: &openfgav1.User_Userset{}}
	default:
		u = &openfgav1.User{User: &openfgav1.User_Wildcard{}}
	}
	s := UserProtoToString(u)
	verifK19Use(s, UserProtoToString(StringToUserProto(s)), FromUserParts(t, id, r))
	verifK19Sink += len(FromUserParts("", id, r)) + len(FromUserParts(t, "", r)) + len(FromUserParts(t, id, "")) + len(FromUserParts("", "", ""))
	if UsersetMatchTypeAndRelation(s, r, t) {
		verifK19Sink++
	}
	vt.Reach("end")
}

// tuple string parsing; MustParse* only panic when parsing fails (their documented contract)
func VerifK19TupleParse() {
	s := verifK19Str("s", vt.ParamInt("len", 8))
	tk, err := ParseTupleString(s)
	if err == nil {
		vt.Reach("parsed")
		tk2 := MustParseTupleString(s)
		verifK19Use(tk.GetObject(), tk2.GetUser())
		verifK19Sink += len(MustParseTupleStrings(s, s))
	} else {
		vt.Reach("rejected")
		verifK19Use(err.Error())
	}
	verifK19Sink += len(MustParseTupleStrings())
}

// constructors, converters and printers on tuple keys built from arbitrary strings, nil keys included
func VerifK19TupleBuild() {
	L := vt.ParamInt("len", 3)
	o, r, u, c := verifK19Str("o", L), verifK19Str("r", L), verifK19Str("u", L), verifK19Str("c", L)
	var tk *openfgav1.TupleKey
	switch vt.Choose("shape", 4) {
	case 0:
		tk = NewTupleKey(o, r, u)
	case 1:
		tk = NewTupleKeyWithCondition(o, r, u, c, nil)
	case 2:
		tk = NewTupleKeyWithCondition(o, r, u, c, &structpb.Struct{Fields: map[string]*structpb.Value{c: structpb.NewStringValue(o)}})
	default:
		tk = nil
	}
	verifK19Use(TupleKeyToString(tk), TupleKeyWithConditionToString(tk), From(tk).String(), From(tk).GetObject(), From(tk).GetRelation(), From(tk).GetUser())
	if IsSelfDefining(tk) {
		verifK19Sink++
	}
	wc := TupleKeyToTupleKeyWithoutCondition(tk)
	verifK19Use(TupleKeyToString(wc), TupleKeyWithoutConditionToTupleKey(wc).GetUser())
	verifK19Sink += len(TupleKeysWithoutConditionToTupleKeys(wc, nil, wc)) + len(TupleKeysWithoutConditionToTupleKeys())
	verifK19Use(
		ConvertCheckRequestTupleKeyToTupleKey(NewCheckRequestTupleKey(o, r, u)).GetObject(),
		ConvertCheckRequestTupleKeyToTupleKey(nil).GetObject(),
		ConvertAssertionTupleKeyToTupleKey(NewAssertionTupleKey(o, r, u)).GetObject(),
		ConvertAssertionTupleKeyToTupleKey(nil).GetObject(),
		ConvertReadRequestTupleKeyToTupleKey(&openfgav1.ReadRequestTupleKey{Object: o, Relation: r, User: u}).GetObject(),
		ConvertReadRequestTupleKeyToTupleKey(nil).GetObject(),
		NewExpandRequestTupleKey(o, r).GetObject(),
		NewRelationshipCondition(c, nil).GetName(),
		NewRelationshipCondition("", nil).GetName(),
	)
	vt.Reach("end")
}

// sort.Interface of TupleKeys on keys with arbitrary fields, nil conditions and nil entries' getters
func VerifK19TupleKeysSort() {
	L := vt.ParamInt("len", 2)
	n := vt.Choose("n", 3) + 1
	var tks TupleKeys
	for i := 0; i < n; i++ {
		p := string(rune('0' + i))
		tk := &openfgav1.TupleKey{Object: verifK19Str("o"+p, L), Relation: verifK19Str("r"+p, L), User: verifK19Str("u"+p, L)}
		if vt.ForkBool("cond" + p) {
			tk.Condition = &openfgav1.RelationshipCondition{Name: verifK19Str("c"+p, L)}
		}
		tks = append(tks, tk)
	}
	verifK19Sink += tks.Len()
	if tks.Less(0, n-1) {
		verifK19Sink++
	}
	tks.Swap(0, n-1)
	sort.Sort(tks)
	vt.Reach("sorted")
}

// error types: messages and Is on arbitrary content, nil causes and nil tuple keys
func VerifK19TupleErrors() {
	L := vt.ParamInt("len", 3)
	a, b := verifK19Str("a", L), verifK19Str("b", L)
	var tk *openfgav1.TupleKey
	if vt.ForkBool("tk") {
		tk = NewTupleKeyWithCondition(a, b, a, b, nil)
	}
	var cause error
	if vt.ForkBool("cause") {
		cause = errors.New(a)
	}
	errs := []error{
		&InvalidTupleError{Cause: cause, TupleKey: tk},
		&InvalidConditionalTupleError{Cause: cause, TupleKey: tk},
		&TypeNotFoundError{TypeName: a},
		&RelationNotFoundError{TupleKey: tk, Relation: a, TypeName: b},
	}
	for _, e := range errs {
		verifK19Use(e.Error())
		for _, f := range errs {
			if errors.Is(e, f) {
				verifK19Sink++
			}
		}
	}
	vt.Reach("end")
}
