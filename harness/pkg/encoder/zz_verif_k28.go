package encoder

import (
	"bytes"
	"errors"

	"github.com/openfga/openfga/internal/vt"
	"github.com/openfga/openfga/pkg/encrypter"
)

// ---- K28a: the string serializer round-trips ----

func verifNoPipe(s string) bool {
	for i := 0; i < len(s); i++ {
		if s[i] == '|' {
			return false
		}
	}
	return true
}

// Deserialize(Serialize(u, t)) = (u, t) for every non-empty u without '|' (ULIDs never contain it) and
// EVERY t (object types may contain anything, '|' included). Empty u is rejected at both ends.
func VerifK28aSerializerRoundTrip() {
	u := vt.String("u", vt.ParamInt("u", 3))
	t := vt.String("t", vt.ParamInt("t", 4))
	ser := NewStringContinuationTokenSerializer()
	tok, err := ser.Serialize(u, t)
	if u == "" {
		vt.Reach("empty-ulid")
		vt.Assert(err != nil, "empty ulid serialized")
		return
	}
	vt.Assert(err == nil, "Serialize failed on a non-empty ulid")
	if verifNoPipe(u) {
		vt.Reach("round-trip")
		u2, t2, derr := ser.Deserialize(string(tok))
		vt.Assert(derr == nil, "issued token rejected")
		vt.Assert(u2 == u && t2 == t, "token deserialized to different (ulid, type)")
	}
}

// Every string either fails to deserialize or yields a non-empty ulid, and re-serializing the result
// reproduces the string (nothing is silently dropped or misread).
func VerifK28aDeserializeAny() {
	s := vt.String("s", vt.ParamInt("len", 6))
	ser := NewStringContinuationTokenSerializer()
	u, t, err := ser.Deserialize(s)
	if err != nil {
		vt.Reach("rejected")
		vt.Assert(u == "" && t == "", "values returned together with an error")
		return
	}
	vt.Reach("accepted")
	vt.Assert(u != "", "accepted token with an empty ulid")
	tok, serr := ser.Serialize(u, t)
	vt.Assert(serr == nil && string(tok) == s, "accepted token does not re-serialize to itself")
}

// ---- K28b: encrypt-then-encode framing under an ideal AEAD ----

// verifAEAD is an ideal AEAD: Open succeeds exactly on (nonce, ciphertext) pairs produced by Seal.
type verifAEAD struct {
	sealed bool
	nonce  []byte
	ct     []byte
	pt     []byte
}

func (a *verifAEAD) NonceSize() int { return 2 }
func (a *verifAEAD) Overhead() int  { return 1 }

func (a *verifAEAD) Seal(dst, nonce, plaintext, ad []byte) []byte {
	ct := make([]byte, 0, len(plaintext)+1)
	for i := 0; i < len(plaintext); i++ {
		ct = append(ct, plaintext[i]^vt.Byte("ks"+string(rune('0'+i)))) // arbitrary keystream
	}
	ct = append(ct, vt.Byte("tag"))
	a.sealed, a.nonce, a.ct, a.pt = true, append([]byte(nil), nonce...), ct, append([]byte(nil), plaintext...)
	return append(dst, ct...)
}

func (a *verifAEAD) Open(dst, nonce, ciphertext, ad []byte) ([]byte, error) {
	if a.sealed && bytes.Equal(nonce, a.nonce) && bytes.Equal(ciphertext, a.ct) {
		return append(dst, a.pt...), nil
	}
	return nil, errors.New("cipher: message authentication failed")
}

// Decode(Encode(d)) = d, and any string that is not the issued token is rejected (or is the documented
// empty-token pass-through).
func VerifK28bTokenEncoder() {
	d := vt.String("d", vt.ParamInt("d", 3))
	aead := &verifAEAD{}
	enc := NewTokenEncoder(encrypter.VerifNewGCM(aead), NoopEncoder{})
	tok, err := enc.Encode([]byte(d))
	vt.Assert(err == nil, "Encode failed")
	back, derr := enc.Decode(tok)
	vt.Assert(derr == nil && string(back) == d, "Decode(Encode(d)) != d")
	if d != "" {
		vt.Reach("non-empty")
		vt.Assert(len(tok) == 2+len(d)+1, "token is not nonce || ciphertext || tag")
	}
	// tampering
	forged := vt.String("forged", vt.ParamInt("d", 3)+4)
	got, ferr := enc.Decode(forged)
	if ferr == nil {
		vt.Reach("forged-accepted")
		vt.Assert(forged == tok || forged == "", "a string that was never issued decodes successfully")
		if forged == "" {
			vt.Assert(len(got) == 0, "empty token decodes to data")
		} else {
			vt.Assert(string(got) == d, "issued token decodes to other data")
		}
	}
}
