package encoder

import (
	"errors"

	"github.com/openfga/openfga/internal/vt"
	"github.com/openfga/openfga/pkg/encrypter"
)

// ---- K19 (tokens): arbitrary continuation-token strings never panic a deserialiser -------------------

// verifK19AEAD: an AEAD whose Open verdict on foreign input is arbitrary (symbolic): whatever the cipher
// says about a forged token, the framing code around it must not panic. Nonce size by job parameter so
// that short strings reach every branch of GCMEncrypter.Decrypt (too short / exactly the nonce / longer).
type verifK19AEAD struct{ nonce int }

func (a *verifK19AEAD) NonceSize() int { return a.nonce }
func (a *verifK19AEAD) Overhead() int  { return 1 }
func (a *verifK19AEAD) Seal(dst, nonce, plaintext, ad []byte) []byte {
	return append(append(dst, plaintext...), 0)
}
func (a *verifK19AEAD) Open(dst, nonce, ciphertext, ad []byte) ([]byte, error) {
	if vt.Bool("authentic") {
		return append(dst, ciphertext...), nil
	}
	return nil, errors.New("cipher: message authentication failed")
}

func VerifK19TokenDecodeAny() {
	s := vt.String("tok", vt.ParamInt("len", 6))
	// serializer layer
	ser := NewStringContinuationTokenSerializer()
	ulid, typ, err := ser.Deserialize(s)
	if err == nil {
		vt.Reach("deserialized")
		b, serr := ser.Serialize(ulid, typ)
		vt.Assert(serr == nil && string(b) == s, "an accepted token does not serialise back to itself")
	} else {
		vt.Reach("rejected")
		vt.Assert(ulid == "" && typ == "", "a rejected token leaks parsed parts")
	}
	_, _ = ser.Serialize(s, s)
	// encoder layer: real TokenEncoder + real GCMEncrypter framing, pass-through encoding
	enc := NewTokenEncoder(encrypter.VerifNewGCM(&verifK19AEAD{nonce: vt.ParamInt("nonce", 2)}), NoopEncoder{})
	data, derr := enc.Decode(s)
	if derr == nil {
		vt.Reach("decoded")
		vt.Assert(len(data) <= len(s), "decoded data is longer than the token")
	}
	tok, eerr := enc.Encode([]byte(s))
	vt.Assert(eerr == nil, "Encode failed on arbitrary data")
	if s != "" {
		vt.Assert(len(tok) == vt.ParamInt("nonce", 2)+len(s)+1, "token is not nonce || ciphertext || tag")
	}
	// the no-op encrypter/encoder pair
	plain := NewTokenEncoder(encrypter.NewNoopEncrypter(), NoopEncoder{})
	back, perr := plain.Decode(s)
	vt.Assert(perr == nil && string(back) == s, "no-op token encoder is not the identity")
}

// base64 layer (the real encoding/base64 URL decoder) on arbitrary strings
func VerifK19Base64DecodeAny() {
	s := vt.String("tok", vt.ParamInt("len", 4))
	e := NewBase64Encoder()
	b, err := e.Decode(s)
	if err == nil {
		vt.Reach("decoded")
		vt.Assert(len(b) <= len(s), "decoded data is longer than its base64 text")
	} else {
		vt.Reach("rejected")
	}
}
