package encoder

import (
	"github.com/openfga/openfga/internal/vt"
)

// ---- K28c: the base64 layer of continuation tokens round-trips ------------------------------------------------
//
// The real Base64Encoder (encoding/base64 executed from its source): Decode(Encode(b)) = b for every byte string
// up to the bound - in particular for bytes whose sextets are 62 and 63, where the URL and the standard alphabet
// differ - and the encoded text only uses the URL-safe alphabet.
func VerifK28cBase64RoundTrip() {
	n := vt.ParamInt("len", 4)
	b := vt.Bytes("b", n)
	e := NewBase64Encoder()
	s, err := e.Encode(b)
	vt.Assert(err == nil, "Encode failed")
	for i := 0; i < len(s) && i < 12; i++ {
		c := s[i]
		ok := (c >= 'A' && c <= 'Z') || (c >= 'a' && c <= 'z') || (c >= '0' && c <= '9') || c == '-' || c == '_' || c == '='
		vt.Assert(ok, "encoded token contains a character outside the URL-safe base64 alphabet")
	}
	d, derr := e.Decode(s)
	vt.Reach("decoded")
	vt.Assert(derr == nil, "a token the encoder issued is rejected by its own decoder")
	vt.Assert(len(d) == len(b), "decoded token has another length than the encoded bytes")
	for i := 0; i < len(b) && i < len(d) && i < 8; i++ {
		vt.Assert(d[i] == b[i], "decoded token differs from the encoded bytes")
	}
}
