package presharedkey

import (
	"context"
	"crypto/sha256"
	"errors"

	"google.golang.org/grpc/metadata"

	"github.com/openfga/openfga/internal/authn"
	"github.com/openfga/openfga/internal/vt"
)

// K27: with 1..3 configured keys (arbitrary strings) and an arbitrary presented token, the request is
// authenticated exactly when the token's digest equals the digest of a configured key; under the
// collision-freedom assumption (stated for the strings involved) that is "token is a configured key".
// A missing header yields ErrMissingBearerToken; everything else ErrUnauthenticated.
func VerifK27Preshared() {
	nk := vt.Choose("nk", 3) + 1
	L := vt.ParamInt("len", 3)
	keys := make([]string, nk)
	for i := range keys {
		keys[i] = vt.String("key"+string(rune('0'+i)), L)
	}
	tok := vt.String("tok", L)
	missing := vt.Bool("missing")

	pka, err := NewPresharedKeyAuthenticator(keys)
	vt.Assert(err == nil && pka != nil, "constructor failed with keys configured")

	ctx := context.Background()
	if vt.Symbolic() {
		// the header extraction is a library call (grpc middleware): replaced by its contract
		vt.Stub("github.com/grpc-ecosystem/go-grpc-middleware/v2/interceptors/auth.AuthFromMD",
			func(ctx context.Context, scheme string) (string, error) {
				if missing {
					return "", errors.New("no header")
				}
				return tok, nil
			})
	} else if !missing {
		ctx = metadata.NewIncomingContext(ctx, metadata.Pairs("authorization", "Bearer "+tok))
	}

	claims, aerr := pka.Authenticate(ctx)
	if missing {
		vt.Reach("missing")
		vt.Assert(claims == nil && errors.Is(aerr, authn.ErrMissingBearerToken), "missing header not reported as ErrMissingBearerToken")
		return
	}
	// collision freedom for the strings in play (the property excludes digest collisions)
	isKey := false
	for _, k := range keys {
		vt.Assume(k == tok || sha256.Sum256([]byte(k)) != sha256.Sum256([]byte(tok)))
		if k == tok {
			isKey = true
		}
	}
	if isKey {
		vt.Reach("valid")
		vt.Assert(aerr == nil && claims != nil, "a configured key was rejected")
	} else {
		vt.Reach("invalid")
		vt.Assert(claims == nil && errors.Is(aerr, authn.ErrUnauthenticated), "a token that is not a configured key was accepted")
	}
}

// No keys configured is a configuration error, never an open server.
func VerifK27NoKeys() {
	pka, err := NewPresharedKeyAuthenticator(nil)
	vt.Reach("called")
	vt.Assert(err != nil && pka == nil, "authenticator built without keys")
}
