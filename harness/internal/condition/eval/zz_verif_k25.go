package eval

import (
	"context"
	"errors"
	"reflect"

	"github.com/google/cel-go/cel"
	celtypes "github.com/google/cel-go/common/types"
	"github.com/google/cel-go/common/types/ref"
	"github.com/google/cel-go/interpreter"
	"google.golang.org/protobuf/types/known/structpb"

	openfgav1 "github.com/openfga/api/proto/openfga/v1"

	"github.com/openfga/openfga/internal/condition"
	"github.com/openfga/openfga/internal/condition/types"
	"github.com/openfga/openfga/internal/vt"
)

// ---- K25: what a conditional tuple's CEL program is asked, and what is done with its answer -----------
//
// Real code: EvaluateTupleCondition, EvaluableCondition.Evaluate (context merge, missing parameters,
// unknown/err handling), CastContextToTypedParameters, types.DecodeParameterType and the string
// converter. Replaced: the CEL program (a harness cel.Program that records the variables it is handed
// and answers with symbolic bits: evaluation error / unknown / verdict) and, under the engine only,
// CEL compilation and (*cel.Env).PartialVars (contract: a name is bound iff it is in the typed
// parameter map, with that value).
//
// Condition "cond" declares x: string, y: string. For each parameter and each source (request context,
// tuple context) the slot is absent / a symbolic string / a value of the wrong type (bool).

type verifK25Val struct{ b bool }

func (v verifK25Val) ConvertToNative(t reflect.Type) (any, error) { return v.b, nil }
func (v verifK25Val) ConvertToType(t ref.Type) ref.Val            { return v }
func (v verifK25Val) Equal(o ref.Val) ref.Val                     { return v }
func (v verifK25Val) Type() ref.Type                              { return celtypes.BoolType }
func (v verifK25Val) Value() any                                  { return v.b }

type verifK25Program struct {
	calls            int
	okX, okY         bool
	valX, valY       any
	fail, unk, truth bool
}

var errVerifK25 = errors.New("cel evaluation failed")

func (p *verifK25Program) Eval(vars any) (ref.Val, *cel.EvalDetails, error) {
	return p.ContextEval(context.Background(), vars)
}

func (p *verifK25Program) ContextEval(ctx context.Context, vars any) (ref.Val, *cel.EvalDetails, error) {
	p.calls++
	act, ok := vars.(interpreter.Activation)
	vt.Assert(ok, "CEL program not handed an activation")
	if ok {
		p.valX, p.okX = act.ResolveName("x")
		p.valY, p.okY = act.ResolveName("y")
	}
	if p.fail {
		return nil, nil, errVerifK25
	}
	if p.unk {
		return &celtypes.Unknown{}, nil, nil
	}
	return verifK25Val{p.truth}, nil, nil
}

type verifK25Act struct{ vars map[string]any }

func (a verifK25Act) ResolveName(n string) (any, bool) { v, ok := a.vars[n]; return v, ok }
func (a verifK25Act) Parent() interpreter.Activation   { return nil }
func (a verifK25Act) UnknownAttributePatterns() []*interpreter.AttributePattern {
	return nil
}

const (
	verifK25Absent = 0
	verifK25Str    = 1
	verifK25Bad    = 2
)

// verifK25Slot forks on the slot kind and puts the value into the map.
func verifK25Slot(name string, m map[string]*structpb.Value, key string, L int) (kind int, s string) {
	kind = vt.Choose(name, 3)
	switch kind {
	case verifK25Str:
		s = vt.ASCII(name+"v", L)
		m[key] = structpb.NewStringValue(s)
	case verifK25Bad:
		m[key] = structpb.NewBoolValue(true)
	}
	return kind, s
}

func VerifK25TupleCondition() {
	L := vt.ParamInt("len", 2)
	shape := vt.Choose("shape", 5) // 0 ok, 1 tuple without condition, 2 tuple condition with empty name, 3 condition not in model (nil), 4 name mismatch
	cond := &openfgav1.Condition{
		Name:       "cond",
		Expression: "x == y",
		Parameters: map[string]*openfgav1.ConditionParamTypeRef{
			"x": {TypeName: openfgav1.ConditionParamTypeRef_TYPE_NAME_STRING},
			"y": {TypeName: openfgav1.ConditionParamTypeRef_TYPE_NAME_STRING},
		},
	}
	prg := &verifK25Program{fail: vt.Bool("celFails"), unk: vt.Bool("celUnknown"), truth: vt.Bool("celVerdict")}
	if vt.Symbolic() {
		vt.Stub("(*github.com/google/cel-go/cel.Env).PartialVars",
			func(e *cel.Env, vars any) (interpreter.PartialActivation, error) {
				m, _ := vars.(map[string]any)
				return verifK25Act{m}, nil
			})
		// the parameter-type registry is filled by package initialisers that reference CEL types (not
		// interpretable): both declared parameters are strings, so decoding yields "the string type" and
		// its converter is, per converters.go primitiveTypeConverterFunc[string], identity-or-error
		vt.Stub("github.com/openfga/openfga/internal/condition/types.DecodeParameterType",
			func(r *openfgav1.ConditionParamTypeRef) (*types.ParameterType, error) {
				if r.GetTypeName() != openfgav1.ConditionParamTypeRef_TYPE_NAME_STRING {
					return nil, errors.New("unknown condition parameter type")
				}
				return &types.ParameterType{}, nil
			})
		vt.Stub("(github.com/openfga/openfga/internal/condition/types.ParameterType).ConvertValue",
			func(pt types.ParameterType, value any) (any, error) {
				if s, ok := value.(string); ok {
					return s, nil
				}
				return nil, errors.New("expected type value 'string'")
			})
	}
	ec, cerr := condition.VerifK25WithProgram(cond, prg)
	vt.Assert(cerr == nil && ec != nil, "condition set-up failed")
	if cerr != nil {
		return
	}

	tk := &openfgav1.TupleKey{Object: "doc:1", Relation: "viewer", User: "user:a"}
	switch shape {
	case 0, 3:
		tk.Condition = &openfgav1.RelationshipCondition{Name: "cond"}
	case 2:
		tk.Condition = &openfgav1.RelationshipCondition{Name: ""}
	case 4:
		tk.Condition = &openfgav1.RelationshipCondition{Name: "other"}
	}
	if shape == 3 {
		ec = nil
	}

	var reqCtx *structpb.Struct
	var kRX, kRY, kTX, kTY int
	var sRX, sRY, sTX, sTY string
	if shape == 0 {
		// request context: nil, or a struct with the slots (and possibly an undeclared key)
		if vt.ParamInt("nilfields", 1) == 1 && vt.ForkBool("reqCtxWithoutFields") {
			// `"context": {}` decodes to a Struct whose Fields map is nil (present but empty request context)
			reqCtx = &structpb.Struct{}
		} else if vt.ForkBool("reqCtx") {
			reqCtx = &structpb.Struct{Fields: map[string]*structpb.Value{}}
			kRX, sRX = verifK25Slot("rx", reqCtx.Fields, "x", L)
			kRY, sRY = verifK25Slot("ry", reqCtx.Fields, "y", L)
			if vt.ForkBool("undeclared") {
				reqCtx.Fields["z"] = structpb.NewStringValue("zz")
			}
		}
		if vt.ParamInt("nilfields", 1) == 1 && vt.ForkBool("tupleCtxWithoutFields") {
			tk.Condition.Context = &structpb.Struct{}
		} else if vt.ForkBool("tupleCtx") {
			tk.Condition.Context = &structpb.Struct{Fields: map[string]*structpb.Value{}}
			kTX, sTX = verifK25Slot("tx", tk.Condition.Context.Fields, "x", L)
			kTY, sTY = verifK25Slot("ty", tk.Condition.Context.Fields, "y", L)
		}
	} else if vt.ForkBool("reqCtx") {
		reqCtx = &structpb.Struct{Fields: map[string]*structpb.Value{"x": structpb.NewStringValue("a"), "y": structpb.NewStringValue("a")}}
	}

	nReq, nTup := len(reqCtx.GetFields()), len(tk.GetCondition().GetContext().GetFields())
	met, err := EvaluateTupleCondition(context.Background(), tk, ec, reqCtx)
	// the same request context is used for every tuple of a request: an evaluation must not write into it
	vt.Assert(len(reqCtx.GetFields()) == nReq, "evaluation modified the caller's request context (stored parameters would leak into the evaluation of other tuples)")
	vt.Assert(len(tk.GetCondition().GetContext().GetFields()) == nTup, "evaluation modified the tuple's stored context")

	switch shape {
	case 1, 2:
		vt.Reach("unconditional")
		vt.Assert(met && err == nil, "tuple without condition is not satisfied")
		vt.Assert(prg.calls == 0, "CEL evaluated for a tuple without condition")
		return
	case 3, 4:
		vt.Reach("condition-not-found")
		vt.Assert(!met && err != nil, "tuple whose condition is missing/mismatched was not an error")
		vt.Assert(prg.calls == 0, "CEL evaluated with another condition's program")
		return
	}
	// merge: tuple context wins
	mx, sx := kRX, sRX
	if kTX != verifK25Absent {
		mx, sx = kTX, sTX
	}
	my, sy := kRY, sRY
	if kTY != verifK25Absent {
		my, sy = kTY, sTY
	}
	if mx == verifK25Bad || my == verifK25Bad {
		vt.Reach("mistyped")
		vt.Assert(!met && err != nil, "mistyped parameter did not fail the evaluation")
		vt.Assert(prg.calls == 0, "CEL evaluated although a parameter could not be converted")
		return
	}
	vt.Reach("evaluated")
	vt.Assert(prg.calls == 1, "CEL program not evaluated exactly once")
	// the variable map handed to CEL is request ∪ tuple, tuple winning
	vt.Assert(prg.okX == (mx == verifK25Str), "x bound/unbound wrongly")
	vt.Assert(prg.okY == (my == verifK25Str), "y bound/unbound wrongly")
	if mx == verifK25Str && prg.okX {
		gx, isS := prg.valX.(string)
		vt.Assert(isS && gx == sx, "x handed to CEL is not the merged value (tuple context must win)")
	}
	if my == verifK25Str && prg.okY {
		gy, isS := prg.valY.(string)
		vt.Assert(isS && gy == sy, "y handed to CEL is not the merged value (tuple context must win)")
	}
	missing := mx == verifK25Absent || my == verifK25Absent
	switch {
	case prg.fail:
		vt.Reach("cel-error")
		vt.Assert(!met && err != nil, "CEL evaluation error not reported")
	case missing:
		vt.Reach("missing-parameter")
		vt.Assert(!met && err != nil, "a declared parameter absent from both contexts did not fail the evaluation")
	case prg.unk:
		vt.Reach("unknown")
		vt.Assert(!met && err == nil, "unknown CEL result with all parameters present is not 'condition not met'")
	default:
		vt.Reach("verdict")
		vt.Assert(err == nil && met == prg.truth, "CEL verdict not returned unchanged")
	}
}
