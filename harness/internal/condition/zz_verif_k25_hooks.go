package condition

import (
	"github.com/google/cel-go/cel"

	openfgav1 "github.com/openfga/api/proto/openfga/v1"

	"github.com/openfga/openfga/internal/vt"
)

// VerifK25WithProgram builds an EvaluableCondition whose CEL *program* is the given one (the harness's
// uninterpreted verdict); everything else of the condition machinery stays real.
//
//   - natively (counterexample replay): the condition is really compiled (real CEL environment with the
//     declared variables, so PartialVars / ResolveName are the real ones) and only the program is swapped;
//   - under the engine: CEL compilation cannot be interpreted, so the condition is marked compiled with
//     no CEL environment; the harness replaces (*cel.Env).PartialVars by its contract via vt.Stub.
func VerifK25WithProgram(c *openfgav1.Condition, prg cel.Program) (*EvaluableCondition, error) {
	if vt.Symbolic() {
		e := &EvaluableCondition{Condition: c, celProgram: prg}
		e.compileOnce.Do(func() {})
		return e, nil
	}
	e, err := NewCompiled(c)
	if err != nil {
		return nil, err
	}
	e.celProgram = prg
	return e, nil
}
