package graph

import (
	"context"
	"strconv"
	"strings"
	"time"

	openfgav1 "github.com/openfga/api/proto/openfga/v1"
	"google.golang.org/protobuf/types/known/structpb"

	"github.com/openfga/openfga/internal/vt"
	"github.com/openfga/openfga/internal/vtmodels"
	"github.com/openfga/openfga/internal/vtsem"
	"github.com/openfga/openfga/pkg/storage"
	"github.com/openfga/openfga/pkg/storage/storagewrappers"
	"github.com/openfga/openfga/pkg/tuple"
	"github.com/openfga/openfga/pkg/typesystem"
)

type verifReq struct{ obj, rel, user string }

// verifRequests enumerates Check requests over the universe: every object#relation against every
// concrete object of every type, every userset over the universe, and typed wildcards.
func verifRequests(u *vtsem.Universe, subjects string) []verifReq {
	var subs []string
	for _, t := range u.Types {
		subs = append(subs, u.Objects[t][0])
	}
	if subjects == "all" {
		for _, t := range u.Types {
			subs = append(subs, u.Objects[t][1:]...)
			for r := range typeRelations(u, t) {
				subs = append(subs, u.Objects[t][0]+"#"+r)
			}
			subs = append(subs, t+":*")
		}
	}
	var out []verifReq
	for _, t := range u.Types {
		for r := range typeRelations(u, t) {
			for _, o := range u.Objects[t] {
				for _, s := range subs {
					out = append(out, verifReq{o, r, s})
				}
			}
		}
	}
	// deterministic order
	for i := 1; i < len(out); i++ {
		for j := i; j > 0 && less(out[j], out[j-1]); j-- {
			out[j], out[j-1] = out[j-1], out[j]
		}
	}
	return out
}

func less(a, b verifReq) bool {
	if a.obj != b.obj {
		return a.obj < b.obj
	}
	if a.rel != b.rel {
		return a.rel < b.rel
	}
	return a.user < b.user
}

func typeRelations(u *vtsem.Universe, t string) map[string]*openfgav1.Userset {
	for _, td := range u.Model.GetTypeDefinitions() {
		if td.GetType() == t {
			return td.GetRelations()
		}
	}
	return nil
}

// VerifE01Check: for one model, every request of the enumerated family (chosen by a forked index or by
// the "req" parameter) and EVERY store content over the candidate universe, the decision of the default
// engine equals the reference semantics; engine errors only where the semantics is undefined (error).
func VerifE01Check() {
	m := vtmodels.Model(vt.Param("model", "direct"))
	ts, err := typesystem.New(m)
	vt.Assert(err == nil && ts != nil, "typesystem.New failed on a validated model")
	vtsem.StarSecondID = vt.ParamInt("starid", 0) == 1
	vtsem.LowFirstID = vt.ParamInt("lowid", 0) == 1
	u := vtsem.NewUniverse(m, vt.ParamInt("nobj", 2), vt.ParamInt("invalid", 1) == 1)
	if ot := vt.Param("onlytype", ""); ot != "" {
		// keep the candidate tuples on objects of one type (with three objects per type the whole universe of a
		// recursive relation then fits the candidate bound)
		var keep []vtsem.Cand
		for _, c := range u.Cands {
			if strings.HasPrefix(c.Key.GetObject(), ot+":") {
				keep = append(keep, c)
			}
		}
		u.Cands = keep
	}
	u.Restrict(vt.ParamInt("maxcands", 12), vt.ParamInt("seed", 0))
	st := vtsem.NewSymbolicStore(u)
	if vt.ParamInt("noerr", 0) == 1 {
		// every condition can be evaluated (met or not met): keeps the recorded finding about unevaluable
		// conditions from using up the violation budget of a run
		for _, e := range st.CondErr {
			vt.Assume(!e)
		}
	}
	reqs := verifRequests(u, vt.Param("subjects", "all"))
	ri := vt.ParamInt("req", -1)
	if rs := vt.Param("reqstr", ""); rs != "" {
		// a request pinned by its text (object#relation@user)
		ri = len(reqs)
		for i, r := range reqs {
			if r.obj+"#"+r.rel+"@"+r.user == rs {
				ri = i
			}
		}
	}
	if ri < 0 {
		ri = vt.Choose("req", len(reqs))
	}
	if ri >= len(reqs) {
		vt.Reach("no-such-request")
		return
	}
	rq := reqs[ri]
	vt.Event("check " + rq.obj + "#" + rq.rel + "@" + rq.user)
	vt.Event(u.Describe())
	if n := vt.ParamInt("sched", 0); n > 0 {
		// the first n selects with several ready cases pick an arbitrary (forked) case instead of the canonical
		// fair rotation: which of two producer goroutines a resolver hears first is the random choice of a real select
		vt.SchedChoices(n)
	}

	ctx := typesystem.ContextWithTypesystem(context.Background(), ts)
	// C10 ("hc" = 1): the request asks for HIGHER_CONSISTENCY and the reader asserts that every read it serves
	// carries that preference
	consistency := openfgav1.ConsistencyPreference_UNSPECIFIED
	if vt.ParamInt("hc", 0) == 1 {
		consistency = openfgav1.ConsistencyPreference_HIGHER_CONSISTENCY
	}
	var reader storage.RelationshipTupleReader = &vtsem.Reader{S: st, RequireHC: vt.ParamInt("hc", 0) == 1}
	var ctxTuples []*openfgav1.TupleKey
	if k := vt.ParamInt("ctx", 0); k > 0 {
		// C04: the first k candidates are not in the store; those that are "present" are sent as contextual
		// tuples through the real CombinedTupleReader. The reference semantics ignores the split.
		// "ctxdup" = 1: they ALSO stay in the store (the same tuple stored and contextual).
		if vt.ParamInt("ctxdup", 0) == 1 {
			ctxTuples = st.ContextualCopies(k)
		} else {
			ctxTuples = st.SplitContextual(k)
		}
		reader = storagewrappers.NewCombinedTupleReader(reader, ctxTuples)
		vt.Event("contextual tuples: " + strconv.Itoa(len(ctxTuples)) + " of the first " + strconv.Itoa(k) + " valid candidates")
	}
	ctx = storage.ContextWithRelationshipTupleReader(ctx, reader)
	vp := newVerifPlanner(vt.ParamInt("plan", -1))
	opts := []LocalCheckerOption{WithPlanner(vp), WithOptimizations(vt.ParamInt("opt", 1) == 1)}
	if b := vt.ParamInt("breadth", 0); b > 0 {
		opts = append(opts, WithResolveNodeBreadthLimit(uint32(b)))
	}
	localChecker := NewLocalChecker(opts...)
	defer localChecker.Close()
	var checker CheckResolver = localChecker
	var qc *verifK08Cache
	if vt.ParamInt("qcache", 0) == 1 {
		// C08: the real CachedCheckResolver in front of the engine (every dispatched sub-problem goes through it);
		// entries never expire within a harness run. Together with prior=1 / repeat=1 the cache is warm.
		qc = &verifK08Cache{}
		ccr, cerr := NewCachedCheckResolver(WithExistingCache(qc), WithCacheTTL(time.Hour))
		vt.Assert(cerr == nil, "NewCachedCheckResolver failed")
		ccr.SetDelegate(localChecker)
		localChecker.SetDelegate(ccr)
		checker = ccr
	}
	st.StubConditions()
	var reqCtx *structpb.Struct
	if !vt.Symbolic() {
		reqCtx = st.RequestContext() // native replay: the real CEL evaluator sees a context with the chosen outcomes
	}
	req, rerr := NewResolveCheckRequest(ResolveCheckRequestParams{
		StoreID:              "01HVMMBCMGZNT3SED4Z17ECXCB",
		AuthorizationModelID: m.GetId(),
		TupleKey:             tuple.NewTupleKey(rq.obj, rq.rel, rq.user),
		Context:              reqCtx,
		ContextualTuples:     ctxTuples,
		Consistency:          consistency,
	})
	vt.Assert(rerr == nil, "NewResolveCheckRequest failed")
	if vt.ParamInt("prior", 0) == 1 {
		// history: an arbitrary OTHER request was answered first on the same typesystem and checker (their
		// memo tables, planner state and caches are warm); it must not influence the answer below
		pi := vt.ParamInt("priorreq", -1) // pinned by jobs that split the (prior, request) pairs
		if pi < 0 || pi >= len(reqs) {
			pi = vt.Choose("prior", len(reqs))
		}
		pq := reqs[pi]
		vt.Event("prior check " + pq.obj + "#" + pq.rel + "@" + pq.user)
		preq, _ := NewResolveCheckRequest(ResolveCheckRequestParams{
			StoreID:              "01HVMMBCMGZNT3SED4Z17ECXCB",
			AuthorizationModelID: m.GetId(),
			TupleKey:             tuple.NewTupleKey(pq.obj, pq.rel, pq.user),
			Context:              reqCtx,
			ContextualTuples:     ctxTuples,
			Consistency:          consistency,
		})
		pctx := ctx
		inval := vt.ParamInt("inval", 0) == 1
		if inval {
			// C11: the earlier request was answered BEFORE a write - the store it saw differs from the current one
			// in one tuple (solver-chosen) - and an invalidation run that started after the write has completed:
			// the request below carries its time. Nothing cached before may be used, top level or sub-problem.
			st0 := *st
			st0.P = append([]bool(nil), st.P...)
			fi := vt.ParamInt("written", -1) // a job may pin which tuple the write touched
			if fi < 0 || fi >= len(st0.P) {
				fi = vt.Choose("written", len(st0.P))
			}
			st0.P[fi] = vt.Fork(!st0.P[fi]) // decided here, like the presence bits themselves
			vt.Event("store seen by the prior check differs in candidate p" + strconv.Itoa(fi))
			pctx = storage.ContextWithRelationshipTupleReader(ctx, &vtsem.Reader{S: &st0})
		}
		_, _ = checker.ResolveCheck(pctx, preq)
		vp.nextRound()
		if inval {
			req, rerr = NewResolveCheckRequest(ResolveCheckRequestParams{
				StoreID:                   "01HVMMBCMGZNT3SED4Z17ECXCB",
				AuthorizationModelID:      m.GetId(),
				TupleKey:                  tuple.NewTupleKey(rq.obj, rq.rel, rq.user),
				Context:                   reqCtx,
				ContextualTuples:          ctxTuples,
				Consistency:               consistency,
				LastCacheInvalidationTime: time.Now(),
			})
			vt.Assert(rerr == nil, "NewResolveCheckRequest failed")
		}
	}
	if cm := vt.ParamInt("cancel", 0); cm > 0 {
		// C20: the request context is cancelled before (1) or while (2) the engine runs. The call must come
		// back, a decision it still returns must be right, and no engine goroutine may be left behind (the
		// engine reports a deadlock or a goroutine still blocked at the end of the harness by itself).
		cctx, cancel := context.WithCancel(ctx)
		if cm == 1 {
			cancel()
		} else {
			go cancel()
		}
		resp, cerr := checker.ResolveCheck(cctx, req)
		cancel()
		vt.Reach("returned-after-cancel")
		if cerr == nil {
			want := vtsem.NewOracle(st, rq.user, vt.ParamInt("rounds", 0)).Holds(rq.obj, rq.rel)
			if resp.GetAllowed() {
				vt.Assert(want.IsTrue(), "cancelled check allowed a request the semantics denies")
			} else {
				vt.Assert(want.IsFalse(), "cancelled check returned a deny (not an error) for a request the semantics allows")
			}
		}
		return
	}
	if qc != nil && len(qc.ks) > 0 {
		vt.Reach("query-cache-warm")
	}
	var resp *ResolveCheckResponse
	var cerr error
	if vt.ParamInt("inval", 0) == 1 {
		// comparisons of cache-entry times with the invalidation time decide between hit and miss: fork on them
		vt.ForkAll(func() { resp, cerr = checker.ResolveCheck(ctx, req) })
	} else {
		resp, cerr = checker.ResolveCheck(ctx, req)
	}

	want := vtsem.NewOracle(st, rq.user, vt.ParamInt("rounds", 0)).Holds(rq.obj, rq.rel)
	vt.Reach("decided")
	if cerr != nil {
		// an error is legitimate only if some condition that matters cannot be evaluated: under the
		// "conditions are filtered before tuples are expanded" valuation the answer must be an error
		ff := vtsem.NewFilterFirstOracle(st, rq.user, vt.ParamInt("rounds", 0)).Holds(rq.obj, rq.rel)
		vt.Assert(want.IsError() || ff.IsError(), "engine returned an error although no unevaluable condition is involved in the answer")
		return
	}
	switch {
	case want.IsError():
		// the answer hinges on a condition that cannot be evaluated: the request has to fail
		if resp.GetAllowed() {
			vt.Assert(false, "engine allowed a check whose answer depends on a condition that cannot be evaluated")
		} else {
			vt.Assert(false, "engine denied (without an error) a check whose answer depends on a condition that cannot be evaluated")
		}
	case resp.GetAllowed():
		vt.Assert(want.IsTrue(), "engine allowed a check the semantics denies")
	default:
		vt.Assert(want.IsFalse(), "engine denied a check the semantics allows")
	}
	if vt.ParamInt("repeat", 0) == 1 {
		// C02: the same request again on the same checker (planner state kept, possibly other strategies)
		req2, _ := NewResolveCheckRequest(ResolveCheckRequestParams{
			StoreID:              "01HVMMBCMGZNT3SED4Z17ECXCB",
			AuthorizationModelID: m.GetId(),
			TupleKey:             tuple.NewTupleKey(rq.obj, rq.rel, rq.user),
			Context:              reqCtx,
			Consistency:          consistency,
		})
		vp.nextRound()
		resp2, cerr2 := checker.ResolveCheck(ctx, req2)
		vt.Reach("repeated")
		vt.Assert(cerr2 == nil && resp2.GetAllowed() == resp.GetAllowed(), "repeating the request changed its answer")
	}
}
