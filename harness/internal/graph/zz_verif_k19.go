package graph

import (
	"context"
	"errors"

	"github.com/openfga/openfga/internal/concurrency"
	"github.com/openfga/openfga/internal/vt"
)

// ---- K19 (panic capture): a panicking check handler becomes an error, never a crash -------------------

var errVerifK19Handler = errors.New("handler failed")

// verifK19Panic provokes one of the panics a handler can run into: explicit panic with a string / an
// error / nil-ish value, and the runtime panics (index out of range with a symbolic index, nil map
// write, nil pointer dereference, integer division by zero with a symbolic divisor, failed type assertion).
func verifK19Panic(kind int) {
	switch kind {
	case 0:
		panic("boom")
	case 1:
		panic(errVerifK19Handler)
	case 2:
		xs := []int{1, 2, 3}
		i := vt.IntRange("idx", 3, 9)
		xs[i]++
	case 3:
		var m map[string]int
		m["a"] = 1
	case 4:
		var p *ResolveCheckResponse
		p.Allowed = true
	case 5:
		d := vt.IntRange("div", 0, 0)
		_ = 7 / d
	default:
		var x any = "s"
		_ = x.(int)
	}
}

const verifK19PanicKinds = 7

func VerifK19RunHandler() {
	vt.ExpectPanics()
	kind := vt.Choose("kind", verifK19PanicKinds+2)
	want := &ResolveCheckResponse{Allowed: vt.Bool("allowed")}
	out := runHandler(context.Background(), func(ctx context.Context) (*ResolveCheckResponse, error) {
		switch kind {
		case verifK19PanicKinds:
			return want, nil
		case verifK19PanicKinds + 1:
			return nil, errVerifK19Handler
		}
		verifK19Panic(kind)
		return want, nil
	})
	switch kind {
	case verifK19PanicKinds:
		vt.Reach("returned-response")
		vt.Assert(out.err == nil && out.resp == want, "runHandler changed the handler's response")
	case verifK19PanicKinds + 1:
		vt.Reach("returned-error")
		vt.Assert(out.resp == nil && out.err == errVerifK19Handler, "runHandler changed the handler's error")
	default:
		vt.Reach("panicked")
		vt.Assert(out.err != nil, "a panicking handler was reported as success")
		vt.Assert(out.resp == nil, "a panicking handler produced a response")
		// runHandler builds its error with two %w verbs; the engine's fmt.Errorf model keeps only the last
		// wrapped operand (ENGINE_ISSUES.md, [validgroup] fmt.Errorf with several %w), so the ErrPanic link of
		// the chain is checked natively and, once the model is fixed, with the job parameter multiw=1
		if !vt.Symbolic() || vt.ParamInt("multiw", 0) == 1 {
			vt.Assert(errors.Is(out.err, ErrPanic), "the error of a panicking handler is not ErrPanic")
		}
		if kind == 1 {
			vt.Assert(errors.Is(out.err, errVerifK19Handler), "the panic's error value is not in the chain")
		}
	}
}

func verifK19Guarded(kind int, withErr bool) (err error) {
	if withErr {
		defer concurrency.RecoverFromPanic(&err)
	} else {
		defer concurrency.RecoverFromPanic(nil)
	}
	if kind < verifK19PanicKinds {
		verifK19Panic(kind)
	}
	if kind == verifK19PanicKinds+1 {
		return errVerifK19Handler
	}
	return nil
}

func VerifK19RecoverFromPanic() {
	vt.ExpectPanics()
	kind := vt.Choose("kind", verifK19PanicKinds+2)
	withErr := vt.ForkBool("witherr")
	err := verifK19Guarded(kind, withErr)
	vt.Reach("survived")
	switch {
	case !withErr && kind != verifK19PanicKinds+1:
		vt.Assert(err == nil, "RecoverFromPanic(nil) produced an error")
	case kind == verifK19PanicKinds:
		vt.Assert(err == nil, "no panic, no error expected")
	case kind == verifK19PanicKinds+1:
		vt.Assert(err == errVerifK19Handler, "the function's own error was replaced")
	default:
		vt.Reach("panic-to-error")
		vt.Assert(err != nil, "a recovered panic was not turned into an error")
	}
}
