package graph

import (
	"context"
	"time"

	openfgav1 "github.com/openfga/api/proto/openfga/v1"

	"github.com/openfga/openfga/internal/vt"
	"github.com/openfga/openfga/pkg/storage/cache/keys"
)

// verifK10AdvCache is the adversarial cache: whatever key is asked for, it answers with an entry that looks
// perfectly valid (stamped after every invalidation time in play) and carries an arbitrary, possibly stale,
// decision. Every Get is recorded.
type verifK10AdvCache struct {
	entry   *CheckResponseCacheEntry
	gets    int
	sets    int
	deletes int
}

func (c *verifK10AdvCache) Get(k keys.Key) any {
	c.gets++
	return c.entry
}
func (c *verifK10AdvCache) Set(k keys.Key, v any, ttl time.Duration) { c.sets++ }
func (c *verifK10AdvCache) Delete(k keys.Key)                        { c.deletes++ }
func (c *verifK10AdvCache) Stop()                                    {}

// K10 (query cache layer): with HIGHER_CONSISTENCY the answer (response object and error) is the delegate's,
// whatever the cache would say, and the cache's Get is never consulted; with any other preference the cache
// is consulted and its (adversarial) entry is what gets served, which shows the fake is effective.
func VerifK10Resolver() {
	T := vt.ParamInt("t", 6)
	vt.Assert(errVerifK08 != nil, "init")
	shape := vt.Choose("shape", 4)
	ci := vt.Choose("consistency", 3)
	cons := verifK08Consistency(ci)
	inval := verifK08Instant("inval", 0, T)
	req := verifK08Request(shape, cons, inval)

	staleAllowed := vt.Bool("stale-allowed")
	cache := &verifK10AdvCache{entry: &CheckResponseCacheEntry{
		LastModified:  time.Time{}.Add(time.Duration(T + 1)), // newer than any invalidation time: "valid"
		CheckResponse: &ResolveCheckResponse{Allowed: staleAllowed},
	}}
	dResp := &ResolveCheckResponse{Allowed: vt.Bool("fresh-allowed"), ResolutionMetadata: ResolveCheckResponseMetadata{
		CycleDetected: vt.Bool("fresh-cycle"), DatastoreQueryCount: 7}}
	del := &verifK08Delegate{resp: dResp}
	if vt.Bool("delegate-fails") {
		del.err = errVerifK08
	}
	r, cerr := NewCachedCheckResolver(WithExistingCache(cache), WithCacheTTL(10*time.Second))
	vt.Assert(cerr == nil && r != nil, "constructor failed")
	r.SetDelegate(del)
	defer r.Close()

	got, err := r.ResolveCheck(context.Background(), req)

	if cons == openfgav1.ConsistencyPreference_HIGHER_CONSISTENCY {
		vt.Reach("higher-consistency")
		vt.Assert(cache.gets == 0, "cache consulted for a HIGHER_CONSISTENCY request")
		vt.Assert(del.calls == 1 && del.req == req, "delegate not asked exactly once with the unchanged request")
		vt.Assert(del.req.GetConsistency() == openfgav1.ConsistencyPreference_HIGHER_CONSISTENCY, "consistency preference not passed down")
		if del.err != nil {
			vt.Assert(got == nil && err == errVerifK08, "delegate's error not returned")
		} else {
			vt.Assert(err == nil && got == dResp, "the returned response is not the delegate's")
		}
		return
	}
	vt.Reach("cache-may-be-used")
	vt.Assert(cache.gets == 1 && del.calls == 0, "cache not consulted although the preference allows it")
	vt.Assert(err == nil && got != nil && got.GetAllowed() == staleAllowed, "the (valid looking) cache entry was not served")
}
