package graph

import (
	"context"
	"errors"
	"time"

	"google.golang.org/protobuf/types/known/structpb"

	openfgav1 "github.com/openfga/api/proto/openfga/v1"

	"github.com/openfga/openfga/internal/vt"
	"github.com/openfga/openfga/pkg/storage"
	"github.com/openfga/openfga/pkg/storage/cache/keys"
)

// ---- shared fakes of the cache group (K08, K10 in this package) -------------------------------------

// verifK08Cache implements storage.InMemoryCache[any]: an association list that records every call.
// TTL expiry is not modelled here (an expired entry is an absent entry, which the harness covers by
// choosing the content freely); C11 uses a cache with expiry.
type verifK08Cache struct {
	ks      []keys.Key
	vs      []any
	gets    int
	sets    int
	deletes int
	setKey  keys.Key
	setVal  any
	setTTL  time.Duration
}

func (c *verifK08Cache) Get(k keys.Key) any {
	c.gets++
	for i := range c.ks {
		if c.ks[i] == k {
			return c.vs[i]
		}
	}
	return nil
}

func (c *verifK08Cache) peek(k keys.Key) any {
	for i := range c.ks {
		if c.ks[i] == k {
			return c.vs[i]
		}
	}
	return nil
}

func (c *verifK08Cache) put(k keys.Key, v any) {
	for i := range c.ks {
		if c.ks[i] == k {
			c.vs[i] = v
			return
		}
	}
	c.ks = append(c.ks, k)
	c.vs = append(c.vs, v)
}

func (c *verifK08Cache) Set(k keys.Key, v any, ttl time.Duration) {
	c.sets++
	c.setKey, c.setVal, c.setTTL = k, v, ttl
	c.put(k, v)
}

func (c *verifK08Cache) Delete(k keys.Key) {
	c.deletes++
	for i := range c.ks {
		if c.ks[i] == k {
			c.vs[i] = nil
		}
	}
}

func (c *verifK08Cache) Stop() {}

var errVerifK08 = errors.New("verif: delegate failed")

// verifK08Delegate is the next resolver in the chain: it answers with the prepared response / error and
// records what it was asked.
type verifK08Delegate struct {
	resp  *ResolveCheckResponse
	err   error
	calls int
	req   *ResolveCheckRequest
}

func (d *verifK08Delegate) ResolveCheck(ctx context.Context, req *ResolveCheckRequest) (*ResolveCheckResponse, error) {
	d.calls++
	d.req = req
	if d.err != nil {
		return nil, d.err
	}
	return d.resp, nil
}

func (d *verifK08Delegate) Close()                     {}
func (d *verifK08Delegate) SetDelegate(CheckResolver)  {}
func (d *verifK08Delegate) GetDelegate() CheckResolver { return nil }

// verifK08Instant is a symbolic instant lo..hi nanoseconds after the zero time.
func verifK08Instant(name string, lo, hi int) time.Time {
	return time.Time{}.Add(time.Duration(vt.IntRange(name, lo, hi)))
}

func verifK08Consistency(i int) openfgav1.ConsistencyPreference {
	switch i {
	case 1:
		return openfgav1.ConsistencyPreference_MINIMIZE_LATENCY
	case 2:
		return openfgav1.ConsistencyPreference_HIGHER_CONSISTENCY
	}
	return openfgav1.ConsistencyPreference_UNSPECIFIED
}

// verifK08Request builds a request through the real constructor (which computes the invariant part of the
// cache key); shape: 0 plain, 1 with a contextual tuple, 2 with a context, 3 with both.
func verifK08Request(shape int, cons openfgav1.ConsistencyPreference, inval time.Time) *ResolveCheckRequest {
	p := ResolveCheckRequestParams{
		StoreID:                   "S1",
		AuthorizationModelID:      "M1",
		TupleKey:                  &openfgav1.TupleKey{Object: "doc:1", Relation: "viewer", User: "user:a"},
		Consistency:               cons,
		LastCacheInvalidationTime: inval,
	}
	if shape&1 != 0 {
		p.ContextualTuples = []*openfgav1.TupleKey{{Object: "doc:1", Relation: "editor", User: "user:a"}}
	}
	if shape&2 != 0 {
		p.Context = &structpb.Struct{Fields: map[string]*structpb.Value{"k": structpb.NewStringValue("v")}}
	}
	req, err := NewResolveCheckRequest(p)
	vt.Assert(err == nil && req != nil, "request constructor failed")
	return req
}

func verifK08Key(req *ResolveCheckRequest) keys.Key {
	tk := req.GetTupleKey()
	return storage.CheckCacheKey(req.GetStoreID(), tk.GetObject(), tk.GetRelation(), tk.GetUser(), req.GetInvariantCacheKey())
}

// ---- K08: one inductive step of CachedCheckResolver.ResolveCheck -----------------------------------
//
// State before the call: under the request's key the cache holds nothing, or an entry with an arbitrary
// LastModified and an arbitrary stored response, or (kind 3) an entry under ANOTHER request's key only.
// `truth` is the cycle-free answer of the delegate for this key against the unchanged store.
// Cache invariant (assumed before, asserted after): an entry under the key that is valid for this request
// (LastModified after the request's LastCacheInvalidationTime) stores Allowed == truth and no cycle flag.
// The delegate answers with an error, or with a cycle-flagged (indeterminate, arbitrary) response, or truth.
func VerifK08Step() {
	T := vt.ParamInt("t", 6)
	vt.Assert(errVerifK08 != nil, "init")
	shape := vt.Choose("shape", 4)
	cons := verifK08Consistency(vt.Choose("consistency", 3))
	inval := verifK08Instant("inval", 0, T)
	req := verifK08Request(shape, cons, inval)
	key := verifK08Key(req)
	otherKey := verifK08Key(verifK08Request(shape^1, cons, inval))
	vt.Assert(key != otherKey, "requests with different contextual tuples share a cache key")

	truth := vt.Bool("truth")
	cache := &verifK08Cache{}
	var stored *CheckResponseCacheEntry
	storedAllowed := vt.Bool("stored-allowed")
	storedCycle := vt.Bool("stored-cycle")
	kind := vt.Choose("cache", 4) // 0 empty, 1 entry under the key, 2 entry under the key and a neighbour, 3 neighbour only
	if kind == 1 || kind == 2 {
		stored = &CheckResponseCacheEntry{
			LastModified: verifK08Instant("entry-time", 0, T),
			CheckResponse: &ResolveCheckResponse{Allowed: storedAllowed, ResolutionMetadata: ResolveCheckResponseMetadata{
				CycleDetected: storedCycle, DatastoreQueryCount: 3, DatastoreItemCount: 5}},
		}
		cache.put(key, stored)
	}
	// a neighbour (different contextual tuples) holds the opposite answer: it must never be served
	neighbour := &CheckResponseCacheEntry{LastModified: time.Time{}.Add(time.Duration(T + 1)),
		CheckResponse: &ResolveCheckResponse{Allowed: !truth}}
	if kind >= 2 {
		cache.put(otherKey, neighbour)
	}
	validBefore := stored != nil && stored.LastModified.After(inval)
	vt.Assume(!validBefore || (storedAllowed == truth && !storedCycle)) // the invariant

	dCycle := vt.Bool("delegate-cycle")
	dFails := vt.Bool("delegate-fails")
	dAllowed := truth
	if dCycle {
		dAllowed = vt.Bool("delegate-allowed-under-cycle")
	}
	dResp := &ResolveCheckResponse{Allowed: dAllowed, ResolutionMetadata: ResolveCheckResponseMetadata{
		CycleDetected: dCycle, DatastoreQueryCount: 7, DatastoreItemCount: 11}}
	del := &verifK08Delegate{resp: dResp}
	if dFails {
		del.err = errVerifK08
	}

	ttl := 10 * time.Second
	r, cerr := NewCachedCheckResolver(WithExistingCache(cache), WithCacheTTL(ttl))
	vt.Assert(cerr == nil && r != nil, "constructor failed")
	r.SetDelegate(del)
	defer r.Close()

	before := time.Now()
	got, err := r.ResolveCheck(context.Background(), req)
	after := time.Now()

	hit := cons != openfgav1.ConsistencyPreference_HIGHER_CONSISTENCY && validBefore
	switch {
	case hit:
		vt.Reach("hit")
		vt.Assert(del.calls == 0, "delegate consulted although a valid entry exists")
		vt.Assert(err == nil && got != nil, "valid entry not served")
		if got == nil {
			return
		}
		vt.Assert(got.GetAllowed() == truth && !got.GetCycleDetected(), "cached decision differs from the delegate's decision for the key")
		vt.Assert(got != stored.CheckResponse, "the cached response object itself was handed out")
		vt.Assert(cache.sets == 0 && cache.deletes == 0, "a hit modified the cache")
		// mutate what was returned: the cache content must not change
		got.Allowed = !got.Allowed
		got.ResolutionMetadata.CycleDetected = true
		got.ResolutionMetadata.DatastoreQueryCount = 99
		vt.Assert(stored.CheckResponse.Allowed == truth && !stored.CheckResponse.ResolutionMetadata.CycleDetected &&
			stored.CheckResponse.ResolutionMetadata.DatastoreQueryCount == 3, "mutating the returned response changed the cached entry")
	case dFails:
		vt.Reach("delegate-error")
		vt.Assert(del.calls == 1 && del.req == req, "delegate not consulted exactly once with the request")
		vt.Assert(got == nil && err == errVerifK08, "delegate error not returned")
		vt.Assert(cache.sets == 0, "an error was stored")
	case dCycle:
		vt.Reach("delegate-cycle")
		vt.Assert(del.calls == 1 && del.req == req, "delegate not consulted exactly once with the request")
		vt.Assert(err == nil && got != nil && got.GetAllowed() == dAllowed && got.GetCycleDetected(), "delegate's cycle response not returned")
		vt.Assert(cache.sets == 0, "a response with CycleDetected was stored")
	default:
		vt.Reach("delegate-answer")
		vt.Assert(del.calls == 1 && del.req == req, "delegate not consulted exactly once with the request")
		vt.Assert(err == nil && got != nil && got.GetAllowed() == truth && !got.GetCycleDetected(), "delegate's decision not returned")
		vt.Assert(cache.sets == 1 && cache.setKey == key, "the answer was not stored under the request's key (exactly once)")
		e, ok := cache.setVal.(*CheckResponseCacheEntry)
		vt.Assert(ok && e != nil && e.CheckResponse != nil, "stored value is not a check response entry")
		if !ok || e == nil || e.CheckResponse == nil || got == nil {
			return
		}
		vt.Assert(e.CheckResponse.Allowed == truth && !e.CheckResponse.ResolutionMetadata.CycleDetected, "stored decision differs from the delegate's")
		vt.Assert(!e.LastModified.Before(before) && !e.LastModified.After(after), "entry not stamped with the time of the call")
		vt.Assert(cache.setTTL == ttl, "entry stored with a TTL other than the configured one (jitter 0)")
		vt.Assert(e.CheckResponse != got, "the returned response object itself was stored")
		got.Allowed = !got.Allowed
		got.ResolutionMetadata.CycleDetected = true
		vt.Assert(e.CheckResponse.Allowed == truth && !e.CheckResponse.ResolutionMetadata.CycleDetected, "mutating the returned response changed the stored entry")
	}
	if !hit {
		if cons == openfgav1.ConsistencyPreference_HIGHER_CONSISTENCY {
			vt.Reach("higher-consistency")
			vt.Assert(cache.gets == 0, "cache consulted for a HIGHER_CONSISTENCY request")
		}
		if stored != nil && !validBefore && cons != openfgav1.ConsistencyPreference_HIGHER_CONSISTENCY {
			vt.Reach("invalidated-entry-not-served")
		}
	}
	// the neighbour's entry was neither served (asserted above through `truth`) nor touched
	if kind >= 2 {
		vt.Assert(cache.peek(otherKey) == any(neighbour) && neighbour.CheckResponse.Allowed == !truth, "another request's entry was modified")
	}
	// invariant after the call, for this request's view and for any later request whose invalidation time is
	// not earlier (invalidation times only grow): an entry that is valid stores the truth and no cycle flag
	inval2 := verifK08Instant("later-inval", 0, T)
	if cur, ok := cache.peek(key).(*CheckResponseCacheEntry); ok && cur != nil {
		if !inval2.Before(inval) && cur.LastModified.After(inval2) {
			vt.Reach("invariant-after")
			vt.Assert(cur.CheckResponse.Allowed == truth && !cur.CheckResponse.ResolutionMetadata.CycleDetected, "cache invariant broken by the call")
		}
	} else {
		vt.Assert(cache.peek(key) == nil, "a value of another type was stored under the key")
	}
}

// ---- K08: cache keys separate requests ---------------------------------------------------------------

// Tuple part of the key (real CheckCacheKey over the real TLV builder): for arbitrary short strings and
// arbitrary invariant words, two keys are equal exactly when store, object, relation, user and the invariant
// are all equal (no field can bleed into its neighbour).
func VerifK08KeyFields() {
	L := vt.ParamInt("len", 2)
	s1, o1, r1, u1 := vt.String("s1", L), vt.String("o1", L), vt.String("r1", L), vt.String("u1", L)
	s2, o2, r2, u2 := vt.String("s2", L), vt.String("o2", L), vt.String("r2", L), vt.String("u2", L)
	i1, i2 := vt.Uint64("i1"), vt.Uint64("i2")
	k1 := storage.CheckCacheKey(s1, o1, r1, u1, i1)
	k2 := storage.CheckCacheKey(s2, o2, r2, u2, i2)
	same := s1 == s2 && o1 == o2 && r1 == r2 && u1 == u2 && i1 == i2
	vt.Reach("compared")
	vt.Assert((k1 == k2) == same, "CheckCacheKey equal for different (store, object, relation, user, invariant) or different for equal ones")
}

// verifK08Variant is a vocabulary of requests; sem is the input the entry denotes (equal sem = same request
// up to representation: order of contextual tuples, order of context keys, nil vs empty context).
type verifK08Variant struct {
	sem   int
	store string
	model string
	tk    *openfgav1.TupleKey
	ct    []*openfgav1.TupleKey
	ctx   *structpb.Struct
}

func verifK08Variants() []verifK08Variant {
	tk := func(o, r, u string) *openfgav1.TupleKey { return &openfgav1.TupleKey{Object: o, Relation: r, User: u} }
	base := tk("doc:1", "viewer", "user:a")
	c1, c2 := tk("doc:1", "editor", "user:a"), tk("doc:2", "editor", "user:b")
	cond := &openfgav1.TupleKey{Object: "doc:1", Relation: "editor", User: "user:a", Condition: &openfgav1.RelationshipCondition{Name: "c"}}
	condCtx := &openfgav1.TupleKey{Object: "doc:1", Relation: "editor", User: "user:a", Condition: &openfgav1.RelationshipCondition{Name: "c",
		Context: &structpb.Struct{Fields: map[string]*structpb.Value{"x": structpb.NewBoolValue(true)}}}}
	str := func(kv ...string) *structpb.Struct {
		f := map[string]*structpb.Value{}
		for i := 0; i+1 < len(kv); i += 2 {
			f[kv[i]] = structpb.NewStringValue(kv[i+1])
		}
		return &structpb.Struct{Fields: f}
	}
	return []verifK08Variant{
		{sem: 0, store: "S1", model: "M1", tk: base},
		{sem: 0, store: "S1", model: "M1", tk: base, ctx: &structpb.Struct{}}, // empty context = no context
		{sem: 1, store: "S2", model: "M1", tk: base},                          // store differs
		{sem: 2, store: "S1", model: "M2", tk: base},                          // model differs
		{sem: 3, store: "S1", model: "M1", tk: tk("doc:2", "viewer", "user:a")},
		{sem: 4, store: "S1", model: "M1", tk: tk("doc:1", "editor", "user:a")},
		{sem: 5, store: "S1", model: "M1", tk: tk("doc:1", "viewer", "user:b")},
		{sem: 6, store: "S1", model: "M1", tk: base, ct: []*openfgav1.TupleKey{c1}},
		{sem: 7, store: "S1", model: "M1", tk: base, ct: []*openfgav1.TupleKey{c2}},
		{sem: 8, store: "S1", model: "M1", tk: base, ct: []*openfgav1.TupleKey{c1, c2}},
		{sem: 8, store: "S1", model: "M1", tk: base, ct: []*openfgav1.TupleKey{c2, c1}}, // order of contextual tuples
		{sem: 9, store: "S1", model: "M1", tk: base, ct: []*openfgav1.TupleKey{cond}},   // condition on the contextual tuple
		{sem: 10, store: "S1", model: "M1", tk: base, ct: []*openfgav1.TupleKey{condCtx}},
		{sem: 11, store: "S1", model: "M1", tk: base, ctx: str("k", "v")},
		{sem: 12, store: "S1", model: "M1", tk: base, ctx: str("k", "w")}, // context value differs
		{sem: 13, store: "S1", model: "M1", tk: base, ctx: str("j", "v")}, // context key differs
		{sem: 14, store: "S1", model: "M1", tk: base, ctx: str("k", "v", "j", "w")},
		{sem: 14, store: "S1", model: "M1", tk: base, ctx: str("j", "w", "k", "v")}, // order of context keys
		{sem: 15, store: "S1", model: "M1", tk: base, ctx: str("k", "w", "j", "v")}, // values swapped between keys
		{sem: 16, store: "S1", model: "M1", tk: base, ctx: &structpb.Struct{Fields: map[string]*structpb.Value{"k": structpb.NewBoolValue(true)}}},
		{sem: 17, store: "S1", model: "M1", tk: base, ctx: &structpb.Struct{Fields: map[string]*structpb.Value{"k": structpb.NewNumberValue(1)}}},
		{sem: 18, store: "S1M", model: "1", tk: base}, // store/model boundary shifted
		{sem: 19, store: "S1", model: "M1", tk: base, ct: []*openfgav1.TupleKey{c1}, ctx: str("k", "v")},
	}
}

// Whole key (real NewResolveCheckRequest → InvariantCacheKey with the real XXH64 → CheckCacheKey): every pair
// of requests from the vocabulary gets the same key exactly when it denotes the same request. The digest is
// computed concretely for the process seed; a digest collision between two of the listed inputs would be
// reported (the property excludes collisions, the seed is random per process).
func VerifK08KeySeparation() {
	vs := verifK08Variants()
	ks := make([]keys.Key, len(vs))
	for i, v := range vs {
		req, err := NewResolveCheckRequest(ResolveCheckRequestParams{StoreID: v.store, AuthorizationModelID: v.model,
			TupleKey: v.tk, ContextualTuples: v.ct, Context: v.ctx})
		vt.Assert(err == nil && req != nil, "request constructor failed")
		if req == nil {
			return
		}
		ks[i] = verifK08Key(req)
		// the clone handed to sub-problems keeps the key
		vt.Assert(verifK08Key(req.clone()) == ks[i], "clone of a request has a different key")
	}
	i := vt.Choose("i", len(vs))
	j := vt.Choose("j", len(vs))
	vt.Reach("compared")
	if vs[i].sem == vs[j].sem {
		vt.Assert(ks[i] == ks[j], "two representations of the same request get different cache keys")
	} else {
		vt.Assert(ks[i] != ks[j], "two different requests share a cache key")
	}
}

// Symbolic variant of the invariant part: store id, model id, the contextual tuple's user and the context value
// are symbolic short strings on both sides (the digest is then an uninterpreted function folded over the
// encoded bytes): equal inputs give equal keys (determinism; the converse is collision freedom of the digest,
// which the property excludes and the concrete vocabulary above samples).
func VerifK08KeyDeterminism() {
	L := vt.ParamInt("len", 2)
	mk := func(sfx string) (keys.Key, [4]string) {
		in := [4]string{vt.String("store"+sfx, L), vt.String("model"+sfx, L), vt.String("ctuser"+sfx, L), vt.String("ctxval"+sfx, L)}
		if vt.ParamInt("fixed", 1) == 1 { // exact lengths: the encoded buffer has a concrete layout
			for _, s := range in {
				vt.Assume(len(s) == L)
			}
		}
		inv := storage.InvariantCacheKey(in[0], in[1],
			&structpb.Struct{Fields: map[string]*structpb.Value{"k": structpb.NewStringValue(in[3])}},
			&openfgav1.TupleKey{Object: "doc:1", Relation: "editor", User: in[2]})
		return storage.CheckCacheKey(in[0], "doc:1", "viewer", "user:a", inv), in
	}
	k1, in1 := mk("1")
	k2, in2 := mk("2")
	vt.Reach("compared")
	if in1 == in2 {
		vt.Assert(k1 == k2, "equal requests get different cache keys")
	}
	if in1[0] != in2[0] {
		vt.Assert(k1 != k2, "requests for different stores share a cache key") // the store id is also a plain field of the key
	}
}
