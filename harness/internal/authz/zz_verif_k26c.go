package authz

import (
	"context"

	openfgav1 "github.com/openfga/api/proto/openfga/v1"

	"github.com/openfga/openfga/internal/vt"
	"github.com/openfga/openfga/pkg/typesystem"
)

// ---- K26c: which modules a write request is checked against -------------------------------------------
//
// Model (struct literals, schema 1.2 with module metadata):
//   user                                  (no module)
//   doc     module m0:  viewer            (type module m0)
//                       editor            (relation-level module m1 overrides the type's)
//   folder  module m1:  viewer
//   plain   (no module): viewer
// Tuples are drawn from a vocabulary of (object, relation) pairs covering: module from the type, module
// from the relation, a second type in the same module, a type without module, an unknown relation and
// an unknown type.

type verifK26Pair struct {
	obj, rel string
	module   string // expected module ("" = none)
	bad      bool   // expected: error (unknown type / unknown relation)
}

var verifK26Vocab = []verifK26Pair{
	{"doc:1", "viewer", "m0", false},
	{"doc:2", "editor", "m1", false},
	{"folder:1", "viewer", "m1", false},
	{"plain:1", "viewer", "", false},
	{"doc:1", "nosuch", "", true},
	{"ghost:1", "viewer", "", true},
}

func verifK26Model() *openfgav1.AuthorizationModel {
	this := func() *openfgav1.Userset {
		return &openfgav1.Userset{Userset: &openfgav1.Userset_This{This: &openfgav1.DirectUserset{}}}
	}
	users := []*openfgav1.RelationReference{{Type: "user"}}
	return &openfgav1.AuthorizationModel{
		Id:            "01HVMMBCMGZNT3SED4Z17ECXCA",
		SchemaVersion: "1.2",
		TypeDefinitions: []*openfgav1.TypeDefinition{
			{Type: "user"},
			{
				Type:      "doc",
				Relations: map[string]*openfgav1.Userset{"viewer": this(), "editor": this()},
				Metadata: &openfgav1.Metadata{
					Module: "m0",
					Relations: map[string]*openfgav1.RelationMetadata{
						"viewer": {DirectlyRelatedUserTypes: users},
						"editor": {DirectlyRelatedUserTypes: users, Module: "m1"},
					},
				},
			},
			{
				Type:      "folder",
				Relations: map[string]*openfgav1.Userset{"viewer": this()},
				Metadata: &openfgav1.Metadata{
					Module:    "m1",
					Relations: map[string]*openfgav1.RelationMetadata{"viewer": {DirectlyRelatedUserTypes: users}},
				},
			},
			{
				Type:      "plain",
				Relations: map[string]*openfgav1.Userset{"viewer": this()},
				Metadata: &openfgav1.Metadata{
					Relations: map[string]*openfgav1.RelationMetadata{"viewer": {DirectlyRelatedUserTypes: users}},
				},
			},
		},
	}
}

// verifK26Pick: which vocabulary entry a tuple is; sym=1 keeps the choice symbolic (merged), default forks.
func verifK26Pick(name string) int {
	if vt.ParamInt("sym", 0) == 1 {
		return vt.Pick(name, len(verifK26Vocab))
	}
	return vt.Choose(name, len(verifK26Vocab))
}

func VerifK26cModulesForWrite() {
	model := verifK26Model()
	var ts *typesystem.TypeSystem
	if vt.Symbolic() && vt.ParamInt("realts", 1) == 0 {
		// fallback (realts=0) if typesystem.New (gonum graphs) stops being interpretable: GetTypeDefinition
		// is replaced by its contract, the definition of that name in the model. Default: real typesystem.
		ts = &typesystem.TypeSystem{}
		vt.Stub("(*github.com/openfga/openfga/pkg/typesystem.TypeSystem).GetTypeDefinition",
			func(t *typesystem.TypeSystem, objectType string) (*openfgav1.TypeDefinition, bool) {
				for _, td := range model.GetTypeDefinitions() {
					if td.GetType() == objectType {
						return td, true
					}
				}
				return nil, false
			})
	} else {
		var err error
		ts, err = typesystem.New(model)
		vt.Assert(err == nil, "typesystem.New failed")
		if err != nil {
			return
		}
	}

	nW := vt.Choose("writes", vt.ParamInt("writes", 2)+1)
	nD := vt.Choose("deletes", vt.ParamInt("deletes", 1)+1)
	req := &openfgav1.WriteRequest{StoreId: "S1"}
	var picks []int
	if nW > 0 || vt.ForkBool("emptyWrites") {
		req.Writes = &openfgav1.WriteRequestWrites{}
		for i := 0; i < nW; i++ {
			k := verifK26Pick("w" + string(rune('0'+i)))
			picks = append(picks, k)
			req.Writes.TupleKeys = append(req.Writes.TupleKeys, &openfgav1.TupleKey{Object: verifK26Vocab[k].obj, Relation: verifK26Vocab[k].rel, User: "user:u"})
		}
	}
	if nD > 0 {
		req.Deletes = &openfgav1.WriteRequestDeletes{}
		for i := 0; i < nD; i++ {
			k := verifK26Pick("d" + string(rune('0'+i)))
			picks = append(picks, k)
			req.Deletes.TupleKeys = append(req.Deletes.TupleKeys, &openfgav1.TupleKeyWithoutCondition{Object: verifK26Vocab[k].obj, Relation: verifK26Vocab[k].rel, User: "user:u"})
		}
	}

	a := NewAuthorizer(&Config{StoreID: "CTL", ModelID: "MDL"}, nil, nil)
	mods, err := a.GetModulesForWriteRequest(context.Background(), req, ts)

	// reference: scan writes then deletes; the first tuple that is invalid fails the call, the first one
	// whose type/relation has no module sends the whole request to the store-level check (no modules)
	want := map[string]bool{}
	wantErr, storeLevel := false, false
	for _, k := range picks {
		p := verifK26Vocab[k]
		if p.bad {
			wantErr = true
			break
		}
		if p.module == "" {
			storeLevel = true
			break
		}
		want[p.module] = true
	}
	switch {
	case wantErr:
		vt.Reach("invalid-tuple")
		vt.Assert(err != nil && mods == nil, "write touching an unknown type/relation did not fail module extraction")
	case storeLevel:
		vt.Reach("store-level")
		vt.Assert(err == nil && len(mods) == 0, "write touching a type without module is not sent to the store-level check")
	default:
		vt.Reach("modules")
		vt.Assert(err == nil, "module extraction failed on a valid modular write")
		vt.Assert(len(mods) == len(want), "module list is not the set of modules touched (missing or duplicated)")
		for i := 0; i < len(mods) && i < 4; i++ {
			vt.Assert(want[mods[i]], "module list contains a module the write does not touch")
			for j := 0; j < i; j++ {
				vt.Assert(mods[i] != mods[j], "module listed twice")
			}
		}
	}
}
