package authz

import (
	"context"
	"errors"
	"sync"

	openfgav1 "github.com/openfga/api/proto/openfga/v1"

	"github.com/openfga/openfga/internal/utils/apimethod"
	"github.com/openfga/openfga/internal/vt"
	"github.com/openfga/openfga/pkg/authclaims"
)

// ---- K26a: the Authorizer against an access-control store whose answers are arbitrary ------------------
//
// The access-control store is a stub of ServerInterface. Its Check answer for (relation, object) is an
// uninterpreted function of two small integers: `grant(rel, obj)` (allowed bit) and `fail(rel, obj)`
// (the Check returns an error instead). The stub also verifies the *shape* of every request it gets
// (store/model of the control store, caller as application:<client id>, skip-authz marker, contextual
// tuples), because a malformed delegation would make the grant bits meaningless.

const (
	verifCtlStore = "CTL"
	verifCtlModel = "MDL"
	verifStoreID  = "S1"
)

// verifMethods is the documented method -> relation table (written from the constants' doc / the
// access-control model, not from getRelation).
var verifMethods = []struct {
	m   apimethod.APIMethod
	rel string
}{
	{apimethod.ReadAuthorizationModel, "can_call_read_authorization_models"},
	{apimethod.ReadAuthorizationModels, "can_call_read_authorization_models"},
	{apimethod.Read, "can_call_read"},
	{apimethod.Write, "can_call_write"},
	{apimethod.ListObjects, "can_call_list_objects"},
	{apimethod.StreamedListObjects, "can_call_list_objects"},
	{apimethod.Check, "can_call_check"},
	{apimethod.BatchCheck, "can_call_check"},
	{apimethod.ListUsers, "can_call_list_users"},
	{apimethod.WriteAssertions, "can_call_write_assertions"},
	{apimethod.ReadAssertions, "can_call_read_assertions"},
	{apimethod.WriteAuthorizationModel, "can_call_write_authorization_models"},
	{apimethod.ListStores, "can_call_list_stores"},
	{apimethod.CreateStore, "can_call_create_stores"},
	{apimethod.GetStore, "can_call_get_store"},
	{apimethod.DeleteStore, "can_call_delete_store"},
	{apimethod.Expand, "can_call_expand"},
	{apimethod.ReadChanges, "can_call_read_changes"},
	{apimethod.APIMethod("NoSuchMethod"), ""},
}

// verifObjects: the objects a grant may be asked about, by index.
var verifObjects = []string{
	"store:" + verifStoreID,          // 0 store level
	"module:" + verifStoreID + "|m0", // 1
	"module:" + verifStoreID + "|m1", // 2
	"module:" + verifStoreID + "|m2", // 3
	"system:fga",                     // 4
}

func verifIndex(list []string, s string) int {
	for i, x := range list {
		if x == s {
			return i
		}
	}
	return -1
}

type verifCtl struct {
	mu        sync.Mutex
	cid       string // expected caller
	wantRel   string // expected relation
	checks    int
	lists     int
	asked     [5]int // per object index: number of Check calls
	listN     int    // number of objects ListObjects returns
	listErr   bool
	listNoPfx bool
}

func (s *verifCtl) Check(ctx context.Context, req *openfgav1.CheckRequest) (*openfgav1.CheckResponse, error) {
	s.mu.Lock() // module grants are asked from concurrent goroutines
	defer s.mu.Unlock()
	s.checks++
	vt.Assert(authclaims.SkipAuthzCheckFromContext(ctx), "delegated Check is not marked skip-authz (it would authorize itself recursively)")
	vt.Assert(req.GetStoreId() == verifCtlStore && req.GetAuthorizationModelId() == verifCtlModel, "delegated Check does not address the access-control store/model")
	tk := req.GetTupleKey()
	vt.Assert(tk.GetUser() == "application:"+s.cid, "delegated Check is not about application:<client id>")
	vt.Assert(tk.GetRelation() == s.wantRel, "relation asked does not match the documented method->relation table")
	obj := verifIndex(verifObjects, tk.GetObject())
	vt.Assert(obj >= 0, "delegated Check asks about an unexpected object")
	if obj < 0 {
		return nil, errors.New("unexpected object")
	}
	s.asked[obj]++
	// contextual tuples: store-scoped and module-scoped checks carry system:fga system store:<id>;
	// module-scoped ones additionally bind the module to its store; system-level ones carry none
	ct := req.GetContextualTuples().GetTupleKeys()
	switch {
	case obj == 0:
		vt.Assert(len(ct) == 1 && ct[0].GetUser() == "system:fga" && ct[0].GetRelation() == "system" && ct[0].GetObject() == verifObjects[0],
			"store-level check without the system access tuple")
	case obj <= 3:
		vt.Assert(len(ct) == 2 &&
			ct[0].GetUser() == verifObjects[0] && ct[0].GetRelation() == "store" && ct[0].GetObject() == verifObjects[obj] &&
			ct[1].GetUser() == "system:fga" && ct[1].GetRelation() == "system" && ct[1].GetObject() == verifObjects[0],
			"module-level check has wrong contextual tuples")
	default:
		vt.Assert(len(ct) == 0, "system-level check carries contextual tuples")
	}
	rel := verifRelIndex(tk.GetRelation())
	vt.Assert(rel >= 0, "relation asked is not in the documented table")
	if rel < 0 {
		return nil, errors.New("unexpected relation")
	}
	// fork (not merge) on the answer: Authorize starts goroutines and makes a channel depending on it,
	// which the engine only supports on a path of its own
	if vt.Fork(verifFail[rel][obj]) {
		return nil, errors.New("control store failure")
	}
	return &openfgav1.CheckResponse{Allowed: vt.Fork(verifGrant[rel][obj])}, nil
}

// The control store's answers: verifGrant[r][o] / verifFail[r][o] = uninterpreted functions of
// (relation index, object index), tabulated before the code under test runs (the engine cannot apply
// a UF to boxed arguments under a path guard, see ENGINE_ISSUES.md).
var verifGrant, verifFail [19][5]bool

func verifAnswers() {
	for r := 0; r < 19; r++ {
		for o := 0; o < 5; o++ {
			verifGrant[r][o] = vt.UFBool("grant", r, o)
			verifFail[r][o] = vt.UFBool("fail", r, o)
		}
	}
}

// verifGranted: the control store answers "allowed" without error for (relation index, object index).
func verifGranted(rel, obj int) bool {
	fail, grant := verifFail[rel][obj], verifGrant[rel][obj]
	return !fail && grant
}

func verifRelIndex(rel string) int {
	for i, e := range verifMethods {
		if e.rel == rel {
			return i
		}
	}
	return -1
}

var verifListed = []string{"store:A", "store:B", "store:store:C"}

func (s *verifCtl) ListObjects(ctx context.Context, req *openfgav1.ListObjectsRequest) (*openfgav1.ListObjectsResponse, error) {
	s.lists++
	vt.Assert(authclaims.SkipAuthzCheckFromContext(ctx), "delegated ListObjects is not marked skip-authz")
	vt.Assert(req.GetStoreId() == verifCtlStore && req.GetAuthorizationModelId() == verifCtlModel, "delegated ListObjects does not address the access-control store/model")
	vt.Assert(req.GetUser() == "application:"+s.cid && req.GetRelation() == "can_call_get_store" && req.GetType() == "store",
		"ListAuthorizedStores does not ask for the stores application:<client id> can_call_get_store")
	vt.Assert(len(req.GetContextualTuples().GetTupleKeys()) == 0, "ListAuthorizedStores passes contextual tuples")
	if s.listErr {
		return nil, errors.New("control store failure")
	}
	return &openfgav1.ListObjectsResponse{Objects: verifListed[:s.listN]}, nil
}

// verifCaller builds the caller context: 0 = no claims, 1 = claims with empty client id, 2 = claims with
// a non-empty symbolic client id.
func verifCaller(kind int) (context.Context, string) {
	ctx := context.Background()
	switch kind {
	case 0:
		return ctx, ""
	case 1:
		return authclaims.ContextWithAuthClaims(ctx, &authclaims.AuthClaims{Subject: "sub", ClientID: ""}), ""
	}
	cid := vt.ASCII("cid", vt.ParamInt("cid", 2))
	vt.Assume(cid != "")
	return authclaims.ContextWithAuthClaims(ctx, &authclaims.AuthClaims{Subject: "sub", ClientID: cid}), cid
}

// VerifK26aAuthorize: Authorize(store, method, modules...) returns nil exactly when the caller is
// identified and (the store-level grant is allowed without error, or there are between 1 and
// MaxModulesInRequest modules and every module grant is allowed without error).
func VerifK26aAuthorize() {
	caller := vt.Choose("caller", 3)
	mi := vt.Choose("method", len(verifMethods))
	maxMods := vt.ParamInt("mods", 2)
	nm := vt.Choose("nmods", maxMods+1)
	ctx, cid := verifCaller(caller)
	verifAnswers()
	ctl := &verifCtl{cid: cid, wantRel: verifMethods[mi].rel}
	a := NewAuthorizer(&Config{StoreID: verifCtlStore, ModelID: verifCtlModel}, ctl, nil)
	mods := []string{"m0", "m1", "m2"}[:nm]
	if nm == 2 && vt.ForkBool("dupmods") {
		mods = []string{"m0", "m0"}
	}

	err := a.Authorize(ctx, verifStoreID, verifMethods[mi].m, mods...)

	if caller != 2 {
		vt.Reach("unidentified")
		vt.Assert(err != nil, "call without a client identity was authorized")
		vt.Assert(ctl.checks == 0, "control store consulted for an unidentified caller")
		return
	}
	if verifMethods[mi].rel == "" {
		vt.Reach("unknown-method")
		vt.Assert(err != nil, "unknown API method was authorized")
		vt.Assert(ctl.checks == 0, "control store consulted for an unknown method")
		return
	}
	// UF arguments are the index of the first table row with that relation (what verifRelIndex yields)
	ri := verifRelIndex(verifMethods[mi].rel)
	ok := func(obj int) bool { return verifGranted(ri, obj) }
	storeOK := ok(0)
	modsOK := nm >= 1 && nm <= MaxModulesInRequest
	if modsOK {
		for i := 0; i < nm; i++ {
			o := ok(1 + verifIndex([]string{"m0", "m1", "m2"}, mods[i]))
			modsOK = modsOK && o
		}
	}
	if err == nil {
		vt.Reach("authorized")
	} else {
		vt.Reach("denied")
	}
	vt.Assert(err != nil || storeOK || modsOK, "authorized although neither the store grant nor all module grants are allowed without error")
	vt.Assert(err == nil || !(storeOK || modsOK), "denied although the control store grants the call")
	// any error from the control store on a grant that the decision depends on denies the call
	if verifFail[ri][0] && (nm == 0 || nm > MaxModulesInRequest) {
		vt.Reach("store-check-error")
		vt.Assert(err != nil, "control-store error on the store-level check did not deny")
	}
	vt.Assert(ctl.asked[0] == 1, "store-level grant not asked exactly once")
	vt.Assert(ctl.asked[4] == 0, "system-level object asked for a store-scoped method")
	if nm > MaxModulesInRequest {
		vt.Reach("over-limit")
		vt.Assert(ctl.checks == 1, "module grants consulted although the module limit is exceeded")
		vt.Assert((err == nil) == storeOK, "over-limit request decided by something else than the store-level grant")
	}
	_, isAuthzErr := err.(*authorizationError)
	vt.Assert(err == nil || isAuthzErr, "denial is not an authorizationError")
}

// VerifK26aSystemLevel: AuthorizeCreateStore / AuthorizeListStores ask can_call_create_stores /
// can_call_list_stores on system:fga and authorize exactly on an error-free allowed answer.
func VerifK26aSystemLevel() {
	caller := vt.Choose("caller", 3)
	which := vt.Choose("which", 2)
	ctx, cid := verifCaller(caller)
	rel := "can_call_create_stores"
	if which == 1 {
		rel = "can_call_list_stores"
	}
	verifAnswers()
	ctl := &verifCtl{cid: cid, wantRel: rel}
	a := NewAuthorizer(&Config{StoreID: verifCtlStore, ModelID: verifCtlModel}, ctl, nil)
	var err error
	if which == 0 {
		err = a.AuthorizeCreateStore(ctx)
	} else {
		err = a.AuthorizeListStores(ctx)
	}
	if caller != 2 {
		vt.Reach("unidentified")
		vt.Assert(err != nil && ctl.checks == 0, "system-level call without a client identity was authorized or consulted the control store")
		return
	}
	ri := verifRelIndex(rel)
	want := verifGranted(ri, 4)
	if err == nil {
		vt.Reach("authorized")
	} else {
		vt.Reach("denied")
	}
	vt.Assert((err == nil) == want, "system-level decision differs from the control store's answer")
	vt.Assert(ctl.checks == 1 && ctl.asked[4] == 1, "system-level grant not asked exactly once on system:fga")
}

// VerifK26aListAuthorizedStores: the ids are exactly the listed objects with one "store:" prefix
// removed, in order; any error => (nil, error); unidentified callers never reach the control store.
// Also records the shape H3 depends on: zero authorised stores is a NON-nil empty slice.
func VerifK26aListAuthorizedStores() {
	caller := vt.Choose("caller", 3)
	n := vt.Choose("n", len(verifListed)+1)
	ctx, cid := verifCaller(caller)
	ctl := &verifCtl{cid: cid, listN: n, listErr: vt.ForkBool("listErr")}
	a := NewAuthorizer(&Config{StoreID: verifCtlStore, ModelID: verifCtlModel}, ctl, nil)
	ids, err := a.ListAuthorizedStores(ctx)
	if caller != 2 {
		vt.Reach("unidentified")
		vt.Assert(err != nil && ids == nil && ctl.lists == 0, "ListAuthorizedStores without a client identity")
		return
	}
	if ctl.listErr {
		vt.Reach("list-error")
		vt.Assert(err != nil && ids == nil, "control-store error did not fail ListAuthorizedStores")
		return
	}
	vt.Reach("listed")
	vt.Assert(err == nil && len(ids) == n, "wrong number of authorised stores")
	want := []string{"A", "B", "store:C"}
	for i := 0; i < n && i < len(ids); i++ {
		vt.Assert(ids[i] == want[i], "store id is not the object without its type prefix")
	}
	if n == 0 {
		vt.Reach("none-authorised")
		// documented here because Server.ListStores must not read "empty" as "no filter" (K26b)
		vt.Assert(ids != nil, "zero authorised stores reported as nil (callers distinguish nil = no filtering)")
	}
}
