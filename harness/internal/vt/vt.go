// Package vt is the harness API. Under the gosmt engine every function here is intercepted and
// produces symbolic values; compiled natively (counterexample replay) the same functions read the
// solver's assignment from the JSON file named by VT_REPLAY.
package vt

import (
	"encoding/json"
	"fmt"
	"os"
	"strconv"
	"sync"
)

type replay struct {
	Model  map[string]uint64 `json:"model"`
	Params map[string]string `json:"params"`
	Events []string          `json:"events"`
}

var (
	once sync.Once
	rp   replay
	// Failures collects failed assertions in native mode.
	Failures []string
	Events   []string
)

func load() {
	once.Do(func() {
		rp.Model = map[string]uint64{}
		rp.Params = map[string]string{}
		if p := os.Getenv("VT_REPLAY"); p != "" {
			b, err := os.ReadFile(p)
			if err != nil {
				panic(err)
			}
			if err := json.Unmarshal(b, &rp); err != nil {
				panic(err)
			}
		}
	})
}

func get(name string) uint64 { load(); return rp.Model[name] }

// Symbolic reports whether the harness runs under the symbolic engine.
func Symbolic() bool { return false }

func Bool(name string) bool     { return get(name) != 0 }
func ForkBool(name string) bool { return get(name) != 0 }
func Int(name string) int       { return int(int64(get(name))) }
func Int64(name string) int64   { return int64(get(name)) }
func Uint64(name string) uint64 { return get(name) }
func Int32(name string) int32   { return int32(get(name)) }
func Uint32(name string) uint32 { return uint32(get(name)) }
func Byte(name string) byte     { return byte(get(name)) }

// IntRange is a symbolic int in [lo, hi].
func IntRange(name string, lo, hi int) int { return int(int64(get(name))) }

// Choose is a symbolic choice in [0, n) on which the engine forks.
func Choose(name string, n int) int { return int(get(name)) }

// Pick is a symbolic choice in [0, n) that is merged, not forked.
func Pick(name string, n int) int { return int(get(name)) }

// String is a symbolic string of at most max bytes (any byte values).
func String(name string, max int) string {
	n := int(get(name + ".len"))
	b := make([]byte, n)
	for i := range b {
		b[i] = byte(get(name + ".b" + strconv.Itoa(i)))
	}
	return string(b)
}

// ASCII is a symbolic string of at most max bytes, all < 0x80.
func ASCII(name string, max int) string { return String(name, max) }

func Bytes(name string, max int) []byte { return []byte(String(name, max)) }

// Param returns a concrete harness parameter.
func Param(name, def string) string {
	load()
	if v, ok := rp.Params[name]; ok {
		return v
	}
	return def
}

func ParamInt(name string, def int) int {
	if v, err := strconv.Atoi(Param(name, "")); err == nil {
		return v
	}
	return def
}

type assumeFailed struct{}

// Assume restricts the explored inputs.
func Assume(c bool) {
	if !c {
		panic(assumeFailed{})
	}
}

// Assert states the property.
func Assert(c bool, msg string) {
	if !c {
		Failures = append(Failures, msg)
	}
}

// Reach is a vacuity witness: the engine requires the label to be reachable.
func Reach(label string) {}

// Fork makes the engine explore both outcomes of c on separate paths.
func Fork(c bool) bool { return c }

func Event(s string) { Events = append(Events, s) }

// ExpectPanics: runtime panics fork into a real unwinding path instead of being violations.
func ExpectPanics() {}

// SchedChoices enables n symbolic scheduling choices (select with several ready cases).
func SchedChoices(n int) {}

// ImplicitPoints(true): under vt.Threads every atomic / mutex / channel operation is a scheduling point
// too, not only verifhook.Point calls. Counterexamples that need such points are replayed by stress.
func ImplicitPoints(on bool) {}

// Stress reports whether the native replay runs in stress mode (no schedule control, many repetitions).
func Stress() bool { return os.Getenv("VT_STRESS") != "" }

// Background marks the calling goroutine as one that may legitimately stay blocked.
func Background() {}

// ForkAll runs f with every symbolic branch forking instead of merging.
func ForkAll(f func()) { f() }

// Stub replaces a function (by its SSA name) with the given func value under the engine. Natively a no-op.
func Stub(name string, f any) {}

// UFInt etc. are uninterpreted functions of their integer/string arguments.
func UFInt(name string, args ...any) int   { return int(int64(get(ufKey(name, args)))) }
func UFBool(name string, args ...any) bool { return get(ufKey(name, args)) != 0 }
func UFByte(name string, args ...any) byte { return byte(get(ufKey(name, args))) }

func ufKey(name string, args []any) string {
	k := "uf:uf_" + name
	for _, a := range args {
		k += fmt.Sprintf(",%v", a)
	}
	return k
}

// Run executes a harness natively and reports failed assertions (used by generated replay tests).
func Run(h func()) (failures []string, assumeViolated bool, panicked any) {
	Failures = nil
	defer func() {
		if r := recover(); r != nil {
			if _, ok := r.(assumeFailed); ok {
				assumeViolated = true
			} else {
				panicked = r
			}
		}
		failures = Failures
	}()
	h()
	return
}
