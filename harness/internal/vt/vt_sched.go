//go:build verif

package vt

import (
	"bytes"
	"runtime"
	"strconv"
	"strings"
	"sync"
	"time"

	"github.com/openfga/openfga/internal/verifhook"
)

// Threads runs the bodies as goroutines. Under the engine their interleaving at verifhook.Point calls is
// a solver-chosen schedule with at most `budget` preemptions. Natively (replay) the recorded schedule
// ("sched:<thread> ..." events of the counterexample) is enforced through the same points; afterwards all
// threads run freely and a thread that never finishes is reported as a failed assertion.
func Threads(budget int, fs ...func()) {
	load()
	if Stress() {
		// stress replay: plain goroutines, the test wrapper repeats the harness many times
		var wg sync.WaitGroup
		start := make(chan struct{})
		for _, f := range fs {
			wg.Add(1)
			f := f
			go func() { defer wg.Done(); <-start; f() }()
		}
		close(start)
		done := make(chan struct{})
		go func() { wg.Wait(); close(done) }()
		select {
		case <-done:
		case <-time.After(3 * time.Second):
			Failures = append(Failures, "deadlock: a thread never finished (stress replay)")
		}
		return
	}
	type nthread struct {
		id     int
		resume chan struct{}
		parked chan string
		done   chan struct{}
		isDone bool
		atPt   bool
	}
	var gmap sync.Map // goroutine id -> *nthread
	var free sync.WaitGroup
	freeRun := false
	var mu sync.Mutex
	ths := make([]*nthread, len(fs))
	verifhook.Set(func(id string) {
		v, ok := gmap.Load(goid())
		if !ok {
			return
		}
		mu.Lock()
		fr := freeRun
		mu.Unlock()
		if fr {
			return
		}
		t := v.(*nthread)
		t.parked <- id
		<-t.resume
	})
	defer verifhook.Set(nil)
	for i, f := range fs {
		t := &nthread{id: i, resume: make(chan struct{}), parked: make(chan string, 1), done: make(chan struct{})}
		ths[i] = t
		f := f
		free.Add(1)
		go func() {
			defer free.Done()
			defer close(t.done)
			gmap.Store(goid(), t)
			t.parked <- "start"
			<-t.resume
			f()
		}()
	}
	// wait until t is parked at a point, finished, or presumably blocked in the runtime
	settle := func(t *nthread, d time.Duration) {
		if t.isDone || t.atPt {
			return
		}
		select {
		case <-t.parked:
			t.atPt = true
		case <-t.done:
			t.isDone = true
		case <-time.After(d):
		}
	}
	for _, t := range ths {
		settle(t, 2*time.Second)
	}
	for _, e := range rp.Events {
		if !strings.HasPrefix(e, "sched:") {
			continue
		}
		f := strings.Fields(e[len("sched:"):])
		tid, err := strconv.Atoi(f[0])
		if err != nil || tid < 0 || tid >= len(ths) {
			continue
		}
		t := ths[tid]
		settle(t, 300*time.Millisecond)
		if t.isDone || !t.atPt {
			continue
		}
		t.atPt = false
		t.resume <- struct{}{}
		settle(t, 150*time.Millisecond)
		// threads woken by this step run to their next point
		for _, o := range ths {
			if o != t {
				settle(o, 20*time.Millisecond)
			}
		}
	}
	// schedule exhausted: everybody runs freely
	mu.Lock()
	freeRun = true
	mu.Unlock()
	for _, t := range ths {
		settle(t, 50*time.Millisecond)
		if t.atPt && !t.isDone {
			t.atPt = false
			t.resume <- struct{}{}
		}
	}
	fin := make(chan struct{})
	go func() { free.Wait(); close(fin) }()
	// late parkers (reached a point just before free-run was switched on)
	deadline := time.After(3 * time.Second)
	for {
		select {
		case <-fin:
			return
		case <-deadline:
			Failures = append(Failures, "deadlock: a thread never finished under the replayed schedule")
			return
		case <-time.After(20 * time.Millisecond):
			for _, t := range ths {
				select {
				case <-t.parked:
					t.resume <- struct{}{}
				default:
				}
			}
		}
	}
}

func goid() int64 {
	var buf [64]byte
	n := runtime.Stack(buf[:], false)
	f := bytes.Fields(buf[:n])
	if len(f) < 2 {
		return -1
	}
	id, _ := strconv.ParseInt(string(f[1]), 10, 64)
	return id
}
