//go:build !verif

package vt

import "sync"

// Threads without the verif build tag: plain goroutines, no schedule control.
func Threads(budget int, fs ...func()) {
	var wg sync.WaitGroup
	for _, f := range fs {
		wg.Add(1)
		go func() { defer wg.Done(); f() }()
	}
	wg.Wait()
}
