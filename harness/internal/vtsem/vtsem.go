// Package vtsem is shared by the whole-engine harnesses: a finite universe of candidate tuples for a
// model, a RelationshipTupleReader whose store content is symbolic (one presence bit per candidate), and
// the reference semantics of Check (three-valued least fixpoint) written independently of the engines.
package vtsem

import (
	"context"
	"sort"
	"strconv"

	openfgav1 "github.com/openfga/api/proto/openfga/v1"
	"google.golang.org/protobuf/types/known/structpb"

	"github.com/openfga/openfga/internal/condition"
	"github.com/openfga/openfga/internal/vt"
	"github.com/openfga/openfga/pkg/storage"
	"github.com/openfga/openfga/pkg/tuple"
)

// ---------------------------------------------------------------------------------------------
// Universe

type Cand struct {
	Key   *openfgav1.TupleKey // object, relation, user (+ condition name, empty context)
	Valid bool                // allowed by the model's type restrictions (with this condition name)
	Cond  string
}

type Universe struct {
	Model   *openfgav1.AuthorizationModel
	Types   []string            // in model order
	Objects map[string][]string // type -> object strings "type:id"
	Cands   []Cand
}

func typeDef(m *openfgav1.AuthorizationModel, t string) *openfgav1.TypeDefinition {
	for _, td := range m.GetTypeDefinitions() {
		if td.GetType() == t {
			return td
		}
	}
	return nil
}

func sortedRelations(td *openfgav1.TypeDefinition) []string {
	var rs []string
	for r := range td.GetRelations() {
		rs = append(rs, r)
	}
	sort.Strings(rs)
	return rs
}

// DirectTypes returns the declared type restrictions of type#relation.
func DirectTypes(m *openfgav1.AuthorizationModel, t, r string) []*openfgav1.RelationReference {
	td := typeDef(m, t)
	if td == nil {
		return nil
	}
	return td.GetMetadata().GetRelations()[r].GetDirectlyRelatedUserTypes()
}

// NewUniverse enumerates nobj objects per type and every tuple the model's restrictions allow over
// them, plus a few tuples it does not allow (leftovers of an older model).
// StarSecondID makes the second object of every type `type:2*`: an ordinary id that ends in '*'. Code that
// recognises typed wildcards by suffix instead of by the exact id `*` misbehaves on it.
var StarSecondID bool

// LowFirstID makes the first object of every type `type:$1`: '$' sorts before '*', so a typed wildcard is not the
// first user in a list sorted by user string.
var LowFirstID bool

func NewUniverse(m *openfgav1.AuthorizationModel, nobj int, withInvalid bool) *Universe {
	u := &Universe{Model: m, Objects: map[string][]string{}}
	for _, td := range m.GetTypeDefinitions() {
		u.Types = append(u.Types, td.GetType())
		for i := 1; i <= nobj; i++ {
			id := strconv.Itoa(i)
			if StarSecondID && i == 2 {
				id = "2*" // a concrete id that merely ends in the wildcard character
			}
			if LowFirstID && i == 1 {
				id = "$1" // an id whose first byte sorts before the wildcard character
			}
			u.Objects[td.GetType()] = append(u.Objects[td.GetType()], td.GetType()+":"+id)
		}
	}
	for _, td := range m.GetTypeDefinitions() {
		for _, r := range sortedRelations(td) {
			refs := DirectTypes(m, td.GetType(), r)
			if len(refs) == 0 {
				continue
			}
			for _, obj := range u.Objects[td.GetType()] {
				for _, ref := range refs {
					var users []string
					switch {
					case ref.GetWildcard() != nil:
						users = []string{ref.GetType() + ":*"}
					case ref.GetRelation() != "":
						for _, o := range u.Objects[ref.GetType()] {
							users = append(users, o+"#"+ref.GetRelation())
						}
					default:
						users = u.Objects[ref.GetType()]
					}
					for _, usr := range users {
						tk := tuple.NewTupleKeyWithCondition(obj, r, usr, ref.GetCondition(), nil)
						if ref.GetCondition() == "" {
							tk = tuple.NewTupleKey(obj, r, usr)
						}
						u.Cands = append(u.Cands, Cand{Key: tk, Valid: true, Cond: ref.GetCondition()})
					}
				}
				if withInvalid {
					// an unconditioned tuple where the model only allows the conditioned form (left over from a
					// model version without the condition); a typed wildcard restriction does not make it valid
					for _, ref := range refs {
						if ref.GetCondition() == "" || ref.GetWildcard() != nil {
							continue
						}
						plain := false
						for _, r2 := range refs {
							if r2.GetCondition() == "" && r2.GetType() == ref.GetType() && r2.GetRelation() == ref.GetRelation() && r2.GetWildcard() == nil {
								plain = true
							}
						}
						if plain {
							continue
						}
						usr := u.Objects[ref.GetType()][0]
						if ref.GetRelation() != "" {
							usr += "#" + ref.GetRelation()
						}
						u.Cands = append(u.Cands, Cand{Key: tuple.NewTupleKey(obj, r, usr), Valid: false})
					}
					// a condition that the model attaches to ANOTHER restriction of the same user type (e.g. `group:1` with
					// c2 where the model says [group, group#member with c2]): the shape of the user decides which
					// restriction - and therefore which condition - applies
					for _, ref := range refs {
						for _, r2 := range refs {
							if r2.GetCondition() == "" || r2.GetType() != ref.GetType() {
								continue
							}
							sameShape := r2.GetRelation() == ref.GetRelation() && (r2.GetWildcard() != nil) == (ref.GetWildcard() != nil)
							if sameShape {
								continue
							}
							ok := false // is r2's condition also allowed on ref's own shape?
							for _, r3 := range refs {
								if r3.GetType() == ref.GetType() && r3.GetRelation() == ref.GetRelation() && (r3.GetWildcard() != nil) == (ref.GetWildcard() != nil) && r3.GetCondition() == r2.GetCondition() {
									ok = true
								}
							}
							if ok {
								continue
							}
							usr := u.Objects[ref.GetType()][0]
							switch {
							case ref.GetWildcard() != nil:
								usr = ref.GetType() + ":*"
							case ref.GetRelation() != "":
								usr += "#" + ref.GetRelation()
							}
							dup := false
							for _, c := range u.Cands {
								if c.Key.GetObject() == obj && c.Key.GetRelation() == r && c.Key.GetUser() == usr && c.Key.GetCondition().GetName() == r2.GetCondition() {
									dup = true
								}
							}
							if !dup {
								u.Cands = append(u.Cands, Cand{Key: tuple.NewTupleKeyWithCondition(obj, r, usr, r2.GetCondition(), nil), Valid: false, Cond: r2.GetCondition()})
							}
						}
					}
					// a user type the relation does not list (first type of the model that is not allowed)
					for _, t2 := range u.Types {
						allowed := false
						for _, ref := range refs {
							if ref.GetType() == t2 && ref.GetRelation() == "" && ref.GetWildcard() == nil {
								allowed = true
							}
						}
						if !allowed {
							u.Cands = append(u.Cands, Cand{Key: tuple.NewTupleKey(obj, r, u.Objects[t2][0]), Valid: false})
							break
						}
					}
				}
			}
		}
	}
	return u
}

// Describe lists the candidates with their indices (for counterexample reports).
func (u *Universe) Describe() string {
	s := "candidates:"
	for i, c := range u.Cands {
		s += " p" + strconv.Itoa(i) + "=" + tuple.TupleKeyWithConditionToString(c.Key)
		if !c.Valid {
			s += "(invalid)"
		}
		s += ";"
	}
	return s
}

// Restrict keeps at most max candidates, chosen round-robin from a seed-dependent offset.
func (u *Universe) Restrict(max, seed int) {
	if max <= 0 || len(u.Cands) <= max {
		return
	}
	var out []Cand
	n := len(u.Cands)
	step := n / max
	if step < 1 {
		step = 1
	}
	for i := 0; len(out) < max && i < n; i++ {
		out = append(out, u.Cands[(seed+i*step)%n])
	}
	u.Cands = out
}

// ---------------------------------------------------------------------------------------------
// Symbolic store

// Store holds the presence bits: P forks (used by the reader), Q are merged aliases (used by the oracle).
type Store struct {
	U *Universe
	P []bool
	Q []bool
	// condition outcomes for conditional candidates under the request context
	Met     []bool
	Err     []bool
	CondMet map[string]bool
	CondErr map[string]bool
	// Hidden candidates are not served by the Reader (they travel as contextual tuples of the request);
	// their presence bit still counts for the reference semantics.
	Hidden []bool
}

// AnyPresentConditionError: some stored (or contextual) tuple carries a condition that cannot be
// evaluated under the request context.
func (s *Store) AnyPresentConditionError() bool {
	r := false
	for i := range s.U.Cands {
		r = r || (s.Q[i] && s.Err[i])
	}
	return r
}

func (s *Store) hidden(i int) bool { return s.Hidden != nil && s.Hidden[i] }

// SplitContextual moves the first k valid candidates out of the store: each of them that is present
// (forked now, the list must be concrete) is returned as a contextual tuple instead.
func (s *Store) SplitContextual(k int) []*openfgav1.TupleKey {
	s.Hidden = make([]bool, len(s.U.Cands))
	var out []*openfgav1.TupleKey
	n := 0
	for i, c := range s.U.Cands {
		if n >= k {
			break
		}
		if !c.Valid {
			continue // request validation rejects contextual tuples the model does not allow
		}
		n++
		s.Hidden[i] = true
		if s.P[i] {
			out = append(out, c.Key)
		}
	}
	return out
}

// ContextualCopies returns the present candidates among the first k valid ones WITHOUT removing them from
// the store: the same tuple is then both stored and contextual (nothing rejects that). The reference
// semantics is unaffected (a tuple is present or not, however often it is supplied).
func (s *Store) ContextualCopies(k int) []*openfgav1.TupleKey {
	var out []*openfgav1.TupleKey
	n := 0
	for i, c := range s.U.Cands {
		if n >= k {
			break
		}
		if !c.Valid {
			continue // request validation rejects contextual tuples the model does not allow
		}
		n++
		if s.P[i] {
			out = append(out, c.Key)
		}
	}
	return out
}

func NewSymbolicStore(u *Universe) *Store {
	s := &Store{U: u, CondMet: map[string]bool{}, CondErr: map[string]bool{}}
	// one outcome per condition name: candidate tuples carry no context of their own, so the outcome
	// depends on the request context only
	var names []string
	for n := range u.Model.GetConditions() {
		names = append(names, n)
	}
	sort.Strings(names)
	qMet, qErr := map[string]bool{}, map[string]bool{}
	for _, n := range names {
		// the engine side forks on the outcome (keeps strings concrete); the oracle uses merged aliases
		s.CondMet[n] = vt.ForkBool("met_" + n)
		s.CondErr[n] = vt.ForkBool("cerr_" + n)
		qMet[n] = vt.Bool("qmet_" + n)
		qErr[n] = vt.Bool("qcerr_" + n)
		vt.Assume(qMet[n] == s.CondMet[n])
		vt.Assume(qErr[n] == s.CondErr[n])
	}
	for i, c := range u.Cands {
		id := strconv.Itoa(i)
		p := vt.ForkBool("p" + id)
		q := vt.Bool("q" + id)
		vt.Assume(p == q)
		s.P = append(s.P, p)
		s.Q = append(s.Q, q)
		met, cerr := true, false
		if c.Cond != "" {
			met, cerr = qMet[c.Cond], qErr[c.Cond]
		}
		s.Met = append(s.Met, met)
		s.Err = append(s.Err, cerr)
	}
	// store invariant: (object, relation, user) is a key — two candidates that differ only in their
	// condition are never present together
	for i := range u.Cands {
		for j := i + 1; j < len(u.Cands); j++ {
			a, b := u.Cands[i].Key, u.Cands[j].Key
			if a.GetObject() == b.GetObject() && a.GetRelation() == b.GetRelation() && a.GetUser() == b.GetUser() {
				vt.Assume(!(s.Q[i] && s.Q[j]))
			}
		}
	}
	return s
}

// RequestContext builds the request context that produces the chosen condition outcomes with the real
// CEL evaluator (native replay). Convention of the model family: condition cK has exactly one int
// parameter xK and the expression `xK < 100`.
func (s *Store) RequestContext() *structpb.Struct {
	fields := map[string]*structpb.Value{}
	for n, met := range s.CondMet {
		if s.CondErr[n] {
			continue // parameter missing => evaluation error
		}
		v := 200.0
		if met {
			v = 1
		}
		fields["x"+n[1:]] = structpb.NewNumberValue(v)
	}
	if len(fields) == 0 {
		return nil
	}
	return &structpb.Struct{Fields: fields}
}

// StubConditions replaces CEL evaluation by the symbolic outcome of each condition (engine only).
func (s *Store) StubConditions() {
	if !vt.Symbolic() {
		return
	}
	vt.Stub("(*github.com/openfga/openfga/internal/condition.EvaluableCondition).Evaluate",
		func(c *condition.EvaluableCondition, _ context.Context, _ []map[string]*structpb.Value) (condition.EvaluationResult, error) {
			n := c.GetName()
			if s.CondErr[n] {
				return condition.EvaluationResult{ConditionMet: false, MissingParameters: []string{"x" + n[1:]}}, nil
			}
			return condition.EvaluationResult{ConditionMet: s.CondMet[n]}, nil
		})
}

// Reader serves reads from the candidates whose presence bit is set. Filters are concrete, so only the
// presence test is symbolic: the engine forks on it lazily, per tuple actually read.
type Reader struct {
	S *Store
	// RequireHC (C10): the request under test asked for HIGHER_CONSISTENCY, so every read issued on its
	// behalf must carry that preference in its options (that is what makes the cache layers step aside).
	RequireHC bool
}

func (r *Reader) requireHC(method string, p openfgav1.ConsistencyPreference) {
	if r.RequireHC {
		vt.Assert(p == openfgav1.ConsistencyPreference_HIGHER_CONSISTENCY, "a datastore read issued for a HIGHER_CONSISTENCY request does not carry the consistency preference ("+method+")")
	}
}

var _ storage.RelationshipTupleReader = (*Reader)(nil)

func matchKey(tk *openfgav1.TupleKey, object, relation, user string) bool {
	if object != "" {
		t, id := tuple.SplitObject(object)
		ct, cid := tuple.SplitObject(tk.GetObject())
		if id == "" {
			if t != ct {
				return false
			}
		} else if t != ct || id != cid {
			return false
		}
	}
	if relation != "" && relation != tk.GetRelation() {
		return false
	}
	if user != "" {
		ut, uid, _ := tuple.ToUserParts(user)
		if uid != "" {
			if tk.GetUser() != user {
				return false
			}
		} else {
			ct, _ := tuple.SplitObject(tk.GetUser())
			if ct != ut {
				return false
			}
		}
	}
	return true
}

func containsStr(xs []string, s string) bool {
	for _, x := range xs {
		if x == s {
			return true
		}
	}
	return false
}

func (r *Reader) tuple(i int) *openfgav1.Tuple {
	return &openfgav1.Tuple{Key: r.S.U.Cands[i].Key}
}

func (r *Reader) Read(_ context.Context, _ string, f storage.ReadFilter, o storage.ReadOptions) (storage.TupleIterator, error) {
	r.requireHC("Read", o.Consistency.Preference)
	var out []*openfgav1.Tuple
	for i, c := range r.S.U.Cands {
		if r.S.hidden(i) {
			continue
		}
		if matchKey(c.Key, f.Object, f.Relation, f.User) && (len(f.Conditions) == 0 || containsStr(f.Conditions, c.Cond)) && r.S.P[i] {
			out = append(out, r.tuple(i))
		}
	}
	return storage.NewStaticTupleIterator(out), nil
}

func (r *Reader) ReadPage(ctx context.Context, store string, f storage.ReadFilter, o storage.ReadPageOptions) ([]*openfgav1.Tuple, string, error) {
	r.requireHC("ReadPage", o.Consistency.Preference)
	var out []*openfgav1.Tuple
	for i, c := range r.S.U.Cands {
		if r.S.hidden(i) {
			continue
		}
		if matchKey(c.Key, f.Object, f.Relation, f.User) && r.S.P[i] {
			out = append(out, r.tuple(i))
		}
	}
	return out, "", nil
}

func (r *Reader) ReadUserTuple(_ context.Context, _ string, f storage.ReadUserTupleFilter, o storage.ReadUserTupleOptions) (*openfgav1.Tuple, error) {
	r.requireHC("ReadUserTuple", o.Consistency.Preference)
	for i, c := range r.S.U.Cands {
		if r.S.hidden(i) {
			continue
		}
		if matchKey(c.Key, f.Object, f.Relation, f.User) && (len(f.Conditions) == 0 || containsStr(f.Conditions, c.Cond)) && r.S.P[i] {
			return r.tuple(i), nil
		}
	}
	return nil, storage.ErrNotFound
}

func (r *Reader) ReadUsersetTuples(_ context.Context, _ string, f storage.ReadUsersetTuplesFilter, o storage.ReadUsersetTuplesOptions) (storage.TupleIterator, error) {
	r.requireHC("ReadUsersetTuples", o.Consistency.Preference)
	var out []*openfgav1.Tuple
	for i, c := range r.S.U.Cands {
		if r.S.hidden(i) {
			continue
		}
		if !matchKey(c.Key, f.Object, f.Relation, "") {
			continue
		}
		usr := c.Key.GetUser()
		if !(tuple.IsObjectRelation(usr) || tuple.IsWildcard(usr)) {
			continue
		}
		if len(f.AllowedUserTypeRestrictions) > 0 {
			ut := tuple.GetType(usr)
			_, urel := tuple.SplitObjectRelation(usr)
			ok := false
			for _, a := range f.AllowedUserTypeRestrictions {
				if a.GetType() == ut && a.GetRelation() == urel {
					ok = true
				}
			}
			if !ok {
				continue
			}
		}
		if len(f.Conditions) > 0 && !containsStr(f.Conditions, c.Cond) {
			continue
		}
		if r.S.P[i] {
			out = append(out, r.tuple(i))
		}
	}
	return storage.NewStaticTupleIterator(out), nil
}

func (r *Reader) ReadStartingWithUser(_ context.Context, _ string, f storage.ReadStartingWithUserFilter, o storage.ReadStartingWithUserOptions) (storage.TupleIterator, error) {
	r.requireHC("ReadStartingWithUser", o.Consistency.Preference)
	type rec struct {
		id string
		i  int
	}
	var hits []rec
	for i, c := range r.S.U.Cands {
		if r.S.hidden(i) {
			continue
		}
		ot, oid := tuple.SplitObject(c.Key.GetObject())
		if ot != f.ObjectType || c.Key.GetRelation() != f.Relation {
			continue
		}
		if f.ObjectIDs != nil && !f.ObjectIDs.Exists(oid) {
			continue
		}
		if len(f.Conditions) > 0 && !containsStr(f.Conditions, c.Cond) {
			continue
		}
		m := false
		for _, uf := range f.UserFilter {
			target := uf.GetObject()
			if uf.GetRelation() != "" {
				target = uf.GetObject() + "#" + uf.GetRelation()
			}
			if target == c.Key.GetUser() {
				m = true
			}
		}
		if m {
			hits = append(hits, rec{oid, i})
		}
	}
	sort.SliceStable(hits, func(a, b int) bool { return hits[a].id < hits[b].id })
	var out []*openfgav1.Tuple
	for _, h := range hits {
		if r.S.P[h.i] {
			out = append(out, r.tuple(h.i))
		}
	}
	return storage.NewStaticTupleIterator(out), nil
}

// ---------------------------------------------------------------------------------------------
// Reference semantics (independent of the engines)

// K3 is a strong-Kleene truth value: Lo = "true even if every error counts as false",
// Hi = "true if every error counts as true". Lo implies Hi; Lo != Hi means "error".
type K3 struct{ Lo, Hi bool }

func k3(b bool) K3            { return K3{b, b} }
func (a K3) or(b K3) K3       { return K3{a.Lo || b.Lo, a.Hi || b.Hi} }
func (a K3) and(b K3) K3      { return K3{a.Lo && b.Lo, a.Hi && b.Hi} }
func (a K3) butNot(b K3) K3   { return K3{a.Lo && !b.Hi, a.Hi && !b.Lo} }
func (a K3) IsTrue() bool     { return a.Lo }
func (a K3) IsFalse() bool    { return !a.Hi }
func (a K3) IsError() bool    { return a.Hi && !a.Lo }

type atom struct{ obj, rel string }

// Oracle evaluates Check(object#relation@user) over the symbolic store by iterating the immediate
// consequence operator `rounds` times from "false everywhere" (least fixpoint; models with negation
// through recursion are excluded by the model family).
type Oracle struct {
	S      *Store
	User   string
	// FilterFirst: a tuple whose condition cannot be evaluated makes the sub-expression that reads it
	// an error even if following the tuple would lead nowhere (the engines filter tuples by condition
	// before expanding them). Errors under this valuation are a superset of the strong-Kleene ones.
	FilterFirst bool
	atoms  []atom
	index  map[atom]int
	val    []K3
	rounds int
}

func NewOracle(s *Store, user string, rounds int) *Oracle { return newOracle(s, user, rounds, false) }

// NewFilterFirstOracle: see Oracle.FilterFirst.
func NewFilterFirstOracle(s *Store, user string, rounds int) *Oracle {
	return newOracle(s, user, rounds, true)
}

func (o *Oracle) tupleAnd(p, rest K3) K3 {
	if !o.FilterFirst {
		return p.and(rest)
	}
	return K3{Lo: p.Lo && rest.Lo, Hi: p.Hi && (rest.Hi || !p.Lo)}
}

func newOracle(s *Store, user string, rounds int, filterFirst bool) *Oracle {
	o := &Oracle{S: s, User: user, index: map[atom]int{}, rounds: rounds, FilterFirst: filterFirst}
	for _, t := range s.U.Types {
		td := typeDef(s.U.Model, t)
		for _, r := range sortedRelations(td) {
			for _, obj := range s.U.Objects[t] {
				o.index[atom{obj, r}] = len(o.atoms)
				o.atoms = append(o.atoms, atom{obj, r})
			}
		}
	}
	if rounds <= 0 {
		o.rounds = len(o.atoms) + 2
	}
	o.val = make([]K3, len(o.atoms))
	for it := 0; it < o.rounds; it++ {
		next := make([]K3, len(o.atoms))
		for i, a := range o.atoms {
			t, _ := tuple.SplitObject(a.obj)
			next[i] = o.eval(a.obj, t, a.rel, typeDef(s.U.Model, t).GetRelations()[a.rel])
		}
		o.val = next
	}
	return o
}

func (o *Oracle) get(obj, rel string) K3 {
	// a userset subject holds its own relation by definition
	if o.User == obj+"#"+rel {
		return k3(true)
	}
	if i, ok := o.index[atom{obj, rel}]; ok {
		return o.val[i]
	}
	return k3(false)
}

// Holds is the reference answer.
func (o *Oracle) Holds(obj, rel string) K3 { return o.get(obj, rel) }

func (o *Oracle) eval(obj, typ, rel string, rw *openfgav1.Userset) K3 {
	switch x := rw.GetUserset().(type) {
	case *openfgav1.Userset_This:
		return o.direct(obj, rel)
	case *openfgav1.Userset_ComputedUserset:
		return o.get(obj, x.ComputedUserset.GetRelation())
	case *openfgav1.Userset_TupleToUserset:
		res := k3(false)
		ts := x.TupleToUserset.GetTupleset().GetRelation()
		cr := x.TupleToUserset.GetComputedUserset().GetRelation()
		for i, c := range o.S.U.Cands {
			if !c.Valid || c.Key.GetObject() != obj || c.Key.GetRelation() != ts {
				continue
			}
			usr := c.Key.GetUser()
			if tuple.IsObjectRelation(usr) || tuple.IsWildcard(usr) {
				continue
			}
			res = res.or(o.tupleAnd(o.present(i), o.get(usr, cr)))
		}
		return res
	case *openfgav1.Userset_Union:
		res := k3(false)
		for _, c := range x.Union.GetChild() {
			res = res.or(o.eval(obj, typ, rel, c))
		}
		return res
	case *openfgav1.Userset_Intersection:
		res := k3(true)
		for _, c := range x.Intersection.GetChild() {
			res = res.and(o.eval(obj, typ, rel, c))
		}
		return res
	case *openfgav1.Userset_Difference:
		return o.eval(obj, typ, rel, x.Difference.GetBase()).butNot(o.eval(obj, typ, rel, x.Difference.GetSubtract()))
	}
	return k3(false)
}

// present is the three-valued "tuple i is in the store and its condition is met".
func (o *Oracle) present(i int) K3 {
	q := o.S.Q[i]
	if o.S.U.Cands[i].Cond == "" {
		return k3(q)
	}
	return K3{Lo: q && o.S.Met[i] && !o.S.Err[i], Hi: q && (o.S.Met[i] || o.S.Err[i])}
}

func (o *Oracle) direct(obj, rel string) K3 {
	res := k3(false)
	ut, uid, urel := tuple.ToUserParts(o.User)
	for i, c := range o.S.U.Cands {
		if !c.Valid || c.Key.GetObject() != obj || c.Key.GetRelation() != rel {
			continue
		}
		usr := c.Key.GetUser()
		switch {
		case usr == o.User:
			res = res.or(o.present(i))
		case tuple.IsTypedWildcard(usr):
			// a typed wildcard covers every concrete object of that type (not usersets, not wildcards)
			if urel == "" && uid != "*" && tuple.GetType(usr) == ut {
				res = res.or(o.present(i))
			}
		case tuple.IsObjectRelation(usr):
			uo, ur := tuple.SplitObjectRelation(usr)
			res = res.or(o.tupleAnd(o.present(i), o.get(uo, ur)))
		}
	}
	return res
}
