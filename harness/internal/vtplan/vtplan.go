// Package vtplan: a planner.Manager whose strategy choice per plan key is an arbitrary (solver-chosen, forked) value.
package vtplan

import (
	"sort"
	"strconv"
	"time"

	"github.com/openfga/openfga/internal/planner"
	"github.com/openfga/openfga/internal/vt"
	"github.com/openfga/openfga/pkg/storage/cache/keys"
)

// Planner replaces Thompson sampling by an arbitrary (symbolic, forked) choice per plan key:
// every strategy assignment the sampler could ever produce is covered.
type Planner struct {
	sel map[string]*selector
	n   int
	// fixed: when >= 0 every key picks resolver number fixed (mod number of resolvers)
	fixed int
	round int
}

type selector struct {
	p      *Planner
	id     int
	chosen string
	round  int
}

// nextRound lets every plan key choose afresh (a later request may get other strategies).
func (p *Planner) NextRound() { p.round++ }

// New: fixed >= 0 picks resolver number fixed (mod n) for every key; fixed < 0 lets the solver choose.
func New(fixed int) *Planner {
	return &Planner{sel: map[string]*selector{}, fixed: fixed}
}

func (p *Planner) GetPlanSelector(key keys.Key) planner.Selector {
	k := key.String()
	if s, ok := p.sel[k]; ok {
		return s
	}
	s := &selector{p: p, id: p.n}
	p.n++
	p.sel[k] = s
	return s
}

func (p *Planner) Stop() {}

func (s *selector) Select(resolvers map[string]*planner.PlanConfig) *planner.PlanConfig {
	if s.round != s.p.round {
		s.round, s.chosen = s.p.round, ""
	}
	if s.chosen != "" {
		if pc, ok := resolvers[s.chosen]; ok {
			return pc
		}
	}
	var names []string
	for k := range resolvers {
		names = append(names, k)
	}
	sort.Strings(names)
	if len(names) == 0 {
		return nil
	}
	i := 0
	if s.p.fixed >= 0 {
		i = s.p.fixed % len(names)
	} else if len(names) > 1 {
		name := "plan" + strconv.Itoa(s.id)
		if s.round > 0 {
			name += "r" + strconv.Itoa(s.round)
		}
		i = vt.Choose(name, len(names))
	}
	s.chosen = names[i]
	vt.Event("plan " + strconv.Itoa(s.id) + " -> " + s.chosen)
	return resolvers[s.chosen]
}

func (s *selector) UpdateStats(*planner.PlanConfig, time.Duration) {}
