package mpmc

import (
	"context"

	"github.com/openfga/openfga/internal/vt"
)

// B22a: S senders (one value each) and R receivers (one Recv each, S == R) on a queue of capacity 2
// that cannot grow, under EVERY schedule of the verifhook points with at most `budget` preemptions.
// Every receive must return a value that was sent, no value is delivered twice, and no thread may be
// left parked for ever (the engine reports that as a deadlock: a receiver parked while an item is
// queued, or a sender parked while a slot is free, is a lost wake-up).
func VerifB22aSendRecv() {
	S := vt.ParamInt("senders", 2)
	budget := vt.ParamInt("budget", 2)
	q := MustQueue[int](2, 0)
	ctx := context.Background()
	got := make([]int, S)
	ok := make([]bool, S)
	sent := make([]bool, S)
	var fs []func()
	for i := 0; i < S; i++ {
		i := i
		fs = append(fs, func() { sent[i] = q.Send(ctx, 10+i) })
	}
	for i := 0; i < S; i++ {
		i := i
		fs = append(fs, func() { got[i], ok[i] = q.Recv(ctx) })
	}
	vt.Threads(budget, fs...)
	vt.Reach("all-finished")
	for i := 0; i < S; i++ {
		vt.Assert(sent[i], "Send on an open queue returned false")
		vt.Assert(ok[i], "Recv returned !ok although the queue was never closed")
		vt.Assert(got[i] >= 10 && got[i] < 10+S, "received a value that was never sent")
		for j := 0; j < i; j++ {
			vt.Assert(got[i] != got[j], "a value was delivered twice")
		}
	}
	vt.Assert(q.Size() == 0, "queue not empty after as many receives as sends")
}

// B22a with a full queue: capacity 2, three senders and three receivers (the third sender must park).
func VerifB22aFullQueue() {
	budget := vt.ParamInt("budget", 1)
	q := MustQueue[int](2, 0)
	ctx := context.Background()
	var got [3]int
	var ok [3]bool
	fs := []func(){
		func() { q.Send(ctx, 1) },
		func() { q.Send(ctx, 2) },
		func() { q.Send(ctx, 3) },
		func() { got[0], ok[0] = q.Recv(ctx) },
		func() { got[1], ok[1] = q.Recv(ctx) },
		func() { got[2], ok[2] = q.Recv(ctx) },
	}
	vt.Threads(budget, fs...)
	vt.Reach("all-finished")
	vt.Assert(ok[0] && ok[1] && ok[2], "Recv failed on an open queue")
	vt.Assert(got[0]+got[1]+got[2] == 6 && got[0] != got[1] && got[1] != got[2] && got[0] != got[2], "values lost or duplicated")
}

// Single producer, single consumer: FIFO order for every schedule.
func VerifB22aFIFO() {
	budget := vt.ParamInt("budget", 3)
	q := MustQueue[int](2, 0)
	ctx := context.Background()
	var got [3]int
	vt.Threads(budget,
		func() { q.Send(ctx, 1); q.Send(ctx, 2); q.Send(ctx, 3) },
		func() { got[0], _ = q.Recv(ctx); got[1], _ = q.Recv(ctx); got[2], _ = q.Recv(ctx) },
	)
	vt.Reach("all-finished")
	vt.Assert(got[0] == 1 && got[1] == 2 && got[2] == 3, "items received out of order")
}

// Close: items sent before Close are still received; Send after Close returns false; parked receivers wake up.
func VerifB22aClose() {
	budget := vt.ParamInt("budget", 2)
	q := MustQueue[int](2, 0)
	ctx := context.Background()
	var got [2]int
	var ok [2]bool
	var sent bool
	vt.Threads(budget,
		func() { sent = q.Send(ctx, 7); q.Close() },
		func() { got[0], ok[0] = q.Recv(ctx); got[1], ok[1] = q.Recv(ctx) },
	)
	vt.Reach("all-finished")
	vt.Assert(sent, "Send before Close failed")
	vt.Assert(ok[0] && got[0] == 7, "item sent before Close was not received")
	vt.Assert(!ok[1], "Recv on a closed, drained queue returned ok")
	vt.Assert(!q.Send(ctx, 8), "Send after Close succeeded")
}
