package mpmc

import (
	"context"

	"github.com/openfga/openfga/internal/vt"
)

// K22b: growing the ring keeps the queued sequence, from every fill level and every head/tail position
// (the queue is first cycled `rot` times so that head and tail sit anywhere in the ring).
func VerifK22bGrowKeepsOrder() {
	q := MustQueue[int](4, 0)
	ctx := context.Background()
	rot := vt.Choose("rot", 5)
	fill := vt.Choose("fill", 5)
	for i := 0; i < rot; i++ {
		q.Send(ctx, 100+i)
		v, ok := q.Recv(ctx)
		vt.Assert(ok && v == 100+i, "queue does not deliver what was sent")
	}
	for i := 0; i < fill; i++ {
		vt.Assert(q.Send(ctx, 10+i), "Send failed below capacity")
	}
	vt.Assert(q.Grow(8) == nil, "Grow(8) failed")
	vt.Reach("grown")
	vt.Assert(q.Capacity() == 8 && q.Size() == fill, "capacity/size wrong after Grow")
	for i := 0; i < fill; i++ {
		v, ok := q.Recv(ctx)
		vt.Assert(ok && v == 10+i, "item lost, duplicated or reordered by Grow")
	}
	// the grown ring is usable up to its new capacity
	for i := 0; i < 8; i++ {
		vt.Assert(q.Send(ctx, 50+i), "Send failed below the grown capacity")
	}
	for i := 0; i < 8; i++ {
		v, ok := q.Recv(ctx)
		vt.Assert(ok && v == 50+i, "grown ring does not keep FIFO order")
	}
}

// Automatic growth racing with a receiver: one producer sends more items than the initial capacity
// (one extension allowed), one consumer receives them all: FIFO, nothing lost, under every schedule.
func VerifB22aAutoExtend() {
	budget := vt.ParamInt("budget", 2)
	q := MustQueue[int](2, 1)
	ctx := context.Background()
	var got [4]int
	var ok [4]bool
	vt.Threads(budget,
		func() {
			for i := 0; i < 4; i++ {
				q.Send(ctx, 1+i)
			}
		},
		func() {
			for i := 0; i < 4; i++ {
				got[i], ok[i] = q.Recv(ctx)
			}
		},
	)
	vt.Reach("all-finished")
	for i := 0; i < 4; i++ {
		vt.Assert(ok[i] && got[i] == 1+i, "item lost or reordered while the ring was growing")
	}
}

// Close racing with senders: no panic (send on a closed wake-up channel), every Send that reported
// success is received, nothing else is, and after the queue reported closed-and-drained nothing more arrives.
func VerifB22aCloseRace() {
	budget := vt.ParamInt("budget", 2)
	q := MustQueue[int](2, 0)
	ctx := context.Background()
	var sent [2]bool
	var got []int
	vt.Threads(budget,
		func() { sent[0] = q.Send(ctx, 10) },
		func() { sent[1] = q.Send(ctx, 11) },
		func() { q.Close() },
		func() {
			for {
				v, ok := q.Recv(ctx)
				if !ok {
					return
				}
				got = append(got, v)
			}
		},
	)
	vt.Reach("all-finished")
	// drain what was accepted after the consumer saw "closed" (legal: Recv drains after Close)
	for {
		v, ok := q.Recv(ctx)
		if !ok {
			break
		}
		got = append(got, v)
	}
	n := 0
	for i := 0; i < 2; i++ {
		if sent[i] {
			n++
		}
	}
	vt.Assert(len(got) == n, "an accepted item was lost or a rejected one delivered")
	for i := range got {
		vt.Assert(got[i] >= 10 && got[i] <= 11 && sent[got[i]-10], "delivered an item whose Send reported failure")
		for j := 0; j < i; j++ {
			vt.Assert(got[i] != got[j], "item delivered twice")
		}
	}
}
