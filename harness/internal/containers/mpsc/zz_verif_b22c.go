package mpsc

import (
	"context"

	"github.com/openfga/openfga/internal/vt"
)

// B22c: mpsc.Accumulator under every schedule (bounded preemptions) of its verifhook points:
// P producers send one value each, one consumer receives until the accumulator is closed; a closer
// closes after the producers are done (it waits for their results through a channel, as the pipeline does
// by joining its producers before closing). Every value whose Send returned true is received exactly once,
// per-producer order is trivially kept (one value each), values sent after Close report false and are not
// delivered, the consumer terminates.
func VerifB22cAccumulator() {
	P := vt.ParamInt("producers", 2)
	budget := vt.ParamInt("budget", 1)
	a := NewAccumulator[int]()
	ctx := context.Background()
	sent := make([]bool, P)
	doneCh := make(chan struct{}, P)
	var got []int
	var fs []func()
	for i := 0; i < P; i++ {
		i := i
		fs = append(fs, func() { sent[i] = a.Send(10 + i); doneCh <- struct{}{} })
	}
	fs = append(fs, func() { // closer
		for i := 0; i < P; i++ {
			<-doneCh
		}
		a.Close()
	})
	fs = append(fs, func() { // consumer
		for {
			v, ok := a.Recv(ctx)
			if !ok {
				return
			}
			got = append(got, v)
		}
	})
	vt.Threads(budget, fs...)
	vt.Reach("finished")
	n := 0
	for i := 0; i < P; i++ {
		vt.Assert(sent[i], "Send before Close returned false")
		if sent[i] {
			n++
		}
	}
	vt.Assert(len(got) == n, "number of received values differs from the number of successful sends")
	for i := range got {
		vt.Assert(got[i] >= 10 && got[i] < 10+P, "received a value that was never sent")
		for j := 0; j < i; j++ {
			vt.Assert(got[i] != got[j], "a value was delivered twice")
		}
	}
	vt.Assert(!a.Send(99), "Send after Close succeeded")
}

// Close racing with the producers: a Send may fail, but then its value is never delivered, and every
// successful Send is delivered; the consumer terminates.
func VerifB22cCloseRace() {
	budget := vt.ParamInt("budget", 1)
	a := NewAccumulator[int]()
	ctx := context.Background()
	var sent [2]bool
	var got []int
	vt.Threads(budget,
		func() { sent[0] = a.Send(10) },
		func() { sent[1] = a.Send(11) },
		func() { a.Close() },
		func() {
			for {
				v, ok := a.Recv(ctx)
				if !ok {
					return
				}
				got = append(got, v)
			}
		},
	)
	vt.Reach("finished")
	n := 0
	for i := 0; i < 2; i++ {
		if sent[i] {
			n++
		}
	}
	vt.Assert(len(got) == n, "a successful Send was lost or a failed Send was delivered")
	for i := range got {
		vt.Assert(sent[got[i]-10], "a value whose Send reported failure was delivered")
		for j := 0; j < i; j++ {
			vt.Assert(got[i] != got[j], "a value was delivered twice")
		}
	}
}
