package mpsc

import (
	"context"

	"github.com/openfga/openfga/internal/vt"
)

// After Close has returned, Send never succeeds — also when several late senders race each other — and the
// consumer sees exactly the items accepted before Close.
func VerifB22cSendAfterClose() {
	budget := vt.ParamInt("budget", 2)
	a := NewAccumulator[int]()
	ctx := context.Background()
	vt.Assert(a.Send(1), "Send on an open accumulator failed")
	a.Close()
	var late [3]bool
	// every atomic operation is a scheduling point here, so that windows between two atomic steps that carry
	// no verifhook point are explored as well
	vt.ImplicitPoints(true)
	vt.Threads(budget,
		func() { late[0] = a.Send(20) },
		func() { late[1] = a.Send(21) },
		func() { late[2] = a.Send(22) },
	)
	vt.Reach("late-senders-done")
	vt.Assert(!late[0] && !late[1] && !late[2], "Send succeeded after Close")
	v, ok := a.Recv(ctx)
	vt.Assert(ok && v == 1, "item accepted before Close was not delivered")
	_, ok = a.Recv(ctx)
	vt.Assert(!ok, "Recv delivered something after the closed accumulator was drained")
}
