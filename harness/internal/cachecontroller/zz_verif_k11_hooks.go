package cachecontroller

// Add-only test hooks for the K11 harnesses (pkg/storage/storagewrappers/zz_verif_k11.go), which cannot live
// in this package because they also drive internal/graph and storagewrappers (import cycle). Nothing here
// changes behaviour: the invalidation itself is the real InvalidateIfNeeded / findChangesAndInvalidateIfNecessary.

// VerifK11Wait blocks until every in-flight invalidation goroutine of the controller has finished (the
// controller's own WaitGroup, which the repository's tests use for the same purpose).
func VerifK11Wait(c CacheController) {
	if m, ok := c.(*InMemoryCacheController); ok {
		m.wg.Wait()
	}
}
