package worker

import (
	"context"
	"sync/atomic"

	"github.com/openfga/openfga/internal/vt"
)

type verifMsg struct{ hops int }

// B21: cycle teardown of the ListObjects pipeline. The real track.StatusPool / Reporter / Membership /
// CycleGroup.Join code runs under every schedule (bounded preemptions) of the verifhook points. Per
// member two threads mirror Basic.Execute: MAIN forwards its standard input onto its cyclic edge
// (Membership.Inc, then enqueue), then SignalReady, WaitForAllReady, and the ordered clean-up (leader
// first: close own inbox, wake the next member; the others Sleep first). CYCLIC drains the member's
// inbox until it is closed; each message may be forwarded once more along the ring (Inc, enqueue) and is
// then released (Dec) — the Message.Done callback of the real pipeline.
//
// Obligations: (1) when WaitForAllReady returns, every member has signalled ready and no message is in
// flight; (2) nothing is ever enqueued on an inbox that was already cleaned up (the engine reports the
// send on a closed channel) and every inbox is empty at the end; (3) every thread finishes (no lost
// wake-up in the ready/quiescence latch or the wake chain).
func VerifB21CycleTeardown() {
	m := vt.ParamInt("members", 2)
	budget := vt.ParamInt("budget", 1)
	maxHops := vt.ParamInt("hops", 1)
	g := NewCycleGroup()
	mem := make([]*Membership, m)
	inbox := make([]chan verifMsg, m)
	for i := 0; i < m; i++ {
		mem[i] = g.Join("w" + string(rune('0'+i)))
		inbox[i] = make(chan verifMsg, 4)
	}
	// Join gives every member an initial in-flight count of 1 (released by SignalReady)
	var signalled atomic.Int64
	var ghost atomic.Int64 // messages in existence
	var consumed atomic.Int64
	initial := make([]int, m)
	for i := range initial {
		initial[i] = vt.Choose("init"+string(rune('0'+i)), 2)
	}
	next := func(i int) int { return (i + 1) % m }
	var fs []func()
	for i := 0; i < m; i++ {
		i := i
		// MAIN
		fs = append(fs, func() {
			for k := 0; k < initial[i]; k++ {
				mem[i].Inc() // increment BEFORE the message becomes visible
				ghost.Add(1)
				inbox[next(i)] <- verifMsg{hops: 0}
			}
			signalled.Add(1)
			mem[i].SignalReady()
			ok := mem[i].WaitForAllReady(context.Background())
			vt.Assert(ok, "WaitForAllReady failed without cancellation")
			vt.Assert(signalled.Load() == int64(m), "WaitForAllReady returned before every member signalled ready")
			vt.Assert(ghost.Load() == 0, "WaitForAllReady returned while a message was still in flight")
			if !mem[i].IsLeader() {
				mem[i].Sleep(context.Background())
			}
			close(inbox[i]) // Cleanup: closes the listeners of this member's cyclic edge
			mem[i].Next().Wake()
		})
		// CYCLIC
		fs = append(fs, func() {
			for msg := range inbox[i] {
				if msg.hops < maxHops {
					mem[i].Inc()
					ghost.Add(1)
					inbox[next(i)] <- verifMsg{hops: msg.hops + 1}
				}
				consumed.Add(1)
				ghost.Add(-1)
				mem[i].Dec() // Message.Done
			}
		})
	}
	vt.Threads(budget, fs...)
	vt.Reach("torn-down")
	for i := 0; i < m; i++ {
		vt.Assert(len(inbox[i]) == 0, "a message was left unconsumed in an inbox")
	}
	vt.Assert(ghost.Load() == 0, "messages still in flight after teardown")
}
