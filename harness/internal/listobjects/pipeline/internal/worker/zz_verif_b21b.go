package worker

import (
	"context"
	"errors"
	"strconv"

	"github.com/openfga/openfga/internal/containers/mpsc"
	"github.com/openfga/openfga/internal/vt"
)

// ---- B21b: every message a worker receives is released exactly once ------------------------------------------
//
// On cyclic edges the in-flight count of the cycle group is decremented by Message.Done (the callback installed
// by the pipeline). A message that is received but never released keeps the group from ever reaching quiescence:
// teardown does not complete. Core.ProcessSender is run for real (its processing goroutines, the hand-over
// channel, the deferred drain) on a harness sender that delivers k messages; what the processor does with each
// message - succeed, fail, fail with a cancellation error, panic - and whether the request is cancelled after a
// solver-chosen number of deliveries are forked. Afterwards every delivered message has been released exactly once.

type verifB21bSender struct {
	msgs      []*Message
	next      int
	cancelAt  int
	cancel    context.CancelFunc
	delivered int
}

func (s *verifB21bSender) Key() *Edge     { return nil }
func (s *verifB21bSender) String() string { return "verif-sender" }
func (s *verifB21bSender) Recv(ctx context.Context) (*Message, bool) {
	if s.next == s.cancelAt && s.cancel != nil {
		s.cancel()
	}
	if s.next >= len(s.msgs) {
		return nil, false
	}
	m := s.msgs[s.next]
	s.next++
	s.delivered++
	return m, true
}

type verifB21bProc struct {
	mode []int // per message: 0 ok, 1 error, 2 context.Canceled, 3 panic
	seen int
}

func (p *verifB21bProc) ProcessMessage(ctx context.Context, index int, m *Message) error {
	k, _ := strconv.Atoi(m.Value[0])
	p.seen++
	switch p.mode[k] {
	case 1:
		return errors.New("verif: processing failed")
	case 2:
		return context.Canceled
	case 3:
		panic("verif: datastore failure")
	}
	return nil
}

func VerifB21bMessagesReleased() {
	k := vt.ParamInt("msgs", 2)
	ctx, cancel := context.WithCancel(context.Background())
	defer cancel()
	released := make([]int, k)
	snd := &verifB21bSender{cancelAt: vt.Choose("cancel-before-recv", k+2), cancel: cancel}
	proc := &verifB21bProc{}
	for i := 0; i < k; i++ {
		i := i
		snd.msgs = append(snd.msgs, &Message{Value: []string{strconv.Itoa(i)}, Callback: func() { released[i]++ }})
		proc.mode = append(proc.mode, vt.Choose("outcome"+strconv.Itoa(i), 4))
	}
	c := &Core{Label: "verif", Errors: mpsc.NewAccumulator[error](), ChunkSize: 2, NumProcs: vt.ParamInt("procs", 1)}
	c.senders = []Sender{snd}
	c.stats = make([]Stats, 1)
	// the environment: an error reported by a worker makes the pipeline's consumer cancel the request
	// (Pipeline.Recv -> Close -> cancel); without it a worker whose processing goroutines have all died
	// waits for the request deadline
	go func() {
		vt.Background()
		for {
			if _, ok := c.Errors.Recv(context.Background()); !ok {
				return
			}
			cancel()
		}
	}()

	c.ProcessSender(ctx, 0, proc)
	c.Errors.Close()

	vt.Reach("returned")
	for i := 0; i < k; i++ {
		if i < snd.delivered {
			vt.Assert(released[i] == 1, "a message received by the worker was not released exactly once (its in-flight count is never given back)")
		} else {
			vt.Assert(released[i] == 0, "a message that was never delivered was released")
		}
	}
	vt.Assert(snd.delivered == k, "ProcessSender returned without draining its sender")
}
