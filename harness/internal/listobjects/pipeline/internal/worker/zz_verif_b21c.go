package worker

import (
	"context"
	"runtime"
	"sync"
	"time"

	weightedGraph "github.com/openfga/language/pkg/go/graph"

	"github.com/openfga/openfga/internal/concurrency"
	"github.com/openfga/openfga/internal/containers/mpsc"
	"github.com/openfga/openfga/internal/vt"
)

// ---- B21c: the real (*Basic).Execute of two workers that form a cycle -----------------------------------------
//
// Two Basic workers A (org#member) and B (team#member) are wired exactly as pipeline.Build / createWorker wire
// them for the model
//
//	type org   relations define member: [user, team#member]
//	type team  relations define member: [user, org#member]
//
// (the weighted graph is built with the language module's own AddNode / AddEdge / AssignWeights, so the two edges
// between the members carry the real tuple-cycle mark that IsCyclical looks at): one CycleGroup, A joins first,
// B second (B is the leader); B.Subscribe(edge A<-B) -> A.Listen and A.Subscribe(edge B<-A) -> B.Listen through
// DefaultMediumFunc (QueueMedium on the cyclical edges); MsgFunc is the closure of createWorker (Inc before the
// message is enqueued on a cyclical edge, Dec chained into the Callback that Message.Done runs); the message pool is
// sized like Build does; A's output is a standard medium (Subscribe(nil, cap)); each member has one non-cyclical
// input (standard medium, capacity 1, 0..1 message, closed before the workers start - what Build does for the
// subject worker). The Interpreter is the harness': a finite successor relation on four values.
//
// The environment is the pipeline's consumer (Pipeline.Recv / Close): it reads the output under the request context,
// cancels when an error was reported, and on the way out cancels, drains the output with context.Background and
// waits for the workers.
//
// Obligations: both Execute calls return and no goroutine stays blocked (engine: deadlock / leak); no runtime panic
// (engine) and nothing on Core.Errors but an injected interpreter panic; no listener is closed while a cyclical
// message is unreleased or a non-cyclical input still holds a message; every message created is released exactly
// once; the output has no duplicates, only derivable values, and - when nothing was cancelled - all of them.
//
// Params: graph=chain|ring|fan, chunk, procs, cap, cancel / hold / panic / stop (ranges of the choices below, 0 = off),
// spin (yields before a held goroutine is released), sched (vt.SchedChoices), evmax (probe for the number of events).
//
// Forked per path: which inputs carry a message (A: v0; B: v0 or v1); the event (k-th Interpret call or k-th row handed out by an
// interpreter result) at which the request is cancelled; the event at which the processing goroutine is HELD until
// every other goroutine has run as far as it can (a slow datastore read that does not observe ctx); the Interpret
// call that panics; optionally the consumer stops after j messages.

const verifB21cVals = 4

type verifB21cEnv struct {
	succ     [verifB21cVals][]int
	events   int
	cancelAt int
	holdAt   int
	panicAt  int
	calls    int
	cancel   context.CancelFunc
	canceled bool
	held     bool
	panicked bool
	spin     int

	mu        sync.Mutex // natively the counters below are touched from several goroutines
	created   int
	released  []int
	cyclicOut int // messages enqueued on a cyclical edge and not yet released (ghost of the in-flight count)
	inputs    []*ChannelMedium
	earlyTear bool // a member closed a listener while a cyclical message was unreleased
	earlyIn   bool // ... while a non-cyclical input still held a message
	closes    int
}

func verifB21cIdx(s string) int {
	switch s {
	case "v0":
		return 0
	case "v1":
		return 1
	case "v2":
		return 2
	case "v3":
		return 3
	}
	return -1
}

var verifB21cNames = [verifB21cVals]string{"v0", "v1", "v2", "v3"}

// event is called at every point at which the environment may act.
func (h *verifB21cEnv) event() {
	h.mu.Lock()
	h.events++
	n := h.events
	h.mu.Unlock()
	if n == h.cancelAt {
		h.canceled = true
		h.cancel()
	}
	if n == h.holdAt {
		h.held = true
		h.hold()
	}
}

// hold parks the calling goroutine until the others have run as far as they can: under the engine the releasing
// goroutine is the youngest one, the scheduler prefers older runnable goroutines, and it yields `spin` times before
// it opens the gate; natively it sleeps.
func (h *verifB21cEnv) hold() {
	gate := make(chan struct{})
	never := make(chan struct{})
	go func() {
		if vt.Symbolic() {
			// every select is a scheduling point of the engine (round-robin): give the baton away h.spin times
			for i := 0; i < h.spin; i++ {
				select {
				case <-never:
				default:
				}
			}
		} else {
			for i := 0; i < 50; i++ {
				runtime.Gosched()
			}
			time.Sleep(20 * time.Millisecond)
		}
		close(gate)
	}()
	<-gate
}

type verifB21cRows struct {
	h    *verifB21cEnv
	rows []int
	pos  int
}

// Recv hands out the rows regardless of ctx (they were already fetched).
func (r *verifB21cRows) Recv(context.Context) (Item, bool) {
	if r.pos >= len(r.rows) {
		return Item{}, false
	}
	r.h.event()
	v := r.rows[r.pos]
	r.pos++
	return Item{Value: verifB21cNames[v]}, true
}

func (r *verifB21cRows) Close() {}

func (h *verifB21cEnv) Interpret(ctx context.Context, edge *Edge, items []string) Receiver[Item] {
	h.mu.Lock()
	h.calls++
	call := h.calls
	h.mu.Unlock()
	h.event()
	if call == h.panicAt {
		h.panicked = true
		panic("verif: datastore failure")
	}
	rows := &verifB21cRows{h: h}
	for _, it := range items {
		if i := verifB21cIdx(it); i >= 0 {
			rows.rows = append(rows.rows, h.succ[i]...)
		}
	}
	return rows
}

// instrument is the harness' ghost state; it is installed underneath the pipeline's plumbing.
func (h *verifB21cEnv) instrument(m *Message, e *Edge) {
	h.mu.Lock()
	id := h.created
	h.created++
	h.released = append(h.released, 0)
	cyc := IsCyclical(e)
	if cyc {
		h.cyclicOut++
	}
	h.mu.Unlock()
	m.Callback = func() {
		h.mu.Lock()
		h.released[id]++
		if cyc {
			h.cyclicOut--
		}
		h.mu.Unlock()
	}
}

// verifB21cMedium is the medium DefaultMediumFunc returns plus an observation of Close.
type verifB21cMedium struct {
	Medium
	h *verifB21cEnv
}

func (m *verifB21cMedium) Close() {
	h := m.h
	h.mu.Lock()
	h.closes++
	if h.cyclicOut != 0 {
		h.earlyTear = true
	}
	for _, in := range h.inputs {
		if len(in.ch) != 0 {
			h.earlyIn = true
		}
	}
	h.mu.Unlock()
	m.Medium.Close()
}

// verifB21cCreateWorker is pipeline.createWorker for a nodeTypeSpecificTypeAndRelation node (the package under
// test cannot import its parent): same statements, same order.
func verifB21cCreateWorker(label string, core Core, group *CycleGroup, h *verifB21cEnv) *Basic {
	core.Label = label
	var basic Basic
	basic.Membership = group.Join(core.Label)
	basic.Core = &core
	plumbing := func(m *Message, e *Edge) {
		if IsCyclical(e) {
			basic.Membership.Inc()
			fn := m.Callback
			m.Callback = func() {
				basic.Membership.Dec()
				if fn != nil {
					fn()
				}
			}
		}
	}
	basic.MsgFunc = func(m *Message, e *Edge) {
		h.instrument(m, e)
		plumbing(m, e)
	}
	return &basic
}

func verifB21cGraph(kind string) (s [verifB21cVals][]int) {
	switch kind {
	case "ring": // v0 -> v1 -> v2 -> v0: terminates by deduplication only
		s[0], s[1], s[2] = []int{1}, []int{2}, []int{0}
	case "fan": // v0 -> {v1, v2}, v1 -> v3, v2 -> v3
		s[0], s[1], s[2] = []int{1, 2}, []int{3}, []int{3}
	default: // chain v0 -> v1 -> v2 -> v3
		s[0], s[1], s[2] = []int{1}, []int{2}, []int{3}
	}
	return s
}

func VerifB21cExecute() {
	chunk := vt.ParamInt("chunk", 1)
	procs := vt.ParamInt("procs", 1)
	capacity := vt.ParamInt("cap", 2)
	if n := vt.ParamInt("sched", 0); n > 0 {
		vt.SchedChoices(n)
	}

	// the weighted graph of the two-member tuple cycle, by the language module's own code
	g := weightedGraph.NewWeightedAuthorizationModelGraph()
	g.AddNode("user", "user", weightedGraph.SpecificType)
	g.AddNode("org#member", "member", weightedGraph.SpecificTypeAndRelation)
	g.AddNode("team#member", "member", weightedGraph.SpecificTypeAndRelation)
	g.AddEdge("org#member", "user", weightedGraph.DirectEdge, "org#member", "", nil)
	g.AddEdge("org#member", "team#member", weightedGraph.DirectEdge, "org#member", "", nil)
	g.AddEdge("team#member", "user", weightedGraph.DirectEdge, "team#member", "", nil)
	g.AddEdge("team#member", "org#member", weightedGraph.DirectEdge, "team#member", "", nil)
	if err := g.AssignWeights(); err != nil {
		vt.Assert(false, "AssignWeights failed on the two-member cycle model")
		return
	}
	edgesA, _ := g.GetEdgesFromNodeID("org#member")
	edgesB, _ := g.GetEdgesFromNodeID("team#member")
	eAU, eAB, eBU, eBA := edgesA[0], edgesA[1], edgesB[0], edgesB[1]
	vt.Assert(IsCyclical(eAB) && IsCyclical(eBA), "the edges between the cycle members are not cyclical")
	vt.Assert(!IsCyclical(eAU) && !IsCyclical(eBU), "an edge to the terminal type is cyclical")

	h := &verifB21cEnv{succ: verifB21cGraph(vt.Param("graph", "chain")), spin: vt.ParamInt("spin", 40)}
	h.cancelAt = vt.Choose("cancel-at-event", vt.ParamInt("cancel", 0)+1) // 0: never
	h.holdAt = vt.Choose("hold-at-event", vt.ParamInt("hold", 0)+1)
	h.panicAt = vt.Choose("panic-at-call", vt.ParamInt("panic", 0)+1)
	stopAfter := vt.Choose("consumer-stops-after", vt.ParamInt("stop", 0)+1) // 0: reads to the end

	// ---- pipeline.Build ----
	errs := mpsc.NewAccumulator[error]()
	var core Core
	core.Interpreter = h
	core.Errors = errs
	core.ChunkSize = chunk
	core.NumProcs = procs
	core.Pool = new(MessagePool)
	core.MediumFunc = func(e *Edge, c int) Medium { return &verifB21cMedium{Medium: DefaultMediumFunc(e, c), h: h} }

	group := NewCycleGroup()
	wA := verifB21cCreateWorker("org#member", core, group, h)
	wB := verifB21cCreateWorker("team#member", core, group, h)
	totalListeners := 0
	wA.Listen(wB.Subscribe(eAB, capacity)) // messages flow edge.to -> edge.from
	totalListeners++
	wB.Listen(wA.Subscribe(eBA, capacity))
	totalListeners++
	InitMessagePool(core.Pool, chunk, capacity*(totalListeners+1))
	output := wA.Subscribe(nil, capacity)

	var initial [2][]int
	inEdges := [2]*Edge{eAU, eBU}
	for i, w := range []*Basic{wA, wB} {
		input := NewChannelMedium(inEdges[i], 1) // NewStandardMedium
		h.inputs = append(h.inputs, input)
		w.Listen(input)
		// 0: no message; A may be given v0, B v0 or v1
		if c := vt.Choose("input-"+string(rune('A'+i)), 2+i); c > 0 {
			v := c - 1
			initial[i] = []int{v}
			msg := Message{Value: []string{verifB21cNames[v]}}
			h.instrument(&msg, nil)
			if !input.Send(context.Background(), &msg) {
				msg.Done()
			}
		}
		input.Close()
	}

	ctx, cancel := context.WithCancel(context.Background())
	h.cancel = cancel
	var wg sync.WaitGroup
	returned := 0
	for _, w := range []*Basic{wA, wB} {
		wg.Go(func() {
			var err error
			defer func(err *error) {
				if err != nil && *err != nil {
					errs.Send(*err)
				}
			}(&err)
			defer concurrency.RecoverFromPanic(&err)
			w.Execute(ctx)
			h.mu.Lock()
			returned++
			h.mu.Unlock()
		})
	}

	// the environment: an error reported by a worker makes the consumer cancel the request (Pipeline.Recv ->
	// Close -> cancel); a worker whose processing goroutines have all died otherwise waits for the deadline
	nerr := 0
	errDone := make(chan struct{})
	go func() {
		vt.Background()
		defer close(errDone)
		for {
			if _, ok := errs.Recv(context.Background()); !ok {
				return
			}
			nerr++
			cancel()
		}
	}()

	// ---- Pipeline.Recv ... ----
	var got [verifB21cVals]int
	nmsg := 0
	for stopAfter == 0 || nmsg < stopAfter {
		msg, ok := output.Recv(ctx)
		if !ok {
			break
		}
		nmsg++
		for _, v := range msg.Value {
			if i := verifB21cIdx(v); i >= 0 {
				got[i]++
			} else {
				vt.Assert(false, "a value that no interpreter produced reached the output")
			}
		}
		msg.Done()
	}
	stopped := stopAfter != 0 && nmsg == stopAfter
	// ---- ... and Pipeline.Close ----
	cancel()
	for {
		msg, ok := output.Recv(context.Background())
		if !ok {
			break
		}
		msg.Done()
	}
	wg.Wait()
	errs.Close()
	<-errDone

	// ---- obligations ----
	vt.Reach("torn-down")
	if h.canceled {
		vt.Reach("cancelled-by-environment")
	}
	if h.held {
		vt.Reach("held-in-processing")
	}
	if h.canceled && h.held && h.cancelAt <= h.holdAt {
		vt.Reach("held-in-processing-after-cancel")
	}
	if h.panicked {
		vt.Reach("interpreter-panicked")
	}
	if stopped {
		vt.Reach("consumer-stopped-early")
	}
	if n := vt.ParamInt("evmax", 0); n > 0 { // probe: how many events a run has (to choose the cancel/hold bounds)
		vt.Assert(h.events <= n, "probe: more events than evmax")
	}
	vt.Assert(returned == 2, "a worker's Execute did not return normally")
	if h.panicked {
		vt.Assert(nerr == 1, "a panicking interpreter call must be reported exactly once")
	} else {
		vt.Assert(nerr == 0, "a worker reported an error although no interpreter call failed (a panic inside the worker was recovered)")
	}
	vt.Assert(!h.earlyTear, "a cycle member closed a listener while a cyclical message was still in flight")
	vt.Assert(!h.earlyIn, "a cycle member closed a listener while a non-cyclical input still held a message")
	vt.Assert(h.cyclicOut == 0, "a cyclical message is still unreleased after teardown")
	for id := 0; id < h.created; id++ {
		vt.Assert(h.released[id] == 1, "a message was not released exactly once")
	}
	vt.Assert(h.closes >= 3, "a listener was never closed")

	// the objects derivable through the cycle: least fixed point of EA = succ(IA u EB), EB = succ(IB u EA)
	var ea, eb [verifB21cVals]bool
	for changed := true; changed; {
		changed = false
		step := func(in []int, from *[verifB21cVals]bool, to *[verifB21cVals]bool) {
			apply := func(v int) {
				for _, s := range h.succ[v] {
					if !to[s] {
						to[s] = true
						changed = true
					}
				}
			}
			for _, v := range in {
				apply(v)
			}
			for v := 0; v < verifB21cVals; v++ {
				if from[v] {
					apply(v)
				}
			}
		}
		step(initial[0], &eb, &ea)
		step(initial[1], &ea, &eb)
	}
	complete := !h.canceled && !h.panicked && !stopped
	if complete {
		vt.Reach("complete-run")
	}
	nonEmpty := false
	var direct [verifB21cVals]bool
	for _, v := range initial[0] {
		for _, s := range h.succ[v] {
			direct[s] = true
		}
	}
	for v := 0; v < verifB21cVals; v++ {
		vt.Assert(got[v] <= 1, "a value reached the output twice")
		if got[v] > 0 {
			vt.Assert(ea[v], "a value reached the output that is not derivable from the inputs")
		}
		if complete {
			vt.Assert(got[v] > 0 || !ea[v], "a derivable object did not reach the output before it closed")
		}
		if got[v] > 0 && !direct[v] {
			nonEmpty = true // derivable only by going through the other member
		}
	}
	if complete && nonEmpty {
		vt.Reach("complete-run-through-the-cycle")
	}
}
