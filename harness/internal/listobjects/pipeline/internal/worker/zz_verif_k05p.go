package worker

import (
	"context"
	"sync"

	"github.com/openfga/openfga/internal/concurrency"
	"github.com/openfga/openfga/internal/containers/mpsc"
	"github.com/openfga/openfga/internal/vt"
)

// ---- K05p: the set workers of the streaming ListObjects pipeline (`and`, `but not`) ----------------------------
//
// The real (*Intersection).Execute / (*Difference).Execute is wired like pipeline.Build wires an operator node: one
// standard input medium per operand (closed by its producer before the worker starts - what an upstream worker does
// when it is done), one standard output medium, the message pool sized like Build does. Operand i delivers an
// arbitrary subset of `vals` object ids (presence of every id in every operand is a decision variable), split over
// one or two messages (param split). The Interpreter is the identity on the message values (the rewrite below the
// operator is evaluated upstream; the operator only combines object sets).
//
// Obligations: Execute returns, nothing stays blocked (engine), no runtime panic, no error reported; every object
// reaches the output at most once; the output is EXACTLY the intersection of the operand sets (kind=inter: 2 or 3
// operands, whatever their relative sizes) / base minus subtract (kind=diff).

const verifK05pMax = 4

var verifK05pNames = [verifK05pMax]string{"d:1", "d:2", "d:3", "d:4"}

type verifK05pRows struct {
	rows []string
	pos  int
}

func (r *verifK05pRows) Recv(context.Context) (Item, bool) {
	if r.pos >= len(r.rows) {
		return Item{}, false
	}
	v := r.rows[r.pos]
	r.pos++
	return Item{Value: v}, true
}

func (r *verifK05pRows) Close() {}

type verifK05pIdentity struct{}

func (verifK05pIdentity) Interpret(ctx context.Context, edge *Edge, items []string) Receiver[Item] {
	return &verifK05pRows{rows: append([]string(nil), items...)}
}

func VerifK05pSetWorkers() {
	kind := vt.Param("kind", "inter")
	ops := vt.ParamInt("ops", 2)
	vals := vt.ParamInt("vals", 3)
	chunk := vt.ParamInt("chunk", 2)
	capacity := vt.ParamInt("cap", 4)
	split := vt.ParamInt("split", 0)
	if kind == "diff" {
		ops = 2
	}
	if vals > verifK05pMax {
		vals = verifK05pMax
	}

	errs := mpsc.NewAccumulator[error]()
	var core Core
	core.Label = "d#viewer"
	core.Interpreter = verifK05pIdentity{}
	core.Errors = errs
	core.ChunkSize = chunk
	core.NumProcs = vt.ParamInt("procs", 1)
	core.Pool = new(MessagePool)

	var w Worker
	if kind == "diff" {
		w = &Difference{Core: &core}
	} else {
		w = &Intersection{Core: &core}
	}

	// operand contents: every (operand, object) pair is decided per path
	var in [3][verifK05pMax]bool
	for i := 0; i < ops; i++ {
		input := NewChannelMedium(nil, 2)
		core.Listen(input)
		var first, second []string
		for v := 0; v < vals; v++ {
			if vt.Choose("operand-"+string(rune('0'+i))+"-has-"+verifK05pNames[v], 2) == 1 {
				in[i][v] = true
				if split == 1 && v%2 == 1 {
					second = append(second, verifK05pNames[v])
				} else {
					first = append(first, verifK05pNames[v])
				}
			}
		}
		for _, part := range [][]string{first, second} {
			if len(part) == 0 {
				continue
			}
			msg := &Message{Value: part}
			if !input.Send(context.Background(), msg) {
				msg.Done()
			}
		}
		input.Close()
	}
	InitMessagePool(core.Pool, chunk, capacity*2)
	output := core.Subscribe(nil, capacity)

	ctx, cancel := context.WithCancel(context.Background())
	defer cancel()
	var wg sync.WaitGroup
	returned := false
	wg.Go(func() {
		var err error
		defer func(err *error) {
			if err != nil && *err != nil {
				errs.Send(*err)
			}
		}(&err)
		defer concurrency.RecoverFromPanic(&err)
		w.Execute(ctx)
		returned = true
	})

	var got [verifK05pMax]int
	for {
		msg, ok := output.Recv(ctx)
		if !ok {
			break
		}
		for _, s := range msg.Value {
			known := false
			for v := 0; v < vals; v++ {
				if verifK05pNames[v] == s {
					got[v]++
					known = true
				}
			}
			vt.Assert(known, "a value that no operand delivered reached the output")
		}
		msg.Done()
	}
	wg.Wait()
	errs.Close()
	nerr := 0
	for {
		if _, ok := errs.Recv(context.Background()); !ok {
			break
		}
		nerr++
	}

	vt.Reach("torn-down")
	vt.Assert(returned, "the worker's Execute did not return normally")
	vt.Assert(nerr == 0, "the worker reported an error (a panic inside the worker was recovered)")
	sizes := [3]int{}
	nonEmpty := false
	for v := 0; v < vals; v++ {
		want := in[0][v]
		if kind == "diff" {
			want = want && !in[1][v]
		} else {
			for i := 1; i < ops; i++ {
				want = want && in[i][v]
			}
		}
		for i := 0; i < ops; i++ {
			if in[i][v] {
				sizes[i]++
			}
		}
		vt.Assert(got[v] <= 1, "an object reached the output twice")
		if got[v] > 0 {
			vt.Assert(want, "an object reached the output for which the set operation does not hold")
		} else {
			vt.Assert(!want, "an object for which the set operation holds did not reach the output")
		}
		if want {
			nonEmpty = true
		}
	}
	if nonEmpty {
		vt.Reach("non-empty-result")
	}
	if ops >= 2 && sizes[1] < sizes[0] && sizes[1] > 0 {
		vt.Reach("later-operand-smaller")
	}
}
