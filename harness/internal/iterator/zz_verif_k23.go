package iterator

import (
	"context"
	"errors"
	"strconv"

	"github.com/openfga/openfga/internal/vt"
	"github.com/openfga/openfga/pkg/storage"
)

// ---- K23 (internal/iterator): Merge, Concat, Filter, Validate, SkipTo ----
//
// Inputs are harness stubs over symbolic sequences. A stub yields items[0..n), fails with verifErrInj at
// position errAt (persistently, without consuming; errAt == -1: never) and reports ErrIteratorDone at
// the end and after Stop.

var (
	verifErrInj = errors.New("verif: injected iterator error")
	verifErrA   = errors.New("verif: filter error A")
	verifErrB   = errors.New("verif: filter error B")
)

const verifCap = 8

// verifPeekTag prefixes the names of the symbolic Head/Next choices (harnesses that drain several times).
var verifPeekTag = ""

type verifStub[T any] struct {
	items []T
	pos   int
	errAt int
	stops int
}

func (s *verifStub[T]) Head(ctx context.Context) (T, error) {
	var zero T
	if s.stops > 0 || (s.pos >= len(s.items) && s.pos != s.errAt) {
		return zero, storage.ErrIteratorDone
	}
	if s.pos == s.errAt {
		return zero, verifErrInj
	}
	return s.items[s.pos], nil
}

func (s *verifStub[T]) Next(ctx context.Context) (T, error) {
	v, err := s.Head(ctx)
	if err == nil {
		s.pos++
	}
	return v, err
}

func (s *verifStub[T]) Stop()           { s.stops++ }
func (s *verifStub[T]) IsOrdered() bool { return true }

// verifIntStub builds a stub over n ints picked from a vocabulary of V ordered keys; sorted => assumed
// non-descending (strict => ascending). The error position is symbolic in [-1, n].
func verifIntStub(name string, n, V int, sorted, strict, withErr bool) *verifStub[int] {
	s := &verifStub[int]{items: make([]int, n), errAt: -1}
	for i := 0; i < n; i++ {
		s.items[i] = vt.Pick(name+strconv.Itoa(i), V)
		if sorted && i > 0 {
			vt.Assume(s.items[i-1] <= s.items[i])
			if strict {
				vt.Assume(s.items[i-1] != s.items[i])
			}
		}
	}
	if withErr {
		s.errAt = vt.IntRange(name+".err", -1, n)
	}
	return s
}

// seen returns the items a consumer can obtain from the stub: everything before the error position.
func (s *verifStub[T]) seen() int {
	if s.errAt >= 0 && s.errAt < len(s.items) {
		return s.errAt
	}
	return len(s.items)
}

func (s *verifStub[T]) failing() bool { return s.errAt >= 0 }

type verifOut[T any] struct {
	v   [verifCap]T
	n   int   // number of items obtained before the first error
	err error // the first error (nil: none within the step budget)
}

// verifDrain calls Next until the first error, at most steps times. With peek, a symbolic subset of the
// Next calls is preceded by two Head calls which must agree with each other and with the Next that follows.
func verifDrain[T comparable](it storage.Iterator[T], steps int, peek bool) verifOut[T] {
	ctx := context.Background()
	var o verifOut[T]
	for i := 0; i < steps && i < verifCap; i++ {
		p := peek && vt.Bool(verifPeekTag+"peek"+strconv.Itoa(i))
		var hv T
		var herr error
		if p {
			hv, herr = it.Head(ctx)
			hv2, herr2 := it.Head(ctx)
			vt.Assert(herr != nil || (herr2 == nil && hv2 == hv), "two consecutive Head calls disagree on the item")
			vt.Assert(herr == nil || herr2 == herr, "Head reported an error that the next Head does not report")
		}
		v, err := it.Next(ctx)
		if p {
			vt.Assert(herr != nil || (err == nil && v == hv), "Next does not return the item Head announced")
			vt.Assert(herr == nil || err == herr, "Head reported an error that the following Next does not report")
		}
		if err != nil {
			o.err = err
			o.n = i
			return o
		}
		o.v[i] = v
	}
	o.n = steps
	return o
}

// verifAfterDone: once ErrIteratorDone was returned the iterator stays done; Stop can be called twice.
func verifAfterDone[T any](it storage.Iterator[T], headSupported bool) {
	ctx := context.Background()
	_, err := it.Next(ctx)
	vt.Assert(errors.Is(err, storage.ErrIteratorDone), "Next yields again after ErrIteratorDone")
	if headSupported {
		_, err = it.Head(ctx)
		vt.Assert(errors.Is(err, storage.ErrIteratorDone), "Head yields again after ErrIteratorDone")
	}
	it.Stop()
	it.Stop()
	_, err = it.Next(ctx)
	vt.Assert(errors.Is(err, storage.ErrIteratorDone), "Next after Stop is not ErrIteratorDone")
}

func verifSet(items []int, n int) int {
	m := 0
	for i := 0; i < len(items); i++ {
		if i < n {
			m |= 1 << uint(items[i])
		}
	}
	return m
}

// K23 Merge: two sorted inputs (no duplicates inside one input). Without an error the output is the
// strictly ascending sequence whose value set is the union of the inputs (which determines it uniquely:
// the sorted de-duplicated merge) and ends with ErrIteratorDone. With an injected error the drain ends
// with that error and what was yielded before is a prefix of the merge of the readable parts.
func VerifK23Merge() {
	N := vt.ParamInt("n", 3)
	V := vt.ParamInt("v", 4)
	withErr := vt.ParamInt("err", 1) == 1
	n1 := vt.Choose("n1", N+1)
	n2 := vt.Choose("n2", N+1-n1)
	a := verifIntStub("a", n1, V, true, true, withErr)
	b := verifIntStub("b", n2, V, true, true, withErr)
	m := Merge[int](a, b, func(x, y int) int { return x - y })
	o := verifDrain[int](m, n1+n2+1, false)
	vt.Assert(o.err != nil, "more items than the inputs hold")
	all := verifSet(a.items, a.seen()) | verifSet(b.items, b.seen())
	got := 0
	for i := 0; i < verifCap; i++ {
		if i < o.n {
			vt.Assert(i == 0 || o.v[i-1] < o.v[i], "merged output is not strictly ascending")
			got |= 1 << uint(o.v[i])
		}
	}
	if a.failing() || b.failing() {
		vt.Reach("merge-error")
		vt.Assert(o.err == verifErrInj, "injected error lost or replaced")
		// prefix: everything yielded is readable input, nothing smaller than the last yielded was skipped
		vt.Assert(got&^all == 0, "merged output contains a value that is in no input")
		if o.n > 0 {
			below := (1 << uint(o.v[o.n-1]+1)) - 1
			vt.Assert(all&below == got, "merged output skipped a value")
		}
		return
	}
	vt.Reach("merge-done")
	vt.Assert(errors.Is(o.err, storage.ErrIteratorDone), "unexpected error from merge")
	vt.Assert(got == all, "merged output is not the union of the inputs")
	_, err := m.Next(context.Background())
	vt.Assert(errors.Is(err, storage.ErrIteratorDone), "Next yields again after ErrIteratorDone")
	m.Stop()
	m.Stop()
	vt.Assert(a.stops > 0 && b.stops > 0, "Stop does not stop both inputs")
}

// K23 Merge, ordering only: inputs merely non-descending (duplicates allowed inside an input) =>
// the output is non-descending and has the same value set.
func VerifK23MergeSorted() {
	N := vt.ParamInt("n", 3)
	V := vt.ParamInt("v", 4)
	n1 := vt.Choose("n1", N+1)
	n2 := vt.Choose("n2", N+1-n1)
	a := verifIntStub("a", n1, V, true, false, false)
	b := verifIntStub("b", n2, V, true, false, false)
	m := Merge[int](a, b, func(x, y int) int { return x - y })
	o := verifDrain[int](m, n1+n2+1, false)
	vt.Reach("drained")
	vt.Assert(errors.Is(o.err, storage.ErrIteratorDone), "merge did not finish with ErrIteratorDone")
	got := 0
	for i := 0; i < verifCap; i++ {
		if i < o.n {
			vt.Assert(i == 0 || o.v[i-1] <= o.v[i], "merged output is not sorted")
			got |= 1 << uint(o.v[i])
		}
	}
	vt.Assert(got == verifSet(a.items, n1)|verifSet(b.items, n2), "merged output is not the union of the inputs")
}

// K23 Concat: all items of the first input, then all items of the second, then ErrIteratorDone; an
// injected error ends the drain exactly where it sits in the concatenation.
func VerifK23Concat() {
	N := vt.ParamInt("n", 3)
	V := vt.ParamInt("v", 3)
	n1 := vt.Choose("n1", N+1)
	n2 := vt.Choose("n2", N+1-n1)
	a := verifIntStub("a", n1, V, false, false, true)
	b := verifIntStub("b", n2, V, false, false, true)
	c := Concat[int](a, b)
	o := verifDrain[int](c, n1+n2+1, false)
	// reference: a's readable part; if a fails the sequence ends there with the error; otherwise b's readable part
	var want [verifCap]int
	wn := 0
	for i := 0; i < n1; i++ {
		if i < a.seen() {
			want[wn] = a.items[i]
			wn++
		}
	}
	wantErr := a.failing()
	if !wantErr {
		for i := 0; i < n2; i++ {
			if i < b.seen() {
				want[wn] = b.items[i]
				wn++
			}
		}
		wantErr = b.failing()
	}
	vt.Assert(o.n == wn, "concat yields a wrong number of items")
	for i := 0; i < verifCap; i++ {
		if i < o.n && i < wn {
			vt.Assert(o.v[i] == want[i], "concat: item wrong or out of order")
		}
	}
	if wantErr {
		vt.Reach("concat-error")
		vt.Assert(o.err == verifErrInj, "injected error lost or replaced")
		return
	}
	vt.Reach("concat-done")
	vt.Assert(errors.Is(o.err, storage.ErrIteratorDone), "concat did not finish with ErrIteratorDone")
	verifAfterDone[int](c, false)
	vt.Assert(a.stops > 0 && b.stops > 0, "Stop does not stop both inputs")
}

// verdict of filter k on item x: two bits per filter. 0 reject, 1 accept, 2 error A, 3 error B.
func verifVerdict(x, k int) (bool, error) {
	switch (x >> uint(2*k)) & 3 {
	case 0:
		return false, nil
	case 1:
		return true, nil
	case 2:
		return false, verifErrA
	default:
		return false, verifErrB
	}
}

// K23 Filter (NewFilteredIterator): yields exactly the items accepted by every filter, in order; an item's
// verdict is the first non-accepting filter's. At the end: "if none of the tuples are valid AND there are
// errors, returns the last error" (then ErrIteratorDone), otherwise ErrIteratorDone.
func VerifK23Filter() {
	N := vt.ParamInt("n", 3)
	F := vt.ParamInt("f", 2)
	n := vt.Choose("n", N+1)
	in := verifIntStub("a", n, 1<<uint(2*F), false, false, true)
	fs := make([]FilterFunc[int], F)
	for k := 0; k < F; k++ {
		k := k
		fs[k] = func(x int) (bool, error) { return verifVerdict(x, k) }
	}
	it := NewFilteredIterator[int](in, fs...)
	// reference
	var want [verifCap]int
	wn := 0
	var lastErr error
	for i := 0; i < n; i++ {
		if i < in.seen() {
			ok, err := true, error(nil)
			for k := 0; k < F && ok && err == nil; k++ {
				ok, err = verifVerdict(in.items[i], k)
			}
			if err != nil {
				lastErr = err
			} else if ok {
				want[wn] = in.items[i]
				wn++
			}
		}
	}
	o := verifDrain[int](it, n+1, false)
	vt.Assert(o.n == wn, "filter yields a wrong number of items")
	for i := 0; i < verifCap; i++ {
		if i < o.n && i < wn {
			vt.Assert(o.v[i] == want[i], "filter yields a wrong item")
		}
	}
	switch {
	case in.failing():
		vt.Reach("filter-inner-error")
		vt.Assert(o.err == verifErrInj, "injected error lost or replaced")
	case wn == 0 && lastErr != nil:
		vt.Reach("filter-last-error")
		vt.Assert(o.err == lastErr, "nothing valid and filter errors: the last filter error must be returned")
		verifAfterDone[int](it, false)
	default:
		vt.Reach("filter-done")
		vt.Assert(errors.Is(o.err, storage.ErrIteratorDone), "filter did not finish with ErrIteratorDone")
		verifAfterDone[int](it, false)
		vt.Assert(in.stops > 0, "Stop does not stop the input")
	}
}

// K23 Validate: yields the items the validator accepts, skips rejected ones, and fails with the
// validator's error at the first item for which it errs; Head announces exactly what Next returns.
func VerifK23Validate() {
	N := vt.ParamInt("n", 3)
	n := vt.Choose("n", N+1)
	in := verifIntStub("a", n, 4, false, false, true)
	it := Validate[int](in, func(x int) (bool, error) { return verifVerdict(x, 0) })
	var want [verifCap]int
	wn := 0
	var wantErr error
	for i := 0; i < n; i++ {
		if i < in.seen() && wantErr == nil {
			ok, err := verifVerdict(in.items[i], 0)
			if err != nil {
				wantErr = err
			} else if ok {
				want[wn] = in.items[i]
				wn++
			}
		}
	}
	o := verifDrain[int](it, n+1, true)
	vt.Assert(o.n == wn, "validate yields a wrong number of items")
	for i := 0; i < verifCap; i++ {
		if i < o.n && i < wn {
			vt.Assert(o.v[i] == want[i], "validate yields a wrong item")
		}
	}
	switch {
	case wantErr != nil:
		vt.Reach("validate-error")
		vt.Assert(o.err == wantErr, "validator error lost or replaced")
	case in.failing():
		vt.Reach("validate-inner-error")
		vt.Assert(o.err == verifErrInj, "injected error lost or replaced")
	default:
		vt.Reach("validate-done")
		vt.Assert(errors.Is(o.err, storage.ErrIteratorDone), "validate did not finish with ErrIteratorDone")
		verifAfterDone[int](it, true)
		vt.Assert(in.stops > 0, "Stop does not stop the input")
	}
}

// K23 Validate with a nil validator is the identity.
func VerifK23ValidateNil() {
	N := vt.ParamInt("n", 3)
	n := vt.Choose("n", N+1)
	in := verifIntStub("a", n, 3, false, false, true)
	it := Validate[int](in, nil)
	o := verifDrain[int](it, n+1, true)
	vt.Reach("drained")
	vt.Assert(o.n == in.seen(), "identity validate yields a wrong number of items")
	for i := 0; i < n; i++ {
		if i < o.n {
			vt.Assert(o.v[i] == in.items[i], "identity validate yields a wrong item")
		}
	}
	if in.failing() {
		vt.Assert(o.err == verifErrInj, "injected error lost or replaced")
	} else {
		vt.Assert(errors.Is(o.err, storage.ErrIteratorDone), "validate did not finish with ErrIteratorDone")
	}
}

// K23 SkipTo: consumes exactly the longest prefix of items that are < target; afterwards the head is
// >= target or the iterator is finished; done is not an error, other errors are returned.
func VerifK23SkipTo() {
	N := vt.ParamInt("n", 3)
	n := vt.Choose("n", N+1)
	in := &verifStub[string]{items: make([]string, n), errAt: vt.IntRange("err", -1, n)}
	for i := 0; i < n; i++ {
		in.items[i] = vt.String("s"+strconv.Itoa(i), 1)
	}
	target := vt.String("target", 1)
	want := 0
	for i := 0; i < n; i++ {
		if want == i && i < in.seen() && in.items[i] < target {
			want++
		}
	}
	err := SkipTo(context.Background(), in, target)
	vt.Assert(in.pos == want, "SkipTo consumed a wrong number of items")
	if in.errAt == want {
		vt.Reach("skip-error")
		vt.Assert(err == verifErrInj, "injected error lost or replaced")
	} else {
		vt.Reach("skip-ok")
		vt.Assert(err == nil, "SkipTo failed without an input error")
		h, herr := in.Head(context.Background())
		vt.Assert(herr != nil || h >= target, "head is still below the target")
	}
}

// K23 Stop contract (storage.Iterator doc: "Stop terminates iteration. Any subsequent calls to Next must
// return ErrIteratorDone"): consume a symbolic number of items, Stop (twice), then Next must report
// ErrIteratorDone and every input must have been stopped. kind: 0 Merge, 1 Concat, 2 Filter, 3 Validate.
func VerifK23StopThenNext() {
	N := vt.ParamInt("n", 3)
	kind := vt.ParamInt("kind", 0)
	n1 := vt.Choose("n1", N+1)
	n2 := vt.Choose("n2", N+1-n1)
	a := verifIntStub("a", n1, 4, true, true, false)
	b := verifIntStub("b", n2, 4, true, true, false)
	var it storage.Iterator[int]
	switch kind {
	case 0:
		it = Merge[int](a, b, func(x, y int) int { return x - y })
	case 1:
		it = Concat[int](a, b)
	case 2:
		it = NewFilteredIterator[int](Concat[int](a, b), func(x int) (bool, error) { return x != 1, nil })
	default:
		it = Validate[int](Concat[int](a, b), func(x int) (bool, error) { return x != 1, nil })
	}
	ctx := context.Background()
	k := vt.IntRange("consume", 0, n1+n2)
	for i := 0; i < n1+n2; i++ {
		if i < k {
			_, _ = it.Next(ctx)
		}
	}
	it.Stop()
	it.Stop()
	vt.Reach("stopped")
	_, err := it.Next(ctx)
	vt.Assert(errors.Is(err, storage.ErrIteratorDone), "Next after Stop yields an item or another error instead of ErrIteratorDone")
	vt.Assert(a.stops > 0 && b.stops > 0, "Stop does not stop every input")
}
