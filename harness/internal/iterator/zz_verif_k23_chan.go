package iterator

import (
	"context"
	"errors"
	"strconv"

	"github.com/openfga/openfga/internal/vt"
	"github.com/openfga/openfga/pkg/storage"
)

// ---- K23 (internal/iterator): channel fed iterators: FromChannel, Stream/Streams, FanInIteratorChannels ----

// verifFeed fills a closed channel with m messages: message j carries a stub over nj symbolic 1-byte strings
// (with an error injected at a symbolic position), except that message number msgErr (if < m) carries
// verifErrA instead. It returns the reference: the concatenation of the readable parts up to the first
// failure, and that failure (nil: the sequence ends regularly).
func verifFeed(N, maxMsgs int) (src chan *Msg, stubs []*verifStub[string], want []string, wantErr error) {
	m := vt.Choose("msgs", maxMsgs+1)
	msgErr := vt.Choose("msgerr", m+1) // m: no error message
	src = make(chan *Msg, maxMsgs+1)
	left := N
	for j := 0; j < m; j++ {
		if j == msgErr {
			src <- &Msg{Err: verifErrA}
			if wantErr == nil {
				wantErr = verifErrA
			}
			continue
		}
		nj := vt.Choose("len"+strconv.Itoa(j), left+1)
		left -= nj
		s := &verifStub[string]{items: make([]string, nj)}
		for i := range s.items {
			s.items[i] = vt.String("s"+strconv.Itoa(j)+"_"+strconv.Itoa(i), 1)
		}
		s.errAt = vt.Choose("err"+strconv.Itoa(j), nj+2) - 1 // forked: the reference below stays concrete in structure
		stubs = append(stubs, s)
		src <- &Msg{Iter: s}
		if wantErr == nil {
			want = append(want, s.items[:s.seen()]...)
			if s.failing() {
				wantErr = verifErrInj
			}
		}
	}
	close(src)
	return
}

// K23 FromChannel: yields the concatenation of the iterators received on the channel, in order; an error
// message or an iterator error ends the sequence there; a closed, drained channel means ErrIteratorDone.
// peek=0: Next only; peek=1: a symbolic subset of the Next calls is preceded by Head calls.
func VerifK23FromChannel() {
	N := vt.ParamInt("n", 3)
	src, stubs, want, wantErr := verifFeed(N, vt.ParamInt("msgs", 2))
	it := FromChannel(src)
	o := verifDrain[string](it, len(want)+1, vt.ParamInt("peek", 1) == 1)
	vt.Assert(o.n == len(want), "channel iterator yields a wrong number of items")
	for i := 0; i < len(want) && i < o.n; i++ {
		vt.Assert(o.v[i] == want[i], "channel iterator: item wrong or out of order")
	}
	if wantErr != nil {
		vt.Reach("chan-error")
		vt.Assert(o.err == wantErr, "error lost or replaced")
	} else {
		vt.Reach("chan-done")
		vt.Assert(errors.Is(o.err, storage.ErrIteratorDone), "channel iterator did not finish with ErrIteratorDone")
		_, err := it.Next(context.Background())
		vt.Assert(errors.Is(err, storage.ErrIteratorDone), "Next yields again after ErrIteratorDone")
	}
	it.Stop()
	it.Stop()
	_, err := it.Next(context.Background())
	vt.Assert(errors.Is(err, storage.ErrIteratorDone), "Next after Stop is not ErrIteratorDone")
	if wantErr == nil {
		for _, s := range stubs {
			vt.Assert(s.stops > 0, "an exhausted inner iterator was not stopped")
		}
	}
}

// K23 Stream/Streams: the consumer protocol (CleanDone to fetch the next buffer, then Head/Next until
// ErrIteratorDone, repeat until no stream is active) yields the concatenation of the iterators received
// on the source channel, in order; an error message surfaces from CleanDone at its position.
func VerifK23Stream() {
	N := vt.ParamInt("n", 3)
	maxMsgs := vt.ParamInt("msgs", 2)
	src, _, want, wantErr := verifFeed(N, maxMsgs)
	ctx := context.Background()
	st := NewStream(7, src)
	ss := NewStreams([]*Stream{st})
	vt.Assert(st.Idx() == 7 && !st.IsOrdered(), "stream attributes")
	var got []string
	var gotErr error
	finished := false
	for round := 0; round <= maxMsgs+1 && gotErr == nil && !finished; round++ {
		active, err := ss.CleanDone(ctx)
		if err != nil {
			gotErr = err
			break
		}
		if len(active) == 0 {
			finished = true
			break
		}
		verifPeekTag = "r" + strconv.Itoa(round) + "."
		o := verifDrain[string](st, N+1, true)
		for i := 0; i < o.n; i++ {
			got = append(got, o.v[i])
		}
		if !errors.Is(o.err, storage.ErrIteratorDone) {
			gotErr = o.err
		}
	}
	vt.Assert(len(got) == len(want), "stream yields a wrong number of items")
	for i := 0; i < len(want) && i < len(got); i++ {
		vt.Assert(got[i] == want[i], "stream: item wrong or out of order")
	}
	if wantErr != nil {
		vt.Reach("stream-error")
		vt.Assert(gotErr == wantErr, "error lost or replaced")
		ss.Stop()
		return
	}
	vt.Reach("stream-done")
	vt.Assert(finished && gotErr == nil, "stream protocol did not finish")
	vt.Assert(ss.GetActiveStreamsCount() == 0, "finished stream still counted as active")
	_, err := st.Next(ctx)
	vt.Assert(errors.Is(err, storage.ErrIteratorDone), "Next yields again after the stream finished")
	ss.Stop()
}

// K23 Stream.SkipToTargetObject / Drain: skipping consumes exactly the longest prefix of the current
// buffer that is < target, Drain returns the rest of the buffer.
func VerifK23StreamSkipDrain() {
	N := vt.ParamInt("n", 3)
	n := vt.Choose("n", N+1)
	in := &verifStub[string]{items: make([]string, n), errAt: -1}
	pick := make([]int, n)
	objs := []string{"d:a", "d:b", "d:c", "d:d"}
	for i := 0; i < n; i++ {
		pick[i] = vt.Pick("o"+strconv.Itoa(i), 4)
		in.items[i] = objs[pick[i]]
	}
	tp := vt.Pick("target", 4)
	src := make(chan *Msg, 1)
	src <- &Msg{Iter: in}
	close(src)
	ctx := context.Background()
	st := NewStream(0, src)
	_, err := NewStreams([]*Stream{st}).CleanDone(ctx)
	vt.Assert(err == nil, "CleanDone failed")
	skip := 0
	for i := 0; i < n; i++ {
		if skip == i && pick[i] < tp {
			skip++
		}
	}
	vt.Assert(st.SkipToTargetObject(ctx, "d:") != nil, "invalid target object accepted")
	vt.Assert(st.SkipToTargetObject(ctx, objs[tp]) == nil, "SkipToTargetObject failed")
	vt.Reach("skipped")
	vt.Assert(in.pos == skip || (in.stops > 0 && skip == n), "SkipToTargetObject consumed a wrong number of items")
	rest, derr := st.Drain(ctx)
	vt.Assert(derr == nil && len(rest) == n-skip, "Drain returns a wrong number of items")
	for i := 0; i < n; i++ {
		if i >= skip && i-skip < len(rest) {
			vt.Assert(rest[i-skip] == in.items[i], "Drain: item wrong or out of order")
		}
	}
}

// K23 FanInIteratorChannels: every message of every input channel arrives exactly once on the output,
// messages of one channel keep their order, and the output is closed once all inputs are closed
// (one schedule: the engine's deterministic cooperative scheduler; natively whatever the runtime picks).
func VerifK23FanIn() {
	C := vt.ParamInt("chans", 2)
	M := vt.ParamInt("msgs", 2)
	nc := vt.Choose("chans", C+1)
	var chans []<-chan *Msg
	var sent [][]*Msg
	total := 0
	for c := 0; c < nc; c++ {
		m := vt.Choose("msgs"+strconv.Itoa(c), M+1)
		ch := make(chan *Msg, M)
		var l []*Msg
		for j := 0; j < m; j++ {
			msg := &Msg{Iter: &verifStub[string]{errAt: -1}}
			if vt.ForkBool("iserr" + strconv.Itoa(c) + "_" + strconv.Itoa(j)) {
				msg = &Msg{Err: verifErrA}
			}
			l = append(l, msg)
			ch <- msg
		}
		close(ch)
		chans = append(chans, ch)
		sent = append(sent, l)
		total += m
	}
	out := FanInIteratorChannels(context.Background(), chans)
	next := make([]int, nc) // next expected message per channel
	got := 0
	for msg := range out {
		found := false
		for c := 0; c < nc; c++ {
			if next[c] < len(sent[c]) && sent[c][next[c]] == msg {
				next[c]++
				found = true
				break
			}
		}
		vt.Assert(found, "fan-in delivered an unknown, repeated or reordered message")
		got++
	}
	vt.Reach("closed")
	vt.Assert(got == total, "fan-in lost a message")
}
