package iterator

import (
	"sync"

	"github.com/openfga/openfga/internal/vt"
)

// Engine reproducer (see ENGINE_ISSUES.md, "rundefers in a guarded return block consumes the defers").
// Not part of any property's job list.

type verifDeferRepro struct {
	mu sync.Mutex
	n  int
}

func (r *verifDeferRepro) step(c bool) int {
	r.mu.Lock()
	defer r.mu.Unlock()
	if c { // symbolic: two return blocks, each with its own rundefers
		r.n++
		return 1
	}
	return 0
}

// Natively this can never deadlock: the deferred Unlock runs on every return.
func VerifEngineReproDeferGuardedReturn() {
	r := &verifDeferRepro{}
	r.step(vt.Bool("c"))
	vt.Reach("first call returned")
	r.step(false)
	vt.Assert(r.n <= 1, "counter")
}
