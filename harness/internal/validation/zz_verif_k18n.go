package validation

import (
	"errors"

	"google.golang.org/protobuf/types/known/structpb"

	openfgav1 "github.com/openfga/api/proto/openfga/v1"

	"github.com/openfga/openfga/internal/condition/types"
	"github.com/openfga/openfga/internal/vt"
)

// ---- K18n: a condition context value fits the DECLARED TYPE of its parameter, null included -----------
//
// Model "k18self" (zz_verif_k18_models.go): `group#owner` takes `user with ca|cb|cs|c1`, whose single
// parameters are declared any / bool / string / int. For every conditioned type restriction of the model
// (fork) the tuple built from it gets a context whose declared parameter is (fork)
//
//	0 absent                   fits (parameters may be supplied at request time)
//	1 a value of the type      fits            (int: 5, string: "a", bool: true, any: 5)
//	2 a value of another kind  fits iff `any`  (int: true, string: 5, bool: "t", any: "t")
//	3 an explicit JSON null    fits iff `any`  (structpb.NullValue)
//	4 a Value without kind     fits iff `any`  (the empty google.protobuf.Value message; AsInterface() == nil)
//	5 a nil *structpb.Value    fits iff `any`
//	6 a list [5]               fits iff `any`
//
// and ValidateTupleForWrite must accept exactly the fitting ones (property text: "its condition context
// fits the declared parameter types"; internal/condition/types/converters.go: of all parameter types only
// `any` converts nil - bool/string assert the Go type, int/uint/double need a float64 or a numeric string,
// duration/timestamp/ipaddress need a string, list/map need []any / map[string]any).
//
// Under the engine the parameter-type registry is not available (its initialisers reference CEL types), so
// types.DecodeParameterType is replaced by a contract stub that builds the ParameterType through the real
// exported constructor types.NewParameterType with a converter restating converters.go for the value
// kinds used here (nil, bool, float64, string, []any): any: identity; bool: value.(bool); string:
// value.(string); int: an integral float64 (numeric strings, which the real int converter also takes, are
// not in the vocabulary). nil is rejected by every converter except `any`. The real
// ParameterType.ConvertValue and the real CastContextToTypedParameters run on top of it. Natively
// everything is the real code.

func verifK18nStubTypes() {
	if !vt.Symbolic() {
		return
	}
	vt.Stub("github.com/openfga/openfga/internal/condition/types.DecodeParameterType",
		func(r *openfgav1.ConditionParamTypeRef) (*types.ParameterType, error) {
			var conv func(value any) (any, error)
			switch r.GetTypeName() {
			case openfgav1.ConditionParamTypeRef_TYPE_NAME_ANY:
				conv = func(value any) (any, error) { return value, nil }
			case openfgav1.ConditionParamTypeRef_TYPE_NAME_BOOL:
				conv = func(value any) (any, error) {
					if b, ok := value.(bool); ok {
						return b, nil
					}
					return nil, errors.New("expected a bool value")
				}
			case openfgav1.ConditionParamTypeRef_TYPE_NAME_STRING:
				conv = func(value any) (any, error) {
					if s, ok := value.(string); ok {
						return s, nil
					}
					return nil, errors.New("expected a string value")
				}
			case openfgav1.ConditionParamTypeRef_TYPE_NAME_INT:
				conv = func(value any) (any, error) {
					if f, ok := value.(float64); ok && f == float64(int64(f)) {
						return int64(f), nil
					}
					return nil, errors.New("expected an int value")
				}
			default:
				return nil, errors.New("unknown condition parameter type")
			}
			pt := types.NewParameterType(r.GetTypeName(), nil, nil, conv)
			return &pt, nil
		})
}

// VerifK18nNullContext. param model (default k18self; any K18 model whose condition parameters are
// any/bool/string/int works).
func VerifK18nNullContext() {
	m := verifK18Model()
	ts := VerifK18TypeSystem(m)
	if ts == nil {
		return
	}
	verifK18nStubTypes()
	var bases []verifK18Base
	for _, b := range verifK18Bases(m) {
		if b.cond != "" {
			bases = append(bases, b)
		}
	}
	vt.Assert(len(bases) > 0, "model has no conditioned type restriction")
	if len(bases) == 0 {
		return
	}
	b := bases[vt.Choose("base", len(bases))]
	param := ""
	tn := openfgav1.ConditionParamTypeRef_TYPE_NAME_UNSPECIFIED
	for p, ref := range m.GetConditions()[b.cond].GetParameters() {
		param, tn = p, ref.GetTypeName()
	}
	isAny := tn == openfgav1.ConditionParamTypeRef_TYPE_NAME_ANY
	kind := vt.Choose("value", 7)
	fields := map[string]*structpb.Value{}
	want := true
	switch kind {
	case 0:
	case 1:
		switch tn {
		case openfgav1.ConditionParamTypeRef_TYPE_NAME_BOOL:
			fields[param] = structpb.NewBoolValue(true)
		case openfgav1.ConditionParamTypeRef_TYPE_NAME_STRING:
			fields[param] = structpb.NewStringValue("a")
		default:
			fields[param] = structpb.NewNumberValue(5)
		}
	case 2:
		switch tn {
		case openfgav1.ConditionParamTypeRef_TYPE_NAME_INT:
			fields[param] = structpb.NewBoolValue(true)
		case openfgav1.ConditionParamTypeRef_TYPE_NAME_STRING:
			fields[param] = structpb.NewNumberValue(5)
		default:
			fields[param] = structpb.NewStringValue("t")
		}
		want = isAny
	case 3:
		fields[param] = structpb.NewNullValue()
		want = isAny
	case 4:
		fields[param] = &structpb.Value{}
		want = isAny
	case 5:
		fields[param] = nil
		want = isAny
	default:
		fields[param] = structpb.NewListValue(&structpb.ListValue{Values: []*structpb.Value{structpb.NewNumberValue(5)}})
		want = isAny
	}
	t := VerifK18Tuple{Obj: b.ot + ":1", Rel: b.rel, User: b.user(b.ut, b.uid, b.urel), HasCond: true, Cond: b.cond,
		Ctx: &structpb.Struct{Fields: fields}}
	if b.urel != "" {
		t.User = b.user(b.ut, "2", b.urel) // not the object itself
	}
	err := ValidateTupleForWrite(ts, t.Key())
	vt.Reach("validated")
	if want {
		vt.Reach("fits")
		vt.Assert(err == nil, "a conditioned tuple whose context fits the declared parameter type is rejected")
	} else {
		vt.Reach("does-not-fit")
		if kind >= 3 && kind <= 5 {
			vt.Assert(err != nil, "a null context value is accepted for a parameter whose declared type does not admit null")
		}
		vt.Assert(err != nil, "a context value that does not fit the declared parameter type is accepted")
	}
}
