// Generated with /verif/tools/modelgen from the DSL text quoted in zz_verif_k18.go (model "k18mix"); a K18-specific
// model that puts conditioned and unconditioned restrictions of the same user type side by side.
package validation

import (
	openfgav1 "github.com/openfga/api/proto/openfga/v1"
)

func verifK18MixModel() *openfgav1.AuthorizationModel {
	return &openfgav1.AuthorizationModel{
		Id:            "01HVMMBCMGZNT3SED4Z17ECXCA",
		SchemaVersion: "1.1",
		TypeDefinitions: []*openfgav1.TypeDefinition{
			&openfgav1.TypeDefinition{
				Type:      "user",
				Relations: map[string]*openfgav1.Userset{},
			},
			&openfgav1.TypeDefinition{
				Type: "group",
				Relations: map[string]*openfgav1.Userset{
					"member": &openfgav1.Userset{
						Userset: &openfgav1.Userset_This{},
					},
				},
				Metadata: &openfgav1.Metadata{
					Relations: map[string]*openfgav1.RelationMetadata{
						"member": &openfgav1.RelationMetadata{
							DirectlyRelatedUserTypes: []*openfgav1.RelationReference{
								&openfgav1.RelationReference{
									Type: "user",
								},
								&openfgav1.RelationReference{
									Type: "user",
									RelationOrWildcard: &openfgav1.RelationReference_Wildcard{
										Wildcard: &openfgav1.Wildcard{},
									},
									Condition: "c1",
								},
							},
						},
					},
				},
			},
			&openfgav1.TypeDefinition{
				Type: "document",
				Relations: map[string]*openfgav1.Userset{
					"can": &openfgav1.Userset{
						Userset: &openfgav1.Userset_TupleToUserset{
							TupleToUserset: &openfgav1.TupleToUserset{
								Tupleset: &openfgav1.ObjectRelation{
									Relation: "parent",
								},
								ComputedUserset: &openfgav1.ObjectRelation{
									Relation: "viewer",
								},
							},
						},
					},
					"editor": &openfgav1.Userset{
						Userset: &openfgav1.Userset_This{},
					},
					"parent": &openfgav1.Userset{
						Userset: &openfgav1.Userset_This{},
					},
					"viewer": &openfgav1.Userset{
						Userset: &openfgav1.Userset_This{},
					},
				},
				Metadata: &openfgav1.Metadata{
					Relations: map[string]*openfgav1.RelationMetadata{
						"can": &openfgav1.RelationMetadata{
							DirectlyRelatedUserTypes: []*openfgav1.RelationReference{},
						},
						"editor": &openfgav1.RelationMetadata{
							DirectlyRelatedUserTypes: []*openfgav1.RelationReference{
								&openfgav1.RelationReference{
									Type: "user",
								},
								&openfgav1.RelationReference{
									Type:      "user",
									Condition: "c2",
								},
								&openfgav1.RelationReference{
									Type: "group",
									RelationOrWildcard: &openfgav1.RelationReference_Relation{
										Relation: "member",
									},
								},
							},
						},
						"parent": &openfgav1.RelationMetadata{
							DirectlyRelatedUserTypes: []*openfgav1.RelationReference{
								&openfgav1.RelationReference{
									Type: "document",
								},
							},
						},
						"viewer": &openfgav1.RelationMetadata{
							DirectlyRelatedUserTypes: []*openfgav1.RelationReference{
								&openfgav1.RelationReference{
									Type:      "user",
									Condition: "c1",
								},
								&openfgav1.RelationReference{
									Type: "user",
									RelationOrWildcard: &openfgav1.RelationReference_Wildcard{
										Wildcard: &openfgav1.Wildcard{},
									},
								},
								&openfgav1.RelationReference{
									Type: "group",
								},
								&openfgav1.RelationReference{
									Type: "group",
									RelationOrWildcard: &openfgav1.RelationReference_Relation{
										Relation: "member",
									},
									Condition: "c2",
								},
							},
						},
					},
				},
			},
		},
		Conditions: map[string]*openfgav1.Condition{
			"c1": &openfgav1.Condition{
				Name:       "c1",
				Expression: "x1 < 100",
				Parameters: map[string]*openfgav1.ConditionParamTypeRef{
					"x1": &openfgav1.ConditionParamTypeRef{
						TypeName:     openfgav1.ConditionParamTypeRef_TypeName(4),
						GenericTypes: []*openfgav1.ConditionParamTypeRef{},
					},
				},
			},
			"c2": &openfgav1.Condition{
				Name:       "c2",
				Expression: "x2 < 100",
				Parameters: map[string]*openfgav1.ConditionParamTypeRef{
					"x2": &openfgav1.ConditionParamTypeRef{
						TypeName:     openfgav1.ConditionParamTypeRef_TypeName(4),
						GenericTypes: []*openfgav1.ConditionParamTypeRef{},
					},
				},
			},
			"c3": &openfgav1.Condition{
				Name:       "c3",
				Expression: "x3 < 100",
				Parameters: map[string]*openfgav1.ConditionParamTypeRef{
					"x3": &openfgav1.ConditionParamTypeRef{
						TypeName:     openfgav1.ConditionParamTypeRef_TypeName(4),
						GenericTypes: []*openfgav1.ConditionParamTypeRef{},
					},
				},
			},
		},
	}
}

// Model "k18self" (hand-written): a relation that allows a userset of ITSELF, without and with a condition
// (the only shape in which `object#relation@object#relation` passes model validation, so that the
// self-reference rule of the write command is what rejects it), and conditions whose single parameter has
// each of the primitive parameter types (for the typed-context checks, VerifK18nNullContext).
//
//	type user
//	type group
//	  relations
//	    define member: [user, group#member, group#member with c1]
//	    define owner: [user with ca, user with cb, user with cs, user with c1]
//	condition c1(x1: int) / ca(xa: any) / cb(xb: bool) / cs(xs: string)
func verifK18SelfModel() *openfgav1.AuthorizationModel {
	this := func() *openfgav1.Userset { return &openfgav1.Userset{Userset: &openfgav1.Userset_This{}} }
	userWith := func(c string) *openfgav1.RelationReference {
		return &openfgav1.RelationReference{Type: "user", Condition: c}
	}
	member := func(c string) *openfgav1.RelationReference {
		return &openfgav1.RelationReference{Type: "group", RelationOrWildcard: &openfgav1.RelationReference_Relation{Relation: "member"}, Condition: c}
	}
	cond := func(name, expr, param string, tn openfgav1.ConditionParamTypeRef_TypeName) *openfgav1.Condition {
		return &openfgav1.Condition{Name: name, Expression: expr, Parameters: map[string]*openfgav1.ConditionParamTypeRef{
			param: {TypeName: tn, GenericTypes: []*openfgav1.ConditionParamTypeRef{}},
		}}
	}
	return &openfgav1.AuthorizationModel{
		Id:            "01HVMMBCMGZNT3SED4Z17ECXCA",
		SchemaVersion: "1.1",
		TypeDefinitions: []*openfgav1.TypeDefinition{
			{Type: "user", Relations: map[string]*openfgav1.Userset{}},
			{
				Type:      "group",
				Relations: map[string]*openfgav1.Userset{"member": this(), "owner": this()},
				Metadata: &openfgav1.Metadata{Relations: map[string]*openfgav1.RelationMetadata{
					"member": {DirectlyRelatedUserTypes: []*openfgav1.RelationReference{userWith(""), member(""), member("c1")}},
					"owner":  {DirectlyRelatedUserTypes: []*openfgav1.RelationReference{userWith("ca"), userWith("cb"), userWith("cs"), userWith("c1")}},
				}},
			},
		},
		Conditions: map[string]*openfgav1.Condition{
			"c1": cond("c1", "x1 < 100", "x1", openfgav1.ConditionParamTypeRef_TYPE_NAME_INT),
			"ca": cond("ca", "xa == 1", "xa", openfgav1.ConditionParamTypeRef_TYPE_NAME_ANY),
			"cb": cond("cb", "xb", "xb", openfgav1.ConditionParamTypeRef_TYPE_NAME_BOOL),
			"cs": cond("cs", "xs == 'a'", "xs", openfgav1.ConditionParamTypeRef_TYPE_NAME_STRING),
		},
	}
}
