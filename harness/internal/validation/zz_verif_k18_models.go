// Generated with /verif/tools/modelgen from the DSL text quoted in zz_verif_k18.go (model "k18mix"); a K18-specific
// model that puts conditioned and unconditioned restrictions of the same user type side by side.
package validation

import (
	openfgav1 "github.com/openfga/api/proto/openfga/v1"
)

func verifK18MixModel() *openfgav1.AuthorizationModel {
	return &openfgav1.AuthorizationModel{
		Id:            "01HVMMBCMGZNT3SED4Z17ECXCA",
		SchemaVersion: "1.1",
		TypeDefinitions: []*openfgav1.TypeDefinition{
			&openfgav1.TypeDefinition{
				Type:      "user",
				Relations: map[string]*openfgav1.Userset{},
			},
			&openfgav1.TypeDefinition{
				Type: "group",
				Relations: map[string]*openfgav1.Userset{
					"member": &openfgav1.Userset{
						Userset: &openfgav1.Userset_This{},
					},
				},
				Metadata: &openfgav1.Metadata{
					Relations: map[string]*openfgav1.RelationMetadata{
						"member": &openfgav1.RelationMetadata{
							DirectlyRelatedUserTypes: []*openfgav1.RelationReference{
								&openfgav1.RelationReference{
									Type: "user",
								},
								&openfgav1.RelationReference{
									Type: "user",
									RelationOrWildcard: &openfgav1.RelationReference_Wildcard{
										Wildcard: &openfgav1.Wildcard{},
									},
									Condition: "c1",
								},
							},
						},
					},
				},
			},
			&openfgav1.TypeDefinition{
				Type: "document",
				Relations: map[string]*openfgav1.Userset{
					"can": &openfgav1.Userset{
						Userset: &openfgav1.Userset_TupleToUserset{
							TupleToUserset: &openfgav1.TupleToUserset{
								Tupleset: &openfgav1.ObjectRelation{
									Relation: "parent",
								},
								ComputedUserset: &openfgav1.ObjectRelation{
									Relation: "viewer",
								},
							},
						},
					},
					"editor": &openfgav1.Userset{
						Userset: &openfgav1.Userset_This{},
					},
					"parent": &openfgav1.Userset{
						Userset: &openfgav1.Userset_This{},
					},
					"viewer": &openfgav1.Userset{
						Userset: &openfgav1.Userset_This{},
					},
				},
				Metadata: &openfgav1.Metadata{
					Relations: map[string]*openfgav1.RelationMetadata{
						"can": &openfgav1.RelationMetadata{
							DirectlyRelatedUserTypes: []*openfgav1.RelationReference{},
						},
						"editor": &openfgav1.RelationMetadata{
							DirectlyRelatedUserTypes: []*openfgav1.RelationReference{
								&openfgav1.RelationReference{
									Type: "user",
								},
								&openfgav1.RelationReference{
									Type:      "user",
									Condition: "c2",
								},
								&openfgav1.RelationReference{
									Type: "group",
									RelationOrWildcard: &openfgav1.RelationReference_Relation{
										Relation: "member",
									},
								},
							},
						},
						"parent": &openfgav1.RelationMetadata{
							DirectlyRelatedUserTypes: []*openfgav1.RelationReference{
								&openfgav1.RelationReference{
									Type: "document",
								},
							},
						},
						"viewer": &openfgav1.RelationMetadata{
							DirectlyRelatedUserTypes: []*openfgav1.RelationReference{
								&openfgav1.RelationReference{
									Type:      "user",
									Condition: "c1",
								},
								&openfgav1.RelationReference{
									Type: "user",
									RelationOrWildcard: &openfgav1.RelationReference_Wildcard{
										Wildcard: &openfgav1.Wildcard{},
									},
								},
								&openfgav1.RelationReference{
									Type: "group",
								},
								&openfgav1.RelationReference{
									Type: "group",
									RelationOrWildcard: &openfgav1.RelationReference_Relation{
										Relation: "member",
									},
									Condition: "c2",
								},
							},
						},
					},
				},
			},
		},
		Conditions: map[string]*openfgav1.Condition{
			"c1": &openfgav1.Condition{
				Name:       "c1",
				Expression: "x1 < 100",
				Parameters: map[string]*openfgav1.ConditionParamTypeRef{
					"x1": &openfgav1.ConditionParamTypeRef{
						TypeName:     openfgav1.ConditionParamTypeRef_TypeName(4),
						GenericTypes: []*openfgav1.ConditionParamTypeRef{},
					},
				},
			},
			"c2": &openfgav1.Condition{
				Name:       "c2",
				Expression: "x2 < 100",
				Parameters: map[string]*openfgav1.ConditionParamTypeRef{
					"x2": &openfgav1.ConditionParamTypeRef{
						TypeName:     openfgav1.ConditionParamTypeRef_TypeName(4),
						GenericTypes: []*openfgav1.ConditionParamTypeRef{},
					},
				},
			},
			"c3": &openfgav1.Condition{
				Name:       "c3",
				Expression: "x3 < 100",
				Parameters: map[string]*openfgav1.ConditionParamTypeRef{
					"x3": &openfgav1.ConditionParamTypeRef{
						TypeName:     openfgav1.ConditionParamTypeRef_TypeName(4),
						GenericTypes: []*openfgav1.ConditionParamTypeRef{},
					},
				},
			},
		},
	}
}
