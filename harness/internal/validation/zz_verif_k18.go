package validation

import (
	"context"
	"unicode/utf8"

	openfgav1 "github.com/openfga/api/proto/openfga/v1"

	"github.com/openfga/openfga/internal/condition"
	"github.com/openfga/openfga/internal/vt"
	"github.com/openfga/openfga/internal/vtmodels"
	"github.com/openfga/openfga/pkg/typesystem"
)

// ---- K18: tuple validation accepts exactly what the model allows ------------------------------------
//
// Models: members of the generated family (vtmodels) plus "k18mix" (zz_verif_k18_models.go), whose DSL is
//
//	type user
//	type group
//	  relations
//	    define member: [user, user:* with c1]
//	type document
//	  relations
//	    define viewer: [user with c1, user:*, group, group#member with c2]
//	    define editor: [user, user with c2, group#member]
//	    define parent: [document]
//	    define can: viewer from parent
//	condition c1(x1: int) / c2(x2: int) / c3(x3: int)   (c3 is declared but used by no restriction)
//
// The typesystem is built by the real typesystem.NewAndValidate. The reference predicate below only reads
// the model proto (type definitions, relation metadata, rewrites, condition table).

func verifK18Model() *openfgav1.AuthorizationModel {
	name := vt.Param("model", "k18mix")
	if name == "k18mix" {
		return verifK18MixModel()
	}
	return vtmodels.Model(name)
}

// ---- vocabulary (concrete, deterministic order) ----

type verifK18Voc struct{ types, rels, ids, conds []string }

func verifK18Insert(xs []string, s string) []string {
	for _, x := range xs {
		if x == s {
			return xs
		}
	}
	xs = append(xs, s)
	for i := len(xs) - 1; i > 0 && xs[i] < xs[i-1]; i-- {
		xs[i], xs[i-1] = xs[i-1], xs[i]
	}
	return xs
}

func verifK18Vocab(m *openfgav1.AuthorizationModel) verifK18Voc {
	var v verifK18Voc
	for _, td := range m.GetTypeDefinitions() {
		v.types = verifK18Insert(v.types, td.GetType())
		for r := range td.GetRelations() {
			v.rels = verifK18Insert(v.rels, r)
		}
	}
	for c := range m.GetConditions() {
		v.conds = verifK18Insert(v.conds, c)
	}
	v.types = append(v.types, "ghost")  // a type the model does not declare
	v.rels = append(v.rels, "nosuch")   // a relation no type declares
	v.conds = append(v.conds, "cX", "") // an undeclared condition name, the empty name
	v.ids = []string{"1", "*"}
	if vt.ParamInt("ids", 2) > 2 {
		v.ids = []string{"1", "2", "*"}
	}
	return v
}

// ---- reference: string shapes (from the documented grammar: `type:id`, `type:*`, `type:id#relation`;
// no spaces, no control characters, one ':' and at most one '#') ----

type verifK18Scan struct {
	colons, hashes        int
	firstColon, firstHash int
	bad                   bool // space or control character (C0, DEL, C1)
}

func verifK18ScanStr(s string) verifK18Scan {
	sc := verifK18Scan{firstColon: -1, firstHash: -1}
	for i := 0; i < len(s); {
		r, sz := utf8.DecodeRuneInString(s[i:])
		switch {
		case r < 0x20 || (r >= 0x7f && r < 0xa0) || r == ' ':
			sc.bad = true
		case r == ':':
			if sc.colons == 0 {
				sc.firstColon = i
			}
			sc.colons++
		case r == '#':
			if sc.hashes == 0 {
				sc.firstHash = i
			}
			sc.hashes++
		}
		i += sz
	}
	return sc
}

// verifK18Ent is a parsed `type:id` or `type:id#relation`.
type verifK18Ent struct {
	ok           bool
	typ, id, rel string
	userset      bool
}

func verifK18Parse(s string) verifK18Ent {
	sc := verifK18ScanStr(s)
	if sc.bad || sc.colons != 1 || sc.hashes > 1 || sc.firstColon <= 0 {
		return verifK18Ent{}
	}
	e := verifK18Ent{ok: true, typ: s[:sc.firstColon]}
	end := len(s)
	if sc.hashes == 1 {
		if sc.firstHash < sc.firstColon {
			return verifK18Ent{}
		}
		end = sc.firstHash
		e.userset = true
		e.rel = s[sc.firstHash+1:]
		if e.rel == "" {
			return verifK18Ent{}
		}
	}
	e.id = s[sc.firstColon+1 : end]
	if e.id == "" {
		return verifK18Ent{}
	}
	return e
}

// ---- reference: the model ----

// verifK18IsTupleset: relation `rel` of the type is the tupleset of some `x from rel` in a rewrite of the type.
func verifK18IsTupleset(td *openfgav1.TypeDefinition, rel string) bool {
	var walk func(u *openfgav1.Userset) bool
	walk = func(u *openfgav1.Userset) bool {
		switch x := u.GetUserset().(type) {
		case *openfgav1.Userset_TupleToUserset:
			return x.TupleToUserset.GetTupleset().GetRelation() == rel
		case *openfgav1.Userset_Union:
			for _, c := range x.Union.GetChild() {
				if walk(c) {
					return true
				}
			}
		case *openfgav1.Userset_Intersection:
			for _, c := range x.Intersection.GetChild() {
				if walk(c) {
					return true
				}
			}
		case *openfgav1.Userset_Difference:
			return walk(x.Difference.GetBase()) || walk(x.Difference.GetSubtract())
		}
		return false
	}
	for _, rw := range td.GetRelations() {
		if walk(rw) {
			return true
		}
	}
	return false
}

func verifK18TypeDeclared(m *openfgav1.AuthorizationModel, t string) bool {
	found := false
	for _, td := range m.GetTypeDefinitions() {
		if td.GetType() == t {
			found = true
		}
	}
	return found
}

func verifK18RelDeclared(m *openfgav1.AuthorizationModel, t, rel string) bool {
	found := false
	for _, td := range m.GetTypeDefinitions() {
		for r := range td.GetRelations() {
			if td.GetType() == t && r == rel {
				found = true
			}
		}
	}
	return found
}

// verifK18ModelAllows: the relation exists on the object's type and one of its type restrictions matches
// the user (object of that type / typed wildcard / userset type#relation) and allows exactly this
// condition (none, or the declared condition of that name); tupleset relations take concrete objects only.
func verifK18ModelAllows(m *openfgav1.AuthorizationModel, ot, rel string, u verifK18Ent, hasCond bool, cond string) bool {
	condDeclared := false
	for c := range m.GetConditions() {
		if c == cond {
			condDeclared = true
		}
	}
	if hasCond && !condDeclared {
		return false
	}
	allowed := false
	for _, td := range m.GetTypeDefinitions() {
		for r := range td.GetRelations() {
			if td.GetType() != ot || r != rel {
				continue
			}
			if verifK18IsTupleset(td, r) && (u.userset || u.id == "*") {
				continue
			}
			for _, ref := range td.GetMetadata().GetRelations()[r].GetDirectlyRelatedUserTypes() {
				if ref.GetType() != u.typ {
					continue
				}
				var shape bool
				switch {
				case u.userset:
					shape = ref.GetRelation() != "" && ref.GetRelation() == u.rel
				case u.id == "*":
					shape = ref.GetWildcard() != nil
				default:
					shape = ref.GetRelation() == "" && ref.GetWildcard() == nil
				}
				var condOK bool
				if hasCond {
					condOK = ref.GetCondition() == cond
				} else {
					condOK = ref.GetCondition() == ""
				}
				if shape && condOK {
					allowed = true
				}
			}
		}
	}
	return allowed
}

// verifK18WellFormed: the three strings of a tuple have the documented shapes and name things the model
// declares (object type, relation on it, user type, userset relation on the user type).
func verifK18WellFormed(m *openfgav1.AuthorizationModel, obj, rel string, o, u verifK18Ent) bool {
	if !o.ok || o.userset || o.id == "*" || !verifK18TypeDeclared(m, o.typ) {
		return false
	}
	if !verifK18RelDeclared(m, o.typ, rel) {
		return false
	}
	if !u.ok || !verifK18TypeDeclared(m, u.typ) {
		return false
	}
	if u.userset && (u.id == "*" || !verifK18RelDeclared(m, u.typ, u.rel)) {
		return false
	}
	return true
}

// ---- the symbolic tuple ----

type verifK18Tuple struct {
	obj, rel, user string
	hasCond        bool
	cond           string
}

// verifK18SymTuple: every field is drawn from the model vocabulary (symbolic index, merged), except one
// position chosen by "free" which is an arbitrary byte string.
//
// Vocabulary strings are complete field values (`type:id`, `type:id#rel`, `id`), so a merged pick is a
// one-level choice between constants. Free positions: 1 whole object, 2 object id, 3 relation, 4 whole
// user, 5 user type, 6 user id (object form), 7 user id (userset form), 8 userset relation, 9 condition name.
func verifK18SymTuple(v verifK18Voc) verifK18Tuple {
	L := vt.ParamInt("len", 4)
	free := vt.ParamInt("free", -1) // a job may pin the free position (jobs run in parallel)
	if free < 0 {
		free = vt.Choose("free", 10)
	}
	idx := func(name string, n int) int {
		if vt.ParamInt("fork", 0) == 1 {
			return vt.Choose(name, n)
		}
		return vt.Pick(name, n)
	}
	var objs, users []string
	for _, ty := range v.types {
		for _, id := range v.ids {
			objs = append(objs, ty+":"+id)
		}
	}
	users = append(users, objs...)
	for _, o := range objs {
		for _, r := range v.rels {
			users = append(users, o+"#"+r)
		}
	}
	users = append(users, v.ids...)

	var t verifK18Tuple
	switch free {
	case 1:
		t.obj = vt.String("obj", L+2)
	case 2:
		t.obj = v.types[vt.Choose("ot", len(v.types))] + ":" + vt.String("oid", L)
	default:
		t.obj = objs[idx("obj", len(objs))]
	}
	if free == 3 {
		t.rel = vt.String("rel", L)
	} else {
		t.rel = v.rels[idx("rel", len(v.rels))]
	}
	switch free {
	case 4:
		t.user = vt.String("user", L+2)
	case 5:
		sfx := []string{":1", ":*", ":1#" + v.rels[0], ":*#" + v.rels[0]}
		t.user = vt.String("ut", L) + sfx[vt.Choose("usfx", len(sfx))]
	case 6:
		t.user = v.types[vt.Choose("ut", len(v.types))] + ":" + vt.String("uid", L)
	case 7:
		t.user = v.types[vt.Choose("ut", len(v.types))] + ":" + vt.String("uid", L) + "#" + v.rels[vt.Choose("urel", len(v.rels))]
	case 8:
		t.user = objs[vt.Choose("uobj", len(objs))] + "#" + vt.String("urel", L)
	default:
		t.user = users[idx("user", len(users))]
	}
	if free == 9 {
		t.hasCond = true
		t.cond = vt.String("cond", L)
	} else if vt.ForkBool("hascond") {
		t.hasCond = true
		t.cond = v.conds[idx("cond", len(v.conds))]
	}
	return t
}

func (t verifK18Tuple) key() *openfgav1.TupleKey {
	tk := &openfgav1.TupleKey{Object: t.obj, Relation: t.rel, User: t.user}
	if t.hasCond {
		tk.Condition = &openfgav1.RelationshipCondition{Name: t.cond}
	}
	return tk
}

func verifK18TypeSystem(m *openfgav1.AuthorizationModel) *typesystem.TypeSystem {
	if vt.Symbolic() {
		// CEL compilation of the condition expressions is outside (library code); natively it runs for real.
		vt.Stub("(*github.com/openfga/openfga/internal/condition.EvaluableCondition).Compile",
			func(e *condition.EvaluableCondition) error { return nil })
	}
	ts, err := typesystem.NewAndValidate(context.Background(), m)
	vt.Assert(err == nil, "family model rejected by NewAndValidate")
	return ts
}

// K18a: ValidateTupleForWrite accepts a tuple iff it is well-formed and the model allows it.
func VerifK18aWrite() {
	m := verifK18Model()
	ts := verifK18TypeSystem(m)
	if ts == nil {
		return
	}
	t := verifK18SymTuple(verifK18Vocab(m))
	err := ValidateTupleForWrite(ts, t.key())

	o, u := verifK18Parse(t.obj), verifK18Parse(t.user)
	want := verifK18WellFormed(m, t.obj, t.rel, o, u) && verifK18ModelAllows(m, o.typ, t.rel, u, t.hasCond, t.cond)
	vt.Reach("validated")
	if err == nil {
		vt.Reach("accepted")
		vt.Assert(want, "ValidateTupleForWrite accepted a tuple the model does not allow")
	}
	if want {
		vt.Reach("allowed")
		vt.Assert(err == nil, "ValidateTupleForWrite rejected a tuple the model allows")
	}
}
