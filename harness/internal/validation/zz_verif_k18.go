package validation

import (
	"context"
	"errors"
	"unicode/utf8"

	"google.golang.org/protobuf/types/known/structpb"

	openfgav1 "github.com/openfga/api/proto/openfga/v1"

	"github.com/openfga/openfga/internal/condition"
	"github.com/openfga/openfga/internal/condition/types"
	"github.com/openfga/openfga/internal/vt"
	"github.com/openfga/openfga/internal/vtmodels"
	"github.com/openfga/openfga/pkg/typesystem"
)

// ---- K18: tuple validation accepts exactly what the model allows ------------------------------------
//
// Models: members of the generated family (vtmodels) plus "k18mix" (zz_verif_k18_models.go), whose DSL is
//
//	type user
//	type group
//	  relations
//	    define member: [user, user:* with c1]
//	type document
//	  relations
//	    define viewer: [user with c1, user:*, group, group#member with c2]
//	    define editor: [user, user with c2, group#member]
//	    define parent: [document]
//	    define can: viewer from parent
//	condition c1(x1: int) / c2(x2: int) / c3(x3: int)   (c3 is declared but used by no restriction)
//
// The typesystem is built by the real typesystem.NewAndValidate. The reference predicate below only reads
// the model proto (type definitions, relation metadata, rewrites, condition table).

// VerifK18Model: the model named by the job parameter "model" (exported for the write-command harness).
func VerifK18Model() *openfgav1.AuthorizationModel { return verifK18Model() }

func verifK18Model() *openfgav1.AuthorizationModel {
	name := vt.Param("model", "k18mix")
	if name == "k18mix" {
		return verifK18MixModel()
	}
	if name == "k18self" {
		return verifK18SelfModel()
	}
	return vtmodels.Model(name)
}

// VerifK18TypeSystem builds the typesystem of a model with the real constructor (exported for the
// write-command harness in pkg/server/commands).
func VerifK18TypeSystem(m *openfgav1.AuthorizationModel) *typesystem.TypeSystem {
	VerifK18StubCEL()
	ts, err := typesystem.NewAndValidate(context.Background(), m)
	vt.Assert(err == nil, "family model rejected by NewAndValidate")
	return ts
}

// VerifK18StubCEL: CEL compilation of the condition expressions is outside (library code that the engine
// cannot interpret); natively it runs for real.
func VerifK18StubCEL() {
	if vt.Symbolic() {
		vt.Stub("(*github.com/openfga/openfga/internal/condition.EvaluableCondition).Compile",
			func(e *condition.EvaluableCondition) error { return nil })
	}
}

// ---- vocabulary (concrete, deterministic order) ----

type VerifK18Voc struct{ Types, Rels, IDs, Conds, Objs, Users []string }

func verifK18Insert(xs []string, s string) []string {
	for _, x := range xs {
		if x == s {
			return xs
		}
	}
	xs = append(xs, s)
	for i := len(xs) - 1; i > 0 && xs[i] < xs[i-1]; i-- {
		xs[i], xs[i-1] = xs[i-1], xs[i]
	}
	return xs
}

func verifK18SortedRels(td *openfgav1.TypeDefinition) []string {
	var rs []string
	for r := range td.GetRelations() {
		rs = verifK18Insert(rs, r)
	}
	return rs
}

// VerifK18Vocab: declared types + an undeclared one, declared relations + an undeclared one, ids 1 / 2 / *,
// declared conditions + an undeclared one + the empty name; Objs = every type:id, Users = every type:id,
// every type:id#relation, and the bare ids (`*`, `1`: users without type).
func VerifK18Vocab(m *openfgav1.AuthorizationModel) VerifK18Voc {
	var v VerifK18Voc
	for _, td := range m.GetTypeDefinitions() {
		v.Types = verifK18Insert(v.Types, td.GetType())
		for r := range td.GetRelations() {
			v.Rels = verifK18Insert(v.Rels, r)
		}
	}
	for c := range m.GetConditions() {
		v.Conds = verifK18Insert(v.Conds, c)
	}
	v.Types = append(v.Types, "ghost")
	v.Rels = append(v.Rels, "nosuch")
	v.Conds = append(v.Conds, "cX", "")
	v.IDs = []string{"1", "*"}
	if vt.ParamInt("ids", 2) > 2 {
		v.IDs = []string{"1", "2", "*"}
	}
	for _, ty := range v.Types {
		for _, id := range v.IDs {
			v.Objs = append(v.Objs, ty+":"+id)
		}
	}
	v.Users = append(v.Users, v.Objs...)
	for _, o := range v.Objs {
		for _, r := range v.Rels {
			v.Users = append(v.Users, o+"#"+r)
		}
	}
	v.Users = append(v.Users, v.IDs...)
	return v
}

// ---- reference: string shapes (documented grammar: `type:id`, `type:*`, `type:id#relation`; exactly one
// ':' with a non-empty type before it, at most one '#' after it, no spaces, no control characters) ----

type verifK18Scan struct {
	colons, hashes        int
	firstColon, firstHash int
	bad                   bool // space or control character (C0, DEL, C1)
	stars                 int
}

func verifK18ScanStr(s string) verifK18Scan {
	sc := verifK18Scan{firstColon: -1, firstHash: -1}
	for i := 0; i < len(s); {
		r, sz := utf8.DecodeRuneInString(s[i:])
		switch {
		case r < 0x20 || (r >= 0x7f && r < 0xa0) || r == ' ':
			sc.bad = true
		case r == ':':
			if sc.colons == 0 {
				sc.firstColon = i
			}
			sc.colons++
		case r == '#':
			if sc.hashes == 0 {
				sc.firstHash = i
			}
			sc.hashes++
		case r == '*':
			sc.stars++
		}
		i += sz
	}
	return sc
}

// VerifK18Ent is a parsed `type:id` or `type:id#relation`.
type VerifK18Ent struct {
	OK           bool
	Typ, ID, Rel string
	Userset      bool
	Stars        int
}

func VerifK18Parse(s string) VerifK18Ent {
	sc := verifK18ScanStr(s)
	if sc.bad || sc.colons != 1 || sc.hashes > 1 || sc.firstColon <= 0 {
		return VerifK18Ent{}
	}
	e := VerifK18Ent{OK: true, Typ: s[:sc.firstColon], Stars: sc.stars}
	end := len(s)
	if sc.hashes == 1 {
		if sc.firstHash < sc.firstColon {
			return VerifK18Ent{}
		}
		end = sc.firstHash
		e.Userset = true
		e.Rel = s[sc.firstHash+1:]
		// a userset names a concrete object and a relation: '*' is reserved for the typed wildcard `type:*`
		// and occurs neither in the id nor in the relation of a userset (pkg/tuple's grammar for usersets,
		// `type:[^#:*...]+#[^:#*...]+` in its own fuzz oracle)
		if e.Rel == "" || sc.stars > 0 {
			return VerifK18Ent{}
		}
	}
	e.ID = s[sc.firstColon+1 : end]
	if e.ID == "" {
		return VerifK18Ent{}
	}
	return e
}

// ---- reference: the model ----

// verifK18IsTupleset: relation `rel` of the type is the tupleset of some `x from rel` in a rewrite of the type.
func verifK18IsTupleset(td *openfgav1.TypeDefinition, rel string) bool {
	var walk func(u *openfgav1.Userset) bool
	walk = func(u *openfgav1.Userset) bool {
		switch x := u.GetUserset().(type) {
		case *openfgav1.Userset_TupleToUserset:
			return x.TupleToUserset.GetTupleset().GetRelation() == rel
		case *openfgav1.Userset_Union:
			for _, c := range x.Union.GetChild() {
				if walk(c) {
					return true
				}
			}
		case *openfgav1.Userset_Intersection:
			for _, c := range x.Intersection.GetChild() {
				if walk(c) {
					return true
				}
			}
		case *openfgav1.Userset_Difference:
			return walk(x.Difference.GetBase()) || walk(x.Difference.GetSubtract())
		}
		return false
	}
	for _, r := range verifK18SortedRels(td) {
		if walk(td.GetRelations()[r]) {
			return true
		}
	}
	return false
}

func verifK18TypeDeclared(m *openfgav1.AuthorizationModel, t string) bool {
	found := false
	for _, td := range m.GetTypeDefinitions() {
		if td.GetType() == t {
			found = true
		}
	}
	return found
}

func verifK18RelDeclared(m *openfgav1.AuthorizationModel, t, rel string) bool {
	found := false
	for _, td := range m.GetTypeDefinitions() {
		for _, r := range verifK18SortedRels(td) {
			if td.GetType() == t && r == rel {
				found = true
			}
		}
	}
	return found
}

// VerifK18ModelAllows: the relation exists on the object's type and one of its type restrictions matches
// the user (object of that type / typed wildcard / userset type#relation) and allows exactly this
// condition (none, or the declared condition of that name); tupleset relations take concrete objects only.
func VerifK18ModelAllows(m *openfgav1.AuthorizationModel, ot, rel string, u VerifK18Ent, hasCond bool, cond string) bool {
	condDeclared := false
	for c := range m.GetConditions() {
		if c == cond {
			condDeclared = true
		}
	}
	if hasCond && !condDeclared {
		return false
	}
	allowed := false
	for _, td := range m.GetTypeDefinitions() {
		for _, r := range verifK18SortedRels(td) {
			if td.GetType() != ot || r != rel {
				continue
			}
			if verifK18IsTupleset(td, r) && (u.Userset || u.ID == "*") {
				continue
			}
			for _, ref := range td.GetMetadata().GetRelations()[r].GetDirectlyRelatedUserTypes() {
				if ref.GetType() != u.Typ {
					continue
				}
				var shape bool
				switch {
				case u.Userset:
					shape = ref.GetRelation() != "" && ref.GetRelation() == u.Rel
				case u.ID == "*":
					shape = ref.GetWildcard() != nil
				default:
					shape = ref.GetRelation() == "" && ref.GetWildcard() == nil
				}
				var condOK bool
				if hasCond {
					condOK = ref.GetCondition() == cond
				} else {
					condOK = ref.GetCondition() == ""
				}
				if shape && condOK {
					allowed = true
				}
			}
		}
	}
	return allowed
}

// VerifK18WellFormed: the three strings of a tuple have the documented shapes and name things the model
// declares (object type, relation on it, user type, userset relation on the user type).
func VerifK18WellFormed(m *openfgav1.AuthorizationModel, rel string, o, u VerifK18Ent) bool {
	if !o.OK || o.Userset || o.ID == "*" || !verifK18TypeDeclared(m, o.Typ) {
		return false
	}
	if !verifK18RelDeclared(m, o.Typ, rel) {
		return false
	}
	if !u.OK || !verifK18TypeDeclared(m, u.Typ) {
		return false
	}
	if u.Userset && (u.ID == "*" || !verifK18RelDeclared(m, u.Typ, u.Rel)) {
		return false
	}
	return true
}

// verifK18StoredShape: the shapes a stored tuple can have (what a write may have put there under some
// earlier model): `type:id` object, `type:id` / `type:*` / `type:id#relation` user.
func verifK18StoredShape(o, u VerifK18Ent) bool {
	return o.OK && !o.Userset && o.ID != "*" && u.OK && !(u.Userset && u.ID == "*")
}

// ---- tuples ----

type VerifK18Tuple struct {
	Obj, Rel, User string
	HasCond        bool
	Cond           string
	Ctx            *structpb.Struct
}

func (t VerifK18Tuple) Key() *openfgav1.TupleKey {
	tk := &openfgav1.TupleKey{Object: t.Obj, Relation: t.Rel, User: t.User}
	if t.HasCond {
		tk.Condition = &openfgav1.RelationshipCondition{Name: t.Cond, Context: t.Ctx}
	}
	return tk
}

func (t VerifK18Tuple) String() string {
	s := t.Obj + "#" + t.Rel + "@" + t.User
	if t.HasCond {
		s += " with '" + t.Cond + "'"
	}
	return s
}

// VerifK18Want is the reference verdict for ValidateTupleForWrite.
func VerifK18Want(m *openfgav1.AuthorizationModel, t VerifK18Tuple) bool {
	o, u := VerifK18Parse(t.Obj), VerifK18Parse(t.User)
	return VerifK18WellFormed(m, t.Rel, o, u) && VerifK18ModelAllows(m, o.Typ, t.Rel, u, t.HasCond, t.Cond)
}

// verifK18Check compares both validators with the reference on one tuple (fields concrete or symbolic).
//
// With concrete fields (the vocabulary product) a disagreement is recorded as an event and counted in
// `bad` instead of ending the path, so that one run lists every offending tuple; the caller asserts the
// counters are zero.
func verifK18Check(m *openfgav1.AuthorizationModel, ts *typesystem.TypeSystem, t VerifK18Tuple, concrete bool, bad *[4]int) {
	tk := t.Key()
	err := ValidateTupleForWrite(ts, tk)
	want := VerifK18Want(m, t)
	if concrete {
		if err == nil && !want {
			vt.Event("accepted but not allowed: " + t.String())
			bad[0]++
		}
		if err != nil && want {
			vt.Event("allowed but rejected: " + t.String())
			bad[1]++
		}
		o, u := VerifK18Parse(t.Obj), VerifK18Parse(t.User)
		if verifK18StoredShape(o, u) {
			keep := FilterInvalidTuples(ts)(tk)
			allows := VerifK18ModelAllows(m, o.Typ, t.Rel, u, t.HasCond, t.Cond)
			if keep && !allows {
				vt.Event("stored tuple kept but not allowed: " + t.String())
				bad[2]++
			}
			if !keep && allows {
				vt.Event("stored tuple allowed but dropped: " + t.String())
				bad[3]++
			}
		}
		return
	}
	vt.Reach("validated")
	if err == nil {
		vt.Assert(want, "ValidateTupleForWrite accepted a tuple the model does not allow")
	} else {
		vt.Reach("rejected") // every free position has malformed values, the base tuples (free=0) never get here
	}
	if want {
		vt.Assert(err == nil, "ValidateTupleForWrite rejected a tuple the model allows")
	}
	if vt.ParamInt("read", 0) == 1 {
		o, u := VerifK18Parse(t.Obj), VerifK18Parse(t.User)
		if verifK18StoredShape(o, u) {
			keep := FilterInvalidTuples(ts)(tk)
			allows := VerifK18ModelAllows(m, o.Typ, t.Rel, u, t.HasCond, t.Cond)
			if keep {
				vt.Assert(allows, "FilterInvalidTuples keeps a stored tuple the model does not allow")
			}
			if allows {
				vt.Assert(keep, "FilterInvalidTuples drops a stored tuple the model allows")
			}
		}
	}
}

// K18a: the complete product of the model vocabulary (objects x relations x users x conditions), every
// field concrete: the engine interprets the validators and the reference on each tuple.
func VerifK18aVocabulary() {
	m := verifK18Model()
	ts := VerifK18TypeSystem(m)
	if ts == nil {
		return
	}
	v := VerifK18Vocab(m)
	n := 0
	var bad [4]int
	for _, obj := range v.Objs {
		for _, rel := range v.Rels {
			for _, user := range v.Users {
				verifK18Check(m, ts, VerifK18Tuple{Obj: obj, Rel: rel, User: user}, true, &bad)
				for _, c := range v.Conds {
					verifK18Check(m, ts, VerifK18Tuple{Obj: obj, Rel: rel, User: user, HasCond: true, Cond: c}, true, &bad)
				}
				n++
			}
		}
	}
	vt.Reach("product-done")
	vt.Assert(n == len(v.Objs)*len(v.Rels)*len(v.Users), "vocabulary product not covered")
	verifK18Report(&bad)
}

// verifK18Report asserts that no disagreement was counted. Each assertion carries an unconstrained mask
// bit: a concretely false assertion would end the path and hide the ones after it; with the mask the
// engine reports the violation (mask = false), assumes the mask and goes on to the next counter, so every
// kind of disagreement is reported (and replayed) on its own.
func verifK18Report(bad *[4]int) {
	vt.Assert(bad[0] == 0 || vt.Bool("mask0"), "ValidateTupleForWrite accepted a tuple the model does not allow")
	vt.Assert(bad[1] == 0 || vt.Bool("mask1"), "ValidateTupleForWrite rejected a tuple the model allows")
	vt.Assert(bad[2] == 0 || vt.Bool("mask2"), "FilterInvalidTuples keeps a stored tuple the model does not allow")
	vt.Assert(bad[3] == 0 || vt.Bool("mask3"), "FilterInvalidTuples drops a stored tuple the model allows")
}

// ---- K18b: one position of the tuple is an arbitrary byte string ----

// verifK18Sym: a string of exactly n bytes with symbolic content (the caller forks on n, so the
// offsets of whatever follows the string stay concrete).
func verifK18Sym(name string, n int) string {
	var s string
	if vt.ParamInt("ascii", 0) == 1 {
		s = vt.ASCII(name, n)
	} else {
		s = vt.String(name, n)
	}
	vt.Assume(len(s) == n)
	return s[:n]
}

// verifK18Base: a tuple the model allows, one per (type, relation, type restriction); relations without
// restrictions contribute a tuple with a user of the first type.
type verifK18Base struct {
	ot, rel, ut, uid, urel, cond string
	computed                     bool // relation without type restrictions: no tuple is allowed
}

func (b verifK18Base) user(ut, uid, urel string) string {
	if urel != "" {
		return ut + ":" + uid + "#" + urel
	}
	return ut + ":" + uid
}

func verifK18Bases(m *openfgav1.AuthorizationModel) []verifK18Base {
	var bs []verifK18Base
	for _, td := range m.GetTypeDefinitions() {
		for _, r := range verifK18SortedRels(td) {
			refs := td.GetMetadata().GetRelations()[r].GetDirectlyRelatedUserTypes()
			if len(refs) == 0 {
				bs = append(bs, verifK18Base{ot: td.GetType(), rel: r, ut: m.GetTypeDefinitions()[0].GetType(), uid: "1", computed: true})
			}
			for _, ref := range refs {
				b := verifK18Base{ot: td.GetType(), rel: r, ut: ref.GetType(), uid: "1", urel: ref.GetRelation(), cond: ref.GetCondition()}
				if ref.GetWildcard() != nil {
					b.uid = "*"
				}
				bs = append(bs, b)
			}
		}
	}
	return bs
}

// Free positions: 0 none (the base tuples themselves), 1 whole object, 2 object id, 3 relation, 4 whole user,
// 5 user type, 6 user id, 7 userset relation (appended to the base user's object), 8 condition name,
// 9 object type. The other fields come from a base tuple (fork) and, with conds=1, the condition ranges
// over none / every vocabulary condition (fork).
func VerifK18bFree() {
	m := verifK18Model()
	ts := VerifK18TypeSystem(m)
	if ts == nil {
		return
	}
	v := VerifK18Vocab(m)
	bases := verifK18Bases(m)
	L := vt.ParamInt("len", 3)
	free := vt.ParamInt("free", -1) // a job may pin the free position (jobs run in parallel)
	if free < 0 {
		free = vt.Choose("free", 10)
	}
	bi := vt.ParamInt("base", -1)
	if bi < 0 {
		bi = vt.Choose("base", len(bases))
	}
	b := bases[bi]
	max := L
	if free == 1 || free == 4 {
		max = L + 2
	}
	n := 0
	if free != 0 {
		n = vt.Choose("n", max+1)
	}
	t := VerifK18Tuple{Obj: b.ot + ":1", Rel: b.rel, User: b.user(b.ut, b.uid, b.urel), HasCond: b.cond != "", Cond: b.cond}
	if free != 8 && vt.ParamInt("conds", 0) == 1 {
		cv := vt.Choose("cv", len(v.Conds)+1)
		t.HasCond = cv > 0
		t.Cond = ""
		if cv > 0 {
			t.Cond = v.Conds[cv-1]
		}
	}
	if free == 0 {
		if vt.ParamInt("conds", 0) == 0 && !b.computed {
			vt.Reach("base-tuple")
			vt.Assert(VerifK18Want(m, t), "reference rejects a tuple built from a type restriction")
		}
	} else {
		t = verifK18Place(b, t, free, verifK18Sym("s", n))
	}
	verifK18Check(m, ts, t, false, nil)
}

// verifK18Place puts s at the free position of a base tuple.
func verifK18Place(b verifK18Base, t VerifK18Tuple, free int, s string) VerifK18Tuple {
	switch free {
	case 1:
		t.Obj = s
	case 2:
		t.Obj = b.ot + ":" + s
	case 3:
		t.Rel = s
	case 4:
		t.User = s
	case 5:
		t.User = b.user(s, b.uid, b.urel)
	case 6:
		t.User = b.user(b.ut, s, b.urel)
	case 7:
		t.User = b.ut + ":" + b.uid + "#" + s
	case 8:
		t.HasCond = true
		t.Cond = s
	default:
		t.Obj = s + ":1"
	}
	return t
}

// K18d: the free position ranges over every string of up to `chars` symbols of an alphabet of separator,
// wildcard, blank, control, multi-byte and invalid-UTF-8 symbols (concrete enumeration; complements K18b at
// the positions where a symbolic string in the middle of a field is too expensive for the engine).
var verifK18Alphabet = []string{"a", "1", "*", ":", "#", "@", " ", "\t", "\x00", "\x7f", "\u0085", "é", "\xc3", "\xff"}

func VerifK18dAlphabet() {
	m := verifK18Model()
	ts := VerifK18TypeSystem(m)
	if ts == nil {
		return
	}
	bases := verifK18Bases(m)
	chars := vt.ParamInt("chars", 2)
	strs := []string{""}
	for lo, k := 0, 0; k < chars; k++ {
		hi := len(strs)
		for _, p := range strs[lo:hi] {
			for _, a := range verifK18Alphabet {
				strs = append(strs, p+a)
			}
		}
		lo = hi
	}
	var bad [4]int
	n := 0
	pinned := vt.ParamInt("free", -1)
	for free := 1; free <= 9; free++ {
		if pinned >= 0 && free != pinned {
			continue
		}
		for _, b := range bases {
			base := VerifK18Tuple{Obj: b.ot + ":1", Rel: b.rel, User: b.user(b.ut, b.uid, b.urel), HasCond: b.cond != "", Cond: b.cond}
			for _, s := range strs {
				verifK18Check(m, ts, verifK18Place(b, base, free, s), true, &bad)
				n++
			}
		}
	}
	vt.Reach("enumerated")
	vt.Assert(n > 0, "nothing enumerated")
	verifK18Report(&bad)
}

// ---- K18c: condition context of a conditioned tuple ----
//
// Context fields: the declared parameter of the tuple's condition (x1/x2: int) present with a fitting
// value / present with a value of the wrong kind / absent, and an undeclared key present / absent; plus a
// string value containing a control character. Reference (validation.go doc + property text): a context
// fits iff every key is a declared parameter whose value converts to the declared type, and no key or
// string value contains control characters.
func VerifK18cContext() {
	m := verifK18Model()
	ts := VerifK18TypeSystem(m)
	if ts == nil {
		return
	}
	if vt.Symbolic() {
		// the parameter-type registry is filled by initialisers that reference CEL types (not interpretable):
		// declared parameters of the family are ints; the int converter accepts integral numbers, rejects bools
		vt.Stub("github.com/openfga/openfga/internal/condition/types.DecodeParameterType",
			func(r *openfgav1.ConditionParamTypeRef) (*types.ParameterType, error) {
				if r.GetTypeName() != openfgav1.ConditionParamTypeRef_TYPE_NAME_INT {
					return nil, errors.New("unknown condition parameter type")
				}
				return &types.ParameterType{}, nil
			})
		vt.Stub("(github.com/openfga/openfga/internal/condition/types.ParameterType).ConvertValue",
			func(pt types.ParameterType, value any) (any, error) {
				if f, ok := value.(float64); ok {
					return int64(f), nil
				}
				return nil, errors.New("expected an int value")
			})
	}
	var bases []verifK18Base
	for _, b := range verifK18Bases(m) {
		if b.cond != "" {
			bases = append(bases, b)
		}
	}
	if len(bases) == 0 {
		return
	}
	b := bases[vt.Choose("base", len(bases))]
	param := ""
	for p := range m.GetConditions()[b.cond].GetParameters() {
		param = p
	}
	declared := vt.Choose("declared", 3) // 0 absent, 1 integral number, 2 bool (wrong kind)
	extra := vt.Choose("extra", 4)       // 0 absent, 1 undeclared key, 2 undeclared key with control char, 3 declared-looking key of another condition
	nilCtx := declared == 0 && extra == 0 && vt.ForkBool("nilctx")
	fields := map[string]*structpb.Value{}
	switch declared {
	case 1:
		fields[param] = structpb.NewNumberValue(5)
	case 2:
		fields[param] = structpb.NewBoolValue(true)
	}
	switch extra {
	case 1:
		fields["zz"] = structpb.NewNumberValue(1)
	case 2:
		fields["z\x01"] = structpb.NewNumberValue(1)
	case 3:
		fields["x9"] = structpb.NewStringValue("a\x7fb")
	}
	t := VerifK18Tuple{Obj: b.ot + ":1", Rel: b.rel, User: b.user(b.ut, b.uid, b.urel), HasCond: true, Cond: b.cond}
	if !nilCtx {
		t.Ctx = &structpb.Struct{Fields: fields}
	}
	err := ValidateTupleForWrite(ts, t.Key())
	want := declared != 2 && extra == 0
	vt.Reach("validated")
	if want {
		vt.Reach("fits")
	}
	vt.Assert((err == nil) == want, "condition context: validator and reference disagree")
}
