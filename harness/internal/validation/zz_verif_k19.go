package validation

import (
	"unicode/utf8"

	"google.golang.org/protobuf/types/known/structpb"

	openfgav1 "github.com/openfga/api/proto/openfga/v1"

	"github.com/openfga/openfga/internal/vt"
	"github.com/openfga/openfga/pkg/storage/cache/keys"
)

// ---- K19 (validation): arbitrary strings in every tuple field at once never panic a validator --------

// All three fields (and the condition name) are arbitrary byte strings at the same time. Lengths are
// forked on (fixed-length symbolic strings, see verifK18Sym). No reference: the obligation is "no
// reachable panic", plus the two implications that hold by the documented layering (ForWrite is a
// superset of UserObjectRelation and of ForRead).
func VerifK19ValidateAnyStrings() {
	m := verifK18Model()
	ts := VerifK18TypeSystem(m)
	if ts == nil {
		return
	}
	L := vt.ParamInt("len", 2)
	var tk *openfgav1.TupleKey
	shape := vt.ParamInt("shape", -1) // a job may pin the shape
	if shape < 0 {
		shape = vt.Choose("shape", 4)
	}
	switch shape {
	case 0:
		tk = nil
	case 1, 2:
		tk = &openfgav1.TupleKey{
			Object:   verifK18Sym("o", vt.Choose("no", L+1)),
			Relation: verifK18Sym("r", vt.Choose("nr", L+1)),
			User:     verifK18Sym("u", vt.Choose("nu", L+1)),
		}
		if shape == 2 {
			tk.Condition = &openfgav1.RelationshipCondition{Name: verifK18Sym("c", vt.Choose("nc", L+1))}
		}
	default:
		// declared types with arbitrary ids, userset relation arbitrary
		rels := []string{"viewer", "parent", "member"}
		tk = &openfgav1.TupleKey{
			Object:   "document:" + verifK18Sym("o", vt.Choose("no", L+1)),
			Relation: rels[vt.Choose("rel", len(rels))],
		}
		if vt.ForkBool("userset") {
			tk.User = "group:1#" + verifK18Sym("u", vt.Choose("nu", L+1))
		} else {
			tk.User = "user:" + verifK18Sym("u", vt.Choose("nu", L+1))
		}
	}
	eu := ValidateUser(ts, tk.GetUser())
	eo := ValidateObject(ts, tk)
	er := ValidateRelation(ts, tk)
	euor := ValidateUserObjectRelation(ts, tk)
	ew := ValidateTupleForWrite(ts, tk)
	vt.Reach("validated")
	vt.Assert((euor == nil) == (eu == nil && eo == nil && er == nil), "ValidateUserObjectRelation is not the conjunction of its three parts")
	if ew == nil {
		vt.Assert(euor == nil, "ValidateTupleForWrite accepted a tuple that ValidateUserObjectRelation rejects")
	}
	if euor == nil {
		// well-formed: the read-side validator must be callable and agree with the write-side one
		keep := FilterInvalidTuples(ts)(tk)
		vt.Assert(keep == (ew == nil), "ValidateTupleForWrite and ValidateTupleForRead disagree on a well-formed tuple")
	}
	for _, e := range []error{eu, eo, er, euor, ew} {
		if e != nil {
			_ = e.Error() // error rendering must not panic either
		}
	}
}

// ---- ValidateStruct on nested hostile values ----

func verifK19HasControl(s string) bool {
	bad := false
	for i := 0; i < len(s); {
		r, sz := utf8.DecodeRuneInString(s[i:])
		if r < 0x20 || (r >= 0x7f && r < 0xa0) {
			bad = true
		}
		i += sz
	}
	return bad
}

func verifK19ValueBad(v *structpb.Value) bool {
	switch x := v.GetKind().(type) {
	case *structpb.Value_StringValue:
		return verifK19HasControl(x.StringValue)
	case *structpb.Value_ListValue:
		bad := false
		for _, e := range x.ListValue.GetValues() {
			if verifK19ValueBad(e) {
				bad = true
			}
		}
		return bad
	case *structpb.Value_StructValue:
		return verifK19StructBad(x.StructValue)
	}
	return false
}

func verifK19StructBad(s *structpb.Struct) bool {
	bad := false
	for k, v := range s.GetFields() {
		if verifK19HasControl(k) || verifK19ValueBad(v) {
			bad = true
		}
	}
	return bad
}

// Context structs with every kind at every node (nil values, values without kind, nil lists / structs,
// shape by vt.Choose, strings and keys symbolic): ValidateStruct never panics and rejects exactly the
// structs that carry a control character in some key or string value, at any depth.
func VerifK19ValidateStruct() {
	d, L := vt.ParamInt("depth", 2), vt.ParamInt("str", 2)
	var s *structpb.Struct
	if !vt.ForkBool("nil") {
		s = keys.VerifPbStruct("x", vt.Choose("n", vt.ParamInt("fields", 2)+1), d, []int{vt.ParamInt("w", 1), 1}, L)
	}
	err := ValidateStruct(s)
	vt.Reach("validated")
	bad := verifK19StructBad(s)
	if bad {
		vt.Reach("has-control")
	}
	vt.Assert((err != nil) == bad, "ValidateStruct and the reference disagree")
}
