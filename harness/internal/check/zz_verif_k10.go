package check

import (
	"time"

	openfgav1 "github.com/openfga/api/proto/openfga/v1"

	"github.com/openfga/openfga/internal/vt"
	"github.com/openfga/openfga/pkg/storage"
	"github.com/openfga/openfga/pkg/storage/cache/keys"
)

// ---- K10 / K11: the weighted-graph engine's cache look-up (Resolver.isCached) ---------------------------

// verifK10Cache answers every Get with the prepared value (any key) and records the calls.
type verifK10Cache struct {
	value any
	gets  int
	sets  int
}

func (c *verifK10Cache) Get(k keys.Key) any                       { c.gets++; return c.value }
func (c *verifK10Cache) Set(k keys.Key, v any, ttl time.Duration) { c.sets++ }
func (c *verifK10Cache) Delete(k keys.Key)                        {}
func (c *verifK10Cache) Stop()                                    {}

// isCached against an arbitrary cache content (nothing, an entry with arbitrary time and decision, a value of
// another type): with HIGHER_CONSISTENCY it reports a miss without a single Get; otherwise it reports a hit
// exactly when an entry of the right type is present whose LastModified is AFTER the resolver's invalidation
// time, and then hands out that entry's response.
func VerifK10IsCached() {
	T := vt.ParamInt("t", 6)
	inst := func(name string) time.Time { return time.Time{}.Add(time.Duration(vt.IntRange(name, 0, T))) }
	prefs := []openfgav1.ConsistencyPreference{openfgav1.ConsistencyPreference_UNSPECIFIED,
		openfgav1.ConsistencyPreference_MINIMIZE_LATENCY, openfgav1.ConsistencyPreference_HIGHER_CONSISTENCY}
	pref := prefs[vt.Choose("consistency", 3)]
	inval := inst("inval")
	entry := &ResponseCacheEntry{LastModified: inst("entry-time"), Res: &Response{Allowed: vt.Bool("stored-allowed")}}
	cache := &verifK10Cache{}
	kind := vt.Choose("cache", 3) // 0 nothing, 1 an entry, 2 a value of another type
	switch kind {
	case 1:
		cache.value = entry
	case 2:
		cache.value = &storage.InvalidEntityCacheEntry{LastModified: entry.LastModified}
	}
	r := New(Config{Cache: cache, CacheTTL: 10 * time.Second, LastCacheInvalidationTime: inval})
	key := storage.CheckCacheKey("S1", "doc:1", "viewer", "user:a", 7)
	got, hit := r.isCached(pref, key)

	if pref == openfgav1.ConsistencyPreference_HIGHER_CONSISTENCY {
		vt.Reach("higher-consistency")
		vt.Assert(!hit && got == nil && cache.gets == 0, "cache consulted for a HIGHER_CONSISTENCY request")
		return
	}
	vt.Assert(cache.gets == 1, "cache not consulted exactly once")
	if kind == 1 && entry.LastModified.After(inval) {
		vt.Reach("hit")
		vt.Assert(hit && got == entry.Res, "valid entry not served")
	} else {
		vt.Reach("miss")
		vt.Assert(!hit && got == nil, "entry served although absent, of another type, or not newer than the invalidation time")
	}
}
