#!/bin/bash
# usage: tools/seedtest.sh <seed out dir (patch.diff demo_test.go meta.json)> <name> <check id> [more check ids]
# Confirms a seeded change in a scratch worktree of /repo HEAD (demo fails with it, passes without, package
# tests pass) and runs the given checks against that worktree (VERIF_REPO), leaving /repo untouched.
# (The registered procedure `git -C /repo apply <patch>; ./check <id>; git -C /repo checkout -- .` is equivalent.)
set -u
SRC=$1; NAME=$2; shift 2
ROOT=/verif
DST=$ROOT/seeded/$NAME
mkdir -p $DST
[ "$SRC" != "$DST" ] && cp $SRC/patch.diff $SRC/demo_test.go $SRC/meta.json $DST/ 2>/dev/null
LOC=$(python3 -c "import json;print(json.load(open('$DST/meta.json'))['demo_location'])")
RUN=$(python3 -c "import json;print(json.load(open('$DST/meta.json'))['demo_run'])")
WT=/tmp/seedwt_$$
git -C /repo worktree add -q --detach $WT HEAD || exit 2
trap 'git -C /repo worktree remove --force $WT >/dev/null 2>&1' EXIT
res_apply=ok; res_demo_with=?; res_demo_without=?; res_pkgtests=?
case "$LOC" in *_test.go) TARGET=$WT/$LOC;; *) TARGET=$WT/${LOC%/}/demo_test.go;; esac
PKGDIR=$(dirname ${TARGET#$WT/})
mkdir -p $(dirname $TARGET); cp $DST/demo_test.go $TARGET
(cd $WT && GOFLAGS=-mod=mod GOPROXY=off timeout 1500 bash -c "$RUN") > $DST/demo_without.log 2>&1 && res_demo_without=pass || res_demo_without=fail
rm -f $TARGET
# plain apply first; if /repo has moved on since the change was written (fix: commits), fall back to a 3-way merge
( cd $WT && git apply $DST/patch.diff 2>/dev/null ) || ( cd $WT && git apply -3 $DST/patch.diff && git reset -q ) || res_apply=conflict
detected=""
if [ $res_apply = ok ]; then
  cp $DST/demo_test.go $TARGET
  (cd $WT && GOFLAGS=-mod=mod GOPROXY=off timeout 1500 go build ./... ) >/dev/null 2>&1 || res_apply=nobuild
  (cd $WT && GOFLAGS=-mod=mod GOPROXY=off timeout 1500 bash -c "$RUN") > $DST/demo_with.log 2>&1 && res_demo_with=pass || res_demo_with=fail
  rm -f $TARGET
  (cd $WT && GOFLAGS=-mod=mod GOPROXY=off timeout 1500 go test -count=1 ./$PKGDIR/ ) > $DST/pkgtests.log 2>&1 && res_pkgtests=pass || res_pkgtests=fail
  echo "confirm: apply=$res_apply demo_with_change=$res_demo_with demo_without_change=$res_demo_without package_tests_with_change=$res_pkgtests"
  for c in "$@"; do
    (cd $ROOT && VERIF_REPO=$WT VERIF_EVIDENCE_DIR=$DST/evidence timeout 2400 ./check $c > $DST/check_$c.log 2>&1); rc=$?
    echo "check $c exit=$rc $(grep -c '^VIOLATION' $DST/check_$c.log) violation line(s): $(grep -m1 -A1 '^VIOLATION' $DST/check_$c.log | tail -1 | cut -c1-160)"
    [ $rc = 1 ] && detected="$detected $c"
  done
else
  echo "confirm: apply=$res_apply"
fi
python3 - <<PY
import json
p='$DST/meta.json'; m=json.load(open(p))
m['confirmed']={'apply':'$res_apply','demo_with_change':'$res_demo_with','demo_without_change':'$res_demo_without','package_tests_with_change':'$res_pkgtests'}
m['checks_run']='$*'.split()
m['detected_by']='$detected'.split()
json.dump(m,open(p,'w'),indent=1)
PY
echo "detected_by:$detected"
