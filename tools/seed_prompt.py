import json,sys
pid=sys.argv[1]
for l in open('/verif/properties.jsonl'):
    p=json.loads(l)
    if p['id']==pid: break
print(f"""You are a software engineer doing mutation-style robustness research on the Go project openfga. You have your own private git worktree of the repository at /tmp/seed_{pid} (work ONLY there; do not read or touch /repo, /verif or any other directory outside /tmp/seed_{pid} and the Go module cache; do not look for any verification tooling on this machine).

Here is a semantic property that the project is supposed to satisfy:

TITLE: {p['title']}
STATEMENT: {p['statement']}
QUANTIFIED OVER: {p['quantifier']['text']}
WHY THE EXISTING TESTS CANNOT SETTLE IT: {p['why_tests_cant']}
CODE THAT IS MEANT TO MAKE IT HOLD: {json.dumps(p['anchors']['mechanism'])}
FILES: {json.dumps(p['anchors']['files'])}

YOUR TASK: produce up to THREE different, independent, realistic source changes (each a small patch to non-test Go files of the repository, the kind of regression a plausible refactoring or "optimisation" could introduce) that each BREAK this property while the code still compiles and the project's existing tests in the affected packages still pass. Prefer changes that need something specific to manifest — an unusual input (separator-like bytes, multi-byte characters, boundary sizes, empty vs nil), a multi-step sequence of operations, a particular interleaving, or two cooperating sites that each look fine alone — NOT changes that ordinary use would expose at once. Do not modify any *_test.go file and do not add build tags.

For EACH change i (1..3) create a directory /tmp/seed_{pid}/out/m<i>/ containing:
 * patch.diff — `git diff` of the change against the worktree's HEAD (only the change, nothing else);
 * demo_test.go — a small Go test (package of your choice inside the repo, state in meta.json where it must be placed) that FAILS with the change applied and PASSES without it, demonstrating the property violation through real code (not by asserting on implementation details);
 * meta.json — {{"property": "{pid}", "summary": "...", "needs_to_manifest": "...", "demo_location": "<path relative to repo root where demo_test.go must be copied>", "demo_run": "<go test command run from the repo root>", "existing_tests_run": "<the go test command(s) you ran to confirm the existing tests of the affected packages still pass with the change>"}}.

Procedure for each change: apply it in the worktree, run `GOFLAGS=-mod=mod GOPROXY=off go build ./...` and the existing tests of every package you touched plus their obvious dependants (e.g. `GOFLAGS=-mod=mod GOPROXY=off go test -count=1 ./pkg/tuple/... ./pkg/storage/...`; the machine is offline, never try to download anything), make sure they pass, run your demo test and see it FAIL, save the files, then `git checkout -- .` (and remove the demo test) and confirm the demo PASSES on the unchanged tree. If existing tests catch your change, pick a different change. Keep the worktree clean at the end (only the out/ directory added). Always wrap long commands in `timeout 1500`.

Final answer: for each change, one paragraph: what it changes, why the property breaks, what input/sequence manifests it, and the exact commands you ran with their outcomes.""")
