#!/usr/bin/env python3
"""Regenerates /verif/MANIFEST.json from checkspec.SPEC (claimed checks) and checkspec.NOT_APPLICABLE."""
import json, os, sys
ROOT = os.path.dirname(os.path.dirname(os.path.abspath(__file__)))
sys.path.insert(0, ROOT)
import checkspec

props = [json.loads(l) for l in open(os.path.join(ROOT, "properties.jsonl"))]
ids = [p["id"] for p in props]
checks = []
for pid in ids:
    s = checkspec.SPEC.get(pid)
    if not s:
        continue
    checks.append({
        "property_id": pid,
        "quick_cmd": "./check %s --tier quick" % pid,
        "thorough_cmd": "./check %s --tier thorough" % pid,
        "evidence_file": "/verif/evidence/%s.json" % pid,
        "replay_cmd_template": "./check --replay {path}",
        "engine": "gosmt",
        "level_claimed": {"category": "model_checking", "text": s["level_text"], "design_ref": s.get("design_ref", "DESIGN.md §4 " + pid)},
        "level_note": s["level_note"],
        "technique": s.get("technique", "bounded symbolic execution of go/ssa into SMT-LIB2 bit-vectors (guarded path merging + forked choices), decided by z3; models replayed natively"),
    })
na = []
for pid in ids:
    if pid in checkspec.SPEC:
        continue
    na.append({"property_id": pid, "reason": checkspec.NOT_APPLICABLE.get(pid, "check not built yet in this session (planned in DESIGN.md §4; not claimed until it runs clean)")})
m = {
    "version": 1,
    "setup_cmd": "cd /verif/gosmt && GOFLAGS=-mod=mod GOPROXY=off GOSUMDB=off GOTOOLCHAIN=local go1.26.8 build -o /verif/bin/gosmt .",
    "hooks": {"guard": "verif", "enable": checkspec.HOOKS_ENABLE, "baseline_off_cmd": "cd /repo && GOFLAGS=-mod=mod go test -vet=off -count=1 -timeout 25m ./...",
              "source_commits": checkspec.HOOK_COMMITS, "add_only": True},
    "engines": [{"name": "gosmt", "path": "/verif/gosmt", "serves_properties": [c["property_id"] for c in checks],
                 "kind_free_text": "own go/ssa symbolic executor: guarded (CBMC-style) merged execution of the real SSA into SMT-LIB2 bit-vector terms, z3 5.1.0 over a pipe, re-execution DFS for forked choices, cooperative goroutine model, native replay of every model"}],
    "checks": checks,
    "not_applicable": na,
    "notes": checkspec.NOTES,
}
json.dump(m, open(os.path.join(ROOT, "MANIFEST.json"), "w"), indent=1)
print("claimed:", [c["property_id"] for c in checks])
