#!/bin/sh
# Regenerates harness/internal/vtmodels/models_gen.go from models/*.fga using the repo's own DSL transformer.
set -e
ROOT=$(cd "$(dirname "$0")/.." && pwd)
TD=$(mktemp -d /tmp/verif-modelgen-XXXX)
trap 'rm -rf "$TD"' EXIT
cat > "$TD/ov.json" <<EOT
{"Replace": {"/repo/cmd/zz_verif_modelgen/main.go": "$ROOT/tools/modelgen/main.go"}}
EOT
(cd /repo && GOFLAGS=-mod=mod GOPROXY=off go build -overlay "$TD/ov.json" -o "$TD/modelgen" ./cmd/zz_verif_modelgen)
mkdir -p "$ROOT/harness/internal/vtmodels"
"$TD/modelgen" "$ROOT/models" "$ROOT/harness/internal/vtmodels/models_gen.go"
