#!/opt/veriftools/pyvenv/bin/python3
import json, jsonschema, sys, glob
jsonschema.validate(json.load(open('/verif/MANIFEST.json')), json.load(open('/root/.vp/MANIFEST.schema.json')))
es = json.load(open('/root/.vp/EVIDENCE.schema.json'))
for f in glob.glob('/verif/evidence/*.json'):
    jsonschema.validate(json.load(open(f)), es)
print('manifest + %d evidence files valid' % len(glob.glob('/verif/evidence/*.json')))
