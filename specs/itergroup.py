"""Iterator group: C23 (iterator adapters), C09 (iterator caches: sequential kernels, life cycle, shared clones)."""
from specs.common import J

ITER = "internal/iterator"
STO = "pkg/storage"
SW = "pkg/storage/storagewrappers"
SHARED = "pkg/storage/storagewrappers/sharediterator"


def c23(tier, seed):
    q = tier == "quick"
    n = 3 if q else 4          # total number of items over all inputs (harnesses with many forks)
    nl = 3 if q else 5         # same, for the cheap harnesses
    big = dict(timeout_ms=120000 if q else 600000, max_paths=20000 if q else 400000)
    jobs = [
        # internal/iterator (generic adapters instantiated at int; SkipTo/Stream/FromChannel at string)
        J(ITER, "VerifK23Merge", n=nl, v=4, err=1, **big),
        J(ITER, "VerifK23MergeSorted", n=nl, v=4, **big),
        J(ITER, "VerifK23Concat", n=nl, v=3, fork_all=True, **big),
        J(ITER, "VerifK23Filter", n=n, f=2, fork_all=True, **big),
        J(ITER, "VerifK23Validate", n=nl, **big),
        J(ITER, "VerifK23ValidateNil", n=nl, **big),
        J(ITER, "VerifK23SkipTo", n=nl, **big),
        J(ITER, "VerifK23FromChannel", n=nl, msgs=2 if q else 3, peek=0, fork_all=True, **big),
        J(ITER, "VerifK23FromChannel", n=nl, msgs=2 if q else 3, peek=1, fork_all=True, **big),
        J(ITER, "VerifK23Stream", n=n, msgs=2 if q else 3, fork_all=True, **big),
        J(ITER, "VerifK23StreamSkipDrain", n=nl, **big),
        J(ITER, "VerifK23FanIn", chans=2 if q else 3, msgs=2 if q else 3, fork_all=True, **big),
        # pkg/storage/tuple_iterators.go
        J(STO, "VerifK23Combined", n=n, v=3, fork_all=True, **big),
        J(STO, "VerifK23OrderedCombined", n=n, v=3, err=0, fork_all=True, **big),
        J(STO, "VerifK23OrderedCombined", n=n, v=2, err=1, fork_all=True, **big),
        J(STO, "VerifK23OrderedCombined", n=n - 1, v=3, err=1, fork_all=True, **big),
        J(STO, "VerifK23TupleKeyIterator", n=nl, fork_all=True, **big),
        J(STO, "VerifK23Static", n=n, fork_all=True, **big),
        J(STO, "VerifK23Filtered", n=n, fork_all=True, **big),
        J(STO, "VerifK23ConditionsFiltered", n=n, fork_all=True, **big),
    ]
    if not q:
        jobs.append(J(STO, "VerifK23OrderedCombined", n=4, v=4, err=0, fork_all=True, **big))
    for kind in range(4):
        jobs.append(J(ITER, "VerifK23StopThenNext", n=nl, kind=kind, fork_all=True, **big))
        jobs.append(J(STO, "VerifK23StopThenNext", n=n, kind=kind, fork_all=True, **big))
    # shared iterator: every consumer sees the complete sequence however the others interleave, stop or get cancelled
    jobs.append(J(SHARED, "VerifK09dSharedClones", n=2, ops=4 if q else 5, **big))
    jobs += shared_cancel(tier)
    return jobs


def c09(tier, seed):
    q = tier == "quick"
    big = dict(timeout_ms=120000 if q else 600000, max_paths=20000 if q else 400000)
    jobs = [
        J(SW, "VerifK09bRoundTrip", len=1 if q else 2, **big),
        J(SW, "VerifK09bRoundTrip", len=2 if q else 3, ascii=1, **big),
        J(SW, "VerifK09bRoundTripV2", len=2 if q else 3, **big),
        J(SW, "VerifK09cFindInCache", t=4 if q else 6, **big),
        J(SW, "VerifK09cTryGetFromCacheV2", t=4 if q else 6, **big),
    ]
    for api in range(3):
        jobs.append(J(SW, "VerifK09aLifeCycle", n=2 if q else 3, api=api, **big))
        jobs.append(J(SW, "VerifK09aLifeCycleV2", n=2 if q else 3, api=api, **big))
    # the request is cancelled INSIDE a datastore read (the row is already consumed from the datastore iterator)
    jobs.append(J(SW, "VerifK09aLifeCycle", n=2, api=0, inside=1, **big))
    jobs.append(J(SW, "VerifK09aLifeCycleV2", n=2, api=0, inside=1, **big))
    if not q:
        for api in (1, 2):
            jobs.append(J(SW, "VerifK09aLifeCycle", n=2, api=api, inside=1, **big))
    for n in range(3 if q else 4):
        jobs.append(J(SHARED, "VerifK09dSharedClones", n=n, ops=4 if q else 5, **big))
    jobs += shared_cancel(tier)
    return jobs


def shared_cancel(tier):
    # one clone's request is cancelled in the middle of a datastore read it triggered; the other clone is healthy
    q = tier == "quick"
    big = dict(timeout_ms=120000 if q else 600000, max_paths=20000 if q else 400000)
    return [J(SHARED, "VerifK09eCancelDuringFetch", n=n, ops=3 if q else 5, **big) for n in ((1, 2) if q else (1, 2, 3))]


SPEC = {
    "C23": {
        "jobs": c23,
        "level_text": "bounded symbolic execution of the real SSA of every iterator adapter in pkg/storage/tuple_iterators.go (combined, ordered-combined, filtered, conditions-filtered, tuple-key, static) and internal/iterator (Merge, Concat, Filter, Validate, SkipTo, FromChannel, Stream/Streams, FanInIteratorChannels) over harness stub inputs: 1-3 inputs with symbolic keys (picked from an ordered vocabulary, ordered inputs assumed sorted), an error injected at a symbolic position of every input, symbolic filter verdicts per element (accept/reject/error A/error B) and a symbolic mix of Head and Next calls; the drained sequence is compared with a short reference (concatenation; strictly ascending sequence with the union key set = sorted de-duplicated merge, prefix of it when an input fails; accepted elements in order with 'last filter error only if nothing was valid'); Head announces what Next returns and does not consume, ErrIteratorDone is sticky, Stop is idempotent, stops every input and is followed by ErrIteratorDone",
        "level_note": "bounds: total items over all inputs <= 3 (quick) / 4-5 (thorough), vocabulary 2-4 keys, <= 2/3 channel messages, 2/3 fan-in channels; each harness run enumerates the structure (lengths, error positions where forked) and keeps keys/verdicts/Head-Next mix symbolic; most runs use the engine's fork-at-every-branch mode (every path concrete in control flow, data symbolic); FanIn is checked under the engine's deterministic cooperative schedule only (one interleaving per structure) and natively on replay; shared-iterator clones: K09d (every sequence of whole Next/Head/Stop calls of two clones, inner length 2) and K09e (one clone's request context cancelled inside the datastore read it triggered, at a solver-chosen read; inner length 1-2 (1-3), 3 (5) calls); trusted: go/ssa, engine instruction semantics, sync/channel/goroutine model, z3",
        "assumptions": [
            "input iterators honour the Iterator contract: errors are persistent and do not consume, ErrIteratorDone after the end and after Stop, Head does not consume",
            "ordered inputs are sorted ascending by the mapper/compare function (Merge: no duplicates inside one input for the strict-ascending check; duplicates inside an input are covered by the sortedness-only harness)",
            "filter/validator callbacks are deterministic functions of the element",
            "otel/prometheus calls are no-ops; conc pool and context are executed from their sources",
        ],
        "outside": [
            "sub-call interleavings of shared iterator clones (inside await.Do/fetchMore)",
            "checkutil condition filter callbacks (CEL evaluation); the ConditionsFilteredTupleKeyIterator around them is covered with symbolic verdicts",
            "schedules of FanInIteratorChannels other than the engine's deterministic one; cancellation racing with fan-in sends",
            "sequences longer than the stated bounds",
        ],
    },
    "C09": {
        "jobs": c09,
        "level_text": "bounded symbolic execution of both iterator caches in pkg/storage/storagewrappers (CachedDatastore/cachedIterator/cachedTupleIterator and CachedTupleReader/CachingIterator/LockFreeCachedIterator) with a harness cache and a harness datastore iterator, and of sharediterator.sharedIterator: (K09b) addToBuffer∘buildTuple and flush∘reconstruct are the identity on every valid tuple for every combination of the four elision parameters consistent with the query; (K09c) findInCache/isInvalidAt/tryGetFromCache hit exactly when the entry is present, of the right type and not older than the store marker nor any entity marker, and delete invalidated entries; (K09a) full life cycle through the public Read/ReadUsersetTuples/ReadStartingWithUser: a consumer doing a symbolic number of Head/Next calls with the request context cancelled at a symbolic step, an error injected at a symbolic position, Stop (twice), the real background goroutine + singleflight drain, optional datastore-context cancellation, small/large maxResultSize: if the cache was written the entry is the COMPLETE datastore sequence stamped with the query start, nothing is stored after a non-cancellation error or above maxResultSize, and a second identical query served from the cache yields exactly the datastore's tuples; (K09d) two clones plus the storage handle of a shared iterator driven by every sequence of whole Next/Head/Stop calls up to the bound: each live clone sees the complete inner sequence then the inner terminal error, the inner iterator is stopped exactly once when the last handle stops, and every inner item is fetched once; (K09e) one clone's request context is cancelled inside the datastore read it triggered (solver-chosen read position): the clone with the live context still sees the complete sequence and ErrIteratorDone",
        "level_note": "bounds: tuple parts <= 1 arbitrary byte / <= 2 ASCII bytes (quick), 2 / 3 (thorough); invalidation instants in 0..4 (0..6), <= 2 entity markers; life cycle: <= 2 (quick) / 3 (thorough) tuples from a small vocabulary consistent with the query, consumer calls <= n+1, one background goroutine per iterator run to completion by the engine's cooperative scheduler (after Stop; sequentially consistent at the granularity of blocking operations); shared clones: inner length 0..2 (0..3), every call sequence of length 4 (5) over 7 call kinds, error position enumerated; cache TTL expiry not modelled (entries never expire); trusted: go/ssa, engine instruction semantics, sync/goroutine/context/singleflight-from-source model, abstract clock, z3",
        "assumptions": [
            "the datastore iterator reports the context's error when called with a cancelled context and does not consume on error",
            "tuples returned by a query match the query (object/relation/user type), and Read is called with a relation and a full object (CachedTupleReader.Read has no guard for other shapes, CachedDatastore.Read bypasses the cache for them)",
            "time.Now is non-decreasing (abstract clock); timestamppb is the identity on abstract instants",
            "prometheus/otel/zap calls are no-ops",
        ],
        "outside": [
            "concurrent fills of the same key by several iterators (singleflight sharing, data race between consumer and background goroutine on the buffer)",
            "sub-call interleavings of shared iterator clones (inside await.Do/fetchMore), IteratorDatastore admission/idle timers",
            "TTL/jitter expiry of entries versus markers (C11)",
            "end-to-end Check/ListObjects answers through RequestStorageWrapper",
        ],
    },
}
