"""Checks of the 'logic' group: C26 (access control), C07 (batch check), C25 (conditions), C32 (AuthZEN)."""
from specs.common import J

AUTHZ = "internal/authz"
SERVER = "pkg/server"


def c26(tier, seed):
    q = tier == "quick"
    jobs = [
        J(AUTHZ, "VerifK26aAuthorize", mods=2 if q else 3, cid=2 if q else 4),
        J(AUTHZ, "VerifK26aSystemLevel", cid=2 if q else 4),
        J(AUTHZ, "VerifK26aListAuthorizedStores", cid=2 if q else 4),
        J(AUTHZ, "VerifK26cModulesForWrite", writes=2, deletes=1),
        J(SERVER, "VerifK26bListStores", stores=3, granted=2),
        J(SERVER, "VerifK26dDenyGate"),
    ]
    if not q:
        jobs.append(J(AUTHZ, "VerifK26cModulesForWrite", writes=3, deletes=2, timeout_ms=600000))
        jobs.append(J(SERVER, "VerifK26bListStores", stores=3, granted=3, timeout_ms=600000))
    return jobs


CMDS = "pkg/server/commands"
EVAL = "internal/condition/eval"


def c07(tier, seed):
    q = tier == "quick"
    # seed = the pinned per-process digest seed (keys.Seed); the real XXH64 is computed on the real key bytes
    jobs = [J(CMDS, "VerifK07BatchCheck", max=2, idlen=1, conc=2, seed=7 + seed, timeout_ms=120000),
            # three items: duplicates interleaved with another item (A, B, A)
            J(CMDS, "VerifK07BatchCheck", max=3, idlen=1, conc=2, seed=8 + seed, timeout_ms=120000, job_timeout_s=2400)]
    if not q:
        jobs.append(J(CMDS, "VerifK07BatchCheck", max=2, idlen=2, conc=1, seed=12345 + seed, timeout_ms=300000))
        jobs.append(J(CMDS, "VerifK07BatchCheck", max=3, idlen=2, conc=2, seed=99 + seed, timeout_ms=1500000))
    return jobs


def c25(tier, seed):
    q = tier == "quick"
    return [J(EVAL, "VerifK25TupleCondition", len=2 if q else 4)]


def c32(tier, seed):
    q = tier == "quick"
    jobs = [
        J(SERVER, "VerifK32aBuildCheckRequest", len=2 if q else 4),
        J(SERVER, "VerifK32bEvaluations", n=2, timeout_ms=120000),
        J(SERVER, "VerifK32cSearch"),
    ]
    if not q:
        jobs.append(J(SERVER, "VerifK32bEvaluations", n=3, timeout_ms=900000))
    return jobs


SPEC = {
    "C07": {
        "jobs": c07,
        "level_text": "bounded symbolic execution of the real BatchCheckQuery.Execute (size and correlation-id validation, de-duplication by the real sub-problem cache key with the real XXH64 digest, conc pool goroutines, sync.Map, fan-out to correlation ids, metadata sums) with the Checker seam implemented by an arbitrary function of the item's inputs (symbolic allowed/error bit per distinct (tuple, contextual tuples, context)); items are drawn from a vocabulary whose entries differ pairwise in exactly one input component (user, relation, object, contextual tuples, context key value, empty-vs-absent context), correlation ids are symbolic strings. Shown: empty/oversized batches and empty/duplicate ids are rejected before any check runs; otherwise the result map has exactly the submitted ids, the outcome under id_i is the verdict (or error) of item_i, every distinct input is checked exactly once, DuplicateCheckCount / query / dispatch totals are those of the distinct checks",
        "level_note": "bounds: batches of 0..max+1 items with max=2 (quick) / 3, 8-entry input vocabulary (all pairs/triples incl. duplicates), correlation ids <= 1 / 2 symbolic ASCII bytes (emptiness and equality forked), pool width 1 or 2, digest seed pinned to a concrete value per job (digest collisions are excluded by the property; C24 covers key injectivity); trusted: engine semantics incl. its cooperative goroutine model, z3",
        "assumptions": [
            "the individual Check is a function of (tuple, contextual tuples, context) - its own correctness is C01",
            "keys.Seed pinned (the package documents that tests may do so)",
            "an empty context struct and an absent context are the same input",
        ],
        "outside": ["Server.BatchCheck's transport mapping of outcomes to protobuf results", "xxhash collisions", "batches larger than the bound"],
    },
    "C25": {
        "jobs": c25,
        "level_text": "bounded symbolic execution of the real EvaluateTupleCondition, EvaluableCondition.Evaluate and CastContextToTypedParameters with the CEL program replaced by a recorder that answers with symbolic bits (evaluation error / unknown / verdict): for a condition with two declared string parameters and every combination of each parameter being absent, a symbolic string or a mistyped value in the request context and in the tuple context, the variables handed to CEL are exactly request-context overlaid by tuple-context (tuple wins, also over a mistyped request value), a mistyped merged value fails before CEL runs, a declared parameter absent from both contexts always yields an error (never true, whatever CEL answers), CEL errors are errors, unknown with all parameters present is 'not met', otherwise the verdict is returned unchanged; tuples without condition are satisfied without evaluation; a missing or differently named condition is an error",
        "level_note": "bounds: 2 declared parameters, values <= 2 (quick) / 4 symbolic ASCII bytes, optional undeclared extra key, request/tuple context nil or present; under the engine CEL compilation, (*cel.Env).PartialVars (contract: name bound iff in the typed-parameter map) and the parameter-type registry (string type: identity-or-error) are replaced, natively (replay) they are the real ones and only the program is swapped; trusted: engine semantics, z3",
        "assumptions": [
            "CEL evaluates the compiled expression over the variables it is handed (CEL itself is outside)",
            "PartialVars binds exactly the names present in the typed-parameter map",
            "the string parameter converter is identity on strings and an error otherwise (converters.go)",
        ],
        "outside": ["CEL semantics, cost limits, interrupt frequency", "converters of the non-string parameter types (internal/condition/types)", "condition compilation errors"],
    },
    "C32": {
        "jobs": c32,
        # Under the engine Server.Check / BatchCheck / ListUsers / StreamedListObjects are replaced by functions that
        # assert the MAPPED request and answer from symbolic bits; natively the same harness runs a real server, which
        # can confirm wrong decisions but not a wrongly mapped request. A counterexample is therefore reported from
        # the engine run itself (the solver's model and the failed assertion), without the native confirmation step.
        "replay": "engine",
        "level_text": "bounded symbolic execution of the real AuthZEN handlers (Evaluation, Evaluations incl. evaluateAll and evaluateWithShortCircuit, resolveEvalFields, buildCheckRequest, mergePropertiesToContext, SubjectSearch, ResourceSearch, objectCollector) with the native Check/BatchCheck/ListUsers/StreamedListObjects replaced by an arbitrary function of the mapped request (symbolic bits per mapped tuple; a bogus relation fails): the mapped request is <subject.type>:<subject.id> / action.name / <resource.type>:<resource.id> with item-level fields overriding top-level ones, its context is the prefixed subject/resource/action properties overlaid by the (item, else top-level) request context; decision i equals the native answer for mapped request i (index-faithful through BatchCheck correlation ids), native errors become deny + error context, deny_on_first_deny / permit_on_first_permit answer exactly the prefix up to the first deny / permit and issue exactly that many native checks; search results are exactly the native results re-typed (wildcard as id \"*\"). Natively (replay) the real server with a memory datastore, a real model and one tuple per true bit is used end to end",
        "level_note": "bounds: 0..2 (quick) / 3 evaluation items of 6 kinds (inherit all, own subject, own resource, own action, failing action, own resource+action+context), 4 semantics values, top-level context present/absent, 8 symbolic native answers; mapping harness: ids <= 2/4 symbolic ASCII bytes, every presence combination of properties/context and of overriding keys; searches: 4 symbolic native facts; request validation (regex) and HTTP status tables (NewEncodedError) replaced under the engine; trusted: engine semantics, z3",
        "assumptions": [
            "native Check/BatchCheck/ListUsers/StreamedListObjects are functions of their request (their correctness is C01/C05/C06/C07)",
            "request validation has passed (generated validators are regex code)",
        ],
        "outside": ["feature-flag plumbing", "HTTP status mapping tables", "ActionSearch", "pagination of searches", "authorization-model-id header parsing (regex)"],
    },
    "C26": {
        "jobs": c26,
        "level_text": "bounded symbolic execution of the real Authorizer (Authorize, AuthorizeCreateStore, AuthorizeListStores, ListAuthorizedStores, individualAuthorize, moduleAuthorize incl. its goroutines, getRelation, GetModulesForWriteRequest/extractModulesFromTuples over the real typesystem) against an access-control store whose Check answer is an uninterpreted function (allowed bit and error bit) of (relation, object): for every API method, caller kind (no claims / empty client id / arbitrary client id), module list and answer function the call is authorized exactly when the caller is identified and the store-level grant is allowed without error or 1..MaxModulesInRequest modules are all allowed without error; every delegated request addresses the control store, names application:<client id>, the documented relation of the method, the right object and contextual tuples, and carries the skip-authz marker. Server.ListStores is executed end to end (real Authorizer, ListStoresQuery, memory backend) with a symbolic set of granted store ids: every returned store must be granted. (K26d) every RPC entry point of the real Server - Check, BatchCheck, ListObjects, StreamedListObjects, ListUsers, Expand, Read, Write, ReadChanges, Read/WriteAuthorizationModel(s), Read/WriteAssertions, Get/Delete/CreateStore and the AuthZEN Evaluation, Evaluations (all three semantics, 3 items), Subject/Resource/ActionSearch - is executed with the real Authorizer for a caller that is not entitled (control store denies / fails / would allow but the call has no client identity): the handler returns an error (an error per item for short-circuit Evaluations), no decision or data, and reaches neither the datastore (nil-backed stub: any access panics and is recorded) nor the model resolver (Write excepted: it needs the model to find the modules)",
        "level_note": "bounds: 19 method values (18 + unknown), 0..2 (quick) / 3 modules incl. a duplicated module, client id <= 2/4 ASCII bytes, control-store answers fork per asked (relation, object); ListStores: 0..3 stores in memory, 0..2/3 granted ids out of {A,B,C,unknown}, skip-authz and can_call_list_stores bits; write requests of <= 2+1 (quick) / 3+2 tuples over a 6-entry vocabulary (module from type, module from relation, shared module, no module, unknown relation, unknown type); request validation (regex) replaced by 'already validated' under the engine, real natively; trusted: engine semantics, z3",
        "assumptions": [
            "the access-control store's Check/ListObjects are functions of the request (stubbed ServerInterface); their own correctness is C01/C05",
            "otel / grpc ctxtags / logger calls are no-ops",
            "context.WithValue modelled as &valueCtx{parent,key,val} (key comparability check skipped)",
        ],
        "outside": [
            "K26d uses one well-formed request per handler (request shapes are not symbolic); handlers are gated for the three non-entitled caller kinds, the positive direction (entitled callers are served) is not executed end to end",
            "SQL backends' ListStores id filter (query strings)",
            "more than 3 modules / stores",
        ],
    },
}
