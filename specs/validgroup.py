"""Checks of the 'valid' group: C18 (tuple validation = what the model allows), C19 (hostile input never
panics), and the K24b part of C24 (cache-key constructors above the Builder), exported as c24b()."""
from specs.common import J

VAL = "internal/validation"
CMDS = "pkg/server/commands"
TUP = "pkg/tuple"
KEYS = "pkg/storage/cache/keys"
STO = "pkg/storage"
GRAPH = "internal/graph"
ENC = "pkg/encoder"
TS = "pkg/typesystem"

# models of the family that exercise a distinct validation rule each, plus the K18-specific "k18mix"
# (conditioned and unconditioned restrictions of one user type side by side, see zz_verif_k18.go)
K18_MODELS = ["k18mix", "condition_userset", "condition", "wildcard", "ttu", "userset", "computed_chain", "userset_ttu_mix"]
K18_MORE_MODELS = ["ttu_excl", "exclusion", "intersection", "union_computed", "userset_flat", "direct", "inter_excl", "rec_intersection", "shared_tuples", "h6"]
K18MIX_BASES = 11  # base tuples of k18mix (one per type restriction + one for the computed-only relation)


def c18(tier, seed):
    q = tier == "quick"
    jobs = []
    # K18a: complete vocabulary product, concrete (write- and read-side validators against the reference)
    for m in K18_MODELS + ([] if q else K18_MORE_MODELS):
        jobs.append(J(VAL, "VerifK18aVocabulary", model=m, ids=2 if q else 3, unwind=40, timeout_ms=60000))
    # K18d: alphabet enumeration at every free position (split by position: jobs run in parallel)
    for free in range(1, 10):
        jobs.append(J(VAL, "VerifK18dAlphabet", model="k18mix", chars=2, free=free, unwind=40))
    for m in ["condition_userset", "ttu", "userset"] + ([] if q else ["wildcard", "userset_ttu_mix", "computed_chain"]):
        jobs.append(J(VAL, "VerifK18dAlphabet", model=m, chars=1 if q else 2, unwind=40))
    # K18b: one position is an arbitrary byte string (fixed length per path, all lengths 0..len[+2])
    jobs.append(J(VAL, "VerifK18bFree", model="k18mix", free=0, unwind=40))
    jobs.append(J(VAL, "VerifK18bFree", model="k18mix", free=0, conds=1, unwind=40))
    ln = 2 if q else 3
    for free in (1, 3, 8, 9):  # whole object, relation, condition name, object type
        for base in range(K18MIX_BASES):
            jobs.append(J(VAL, "VerifK18bFree", model="k18mix", free=free, base=base, len=ln, unwind=40, timeout_ms=60000))
    for base in ((1, 4, 8) if q else range(K18MIX_BASES)):  # userset relation appended to the base user
        jobs.append(J(VAL, "VerifK18bFree", model="k18mix", free=7, base=base, len=2, unwind=40, timeout_ms=60000))
    if not q:
        for base in (0, 3, 7, 9):  # whole user / user type, object-form bases
            jobs.append(J(VAL, "VerifK18bFree", model="k18mix", free=4, base=base, len=2, unwind=40, timeout_ms=120000))
            jobs.append(J(VAL, "VerifK18bFree", model="k18mix", free=5, base=base, len=2, unwind=40, timeout_ms=120000))
        for m in ("condition_userset", "ttu"):
            for free in (1, 3, 8, 9):
                jobs.append(J(VAL, "VerifK18bFree", model=m, free=free, len=2, unwind=40, timeout_ms=60000))
    # K18c: condition context (declared / undeclared / mistyped parameters, control characters)
    for m in ("k18mix", "condition_userset", "condition"):
        jobs.append(J(VAL, "VerifK18cContext", model=m, unwind=40))
    # K18e: the write command (implicit tuples, context size limit, rejected write changes nothing)
    jobs.append(J(CMDS, "VerifK18eWriteCommand", model="userset", ids=3, unwind=40))
    jobs.append(J(CMDS, "VerifK18eWriteCommand", model="k18mix", ids=2 if q else 3, conds=1, unwind=40))
    if not q:
        jobs.append(J(CMDS, "VerifK18eWriteCommand", model="userset_ttu_mix", ids=3, unwind=40))
        jobs.append(J(CMDS, "VerifK18eWriteCommand", model="condition_userset", ids=3, unwind=40))
    jobs.append(J(CMDS, "VerifK18eContextSize", model="k18mix", rel="viewer", unwind=40))
    jobs.append(J(CMDS, "VerifK18eContextSize", model="condition", rel="viewer", unwind=40))
    # model k18self: `group#member: [user, group#member, group#member with c1]` (a conditioned userset of itself) and
    # parameters of type int / any / bool / string: implicit tuples with a condition, null context values
    jobs.append(J(CMDS, "VerifK18eWriteCommand", model="k18self", ids=3, conds=1, unwind=40))
    jobs.append(J(VAL, "VerifK18nNullContext", model="k18self", unwind=40))
    jobs.append(J(VAL, "VerifK18nNullContext", model="k18mix", unwind=40))
    jobs.append(J(VAL, "VerifK18aVocabulary", model="k18self", ids=3, unwind=40))
    return jobs


def c24b(tier, seed):
    """K24b job list (to be appended to C24's jobs by the lead)."""
    q = tier == "quick"
    jobs = [
        J(KEYS, "VerifK24bPbValueInjective", depth=1, w=1, str=2, timeout_ms=60000),
        J(KEYS, "VerifK24bPbValuePermute", depth=0 if q else 1, w=1, str=2, fields=2, timeout_ms=60000),
        J(KEYS, "VerifK24bTupleInjective", depth=0, str=1, fixoru=1, kinds=5, timeout_ms=60000),
        J(KEYS, "VerifK24bTupleSequence", str=1, fixoru=1, seq=2, timeout_ms=60000),
        J(STO, "VerifK24bInvariantInjective", str=1, tuples=1, timeout_ms=60000),
        J(STO, "VerifK24bInvariantPermute", str=2, tuples=3, timeout_ms=60000),
        J(STO, "VerifK24bCheckCacheKey", str=1 if q else 2, timeout_ms=120000),
        J(STO, "VerifK24bReadKey", str=1, conds=2, timeout_ms=60000),
        J(STO, "VerifK24bReadUsersetTuplesKey", str=1, refs=1, conds=0, timeout_ms=60000),
        J(STO, "VerifK24bReadStartingWithUserKey", str=1, ufs=1, oids=1, conds=0, timeout_ms=60000),
        J(STO, "VerifK24bFamiliesDisjoint", str=1 if q else 2, timeout_ms=60000),
    ]
    # the same contextual tuple may be listed more than once (nothing rejects that): soundness of the invariant key
    # over such requests, two tuples per side, shape space split by pins
    d1 = J(STO, "VerifK24bInvariantInjective", str=1, tuples=2, dups=1, timeout_ms=120000, max_paths=40000)
    d1["params"].update({"pin.an": 2, "pin.bn": 0})
    d2 = J(STO, "VerifK24bInvariantInjective", str=1, tuples=2, dups=1, timeout_ms=120000, max_paths=40000)
    d2["params"].update({"pin.an": 2, "pin.bn": 2, "pin.actx": 0, "pin.bctx": 0, "pin.at0shape": 2, "pin.at1shape": 2, "pin.bt0shape": 2, "pin.bt1shape": 2})
    jobs += [d1, d2]
    if not q:
        d3 = J(STO, "VerifK24bInvariantInjective", str=1, tuples=2, dups=1, timeout_ms=120000, max_paths=40000)
        d3["params"].update({"pin.an": 2, "pin.bn": 1})
        jobs.append(d3)
    if not q:
        for ka in range(8):  # depth 1, two children per container: split over the kind of tree a's root
            j = J(KEYS, "VerifK24bPbValueInjective", depth=1, w=2, str=2, timeout_ms=60000)
            j["params"]["pin.ak"] = ka
            jobs.append(j)
        jobs += [
            J(KEYS, "VerifK24bPbValueInjective", depth=2, w=1, w2=1, str=2, timeout_ms=60000, max_paths=40000),
            J(KEYS, "VerifK24bTupleInjective", depth=0, str=1, fixoru=0, timeout_ms=120000),
            J(KEYS, "VerifK24bTupleInjective", depth=1, str=1, fixoru=1, kinds=5, timeout_ms=120000),
            J(STO, "VerifK24bInvariantInjective", str=1, tuples=2, timeout_ms=120000, max_paths=40000),
            J(STO, "VerifK24bReadUsersetTuplesKey", str=1, refs=2, conds=1, timeout_ms=120000),
            J(STO, "VerifK24bReadStartingWithUserKey", str=1, ufs=2, oids=2, conds=1, timeout_ms=120000),
        ]
        for j in jobs:
            j["job_timeout_s"] = 3000
    return jobs


def c19(tier, seed):
    q = tier == "quick"
    jobs = [
        # every exported function of pkg/tuple on arbitrary strings
        J(TUP, "VerifK19TuplePredicates", len=4 if q else 6, timeout_ms=60000),
        J(TUP, "VerifK19TuplePredicates", len=5 if q else 8, ascii=1, timeout_ms=60000),
        J(TUP, "VerifK19TupleSplit", len=6 if q else 8, timeout_ms=60000),
        J(TUP, "VerifK19TupleUserProto", len=2 if q else 3, timeout_ms=60000),
        J(TUP, "VerifK19TupleParse", len=7 if q else 8, timeout_ms=60000),  # the shortest parsable tuple has 7 bytes
        J(TUP, "VerifK19TupleBuild", len=2 if q else 4, timeout_ms=60000),
        J(TUP, "VerifK19TupleKeysSort", len=1 if q else 2, timeout_ms=60000),
        J(TUP, "VerifK19TupleErrors", len=2 if q else 6, timeout_ms=60000),
        # cache-key serialisation of hostile context values
        J(KEYS, "VerifK19PbValueWriteTo", depth=3, w=1 if q else 2, w2=1, w3=1, str=2, max_paths=40000),
        J(KEYS, "VerifK19TupleWriteTo", depth=1 if q else 2, w=1, fields=1 if q else 2, str=2),
        # panic capture
        J(GRAPH, "VerifK19RunHandler"),
        J(GRAPH, "VerifK19RecoverFromPanic"),
        # validators on arbitrary strings in all fields at once, nested context structs
        J(VAL, "VerifK19ValidateAnyStrings", model="k18mix", shape=0, unwind=40),
        J(VAL, "VerifK19ValidateAnyStrings", model="k18mix", shape=1, len=1 if q else 2, unwind=40, timeout_ms=60000),
        J(VAL, "VerifK19ValidateAnyStrings", model="k18mix", shape=2, len=1, unwind=40, timeout_ms=60000),
        J(VAL, "VerifK19ValidateStruct", depth=1 if q else 2, w=1, fields=1, str=2),
        # continuation tokens
        J(ENC, "VerifK19TokenDecodeAny", len=6 if q else 10, nonce=2),
        J(ENC, "VerifK19TokenDecodeAny", len=4 if q else 6, nonce=4),
        J(ENC, "VerifK19Base64DecodeAny", len=4 if q else 6, timeout_ms=60000),
        # hostile authorization models
        J(TS, "VerifK19HostileModel", nest=6),
        # condition contexts: request / tuple context absent, present without a Fields map (`"context": {}`), empty or
        # carrying values of the right / wrong type - the real merge + cast + evaluation must not panic (K25 harness)
        J("internal/condition/eval", "VerifK25TupleCondition", len=2),
    ]
    if not q:
        jobs.append(J(TUP, "VerifK19TupleParse", len=10, ascii=1, timeout_ms=120000))
        # declared types with arbitrary ids in object and user at once (about 30 s of solver time per path)
        jobs.append(J(VAL, "VerifK19ValidateAnyStrings", model="k18mix", shape=3, len=1, unwind=40, timeout_ms=60000))
        jobs.append(J(VAL, "VerifK19ValidateStruct", depth=1, w=1, fields=2, str=2))
        jobs.append(J(TS, "VerifK19HostileModel", k=29, nest=12))
        for j in jobs:
            j["job_timeout_s"] = 3000
    return jobs


SPEC = {
    "C18": {
        "jobs": c18,
        "level_text": "execution of the real validators (ValidateTupleForWrite, ValidateTupleForRead/FilterInvalidTuples, WriteCommand.Execute with validateNotImplicit and the context size check) on typesystems built by the real typesystem.NewAndValidate, against a reference predicate that reads only the model proto (object type and relation declared, user matches a type restriction as object / typed wildcard / userset, the matching restriction allows exactly the tuple's condition, tupleset relations take concrete objects, documented string shapes). (a) the complete product of the model vocabulary (declared and undeclared types, relations, ids 1/2/*, `type:id`, `type:id#rel`, bare ids, no condition / every declared / undeclared / empty condition name) is enumerated concretely by the engine's interpreter for 8 (quick) / 18 models; (b) at one position at a time (whole object, relation, condition name, object type, userset relation; thorough also whole user and user type) the field is an arbitrary byte string of every length up to the bound and the solver shows accept <=> reference for all of them, the other fields coming from one allowed tuple per type restriction; (c) all positions additionally range over every string of <= 2 symbols of a 14-symbol alphabet of separators, wildcard, blank, controls, multi-byte and invalid UTF-8; (d) condition contexts with declared / undeclared / mistyped parameters and control characters; (e) Write stores a tuple iff reference and not implicit and context size <= limit (symbolic size and limit), and a rejected write never reaches the datastore",
        "level_note": "bounds: vocabulary = all declared names + one undeclared each; free strings <= 2 (quick) / 3 bytes (whole object: +2), arbitrary bytes; alphabet strings <= 2 symbols; the id positions in the middle of a field (object id, user id) are covered by the alphabet enumeration and the vocabulary only, a symbolic string there exceeds the engine's budget (ENGINE_ISSUES.md); CEL compilation of condition expressions and parameter type conversion are replaced by their contracts under the engine (real natively); proto.Size is a symbolic int in the size check; typesystem.New is memoised in the write-command harness; trusted: go/ssa, engine semantics, z3",
        "assumptions": [
            "a userset user names a concrete object: no '*' in its id or relation (pkg/tuple's own grammar for usersets)",
            "condition parameter conversion: int parameters accept integral numbers and reject bools (converters.go), CEL compilation succeeds for the family's expressions",
            "stored tuples handed to FilterInvalidTuples have the shapes Write admits (type:id object; type:id, type:* or type:id#relation user)",
        ],
        "outside": ["parameter type conversion internals (internal/condition/types)", "schema 1.0 models", "duplicate-tuple and batch-size checks of Write", "datastore-level atomicity of a rejected batch (C-storage properties)"],
    },
    "C19": {
        "jobs": c19,
        "level_text": "panic-freedom by bounded symbolic execution (a reachable runtime panic is a violation by itself): every exported function of pkg/tuple on arbitrary byte strings; keys.PbValue.WriteTo / keys.Tuple.WriteTo on structpb value trees of depth <= 3 with every kind at every node incl. absent values, values without kind, nil lists, nil structs, nil list elements (shape forked, payloads symbolic); graph.runHandler and concurrency.RecoverFromPanic turn explicit panics and every kind of runtime panic of a handler into an error (real conc/panics.Try, panics unwind for real in the engine); all validators of internal/validation on tuples whose fields are arbitrary strings simultaneously, ValidateStruct on nested hostile contexts against a reference; continuation-token deserialisers (serializer, TokenEncoder + GCM framing around an AEAD with arbitrary verdict, the real base64 URL decoder) on arbitrary strings; typesystem.NewAndValidate / New on 36 hostile authorization models built from literals (nil rewrites and children, kind-less rewrites, empty names, dangling and self references, cycles, nesting depth 6/12, duplicate types, nil metadata / restrictions / type definitions / conditions, a nil condition under the empty key; the stand-in for CEL compilation reads the embedded condition like the real compile()); the condition evaluation path (eval.EvaluateTupleCondition -> EvaluableCondition.Evaluate: context merge, cast, missing parameters) on request / tuple contexts that are absent, present without a Fields map, empty, or carry values of the right or the wrong type (K25 harness)",
        "level_note": "bounds: strings <= 4..8 arbitrary bytes / <= 6..10 ASCII bytes per harness (listed in evidence); value trees depth 3, <= 1 (quick) / 2 children at the root, 1 below; validators: fields <= 1..2 bytes each at once; stack capture (runtime.Stack/Callers, debug.Stack) modelled as empty; the ErrPanic link of runHandler's two-%w error is checked natively only (ENGINE_ISSUES.md); whole-request protobuf decoding, memory growth and hangs are outside",
        "assumptions": ["stack capture returns no frames", "CEL compilation stubbed under the engine", "floats in value trees come from a concrete set {0, 1, -2.5}"],
        "outside": ["whole-request fuzzing through protobuf decoding and request-level field validation", "memory growth, hangs", "SQL backends", "CEL evaluation"],
    },
}

C24B = {
    "level_text": "K24b: PbValue.WriteTo is injective up to semantic equality and prefix-free on value trees (all pairs of shapes of depth <= 1, payloads symbolic), insensitive to map insertion order; Tuple.WriteTo is injective and sequences of tuples are uniquely decodable; InvariantCacheKey's pre-digest bytes (recorded at (*keys.Digest).Write) are equal iff store, model, context and the set of contextual tuples are semantically equal, and are invariant under permutation of contextual tuples and context fields; CheckCacheKey, ReadKey, ReadUsersetTuplesKey, ReadStartingWithUserKey (inner pre-digest bytes + outer key) are injective up to reordering of their filter lists; keys of different families never coincide",
    "level_note": "bounds: strings <= 1..2 bytes; filter lists <= 1 (quick) / 2 entries; contextual tuples <= 1 / 2 per side; in the composition harness every string except store/model has a fixed length (length framing is K24a's); preconditions: no two contextual tuples share object, relation and user (the dups=1 jobs drop this and claim soundness only: equal keys imply equal inputs); type/relation names contain no '#'/':' and objects no '#'; ObjectIDs nil or non-empty; numbers from a concrete set (engine keeps floats concrete)",
    "assumptions": ["digest collisions excluded (pre-digest bytes are compared)", "contextual tuples with pairwise different (object, relation, user), except in the dups=1 jobs (two tuples per side, soundness only)", "tuple grammar: no '#' in objects, no '#'/':' in type and relation names"],
}
