"""Memory-datastore group: C12, C13, C15, C16, C17, C31 (all against pkg/storage/memory/memory.go)."""
from specs.common import J

MEM = "pkg/storage/memory"


def c12(tier, seed):
    q = tier == "quick"
    jobs = []
    # the forks over (#pre-existing records, #deletes, #writes) are spread over parallel jobs; each job
    # still forks over the four option combinations and keeps tuple content symbolic
    top = 2 if q else 3
    for np_ in range(0, top + 1):
        for nd in range(0, 3):
            for nw in range(0, 3):
                if not q and np_ == 3 and nd + nw > 3:
                    continue
                jobs.append(J(MEM, "VerifK12WriteStep", np=np_, nd=nd, nw=nw, timeout_ms=120000 if q else 600000))
    return jobs


def c13(tier, seed):
    q = tier == "quick"
    n = 2 if q else 3
    t = 120000 if q else 900000
    jobs = [
        # expected to hold
        J(MEM, "VerifK13Iterator", n=3, timeout_ms=t),
        J(MEM, "VerifK13Read", api=0, n=n, conds=2, timeout_ms=t),
        J(MEM, "VerifK13Read", api=0, n=1 if q else 2, conds=1, drain=1, timeout_ms=t),
        J(MEM, "VerifK13Read", api=1, n=1 if q else 2, conds=1, timeout_ms=t),
        J(MEM, "VerifK13ReadUserTuple", n=n, conds=2, timeout_ms=t),
        J(MEM, "VerifK13ReadUsersetTuples", n=1 if q else 2, restr=2, conds=0, timeout_ms=t),
        J(MEM, "VerifK13ReadStartingWithUser", n=n, users=2, conds=2 if not q else 1, timeout_ms=t),
        # suspicions put to the solver (each isolates one input class)
        J(MEM, "VerifK13ReadUsersetTuples", n=1 if q else 2, restr=1, conds=1, timeout_ms=t),      # H4a: Conditions ignored
        J(MEM, "VerifK13ReadUsersetTuples", n=1, restr=2, conds=0, duprestr=1, timeout_ms=t),      # H4b: duplicate restrictions
        J(MEM, "VerifK13ReadUsersetTuples", n=1, restr=1, conds=0, plain=1, timeout_ms=t),         # plain-type restriction
        J(MEM, "VerifK13ReadStartingWithUser", n=1, users=2, conds=0, dupuf=1, timeout_ms=t),      # duplicate user filters
        J(MEM, "VerifK13Read", api=0, n=1, conds=1, allcond=1, timeout_ms=t),                      # Conditions with an otherwise empty filter
    ]
    return jobs


SPEC = {
    "C13": {
        "jobs": c13,
        "level_text": "",
        "level_note": "",
        "assumptions": [],
        "outside": [],
    },
    "C12": {
        "jobs": c12,
        "level_text": "bounded symbolic execution of one MemoryBackend.Write step from an arbitrary small pre-state against a reference model written in the harness",
        "level_note": "",
        "assumptions": [],
        "outside": [],
    },
}
