"""Memory-datastore group: C12, C13, C15, C16, C17, C31 (all against pkg/storage/memory/memory.go).

Harnesses: harness/pkg/storage/memory/zz_verif_k12.go, _k13.go, _k15.go, _k16.go (K16b, K17b, K31).
Library models: gosmt/intr_mem.go ((*structpb.Struct).String, ulid.Parse), gosmt/intr_sortunion.go.
"""
import os

from specs.common import J

MEM = "pkg/storage/memory"


def _write_step_jobs(harness, first, tier, extra=None):
    """One job per (history size, #deletes, #writes); jobs with 5 or more items also pin the two
    options (4 jobs) so that no single run dominates the wall clock. Tuple content is symbolic in all."""
    q = tier == "quick"
    extra = extra or {}
    jobs = []
    top = 2 if q else 3
    t = 120000 if q else 900000
    for n0 in range(0, top + 1):
        for nd in range(0, 3):
            for nw in range(0, 3):
                size = n0 + nd + nw
                if q and size > 5:
                    continue  # thorough tier only
                if n0 == 3 and nd + nw > 3:
                    continue
                p = dict(extra)
                p.update({first: n0, "nd": nd, "nw": nw})
                if size >= 5:
                    for dup in (0, 1):
                        for miss in (0, 1):
                            jobs.append(J(MEM, harness, dup=dup, miss=miss, timeout_ms=t, **p))
                else:
                    jobs.append(J(MEM, harness, timeout_ms=t, **p))
    return jobs


def c12(tier, seed):
    jobs = _write_step_jobs("VerifK12WriteStep", "np", tier)
    # "condition without context" written as nil vs as {} (both read back as {}): on_duplicate=ignore must treat them alike
    jobs.append(J(MEM, "VerifK12WriteStep", np=1, nd=0, nw=1, ctx=1, timeout_ms=120000))
    # ... and a context with a field differs from both (stored or incoming), whichever side carries it
    jobs.append(J(MEM, "VerifK12WriteStep", np=1, nd=0, nw=1, ctx=2, timeout_ms=120000))
    # the command layer: option strings of the two request sections are parsed and applied independently
    # (real WriteCommand.Execute over the real memory datastore; pre-state, sections and both strings forked)
    jobs.append(J("pkg/server/commands", "VerifK12cWriteOptions", timeout_ms=120000))
    return jobs


def c13(tier, seed):
    q = tier == "quick"
    n = 2 if q else 3
    t = 120000 if q else 900000
    jobs = [
        # expected to hold
        J(MEM, "VerifK13Iterator", n=3, timeout_ms=t),
        J(MEM, "VerifK13Read", api=0, n=n, conds=2, timeout_ms=t),
        J(MEM, "VerifK13Read", api=0, n=1 if q else 2, conds=1, drain=1, timeout_ms=t),
        J(MEM, "VerifK13Read", api=1, n=1 if q else 2, conds=1, timeout_ms=t),
        J(MEM, "VerifK13ReadUserTuple", n=n, conds=2, timeout_ms=t),
        J(MEM, "VerifK13ReadUsersetTuples", n=1 if q else 2, restr=2, conds=0, timeout_ms=t),
    ]
    if q:
        jobs.append(J(MEM, "VerifK13ReadStartingWithUser", n=2, users=2, conds=1, timeout_ms=t))
    else:
        for k in range(0, 3):  # one job per record count
            jobs.append(J(MEM, "VerifK13ReadStartingWithUser", nfix=k, users=2, conds=2, timeout_ms=t))
        # three records: one user filter and <= 1 condition name (two user filters on three records exceed the job budget)
        jobs.append(J(MEM, "VerifK13ReadStartingWithUser", nfix=3, users=1, conds=1, timeout_ms=t))
    jobs += [
        # suspicions put to the solver; each job isolates one input class and tags its messages with [case]
        J(MEM, "VerifK13ReadUsersetTuples", n=1 if q else 2, restr=1, conds=1, case="conditions", timeout_ms=t),
        J(MEM, "VerifK13ReadUsersetTuples", n=1, restr=2, conds=0, duprestr=1, case="duplicate-restrictions", timeout_ms=t),
        J(MEM, "VerifK13ReadUsersetTuples", n=1, restr=1, conds=0, plain=1, case="plain-type-restriction", timeout_ms=t),
        J(MEM, "VerifK13ReadStartingWithUser", n=1, users=2, conds=0, dupuf=1, case="duplicate-user-filters", timeout_ms=t),
        J(MEM, "VerifK13Read", api=0, n=1, conds=1, allcond=1, case="conditions-without-key", timeout_ms=t),
    ]
    return jobs


def c15(tier, seed):
    q = tier == "quick"
    jobs = []
    # users=1: two tuple keys (d:1, d:2 for user:a) x two conditions, every slot symbolic; all list-length
    # combinations that two keys admit (request items must be distinct)
    for n0 in range(0, 3):
        for nd in range(0, 3):
            for nw in range(0, 3 - nd):
                jobs.append(J(MEM, "VerifK15WriteKeepsReplay", n0=n0, nd=nd, nw=nw, users=1, timeout_ms=120000 if q else 900000))
    if not q:
        # four keys (two users as well): smaller lists
        for n0 in range(0, 3):
            for nd in range(0, 2):
                for nw in range(0, 2):
                    if n0 + nd + nw <= 3:
                        jobs.append(J(MEM, "VerifK15WriteKeepsReplay", n0=n0, nd=nd, nw=nw, users=2, timeout_ms=900000))
    n = 3 if q else 4
    t = 120000 if q else 900000
    jobs += [
        J(MEM, "VerifK15ReadChangesHorizon", n=2 if q else 3, timeout_ms=t),
        J(MEM, "VerifK15ReadChangesDesc", n=n, clock=1, timeout_ms=t),
        J(MEM, "VerifK15ReadChangesDesc", n=1, clock=0, timeout_ms=t),  # abstract (symbolic) clock: token round trip with symbolic ulids
    ]
    return jobs


def c16(tier, seed):
    q = tier == "quick"
    t = 120000 if q else 900000
    jobs = [
        J(MEM, "VerifK16bFrame", len=1 if q else 2, models=0, timeout_ms=t),
        J(MEM, "VerifK16bFrame", models=1, timeout_ms=t),
        J(MEM, "VerifK16bAssertionKey", len=2 if q else 3, bar=0, timeout_ms=t),
        # the memoizing typesystem resolver (real singleflight + key building) asked by two stores at once for the same
        # model id / for their latest model: each store gets its own model, during the race and afterwards
        J("pkg/typesystem", "VerifK16cResolverIsolation", mode="id", timeout_ms=t),
        J("pkg/typesystem", "VerifK16cResolverIsolation", mode="latest", timeout_ms=t),
        J("pkg/typesystem", "VerifK16cResolverIsolation", mode="latest", sameid=0, timeout_ms=t),
        # a deleted store is gone from GetStore and from every form of ListStores (ids filter, name filter, paging)
        J(MEM, "VerifK16dDeletedStore", timeout_ms=t),
    ]
    if os.environ.get("VERIF_EXPLORE"):
        # outside the claim (ids are ULIDs): with ids that may contain '|' the solver finds the collision
        # (store "|", model "") vs (store "", model "|") -> both keys "||"; replayed natively. Run with
        # VERIF_EXPLORE=1 ./check C16 to see it (the check then exits 1 with that VIOLATION).
        jobs.append(J(MEM, "VerifK16bAssertionKey", len=2, bar=1, timeout_ms=t))
    return jobs


def c17(tier, seed):
    q = tier == "quick"
    t = 120000 if q else 900000
    return [
        J(MEM, "VerifK17bModelHistory", n=3, len=2 if q else 3, timeout_ms=t),
        # NewAndValidate accepts the 10 valid and rejects the 34 invalid one-change mutations of a base model
        # (undefined condition / type / relation in every form of restriction, bad rewrites, tupleset rules, cycles, ...)
        J("pkg/typesystem", "VerifK17cRejectsInvalid", timeout_ms=t),
        J("pkg/typesystem", "VerifK17cRejectsInvalid", sym=1, timeout_ms=t),
        # "resolved to the latest": the model-less lookup of one store is not answered with another store's latest model
        J("pkg/typesystem", "VerifK16cResolverIsolation", mode="latest", timeout_ms=t),
    ]


def c31(tier, seed):
    q = tier == "quick"
    return [
        J(MEM, "VerifK31Assertions", n=2 if q else 3, len=2, timeout_ms=120000 if q else 900000),
        # through the commands: lists (repeats allowed) over a vocabulary whose members differ only in the expectation,
        # only in their contextual tuples or only in their context are read back element by element
        J("pkg/server/commands", "VerifK31bAssertionCommands", n=2 if q else 3, timeout_ms=120000 if q else 900000),
    ]


_TRUST = "trusted: go/ssa, the engine's instruction semantics and library models (listed in the evidence), z3"

SPEC = {
    "C12": {
        "jobs": c12,
        "level_text": "bounded symbolic execution of one MemoryBackend.Write step (real SSA of Write, sanitizeTuplesWriteDelete, match, find and pkg/tuple helpers) from an arbitrary small pre-state against a 40-line reference model in the harness: for every pre-state, delete list, write list (tuple contents symbolic) and all four on_duplicate/on_missing combinations the solver shows: error => tuples and changelog are the very same objects as before; success => tuples = (old minus deletes) followed by the new writes, exactly one change entry per effective operation (deleted tuples in store order without condition, then writes in request order with their condition), one timestamp, strictly increasing ulids; a missing delete / duplicate write fails the whole request with ErrInvalidWriteInput unless ignored; an existing tuple with another condition under ignore fails with ErrTransactionalWriteFailed",
        "level_note": "bounds: <= 2 pre-existing records, <= 2 deletes, <= 2 writes with at most 5 items together (quick) / <= 3 records and all of 2+2 (thorough); vocabulary: object d:1|d:2, relation viewer, user user:a|user:b, condition none|c1 (4 keys x 2 conditions, every slot symbolic); preconditions: stored keys pairwise distinct, no tuple twice in one request (validateNoDuplicatesAndCorrectSize); condition contexts nil except in the ctx=1 job (nil vs empty context); memory backend only. " + _TRUST,
        "assumptions": [
            "no tuple appears twice within one request (enforced by WriteCommand.validateNoDuplicatesAndCorrectSize)",
            "stored records have pairwise distinct (object, relation, user)",
            "(*structpb.Struct).String is modelled for nil (\"<nil>\") and field-less (\"\") structs only (values confirmed natively)",
            "ulid.MustNew = abstract instant + strictly increasing counter; timestamppb.Now = fresh non-decreasing abstract instant",
            "the order of delete entries inside one Write is not part of the contract (memory logs them in store order)",
        ],
        "outside": ["SQL transaction, crash and connection-failure points (not encodable)", "concurrent Writes (single mutex, not explored here)", "non-empty condition contexts", "WriteCommand option parsing (parseOptionOnDuplicate/OnMissing) until registered", "more than 3 records / 2 deletes / 2 writes"],
    },
    "C13": {
        "jobs": c13,
        "level_text": "bounded symbolic execution of MemoryBackend.Read / ReadPage / ReadUserTuple / ReadUsersetTuples / ReadStartingWithUser (real SSA incl. match and the pkg/tuple classification helpers) on <= N records with symbolic content and symbolic filters against reference predicates written in the harness from the doc comments of pkg/storage/storage.go (and the SQL WHERE clauses read by hand): the result is, as a multiset, exactly the records that satisfy the documented meaning of the filter (each once), ReadUserTuple reports ErrNotFound exactly when none does, ReadStartingWithUser is in ascending object order; the iterator protocol and the AsTuple rendering (condition name round trip) are checked separately. Five input classes on which the memory backend deviates are isolated in jobs of their own and are reported as findings",
        "level_note": "bounds: N = 2 records (quick) / 3 (thorough), ReadUsersetTuples 1 / 2, ReadStartingWithUser 2 / 2 with two user filters and 3 with one; vocabulary: 2 object types x 2 ids x 2 relations x 7 users (user:a, user:b, user:*, g:x#m, g:y#n, g:*, h:x#m) x 3 condition names (incl. none); filters: object absent / type only / complete, relation absent / set, user absent / type only / complete, Conditions lists of 0..2 names (duplicates and \"\" allowed), <= 2 userset restrictions out of g#m, g#n, h#m, g:*, user:*, <= 2 user filters, ObjectIDs nil / any subset of the ids (incl. empty); result selection is compared on record identity (iterator state), tuple contents through Next on smaller bounds (drain=1). " + _TRUST,
        "assumptions": [
            "stored records have pairwise distinct (object, relation, user)",
            "storage.SortedSet is a list-backed set in the harness (the red-black tree library is outside; the backend only calls Exists)",
            "a complete user in ReadFilter means string equality of the user field (the SQL back ends would also match usersets of that object)",
            "unicode.IsControl / UTF-8 decoding as modelled by the engine",
        ],
        "outside": ["that sqlite/postgres/mysql implement the same reference", "pagination (C14)", "records and filters outside the vocabulary, condition contexts"],
    },
    "C15": {
        "jobs": c15,
        "level_text": "bounded symbolic execution: (a) inductive step: in every state reached by Writes (one insert of <= 2 symbolic tuples, optionally a delete) replay(changes) = tuples holds, and after one more arbitrary Write (inputs of C12) it still holds and the changelog grew by exactly the number of effective operations (0 on failure); (b) ReadChanges over a history of <= N Writes at symbolic instants with an arbitrary horizon and type filter returns no change newer than now-horizon, every change older than it, only the exact object type (prefix type:), in order of occurrence, ErrNotFound exactly when nothing qualifies; (c) for every page size the SortDesc page sequence obtained by following tokens is the exact reverse of the ascending one, which is the history",
        "level_note": "bounds: (a) history <= 2 inserts + <= 1 delete, step with deletes + writes <= 2, vocabulary object d:1|d:2, user user:a, condition none|c1 (quick); thorough adds the four-key vocabulary of C12 with history + request <= 3 items; (b) N = 2 (quick) / 3 Writes, horizon 0..2^40 ns, types d / de, filter none|d|de|e, clock = engine's abstract non-decreasing 64-bit clock (the call's `now` lies between two clock readings taken by the harness); (c) N = 3 / 4 changes, page size 1..N, concrete instants 10,20,.. (ulids and tokens concrete) plus one run with symbolic instants for N = 1. " + _TRUST,
        "assumptions": [
            "ulid.MustNew = abstract instant + strictly increasing counter (monotonic entropy); timestamppb/time = one abstract non-decreasing clock",
            "ulid.Parse returns the id after parse() filled it (gc evaluation order of `return id, parse(.., &id)`; go/ssa orders it the other way, see ENGINE_ISSUES)",
            "preconditions of C12",
        ],
        "outside": ["SQL changelog", "clock going backwards between Writes (memory's horizon loop stops at the first too-new entry)", "histories longer than the bound (covered inductively for (a) only)"],
    },
    "C16": {
        "jobs": c16,
        "level_text": "bounded symbolic execution (K16b): for two stores with arbitrary distinct ids that hold a tuple with the same key, a model with the same id and assertions for that model id, every MemoryBackend mutator (Write, WriteAuthorizationModel, WriteAssertions, CreateStore, DeleteStore) called for store A leaves every read of store B (ReadPage, ReadChanges, FindLatest/ReadAuthorizationModel(s), ReadAssertions, GetStore, ListStores) unchanged - same objects - while it does take effect on A; after DeleteStore, GetStore reports ErrNotFound and ListStores omits the store; the assertion table key fmt.Sprintf(\"%s|%s\", store, model) is injective for ids without '|' (ULID alphabet). With ids that may contain '|' the solver finds the collision (store \"|\", model \"\") vs (store \"\", model \"|\"), replayed natively: outside the claim, run with VERIF_EXPLORE=1; (K16c) the real MemoizedTypesystemResolverFunc (singleflight, cache keys; only the LRU container is a table) asked by two stores concurrently - one store's datastore read is held until the other store's request has been issued - for the same model id and for their latest model: each store gets its own model during the race and on later lookups; (K16d) a deleted store is absent from GetStore and from ListStores in every form (unfiltered, by name, by ids, paged)",
        "level_note": "bounds: store ids = arbitrary byte strings <= 1 (quick) / 2 bytes (empty and '|' included) for Write, WriteAssertions, CreateStore, DeleteStore; the model mutator and model readers run with the concrete ids A and B (engine limitation: range over a map selected by a symbolic key); key injectivity: four arbitrary strings <= 2 / 3 bytes; cache keys (K16a) are a separate check. " + _TRUST,
        "assumptions": ["store and model ids are ULIDs (no '|') for the injectivity claim", "concrete instants for Writes in the frame harness (ulids concrete)"],
        "outside": ["SQL WHERE store = ?", "K16a cache-key constructors (separate harnesses)", "data left behind by DeleteStore for a re-created id (ids are never reused)"],
    },
    "C17": {
        "jobs": c17,
        "level_text": "bounded symbolic execution (K17b): over every sequence of <= 3 WriteAuthorizationModel calls into two stores (store of each write forked, model ids symbolic, pairwise distinct, models with or without type definitions): FindLatestAuthorizationModel is the last model written to that store (ErrNotFound for a store without models), ReadAuthorizationModel returns every earlier model unchanged (the very object, fields intact) in its own store only and ErrNotFound for models without types or foreign ids, ReadAuthorizationModels lists exactly the store's models in descending id order; (K17c) typesystem.NewAndValidate on 44 one-change mutations of a valid base model: the 10 valid ones are accepted, the 34 invalid ones (condition / type / relation undefined in a plain, wildcard or userset restriction, bad computed / tuple-to-userset rewrites, tupleset rules, no entry point, cycles, reserved names, duplicate types, schema 1.0, key/name mismatch of a condition) are rejected with the documented error, with the undefined condition name symbolic in a second job; the model-less ('latest') lookup of the memoizing resolver is per store (K16c)",
        "level_note": "bounds: <= 3 writes, 2 stores, ids = arbitrary non-empty byte strings <= 2 (quick) / 3 bytes; K17c: CEL compilation stubbed (real natively). " + _TRUST,
        "assumptions": ["model ids within one history are pairwise distinct and non-empty (ULIDs)"],
        "outside": ["SQL", "validation (K17a) and typesystem resolution/caching (K17c)", "ReadAuthorizationModel with an empty id (memory returns the latest model)"],
    },
    "C31": {
        "jobs": c31,
        "level_text": "bounded symbolic execution (K31): over every sequence of <= N WriteAssertions calls on 2 stores x 2 models (which pair each call addresses is symbolic, ids symbolic strings without '|', lists of 0..2 assertions with contextual tuples): ReadAssertions returns for each of the four pairs the last list written for it - the very assertion objects, hence verbatim - other pairs are unaffected and a pair never written yields an empty non-nil list",
        "level_note": "bounds: N = 2 operations (quick) / 3, ids <= 2 bytes, distinct store ids and distinct model ids; command layer (WriteAssertionsCommand/ReadAssertionsQuery) not included here. " + _TRUST,
        "assumptions": ["ids contain no '|' (ULIDs); see C16 for what happens otherwise"],
        "outside": ["SQL", "WriteAssertionsCommand / ReadAssertionsQuery mapping and validation"],
    },
}
