"""Schedule properties: C22 (queues), C21 (cycle teardown). Symbolic schedules over verifhook points."""
from specs.common import J

MPMC = "internal/containers/mpmc"
MPSC = "internal/containers/mpsc"


def c22(tier, seed):
    q = tier == "quick"
    jobs = [
        J(MPMC, "VerifB22aFIFO", budget=2 if q else 4, max_paths=20000 if q else 400000),
        J(MPMC, "VerifB22aClose", budget=2 if q else 4, max_paths=20000 if q else 400000),
        J(MPMC, "VerifB22aSendRecv", budget=1 if q else 2, senders=2, max_paths=20000 if q else 400000),
        J(MPMC, "VerifB22aFullQueue", budget=0 if q else 1, max_paths=20000 if q else 400000, job_timeout_s=900 if q else 3000),
        J(MPSC, "VerifB22cAccumulator", producers=2, budget=1 if q else 2, max_paths=20000 if q else 400000, job_timeout_s=900 if q else 3000),
        J(MPSC, "VerifB22cCloseRace", budget=1 if q else 2, max_paths=20000 if q else 400000, job_timeout_s=900 if q else 3000),
        J(MPSC, "VerifB22cSendAfterClose", budget=2 if q else 3, max_paths=20000 if q else 400000),
        J(MPMC, "VerifK22bGrowKeepsOrder"),
        J(MPMC, "VerifB22aAutoExtend", budget=2 if q else 3, max_paths=20000 if q else 400000),
        J(MPMC, "VerifB22aCloseRace", budget=1 if q else 2, max_paths=20000 if q else 400000, job_timeout_s=900 if q else 3000),
    ]
    return jobs


WORKER = "internal/listobjects/pipeline/internal/worker"


def c21(tier, seed):
    q = tier == "quick"
    jobs = [J(WORKER, "VerifB21CycleTeardown", members=2, budget=0, hops=1, max_paths=20000)]
    # the real Core.ProcessSender: every received message is released (Done) exactly once whatever processing does
    jobs.append(J(WORKER, "VerifB21bMessagesReleased", msgs=2, procs=1, max_paths=20000))
    jobs.append(J(WORKER, "VerifB21bMessagesReleased", msgs=2 if q else 3, procs=2, max_paths=200000))
    if not q:
        jobs.append(J(WORKER, "VerifB21CycleTeardown", members=2, budget=1, hops=1, max_paths=600000, job_timeout_s=3000))
        jobs.append(J(WORKER, "VerifB21CycleTeardown", members=3, budget=0, hops=1, max_paths=600000, job_timeout_s=3000))
    return jobs


_SCHED_ASSUME = [
    "threads interleave only at verifhook.Point calls (placed before every synchronisation step of the kernel) and at blocking operations; code between two points runs atomically (sequentially consistent)",
    "schedules with at most `budget` preemptive switches are explored (each choice is a forked solver variable sched!k); non-preemptive switches are free",
    "a thread blocked in a sync operation resumes by itself as soon as the operation is enabled",
]

SPEC = {
    "C21": {
        "jobs": c21,
        "level_text": "bounded exploration of symbolic schedules of the real cycle-teardown code (track.StatusPool, track.Reporter, worker.Membership, worker.CycleGroup.Join): per cycle member a MAIN thread (forward input with Inc-before-enqueue, SignalReady, WaitForAllReady, leader-first ordered clean-up through Sleep/Wake) and a CYCLIC thread (drain inbox, optionally forward, Dec) mirror Basic.Execute; the thread to run at each scheduling point is a forked solver variable. Obligations on every schedule: WaitForAllReady returns only when all members signalled and no message is in flight; nothing is enqueued on a cleaned-up inbox; every inbox is empty at the end; every thread finishes (no lost wake-up). Counterexample schedules replay on the real code through verifhook points. (B21b) the real Core.ProcessSender (processing goroutines, hand-over channel, deferred drain) on a harness sender: per message the processor succeeds / fails / fails with a cancellation error / panics, the request is cancelled before a solver-chosen delivery; afterwards every delivered message has been released exactly once and the sender is drained - a message that is never released keeps its cycle group's in-flight count above zero for ever.",
        "level_note": "bounds: 2 members (4 threads), 0..1 initial messages per member (solver-chosen), 1 forwarding hop, non-preemptive schedules (budget 0) in quick; budget 1 and 3 members in thorough. The message plumbing (Inc before enqueue, Dec on Done) is mirrored by the harness from pipeline.createWorker's MsgFunc, not executed from it; mediums and the interpreter are outside. B21b: 2 (3) messages, 1-2 processing goroutines under the engine's cooperative schedule; an error reported by the worker cancels the request (what Pipeline.Recv/Close do).",
        "assumptions": _SCHED_ASSUME,
        "outside": ["mediums / message pool / interpreter", "more than 3 members", "context cancellation during the ordered teardown itself", "preemptive schedules of ProcessSender's goroutines"],
    },
    "C22": {
        "jobs": c22,
        "level_text": "bounded exploration of symbolic schedules of the real mpmc.Queue code: senders and receivers run as threads of the symbolic executor, the thread to run at each scheduling point is a forked solver variable, every schedule within the preemption bound is covered; obligations: every received value was sent, none is delivered twice, per-sender FIFO for a single consumer, Close semantics, and no thread is left parked for ever (lost wake-up). Counterexample schedules are replayed on the real code through the verifhook points (build tag verif).",
        "level_note": "bounds: capacity 2, no growth; 2 senders + 2 receivers with <= 1 (quick) / 2 preemptions; 1+1 threads with 3 items and <= 2/4 preemptions; Close with 1+1 threads; 3+3 threads on a full queue with 0/1 preemptions. This is context-bounded schedule enumeration driven by solver decision variables, not the single-query Lal-Reps encoding sketched in DESIGN (not built). mpsc.Accumulator: see the C22 mpsc jobs when registered.",
        "assumptions": _SCHED_ASSUME,
        "outside": ["extend/Grow under concurrency", "more than 2 preemptions", "weak memory effects below the Go memory model's sequentially consistent atomics"],
    },
}
