"""Schedule properties: C22 (queues), C21 (cycle teardown). Symbolic schedules over verifhook points."""
from specs.common import J

MPMC = "internal/containers/mpmc"
MPSC = "internal/containers/mpsc"


def c22(tier, seed):
    q = tier == "quick"
    jobs = [
        J(MPMC, "VerifB22aFIFO", budget=2 if q else 4, max_paths=20000 if q else 400000),
        J(MPMC, "VerifB22aClose", budget=2 if q else 4, max_paths=20000 if q else 400000),
        J(MPMC, "VerifB22aSendRecv", budget=1 if q else 2, senders=2, max_paths=20000 if q else 400000),
        J(MPMC, "VerifB22aFullQueue", budget=0, max_paths=20000 if q else 400000, job_timeout_s=900 if q else 3000),  # budget 1 exhausts 400000 paths: not claimed
        J(MPSC, "VerifB22cAccumulator", producers=2, budget=1 if q else 2, max_paths=20000 if q else 400000, job_timeout_s=900 if q else 3000),
        J(MPSC, "VerifB22cCloseRace", budget=1 if q else 2, max_paths=20000 if q else 400000, job_timeout_s=900 if q else 3000),
        J(MPSC, "VerifB22cSendAfterClose", budget=2 if q else 3, max_paths=20000 if q else 400000),
        J(MPMC, "VerifK22bGrowKeepsOrder"),
        J(MPMC, "VerifB22aAutoExtend", budget=2 if q else 3, max_paths=20000 if q else 400000),
        J(MPMC, "VerifB22aCloseRace", budget=1 if q else 2, max_paths=20000 if q else 400000, job_timeout_s=900 if q else 3000),
    ]
    return jobs


WORKER = "internal/listobjects/pipeline/internal/worker"


def c21(tier, seed):
    q = tier == "quick"
    jobs = [J(WORKER, "VerifB21CycleTeardown", members=2, budget=0, hops=1, max_paths=20000)]
    # the real Core.ProcessSender: every received message is released (Done) exactly once whatever processing does
    jobs.append(J(WORKER, "VerifB21bMessagesReleased", msgs=2, procs=1, max_paths=20000))
    jobs.append(J(WORKER, "VerifB21bMessagesReleased", msgs=2 if q else 3, procs=2, max_paths=200000))
    # B21c: the real (*Basic).Execute of two workers wired into a cycle like pipeline.Build does (real mediums, Broadcast,
    # ProcessSender, Cleanup, CycleGroup/Membership/StatusPool, createWorker's MsgFunc plumbing). cancel / hold / panic / stop
    # are the ranges of the forked environment choices: event at which the request is cancelled, event at which the
    # processing goroutine is held while everybody else runs on, Interpret call that panics, messages the consumer reads.
    # A run has at most 14 (chain) / 16 (ring, fan) events, so cancel=hold=14/16 covers every event of every run.
    jobs.append(J(WORKER, "VerifB21cExecute", graph="chain", cancel=14, hold=14, max_paths=20000))
    jobs.append(J(WORKER, "VerifB21cExecute", graph="fan", chunk=2, procs=2, cap=1, cancel=10, hold=10, max_paths=20000))
    jobs.append(J(WORKER, "VerifB21cExecute", graph="chain", panic=8, hold=8, max_paths=20000))
    jobs.append(J(WORKER, "VerifB21cExecute", graph="chain", cancel=6, hold=6, stop=3, max_paths=20000))
    if not q:
        jobs.append(J(WORKER, "VerifB21cExecute", graph="ring", cancel=16, hold=16, max_paths=200000))
        jobs.append(J(WORKER, "VerifB21cExecute", graph="fan", cancel=16, hold=16, max_paths=200000))
        jobs.append(J(WORKER, "VerifB21cExecute", graph="chain", cancel=8, hold=8, sched=4, max_paths=200000))
        jobs.append(J(WORKER, "VerifB21cExecute", graph="ring", cancel=6, hold=6, panic=8, max_paths=200000))
        jobs.append(J(WORKER, "VerifB21CycleTeardown", members=2, budget=1, hops=1, max_paths=600000, job_timeout_s=3000))
        jobs.append(J(WORKER, "VerifB21CycleTeardown", members=3, budget=0, hops=1, max_paths=600000, job_timeout_s=3000))
    return jobs


_SCHED_ASSUME = [
    "threads interleave only at verifhook.Point calls (placed before every synchronisation step of the kernel) and at blocking operations; code between two points runs atomically (sequentially consistent)",
    "schedules with at most `budget` preemptive switches are explored (each choice is a forked solver variable sched!k); non-preemptive switches are free",
    "a thread blocked in a sync operation resumes by itself as soon as the operation is enabled",
]

SPEC = {
    "C21": {
        "jobs": c21,
        "technique": "bounded symbolic execution of go/ssa into SMT (z3) with thread schedules as forked solver decision variables (context-bounded: preemption budget over verifhook / atomic-operation scheduling points); counterexample schedules replayed on the compiled code through the hooks or by stress",
        "level_text": "bounded exploration of symbolic schedules of the real cycle-teardown code (track.StatusPool, track.Reporter, worker.Membership, worker.CycleGroup.Join): per cycle member a MAIN thread (forward input with Inc-before-enqueue, SignalReady, WaitForAllReady, leader-first ordered clean-up through Sleep/Wake) and a CYCLIC thread (drain inbox, optionally forward, Dec) mirror Basic.Execute; the thread to run at each scheduling point is a forked solver variable. Obligations on every schedule: WaitForAllReady returns only when all members signalled and no message is in flight; nothing is enqueued on a cleaned-up inbox; every inbox is empty at the end; every thread finishes (no lost wake-up). Counterexample schedules replay on the real code through verifhook points. (B21b) the real Core.ProcessSender (processing goroutines, hand-over channel, deferred drain) on a harness sender: per message the processor succeeds / fails / fails with a cancellation error / panics, the request is cancelled before a solver-chosen delivery; afterwards every delivered message has been released exactly once and the sender is drained - a message that is never released keeps its cycle group's in-flight count above zero for ever. (B21c) the real (*Basic).Execute of two Basic workers that form a cycle, wired the way pipeline.Build / createWorker wire them: the weighted graph of `org#member: [user, team#member]` / `team#member: [user, org#member]` is built with the language module's own AddNode/AddEdge/AssignWeights (the member edges carry the real tuple-cycle mark), one CycleGroup (real Join / Membership / track.StatusPool), real mediums through DefaultMediumFunc (QueueMedium on the cyclical edges, ChannelMedium for the inputs and the output), real Core.Broadcast / send / ProcessSender / Cleanup / MessagePool, createWorker's MsgFunc closure (Inc before enqueue on a cyclical edge, Dec chained into the Done callback) reproduced statement by statement, a harness Interpreter (finite successor relation on 4 values; its result rows ignore ctx like an already fetched datastore page) and the pipeline consumer (Pipeline.Recv/Close: read output, cancel on reported error, cancel + drain + wait). Forked per path: which non-cyclical inputs carry a message (and which value), the event (k-th Interpret call / k-th row handed out) at which the request is cancelled, the event at which the processing goroutine is held until the other goroutines have run as far as they can, the Interpret call that panics, how many messages the consumer reads before it closes the pipeline. Obligations on every path: both Execute calls return and no goroutine stays blocked; no runtime panic (send on a closed medium) and nothing on Core.Errors except the one injected interpreter panic; no listener is closed while a cyclical message is unreleased or a non-cyclical input still holds a message; every message created (pool or input) is released exactly once; the output holds no duplicate and only derivable values; without cancellation/panic/early stop the output equals the least fixed point of the successor relation over the inputs (computed independently in the harness).",
        "level_note": "bounds: 2 members (4 threads), 0..1 initial messages per member (solver-chosen), 1 forwarding hop, non-preemptive schedules (budget 0) in quick; budget 1 and 3 members in thorough. The message plumbing (Inc before enqueue, Dec on Done) is mirrored by the harness from pipeline.createWorker's MsgFunc, not executed from it; mediums and the interpreter are outside. B21b: 2 (3) messages, 1-2 processing goroutines under the engine's cooperative schedule; an error reported by the worker cancels the request (what Pipeline.Recv/Close do). B21c: 2 members (B joins last = leader), 0..1 initial message per member (A: v0; B: v0 or v1), successor graphs chain v0>v1>v2>v3, ring v0>v1>v2>v0 (terminates by deduplication only), fan v0>{v1,v2}>v3; ChunkSize 1-2, NumProcs 1-2, buffer capacity 1-2; cancel-at-event and hold-at-event range over 0..14 (chain; every event of every run, a run has <= 14) in quick, 0..16 on ring/fan in thorough; panic at call 1..8; consumer stops after 1..3 messages. Goroutines run under the engine's deterministic cooperative scheduler (run until blocked, every select is a round-robin yield point, oldest runnable first); the held goroutine is released by the youngest goroutine after 40 yields; thorough additionally forks the first 4 selects that have several ready cases (vt.SchedChoices). This is ONE canonical interleaving per choice vector (plus the forked selects), not all interleavings - the schedule-exhaustive part of C21 is B21 on the teardown kernel. Clean-path models are re-run natively (real goroutines; hold = 20 ms sleep).",
        "assumptions": _SCHED_ASSUME,
        "outside": ["the production interpreter / datastore (B21c uses a finite harness interpreter)", "Terminal / Wildcard / Intersection / Difference workers and cycles of more than 2 Basic members under the real Execute (3 members only in the B21 kernel model)", "more than 3 members", "context cancellation during the ordered teardown itself", "preemptive schedules of the real Execute / ProcessSender goroutines beyond the forked selects (B21c explores one cooperative interleaving per environment choice)", "growth of the cyclical queue mediums under load (a handful of messages per run; mpmc growth itself is C22)"],
    },
    "C22": {
        "jobs": c22,
        "technique": "bounded symbolic execution of go/ssa into SMT (z3) with thread schedules as forked solver decision variables (context-bounded: preemption budget over verifhook / atomic-operation scheduling points); counterexample schedules replayed on the compiled code through the hooks or by stress",
        "level_text": "bounded exploration of symbolic schedules of the real mpmc.Queue code: senders and receivers run as threads of the symbolic executor, the thread to run at each scheduling point is a forked solver variable, every schedule within the preemption bound is covered; obligations: every received value was sent, none is delivered twice, per-sender FIFO for a single consumer, Close semantics, and no thread is left parked for ever (lost wake-up). Counterexample schedules are replayed on the real code through the verifhook points (build tag verif).",
        "level_note": "bounds: capacity 2, no growth; 2 senders + 2 receivers with <= 1 (quick) / 2 preemptions; 1+1 threads with 3 items and <= 2/4 preemptions; Close with 1+1 threads; 3+3 threads on a full queue, non-preemptive schedules (one preemption exceeds 400 000 schedules: not claimed). This is context-bounded schedule enumeration driven by solver decision variables, not the single-query Lal-Reps encoding sketched in DESIGN (not built). mpsc.Accumulator: see the C22 mpsc jobs when registered.",
        "assumptions": _SCHED_ASSUME,
        "outside": ["extend/Grow under concurrency", "more than 2 preemptions", "weak memory effects below the Go memory model's sequentially consistent atomics"],
    },
}
