"""Whole-engine checks: C01 (Check = reference semantics), C02 (independent of strategy / tuning)."""
from specs.common import J

G = "internal/graph"

MODELS_QUICK = ["direct", "wildcard", "union_computed", "userset", "ttu", "exclusion", "intersection", "condition",
                "inter_excl", "shared_tuples", "userset_flat", "h6", "condition_userset", "cond_wild", "cond_shapes"]
MODELS_ALL = MODELS_QUICK + ["computed_chain", "rec_intersection", "userset_ttu_mix", "ttu_excl", "cond_excl"]


def c01(tier, seed):
    q = tier == "quick"
    jobs = []
    big = {"userset_ttu_mix"}
    for m in (MODELS_QUICK if q else MODELS_ALL):
        # A: every valid tuple of the universe (no leftovers), one subject per type (+ all subjects in thorough)
        jobs.append(J(G, "VerifE01Check", model=m, maxcands=14 if m in big else 20, invalid=0, subjects="min" if q else "all",
                      timeout_ms=60000, unwind=64, max_paths=6000 if q else 100000))
        # B: with invalid leftovers, all subjects (usersets, wildcards), seeded subset of candidates
        jobs.append(J(G, "VerifE01Check", model=m, maxcands=10 if q else 16, seed=seed % 7, timeout_ms=60000, unwind=64, max_paths=4000 if q else 60000))
    # history: an arbitrary other request answered first on the same typesystem / checker (memo tables warm);
    # `dashed` has type names that contain '-' (separator-like characters in memo keys)
    for m in ["dashed", "cond_wild"] + ([] if q else ["userset", "ttu"]):
        jobs.append(J(G, "VerifE01Check", model=m, maxcands=12, prior=1, subjects="min", timeout_ms=60000, unwind=64, max_paths=8000 if q else 100000))
    # a userset cycle next to a granting path under an intersection / exclusion, operands consumed one at a time
    # the second object of every type is called `type:2*` (an ordinary id that ends in the wildcard character)
    for m in ["wildcard", "exclusion"] + ([] if q else ["inter_excl", "cond_wild", "userset"]):
        jobs.append(J(G, "VerifE01Check", model=m, maxcands=14, invalid=0, subjects="all", starid=1, timeout_ms=60000, unwind=64, max_paths=8000 if q else 100000))
    # an unevaluable condition under `but not` (request 5 = document:1#viewer@user:1; whole universe; every request in thorough)
    jobs.append(J(G, "VerifE01Check", model="cond_excl", maxcands=20, invalid=0, subjects="min", req=5, timeout_ms=60000, unwind=64, max_paths=8000))
    # (the WHOLE universe of 20 tuples: the cycle, the granting path and both operands must be storable at once;
    #  requests 7 and 15 are document:1#auditor@user:1 and document:1#viewer@user:1, thorough: every request)
    for r in (7, 15):
        jobs.append(J(G, "VerifE01Check", model="cycle_inter", maxcands=20, invalid=0, subjects="min", breadth=1, req=r, timeout_ms=60000, unwind=64, max_paths=8000 if q else 100000))
    if not q:
        jobs.append(J(G, "VerifE01Check", model="cycle_inter", maxcands=20, invalid=0, subjects="min", breadth=1, timeout_ms=60000, unwind=64, max_paths=100000))
        jobs.append(J(G, "VerifE01Check", model="cycle_inter", maxcands=14, invalid=0, subjects="min", timeout_ms=60000, unwind=64, max_paths=100000))
    return jobs


def c02(tier, seed):
    q = tier == "quick"
    jobs = []
    ms = ["userset", "ttu", "userset_flat", "rec_intersection", "exclusion"] if q else MODELS_ALL
    for m in ms:
        # every strategy assignment (symbolic planner), optimisations on/off, breadth limit 1, repeated request
        jobs.append(J(G, "VerifE01Check", model=m, maxcands=10 if q else 14, seed=(seed + 1) % 7, repeat=1, timeout_ms=60000, unwind=64, max_paths=6000 if q else 60000))
        jobs.append(J(G, "VerifE01Check", model=m, maxcands=10 if q else 14, seed=(seed + 2) % 7, breadth=1, timeout_ms=60000, unwind=64, max_paths=6000 if q else 60000))
        if not q:
            jobs.append(J(G, "VerifE01Check", model=m, maxcands=14, seed=seed % 7, opt=0, timeout_ms=60000, unwind=64, max_paths=60000))
    # the two models on which the strategies are known to disagree (known findings H6, H10)
    for m in ["h6", "condition_userset"]:
        jobs.append(J(G, "VerifE01Check", model=m, maxcands=20, invalid=0, subjects="min", timeout_ms=60000, unwind=64, max_paths=6000))
    # a recursive relation whose userset restriction exists with and without a condition (three objects per type, so
    # that a conditional tuple sits below the first level): every strategy must evaluate the conditions at every depth.
    # noerr=1: every condition evaluates (met / not met); without it the run also reports finding H26
    jobs.append(J(G, "VerifE01Check", model="rec_cond", nobj=3, maxcands=12, invalid=0, subjects="min", noerr=1, timeout_ms=60000, unwind=64, max_paths=8000))
    jobs.append(J(G, "VerifE01Check", model="rec_cond", nobj=3, maxcands=12, invalid=0, subjects="min", timeout_ms=60000, unwind=64, max_paths=8000))
    return jobs


V2 = "pkg/server/commands/v2breaking"


def c03(tier, seed):
    q = tier == "quick"
    jobs = []
    ms = ["direct", "wildcard", "union_computed", "exclusion", "intersection", "condition", "userset_flat", "userset", "condition_userset", "shared_tuples"] if q else MODELS_ALL
    for m in ms:
        jobs.append(J(V2, "VerifE03WeightedCheck", model=m, maxcands=12 if q else 16, invalid=0, subjects="all", seed=seed % 7,
                      timeout_ms=60000, unwind=64, max_paths=3000 if q else 100000))
        if not q:
            jobs.append(J(V2, "VerifE03WeightedCheck", model=m, maxcands=12, seed=(seed + 1) % 7, timeout_ms=60000, unwind=64, max_paths=100000))
    # a userset that aliases the subject's relation through a CHAIN of computed relations (the breaking-change detector
    # has to follow the whole chain)
    jobs.append(J(V2, "VerifE03WeightedCheck", model="alias_chain", maxcands=12, invalid=0, subjects="all", rel="viewer", timeout_ms=60000, unwind=64, max_paths=3000 if q else 100000))
    if not q:
        jobs.append(J(V2, "VerifE03WeightedCheck", model="alias_chain", maxcands=12, invalid=0, subjects="all", timeout_ms=60000, unwind=64, max_paths=100000))
    return jobs


def c20(tier, seed):
    q = tier == "quick"
    jobs = []
    ms = ["userset", "ttu", "exclusion", "intersection", "userset_flat", "condition"] if q else MODELS_ALL
    for m in ms:
        for cancel in (1, 2):
            jobs.append(J(G, "VerifE01Check", model=m, maxcands=12 if q else 16, invalid=0, subjects="min" if q else "all", cancel=cancel,
                          timeout_ms=60000, unwind=64, max_paths=6000 if q else 100000))
        # un-cancelled runs: every path must end with all engine goroutines terminated
        jobs.append(J(G, "VerifE01Check", model=m, maxcands=10, seed=(seed + 4) % 7, breadth=1, timeout_ms=60000, unwind=64, max_paths=6000 if q else 100000))
    # ListUsers under a result limit: the collector stops early and cancels; every expansion goroutine still ends
    # (a goroutine left blocked at the end of the harness is a violation by itself)
    for m in (["userset"] if q else ["userset", "userset_flat", "ttu", "wildcard"]):
        jobs.append(J("pkg/server/commands/listusers", "VerifE06ListUsers", model=m, maxcands=16, invalid=0, filters="all", maxres=1, nobj=3,
                      known_objects_under_userset_filter=0, timeout_ms=60000, unwind=64, max_paths=8000 if q else 60000))
    return jobs


def c04(tier, seed):
    q = tier == "quick"
    jobs = []
    ms = ["direct", "wildcard", "userset", "ttu", "exclusion", "intersection", "condition", "userset_flat"] if q else MODELS_ALL
    for m in ms:
        jobs.append(J(G, "VerifE01Check", model=m, maxcands=12 if q else 16, ctx=3 if q else 4, invalid=0, subjects="min" if q else "all",
                      seed=seed % 7, timeout_ms=60000, unwind=64, max_paths=8000 if q else 100000))
        if not q:
            jobs.append(J(G, "VerifE01Check", model=m, maxcands=12, ctx=3, seed=(seed + 2) % 7, timeout_ms=60000, unwind=64, max_paths=100000))
    # the weighted-graph engine keeps contextual tuples in per-request buckets of its own: the first object of every type
    # is `type:$1` ('$' sorts before '*'); request 9 = document:$1#viewer@user:2, granted by a contextual wildcard only
    jobs.append(J(V2, "VerifE03WeightedCheck", model="wildcard", maxcands=12, invalid=0, subjects="all", ctx=3, lowid=1, req=9, timeout_ms=60000, unwind=64, max_paths=8000))
    if not q:
        for m in ["wildcard", "userset", "exclusion"]:
            jobs.append(J(V2, "VerifE03WeightedCheck", model=m, maxcands=12, invalid=0, subjects="all", ctx=3, lowid=1, timeout_ms=60000, unwind=64, max_paths=100000, job_timeout_s=3000))
    # the contextual tuples are also stored (a contextual tuple may repeat a stored one): same answer
    jobs.append(J(G, "VerifE01Check", model="userset", maxcands=10, ctx=3, ctxdup=1, invalid=0, subjects="min", timeout_ms=60000, unwind=64, max_paths=8000 if q else 100000))
    # object types one of whose names is a prefix of the other (`team`, `team2`: ordering by type and ordering by the
    # object string disagree); the six tuples of both types travel as contextual tuples. Requests 11 / 19 are
    # team2:1#member@user:1 and team:1#member@user:1, request 3 (thorough) is doc:1#viewer@user:1
    for r in (11, 19) if q else (11, 19, 3):
        jobs.append(J(G, "VerifE01Check", model="sibling_types", maxcands=16, ctx=6, invalid=0, subjects="min", req=r, timeout_ms=60000, unwind=64, max_paths=8000 if q else 100000))
    return jobs


_E_ASSUME = [
    "store content = arbitrary subset of the candidate universe (2 objects per type, every tuple the model's type restrictions allow plus invalid leftovers), restricted to `maxcands` candidates chosen by seed; (object, relation, user) is a key",
    "CEL evaluation replaced by one symbolic outcome (met / not met / missing parameter) per condition name; replay runs the real CEL evaluator with a request context producing that outcome",
    "goroutines scheduled cooperatively with a fair deterministic scheduler (one canonical interleaving per path)",
    "gonum topo.PathExistsIn modelled as BFS over the interpreted graph object; xxhash computed concretely",
    "tracing/metrics/logging are no-ops; timers never fire",
]

SPEC = {
    "C01": {
        "jobs": c01,
        "level_text": "bounded symbolic execution of the real default Check engine (LocalChecker.ResolveCheck with its default, weight-two and recursive resolvers, typesystem built by the real typesystem.New) over a symbolic store: every candidate tuple's presence is a solver variable, every request over the universe is explored, and on every path the solver shows decision = three-valued least-fixpoint reference semantics written independently in the harness (errors only where an unevaluable condition is involved). The planner is replaced by an arbitrary (solver-chosen) strategy per plan key.",
        "level_note": "bounds: model family of 12 (quick) / 17 models, 2 objects per type, <= 12/16 candidate tuples per run (seeded subset), all subjects (objects, usersets, typed wildcards); depth limit never reached; one canonical goroutine schedule per path. Trusted: engine semantics and library models listed in evidence, the reference semantics (~150 lines, harness/internal/vtsem), z3.",
        "assumptions": _E_ASSUME,
        "outside": ["contextual tuples (C04)", "universes beyond the bounds", "other interleavings than the canonical fair schedule", "real CEL outcomes"],
    },
    "C03": {
        "jobs": c03,
        "level_text": "bounded symbolic execution of the real weighted-graph Check engine (internal/check.Resolver with its default, weight-two and recursive strategies, modelgraph built by the real modelgraph.New) over the same symbolic store and reference semantics as C01: for object subjects every returned decision equals the reference; for userset and wildcard subjects every decision that differs from the reference (= the default engine's verified answer) must be reported by v2breaking.CheckReason; request-shape rejections are accepted as such; other errors must involve an unevaluable condition.",
        "level_note": "bounds: 10 (quick) / 17 models, 2 objects per type, <= 12/16 candidates, all subjects; strategy choice per plan key is a solver variable; the fallback decision of CheckQueryV2 itself (IsV2CheckTerminalError) is not exercised; one canonical fair goroutine schedule per path",
        "assumptions": _E_ASSUME,
        "outside": ["CheckQueryV2's fallback plumbing and throttling", "the v2 query cache (Cache = noop here)", "contextual tuples through the v2 request indexes"],
    },
    "C20": {
        "jobs": c20,
        "level_text": "termination and resource release of the default Check engine within the bounds of C01: on every explored path (every store content, request and strategy choice) the call returns, no goroutine of the engine is left blocked when the harness ends and no deadlock occurs — with the request context live, cancelled before the call, and cancelled concurrently; a decision returned despite cancellation must still equal the reference semantics. Deadlock and leaked-goroutine detection are built-in obligations of the symbolic executor's goroutine model.",
        "level_note": "bounds as C01 (6 models quick / 17 thorough, <= 12/16 candidates); one canonical fair schedule per path (the concurrent cancel runs when the caller first blocks); wall-clock deadlines, timers and memory growth are not representable (timers never fire); ListObjects/ListUsers termination is covered only as far as their own engine harnesses (C05/C06) run",
        "assumptions": _E_ASSUME,
        "outside": ["deadline-based termination (timers are not modelled)", "large fan-out / memory growth", "the ListObjects pipeline (its cycle teardown is C21)", "other schedules than the canonical one"],
    },
    "C04": {
        "jobs": c04,
        "level_text": "the C01 whole-engine harness with the tuple set split between the store and the request: the first k valid candidate tuples never reach the store reader; those that are present travel as contextual tuples through the real storagewrappers.CombinedTupleReader (and into the request's cache-key material). The reference semantics ignores the split, so on every path the solver shows: Check with contextual tuples = Check with the same tuples stored.",
        "level_note": "bounds as C01 with k = 3 (quick) / 4 contextual-eligible candidates, <= 12/16 candidates; Check through the default engine only (BatchCheck delegates to Check: C07; ListObjects/ListUsers/Expand variants are outside until their engine harnesses carry the split); non-persistence across requests is not exercised here because no cache layer is in this chain (cache keys contain the contextual tuples: C24/C08)",
        "assumptions": _E_ASSUME + ["contextual tuples are valid for the model and free of duplicates (request validation enforces both)"],
        "outside": ["ListObjects / ListUsers / Expand with contextual tuples", "interleaving with other requests through a shared cache"],
    },
    "C02": {
        "jobs": c02,
        "level_text": "the C01 harness with the planner's choice per sub-problem as a solver-chosen variable (every assignment default / weight-two / recursive, independently per plan key and per repetition), breadth limit 1, optimisations off, and the same request repeated on the same checker: every run must equal the reference semantics, hence runs agree with each other.",
        "level_note": "bounds as C01 with <= 10/14 candidates; ListObjects part and pipeline tuning outside (see C05); read-concurrency limits and dispatch throttling not exercised (wrappers outside the harness)",
        "assumptions": _E_ASSUME,
        "outside": ["ListObjects strategies (C05)", "dispatch throttling / bounded-read wrappers", "concurrent requests on one checker"],
    },
}
