def J(pkg, harness, unwind=None, timeout_ms=None, max_paths=None, fork_all=False, job_timeout_s=None, **params):
    """One gosmt harness run: package path relative to the module, harness function, bounds as params."""
    j = {"pkg": pkg, "harness": harness, "params": params}
    if unwind:
        j["unwind"] = unwind
    if timeout_ms:
        j["timeout_ms"] = timeout_ms
    if max_paths:
        j["max_paths"] = max_paths
    if fork_all:
        j["fork_all"] = True
    if job_timeout_s:
        j["job_timeout_s"] = job_timeout_s
    return j
