"""Whole-engine checks of the list/expand commands: C30 (Expand mirrors the rewrite), C06 (ListUsers = permitted users)."""
from specs.common import J

CMDS = "pkg/server/commands"
LU = "pkg/server/commands/listusers"

MODELS_QUICK = ["direct", "wildcard", "union_computed", "userset_flat", "ttu", "exclusion", "intersection"]
MODELS_MORE = ["userset", "condition", "inter_excl", "shared_tuples", "h6", "condition_userset", "computed_chain",
               "rec_intersection", "userset_ttu_mix", "ttu_excl"]
MODELS_ALL = MODELS_QUICK + MODELS_MORE


def c30(tier, seed):
    q = tier == "quick"
    jobs = []
    # Expand reads the tuples of one object#relation only, so a run is cheap: the quick tier takes the
    # condition models along (conditional tuples are listed whatever the condition says)
    ms = (MODELS_QUICK + ["condition", "condition_userset", "inter_excl"]) if q else MODELS_ALL
    for m in ms:
        # A: every valid tuple of the universe, no leftovers
        jobs.append(J(CMDS, "VerifE30Expand", model=m, maxcands=40, invalid=0, timeout_ms=60000, unwind=64, max_paths=20000))
        # B: with invalid leftovers of an older model, seeded subset
        jobs.append(J(CMDS, "VerifE30Expand", model=m, maxcands=14 if q else 24, seed=seed % 7, timeout_ms=60000, unwind=64, max_paths=20000))
        if not q:
            jobs.append(J(CMDS, "VerifE30Expand", model=m, maxcands=16, nobj=3, seed=(seed + 3) % 7, timeout_ms=60000, unwind=64, max_paths=60000))
    # C: some tuples travel as contextual tuples of the request
    for m in (["ttu", "wildcard", "condition"] if q else MODELS_ALL):
        jobs.append(J(CMDS, "VerifE30Expand", model=m, maxcands=12, ctx=3, seed=(seed + 1) % 7, timeout_ms=60000, unwind=64, max_paths=20000))
    # E: two Expand requests in a row on one Server (real handler): nothing of the first request's contextual tuples
    # survives into the second answer
    jobs.append(J("pkg/server", "VerifK30bExpandSequence", timeout_ms=60000))
    # D: the contextual tuples are ALSO stored (nothing rejects a contextual tuple that repeats a stored one): a user is
    # still listed once
    for m in (["direct", "wildcard", "userset"] if q else ["direct", "wildcard", "userset", "ttu", "exclusion", "condition"]):
        jobs.append(J(CMDS, "VerifE30Expand", model=m, maxcands=12, ctx=3, ctxdup=1, invalid=0 if m == "direct" else 1, timeout_ms=60000, unwind=64, max_paths=20000))
    return jobs


# models whose requests read many tuples (every tuple read is a fork): split the request family over jobs
_HEAVY = {"ttu": 4, "h6": 4, "userset": 2, "rec_intersection": 2, "shared_tuples": 2, "userset_ttu_mix": 2}
_KNOWN = "known_objects_under_userset_filter"


def _lu(model, parts=1, **kw):
    out = []
    for p in range(parts):
        params = dict(kw)
        if parts > 1:
            params.update(parts=parts, part=p)
        out.append(J(LU, "VerifE06ListUsers", model=model, unwind=64, **params))
    return out


# models local to the ListUsers harness (zz_verif_e06_models.go): shapes with bespoke ListUsers code that the
# shared family lacks (nested exclusion with wildcards, intersection over an exclusion, wildcards through usersets)
MODELS_LU = ["lu_nested_excl", "lu_inter_excl", "lu_userset_wild"]


def c06(tier, seed):
    q = tier == "quick"
    jobs = []
    for m in MODELS_LU:
        jobs += _lu(m, maxcands=10 if q else 16, invalid=0, filters="types", seed=(seed + 1) % 7, timeout_ms=60000, max_paths=20000)
        if not q:
            jobs += _lu(m, maxcands=9, seed=seed % 7, timeout_ms=60000, max_paths=20000, **{_KNOWN: 0})
    # exclusion whose subtracted branch runs into a userset cycle (reports the finding "exclusion drops every user")
    jobs += _lu("lu_excl_cycle", maxcands=10, invalid=0, filters="types", timeout_ms=60000, max_paths=6000)
    # usersets under the operands of an intersection (a user reached through two groups must count once) and the
    # same userset-bearing relation under both operands (whole universes of 12 / 16 tuples)
    jobs += _lu("inter_userset", maxcands=16, invalid=0, filters="types", timeout_ms=60000, max_paths=20000)
    jobs += _lu("shared_userset", maxcands=16, invalid=0, filters="types", timeout_ms=60000, max_paths=20000)
    # the second object of every type is called `type:2*` (an ordinary id that ends in the wildcard character)
    for m in ["exclusion", "wildcard"] + ([] if q else ["inter_excl", "lu_nested_excl", "lu_userset_wild"]):
        jobs += _lu(m, maxcands=12, invalid=0, filters="types", starid=1, timeout_ms=60000, max_paths=20000)
    if q:
        for m in MODELS_QUICK + ["condition"]:
            # A: valid tuples only, filters = the types (objects and typed wildcards as subjects)
            jobs += _lu(m, parts=2 if m == "ttu" else 1, maxcands=9, invalid=0, filters="types", seed=(seed + 1) % 7, timeout_ms=60000, max_paths=4000)
            # B: with invalid leftovers, all filters (types and type#relation)
            jobs += _lu(m, maxcands=8, seed=seed % 7, timeout_ms=60000, max_paths=4000, **{_KNOWN: 0})
        # C: contextual tuples
        jobs += _lu("wildcard", maxcands=8, ctx=3, seed=seed % 7, timeout_ms=60000, max_paths=4000, **{_KNOWN: 0})
        jobs += _lu("exclusion", maxcands=8, ctx=3, seed=seed % 7, timeout_ms=60000, max_paths=4000, **{_KNOWN: 0})
    else:
        for m in MODELS_ALL:
            parts = _HEAVY.get(m, 1)
            jobs += _lu(m, parts=parts, maxcands=10, invalid=0, filters="types", seed=(seed + 1) % 7, timeout_ms=60000, max_paths=60000)
            jobs += _lu(m, parts=parts, maxcands=10, seed=seed % 7, timeout_ms=60000, max_paths=60000, **{_KNOWN: 0})
            jobs += _lu(m, maxcands=8, seed=(seed + 3) % 7, timeout_ms=60000, max_paths=60000, **{_KNOWN: 0})
            jobs += _lu(m, maxcands=8, ctx=3, seed=(seed + 2) % 7, timeout_ms=60000, max_paths=60000, **{_KNOWN: 0})
            # breadth limit: no model of the family has more than two operands under a union / intersection,
            # so limit 2 must never stall; limit 1 only where no union / intersection is involved
            jobs += _lu(m, maxcands=8, breadth=2, seed=(seed + 4) % 7, timeout_ms=60000, max_paths=60000, **{_KNOWN: 0})
            if m in _NO_POOLED_OPERANDS:
                jobs += _lu(m, maxcands=8, breadth=1, seed=(seed + 5) % 7, timeout_ms=60000, max_paths=60000, **{_KNOWN: 0})
        for j in jobs:
            j["job_timeout_s"] = 3000
    # strict: without the tolerance parameter (reports the finding "plain objects under a type#relation filter")
    jobs += _lu("ttu", maxcands=6, invalid=0, timeout_ms=60000, max_paths=4000)
    # breadth limit 1 on an intersection (reports the finding "operands are queued on the bounded pool before their
    # result channels have readers": deadlock, in production a stall until the deadline and a silently partial answer);
    # seed pinned: the subset must hold two members of one document
    jobs += _lu("intersection", maxcands=8, breadth=1, seed=4, timeout_ms=60000, max_paths=4000, **{_KNOWN: 0})
    return jobs


_NO_POOLED_OPERANDS = {"direct", "wildcard", "userset", "userset_flat", "exclusion", "condition", "condition_userset", "ttu_excl"}


_ASSUME = [
    "store content = arbitrary subset of the candidate universe (2 objects per type, every tuple the model's type restrictions allow plus invalid leftovers), restricted to `maxcands` candidates chosen by seed; (object, relation, user) is a key",
    "goroutines scheduled cooperatively with a fair deterministic scheduler (one canonical interleaving per path)",
    "tracing/metrics/logging are no-ops (incl. BoundedTupleReader.instrument); timers never fire",
]

SPEC = {
    "C30": {
        "jobs": c30,
        "level_text": "bounded symbolic execution of the real ExpandQuery (constructor, request validation, combined contextual reader, errgroup fan-out, FilterInvalidTuples with the real typesystem) over a symbolic store: every candidate tuple's presence is a solver variable, every object#relation of the universe and an undefined relation are requested, and on every path the returned UsersetTree equals, node by node, a reference tree derived in the harness from the model's rewrite: node kinds and order of operands, every node named object#relation, users leaf = strictly ascending list of exactly the users of the present and valid tuples, computed leaf = object#computed-relation, tupleToUserset leaf = object#tupleset plus the duplicate-free set {parent#computed-relation} of the present and valid tupleset tuples.",
        "level_note": "bounds: 10 (quick) / 17 models, 2 (3) objects per type, all valid candidates (<= 40) or <= 14/24 candidates with invalid leftovers, up to 3 candidates as contextual tuples; Expand has no request context: conditional tuples are listed whatever their condition says (mirrored by the reference); order inside a tupleToUserset leaf is not specified by the API and not checked. Trusted: engine semantics and library models listed in evidence, the ~60-line reference in the harness, z3.",
        "assumptions": _ASSUME,
        "outside": ["universes beyond the bounds", "consistency preference (passed through to the datastore untouched)", "other interleavings than the canonical fair schedule"],
    },
    "C06": {
        "jobs": c06,
        "level_text": "bounded symbolic execution of the real ListUsers command (NewListUsersQuery with its request storage wrapper, request validation, possible-edges pruning, expand over direct / computed / tuple-to-userset / union / intersection / exclusion with goroutines, channels, pools and cycle detection) over a symbolic store: every candidate tuple's presence is a solver variable, every (object, relation, user filter type[#relation]) over the universe is requested, and on every path the solver shows: every returned entry has the shape of the filter and is permitted by the three-valued least-fixpoint reference semantics of Check (a typed wildcard = Check with the wildcard as user), no entry is returned twice, every concrete user/userset of the filter the reference permits is returned or (objects) covered by a returned typed wildcard of its type, a permitted wildcard is returned, and an error occurs only if the store holds a tuple whose condition cannot be evaluated.",
        "level_note": "bounds: 8 (quick) / 17 models of the shared family plus 4 models local to the harness (nested exclusion with wildcards, intersection over an exclusion, wildcards through usersets under an exclusion, exclusion over a recursive userset - the last one demonstrates the recorded finding 'a userset cycle under the subtracted branch makes the exclusion return nobody'), 2 objects per type, <= 8-10 candidates per run (every tuple ListUsers reads is a fork, so fewer than for Check; seeded subsets, heavy models split over several jobs), subjects = all objects of the filter type + its typed wildcard, or all usersets type:id#relation; up to 3 candidates as contextual tuples; breadth limit 2 on every model and 1 on the models without union / intersection (thorough), plus one job with breadth limit 1 on an intersection that demonstrates the recorded stall (operands queued on the bounded pool before their result channels have readers). A deadlock, a leaked goroutine or a panic on any path is a violation by itself. Deadline switched off (a deadline returns a partial answer by design); max results 1000 never reached. The response of this API version has no excluded_users: a returned wildcard does not promise every object of the type. All jobs but the strict one drop entries matching the recorded finding (plain objects under a type#relation filter) before checking, so that the remaining obligations are explored on every path. Trusted: engine semantics and library models listed in evidence, the reference semantics (harness/internal/vtsem), z3.",
        "assumptions": _ASSUME + [
            "CEL evaluation replaced by one symbolic outcome (met / not met / missing parameter) per condition name; replay runs the real CEL evaluator with a request context producing that outcome",
            "ListUsers deadline = 0 (disabled); dispatch and datastore throttling disabled (defaults)",
        ],
        "outside": ["partial answers on deadline / max results", "dispatch throttling", "universes beyond the bounds", "other interleavings than the canonical fair schedule", "real CEL outcomes"],
    },
}
