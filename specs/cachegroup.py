"""Cache group: C08 (Check query cache), C10 (HIGHER_CONSISTENCY bypasses every cache layer), C11 (cache controller)."""
from specs.common import J

GRAPH = "internal/graph"
CHECK = "internal/check"
SW = "pkg/storage/storagewrappers"
SHARED = "pkg/storage/storagewrappers/sharediterator"
CMDS = "pkg/server/commands"


def c08(tier, seed):
    q = tier == "quick"
    return [
        J(GRAPH, "VerifK08Step", t=6 if q else 12, timeout_ms=120000),
        J(GRAPH, "VerifK08KeyFields", len=2 if q else 3, timeout_ms=120000 if q else 600000),
        J(GRAPH, "VerifK08KeySeparation", timeout_ms=120000),
        J(GRAPH, "VerifK08KeyDeterminism", len=2 if q else 3, fixed=1, timeout_ms=120000 if q else 600000),
    ] + c08_engine(tier)


def c08_engine(tier):
    """Whole engine behind the real CachedCheckResolver (every dispatched sub-problem goes through the cache), cache
    warmed by an arbitrary earlier request (prior=1) or by the same request (repeat=1): the answer still equals the
    reference semantics for every store content."""
    q = tier == "quick"
    e = dict(timeout_ms=60000, unwind=64, max_paths=8000 if q else 100000, qcache=1)
    jobs = [
        J(GRAPH, "VerifE01Check", model="userset", maxcands=10, invalid=0, subjects="min", prior=1, **e),
        J(GRAPH, "VerifE01Check", model="exclusion", maxcands=10, invalid=0, subjects="min", repeat=1, **e),
        # mutual userset cycle, whole 16-tuple universe: Check(group:1#member@user:1) first (it caches sub-answers
        # computed under a visited path), then Check(team:1#member@user:1); operands one at a time and in parallel
        J(GRAPH, "VerifE01Check", model="cycle_mutual", maxcands=16, invalid=0, subjects="min", prior=1, priorreq=2, req=8, breadth=1, **e),
        J(GRAPH, "VerifE01Check", model="cycle_mutual", maxcands=16, invalid=0, subjects="min", prior=1, priorreq=2, req=8, **e),
    ]
    # the weighted-graph engine (internal/check.Resolver) with its own query cache: two relations share the subtracted
    # relation (`viewer`, `editor`: [user] but not blocked); requests 5 / 3 are document:1#viewer@user:1 / #editor@user:1
    V2 = "pkg/server/commands/v2breaking"
    for pr, r in [(5, 3), (3, 5)]:
        jobs.append(J(V2, "VerifE03WeightedCheck", model="shared_excl", maxcands=12, invalid=0, subjects="min", prior=1, priorreq=pr, req=r, **e))
    if not q:
        jobs.append(J(V2, "VerifE03WeightedCheck", model="shared_excl", maxcands=12, invalid=0, subjects="min", prior=1, job_timeout_s=3000, **e))
        for m in ["ttu", "intersection", "condition", "inter_excl", "cycle_inter"]:
            jobs.append(J(GRAPH, "VerifE01Check", model=m, maxcands=10, invalid=0, subjects="min", prior=1, **e))
        for pr, r in [(8, 2), (5, 8), (2, 11), (8, 5)]:
            jobs.append(J(GRAPH, "VerifE01Check", model="cycle_mutual", maxcands=16, invalid=0, subjects="min", prior=1, priorreq=pr, req=r, breadth=1, **e))
    return jobs


def c10(tier, seed):
    q = tier == "quick"
    return [
        J(GRAPH, "VerifK10Resolver", t=6 if q else 12),
        J(CHECK, "VerifK10IsCached", t=6 if q else 12),
        J(SW, "VerifK10IteratorCaches"),
        J(SHARED, "VerifK10SharedIterator"),
        J(CMDS, "VerifK10Execute", timeout_ms=120000),
    ] + c10_engine(tier)


def c10_engine(tier):
    """Whole engines on a HIGHER_CONSISTENCY request over a datastore that asserts, on EVERY read it receives, that
    the read options carry the preference (that is what makes the cache layers step aside): default Check engine,
    weighted-graph Check engine, ListObjects (classic and weighted reverse expansion, embedded Checks)."""
    q = tier == "quick"
    e = dict(timeout_ms=60000, unwind=64, max_paths=8000 if q else 100000, hc=1, invalid=0, subjects="min")
    V2 = "pkg/server/commands/v2breaking"
    jobs = [
        J(GRAPH, "VerifE01Check", model="wildcard", maxcands=10, **e),
        J(GRAPH, "VerifE01Check", model="userset", maxcands=10, **e),
        J(V2, "VerifE03WeightedCheck", model="ttu", maxcands=10, req=17, **e),  # folder:1#viewer@user:1 (recursive TTU)
        J(CMDS, "VerifE05ListObjects", model="two_hop", maxcands=12, lo_opt=0, req=8, **e),  # document#viewer@user:1
        J(CMDS, "VerifE05ListObjects", model="exclusion", maxcands=12, lo_opt=0, **e),
    ]
    if not q:
        jobs += [
            J(GRAPH, "VerifE01Check", model="ttu", maxcands=10, **e),
            J(V2, "VerifE03WeightedCheck", model="userset", maxcands=10, **e),
            J(V2, "VerifE03WeightedCheck", model="ttu", maxcands=10, job_timeout_s=3000, **e),
            J(CMDS, "VerifE05ListObjects", model="two_hop", maxcands=12, lo_opt=0, **e),
            J(CMDS, "VerifE05ListObjects", model="two_hop", maxcands=12, lo_opt=1, **e),
            J(CMDS, "VerifE05ListObjects", model="userset_ttu_mix", maxcands=12, lo_opt=1, **e),
        ]
    return jobs


def c11(tier, seed):
    q = tier == "quick"
    big = dict(timeout_ms=120000 if q else 300000, max_paths=20000 if q else 200000)
    jobs = [J(CMDS, "VerifK11JitteredTTL", **big)]
    # obligations expected to hold (shipped defaults: jitter 0, one iterator TTL): general clock, symbolic TTLs.
    # page = exact size of the changelog page, w = position of the write on it (w == page: older than the page)
    jobs.append(J(CMDS, "VerifK11QueryCache", page=1, **big))
    # (standalone 10-85 s per job; the driver runs 16 jobs at once, which roughly doubles that)
    for impl in (0, 1):
        if impl == 0 or not q:
            jobs.append(J(CMDS, "VerifK11IteratorCache", impl=impl, api=0, page=1, **big))
            jobs.append(J(CMDS, "VerifK11IteratorCache", impl=impl, api=2, wild=0, page=1, **big))
        jobs.append(J(CMDS, "VerifK11IteratorCache", impl=impl, api=1, page=1, **big))
        jobs.append(J(CMDS, "VerifK11IteratorCache", impl=impl, api=2, wild=1, page=1, **big))
    jobs.append(J(CMDS, "VerifK11IteratorCache", impl=0, api=1, page=1, fail=1, **big))
    # several changes inside ONE partial invalidation run: a three-change page whose newest change is the write, the
    # middle one a change of the same object#relation for another user (nb1=1; they share a marker key), the oldest
    # unrelated (and, where the solver puts it outside the TTL window, the run is a partial one)
    jobs.append(J(CMDS, "VerifK11IteratorCache", impl=0, api=2, wild=0, page=3, w=0, vocab=2, overflow=0, nb1=1, nb2=0,
                  **(dict(prevcl=0) if q else {}), **big))
    # markers of different runs: an earlier run left the marker of ANOTHER key of the same query (user u:1 of the filter
    # [u:1, u:*]) in the cache, older than the entry; the write concerns u:* - every marker of the query must be consulted
    # (two-change page, write newest: where the older change lies outside the TTL window the run is a partial one and
    # only the entity markers - not the store-wide marker - condemn the entry)
    # quick: the older change is an unrelated tuple and no ChangelogCacheEntry of an earlier run is left (prevcl=0)
    jobs.append(J(CMDS, "VerifK11IteratorCache", impl=0, api=2, wild=1, page=2, w=0, overflow=0, prevmark=1,
                  **(dict(vocab=2, nb1=0, prevcl=0) if q else {}), **big))
    if not q:
        jobs.append(J(CMDS, "VerifK11IteratorCache", impl=0, api=2, wild=0, page=2, w=0, overflow=0, vocab=2, **big))
        jobs.append(J(CMDS, "VerifK11IteratorCache", impl=0, api=2, wild=1, page=1, prevmark=1, **big))
        jobs.append(J(CMDS, "VerifK11QueryCache", page=1, ctl=1, **big))
        jobs.append(J(CMDS, "VerifK11QueryCache", page=2, w=0, **big))
        jobs.append(J(CMDS, "VerifK11QueryCache", page=2, w=1, **big))
        jobs.append(J(CMDS, "VerifK11IteratorCache", impl=0, api=1, page=1, ctl=1, **big))
        jobs.append(J(CMDS, "VerifK11IteratorCache", impl=1, api=1, page=1, fail=1, **big))
        for impl in (0, 1):
            for w in (0, 1):  # w=2 (write older than a 2-change page) needs ~10 min standalone: run by hand
                jobs.append(J(CMDS, "VerifK11IteratorCache", impl=impl, api=1, page=2, w=w, **big))
    # configurations in which a violation is expected (findings): replayable grid clock
    jobs.append(J(CMDS, "VerifK11QueryCache", page=1, grid=1, jitter=100, **big))
    jobs.append(J(CMDS, "VerifK11IteratorCache", impl=0, api=1, page=1, grid=1, jitter=100, **big))
    jobs.append(J(CMDS, "VerifK11IteratorCache", impl=0, api=1, page=1, grid=1, ownttl=1, **big))
    if not q:
        jobs.append(J(CMDS, "VerifK11QueryCache", page=1, grid=1, jitter=10, qttl=40, **big))
    # whole engine behind the real CachedCheckResolver: the same request was answered before a write (the store it saw
    # differs in one tuple) and an invalidation run that started after the write has completed (the request carries its
    # time): nothing cached before may be used - neither the top-level entry nor the entries of dispatched sub-problems.
    # Request 2 = document:1#viewer@user:1; written tuple 0 = group:1#member@user:1, 10 = document:1#viewer@group:1#member
    for w in ((0, 10) if q else (0, 2, 4, 8, 10, 11)):
        jobs.append(J(GRAPH, "VerifE01Check", model="userset", maxcands=16, invalid=0, subjects="min", prior=1, qcache=1, inval=1,
                      priorreq=2, req=2, written=w, timeout_ms=60000, unwind=64, max_paths=20000))
    return jobs


SPEC = {
    "C08": {
        "jobs": c08,
        "level_text": "bounded symbolic execution of the real CachedCheckResolver.ResolveCheck as one inductive step: the cache (a harness implementation of storage.InMemoryCache) holds, under the request's real cache key, nothing or an entry with symbolic LastModified and symbolic stored response, plus optionally a neighbour request's entry with the opposite answer; the delegate is a harness CheckResolver answering with a symbolic error / cycle-flagged arbitrary response / the true answer; the request has a symbolic LastCacheInvalidationTime, one of 4 shapes (contextual tuple, context) and any consistency preference. Assumed invariant: an entry that is valid for the request stores the delegate's cycle-free answer. Shown: the returned decision is the delegate's decision for the key (from the valid entry without consulting the delegate, else from the delegate, consulted exactly once with the unchanged request); entries not newer than LastCacheInvalidationTime are never served; errors and CycleDetected responses are never stored; an answer is stored exactly once under the request's key, stamped with the time of the call, with the configured TTL, as a copy; the returned response is never the cached object (mutating it leaves the cache unchanged); neighbours are untouched; the invariant holds afterwards for every later invalidation time. Cache keys: CheckCacheKey over symbolic strings/invariants is equal iff all five fields are equal; a 23-entry vocabulary of concrete requests (differing in store, model, tuple parts, contextual tuples incl. conditions, context keys/values/types, field-boundary shifts; plus re-orderings and nil-vs-empty context) gets equal keys (real InvariantCacheKey with the real XXH64) exactly when the requests are the same; symbolic equal inputs give equal keys; (E) the whole default engine (graph.LocalChecker with a solver-chosen strategy per plan key) behind the real CachedCheckResolver over a symbolic store: the cache is warmed by an arbitrary earlier request or by the same request, every dispatched sub-problem goes through the cache, and the answer must still equal the three-valued least-fixpoint reference for every store content (a cached sub-answer that depended on the visited path of the request that computed it would show up here); the same for the weighted-graph engine (internal/check.Resolver) with its own query cache on a model whose relations share a subtracted relation",
        "level_note": "bounds: instants in 0..6 (quick) / 0..12, 4 request shapes x 3 consistency preferences x 4 cache contents; key fields <= 2/3 arbitrary bytes; digest: concrete XXH64 for the process seed on the vocabulary, uninterpreted function on symbolic inputs (collision freedom is excluded by the property); jitter 0 (JitteredTTL is covered by C11); sequences of requests through LocalChecker (E08: path-dependent sub-results, hypothesis H8 about internal/check edge caching) are NOT covered by this kernel; trusted: go/ssa, engine semantics, abstract clock, z3; E jobs: models userset / exclusion (10 candidates) and a mutual userset cycle with its whole 16-tuple universe (request pair pinned, operands one at a time and in parallel), 2 objects per type; thorough: 5 more models and 4 more request pairs; entries never expire within a run",
        "assumptions": [
            "the delegate's cycle-free answer for a key is a function of the key while the store is unchanged (its correctness is C01)",
            "cache TTL expiry = the entry is absent (covered by the free choice of the cache content)",
            "otel/prometheus/zap calls are no-ops",
        ],
        "outside": [
            "E08: request sequences through the real LocalChecker / internal/check resolver (cycle cuts, shared visited filter, hypothesis H8)",
            "xxhash collisions",
            "the theine LRU implementation (replaced by a harness cache)",
        ],
    },
    "C10": {
        "jobs": c10,
        "level_text": "bounded symbolic execution of every cache entry point with an ADVERSARIAL harness cache (every Get, for any key, returns a perfectly valid looking stale entry and is recorded) and a recording inner reader / delegate: CachedCheckResolver.ResolveCheck, check.Resolver.isCached (weighted-graph engine), CachedDatastore and CachedTupleReader Read / ReadUsersetTuples / ReadStartingWithUser, sharediterator.IteratorDatastore (three queries, storage pre-warmed with a live shared iterator over the old result), and CheckQuery.Execute with all 8 combinations of query-cache / iterator-cache / shared-iterator flags (cache controller = recording fake, resolver seam issuing one datastore query through the request's storage wrapper). With HIGHER_CONSISTENCY: no cache Get happens, nothing is written to the cache, the cache controller is not asked for an invalidation time (the request carries the zero time), the inner reader / delegate is asked exactly once WITH the HIGHER_CONSISTENCY preference, and the returned response / iterator object / error is the inner one (through Execute: the datastore's current tuple). With the other preferences the adversarial entry is what gets served (the fake is effective); (E) the whole default Check engine, the weighted-graph Check engine and ListObjects (both reverse expansions, embedded Checks) run on a HIGHER_CONSISTENCY request over a symbolic store whose reader asserts on every Read / ReadUserTuple / ReadUsersetTuples / ReadStartingWithUser it receives that the options carry the preference - a call site that forgets to pass it on would read through the caches",
        "level_note": "bounds: 3 consistency preferences x 3 query kinds x 2 iterator-cache implementations x datastore success/failure; tuple users <= 2 symbolic ASCII bytes; shared iterator storage warm/cold; Execute: model 'direct', one request; ListObjects / ListUsers / BatchCheck entry points reuse these layers but their own dispatch of the preference is not executed here; metrics conversions (float64 of durations) are pinned by stubs; trusted: go/ssa, engine semantics incl. sync.Map / singleflight / goroutine model, z3",
        "assumptions": [
            "resolvers pass the request's consistency preference to the tuple reader (what the harness resolver seam does; the real LocalChecker is C01's subject)",
            "otel/prometheus/zap calls are no-ops; (time.Duration).Milliseconds and BoundedTupleReader.instrument (metrics only) are stubbed under the engine",
        ],
        "outside": [
            "write histories interleaved with requests at E level (a write followed by a HIGHER_CONSISTENCY request against the real engine)",
            "ListObjects / ListUsers / BatchCheck command-level plumbing of the preference",
            "the SQL datastores' own handling of the preference (postgres primary routing)",
        ],
    },
    "C11": {
        "jobs": c11,
        # natively these harnesses run on the real clock with really random jitter (several trials): good to confirm a
        # counterexample, not a replay of a solver model of a clean path
        "no_witness": ["VerifK11QueryCache", "VerifK11IteratorCache", "VerifK11JitteredTTL"],
        "level_text": "bounded symbolic execution of a whole staleness timeline over the engine's abstract clock (every time.Now() is a fresh non-decreasing symbolic instant) with a harness cache that models expiry exactly like InMemoryLRUCache (Set at s with ttl is visible at g iff g < s + min(ttl, 1 year)): [optional older ChangelogCacheEntry] -> an entry is populated by the REAL code (CachedCheckResolver miss; or CachedDatastore / CachedTupleReader query consumed, stopped and flushed by the real background goroutine) -> a write commits with changelog timestamp tw after the entry was stored -> the REAL InMemoryCacheController.InvalidateIfNeeded / findChangesAndInvalidateIfNecessary (goroutines, sync.Map, select, 1 s deadline) runs after the write with a harness ReadChanges returning the most recent page (1..2 changes with descending symbolic timestamps, the write among them or older than the page) and completes -> a request evaluates the REAL predicates (DetermineInvalidationTime + NewResolveCheckRequest + CachedCheckResolver.ResolveCheck; findInCache/isInvalidAt via CachedDatastore; tryGetFromCache via CachedTupleReader). Shown for the shipped defaults (TTL jitter 0, entries and controller use the same iterator TTL), for arbitrary TTLs and arbitrary instants: the pre-write entry is never served, the run never fabricates an entry, a run whose ReadChanges fails condemns all iterator entries of the store, a run that hits its own deadline changes nothing; storage.JitteredTTL stays within [base, base + base*min(pct,100)/100] and is the identity for pct = 0 (10 enumerated bases, symbolic percentage and random draw). Expected-violation configurations are kept as separate jobs on a replayable clock grid (native replay with real sleeps against the real clock); (E) the whole default Check engine behind the real CachedCheckResolver over a symbolic store: a request answered before a write (store differing in one tuple) must not influence the same request carrying the completion time of a later invalidation run, at the top level or in any dispatched sub-problem",
        "level_note": "bounds: one entry, one write, one completed invalidation run, one later request; changelog page of 1 (quick) / 1..2 changes (same or unrelated tuple, write/delete; the write first, second, or older than the page); plus (ReadStartingWithUser, first iterator cache) a three-change page write / same object#relation for another user / unrelated, and a two-change page with the marker of an earlier run for another key of the same query already in the cache (older than the entry); 3 query kinds x 2 iterator-cache implementations, wildcard and plain user writes; TTLs symbolic in 1 ns..2^40 ns; controller interval concrete (quick) / symbolic; every branch on instants is explored as a separate path (fork-all), 30..500 paths per job; a reader's look-ups (entry, then markers) are taken to happen at one instant (without this the solver finds the boundary race 'entry read just before its expiry, marker read just after the marker's expiry'); findings jobs: TTL (K+1/2) ms with K=20 (40), steps on a 1 ms grid, jitter 100 % (10 %); trusted: go/ssa, engine semantics incl. goroutine / sync / context model, abstract single clock, z3",
        "assumptions": [
            "single clock: changelog timestamps and time.Now() are the same clock, a change is visible to ReadChanges only at or after its timestamp, and an earlier run's ChangelogCacheEntry.LastModified precedes the write",
            "populated before the write = the cache Set happened before the write's changelog timestamp (entries computed from pre-write reads but stored after the write are outside)",
            "a reader's cache look-ups for one query happen at one instant",
            "a run that gives up on its own 1 s deadline, and (query cache only) a run whose ReadChanges fails, is not a completed invalidation",
            "TTLs > 0; cache size eviction only removes entries",
        ],
        "outside": [
            "both caches enabled together (excluded by the property)",
            "clock skew / coarser resolution of database change timestamps versus the server clock",
            "entries stored after the write from reads that started before it (query cache stamps LastModified at store time)",
            "more than one write / run / request on a timeline; the SQL ReadChanges implementations",
            "query cache after a FAILED ReadChanges: the controller condemns iterator entries only, query-cache entries keep being served until the next successful run (observed, by design per the code comment)",
        ],
    },
}
