"""Checks written in the first build session: C14, C24, C27, C28, C29."""
from specs.common import J

MEM = "pkg/storage/memory"
TUP = "pkg/tuple"


def c29(tier, seed):
    q = tier == "quick"
    jobs = []
    for h in ["VerifK29cObject", "VerifK29cRelation", "VerifK29cUserID"]:
        jobs.append(J(TUP, h, len=4 if q else 5, timeout_ms=120000 if q else 300000))
        jobs.append(J(TUP, h, len=6 if q else 9, ascii=1, timeout_ms=60000 if q else 300000))
    # usersets need >= 5 bytes (`t:i#r`)
    jobs.append(J(TUP, "VerifK29cUserset", len=5 if q else 6, timeout_ms=300000))
    jobs.append(J(TUP, "VerifK29cUserset", len=7 if q else 9, ascii=1, timeout_ms=300000))
    jobs.append(J(TUP, "VerifK29cUser", len=4 if q else 5, timeout_ms=300000))
    jobs.append(J(TUP, "VerifK29cWildcard", len=4 if q else 6, timeout_ms=300000))
    jobs.append(J(TUP, "VerifK29bUserProto", len=5 if q else 6, timeout_ms=300000))
    if not q:
        jobs.append(J(TUP, "VerifK29cUser", len=7, ascii=1, timeout_ms=600000))
        jobs.append(J(TUP, "VerifK29bUserProto", len=8, ascii=1, timeout_ms=600000))
    jobs.append(J(TUP, "VerifK29aRoundTrip", obj=3, rel=1, usr=3, timeout_ms=120000))
    jobs.append(J(TUP, "VerifK29aRoundTrip", obj=3 if q else 4, rel=2, usr=3 if q else 4, ascii=1, timeout_ms=300000))
    jobs.append(J(TUP, "VerifK29aParsePrint", len=8, timeout_ms=120000))
    jobs.append(J(TUP, "VerifK29bSplitObjectRelation", o=4, r=3, timeout_ms=120000))
    jobs.append(J(TUP, "VerifK29bUserParts", len=5 if q else 7, timeout_ms=120000))
    # (thorough jobs with obj=5/rel=3/usr=6 and 12-byte strings ran past the 45-minute job budget: not claimed)
    return jobs


def c14(tier, seed):
    q = tier == "quick"
    n = 3 if q else 4  # 5 items (ReadPageFollow with 6) did not finish within the job budget: reduced, not claimed
    tok = 2 if q else 3
    jobs = [
        J(MEM, "VerifK14aReadPageAnyToken", n=n, tok=tok, timeout_ms=180000),
        J(MEM, "VerifK14aReadPageFollow", n=n + 1, timeout_ms=180000),
        J(MEM, "VerifK14aListStoresAnyToken", n=n, tok=tok, timeout_ms=180000),
        J(MEM, "VerifK14aListStoresAnyToken", n=n, tok=tok, ids=1, timeout_ms=180000),
        J(MEM, "VerifK14aReadModelsAnyToken", n=n, tok=tok, timeout_ms=180000),
        J("pkg/server/commands", "VerifK14bReadChangesTokenType", len=3 if q else 5, tok=5 if q else 8, timeout_ms=180000),
    ]
    return jobs


KEYS = "pkg/storage/cache/keys"


def c24(tier, seed):
    q = tier == "quick"
    jobs = [
        J(KEYS, "VerifK24aUniqueDecoding", k=1, str=2, timeout_ms=120000),
        J(KEYS, "VerifK24aUvarintPrefixFree", timeout_ms=120000),
        J(KEYS, "VerifK24aHexInjective", len=3 if q else 5, timeout_ms=300000),
    ]
    if not q:
        jobs.append(J(KEYS, "VerifK24aUniqueDecoding", k=2, str=2, timeout_ms=900000))
    # K24c: the final 64-bit invariant key (real XXH64 on concrete inputs) when a contextual tuple is listed more than once
    jobs.append(J("pkg/storage", "VerifK24cRepeatedTuples", timeout_ms=120000))
    # K24b: the compositions on top of the Builder (PbValue, Tuple, invariant / check / read keys)
    from specs import validgroup
    jobs += validgroup.c24b(tier, seed)
    return jobs


def c27(tier, seed):
    q = tier == "quick"
    P = "internal/authn/presharedkey"
    return [J(P, "VerifK27Preshared", len=3 if q else 6, timeout_ms=300000), J(P, "VerifK27NoKeys")]


def c28(tier, seed):
    q = tier == "quick"
    E = "pkg/encoder"
    return [
        J(E, "VerifK28aSerializerRoundTrip", u=3 if q else 6, t=4 if q else 8),
        J(E, "VerifK28aDeserializeAny", len=6 if q else 12),
        J(E, "VerifK28bTokenEncoder", d=3 if q else 6, timeout_ms=300000),
        # the real base64 layer (encoding/base64 from source): Decode(Encode(b)) = b, URL-safe alphabet only
        J(E, "VerifK28cBase64RoundTrip", len=4 if q else 7, timeout_ms=300000),
        # which AES key a configured key string becomes: different keys (1, 31, 32, 33 bytes) derive different keys
        J("pkg/encrypter", "VerifK28dKeyDerivation", timeout_ms=300000),
    ]


SPEC = {
    "C24": {
        "jobs": c24,
        "level_text": "bounded symbolic execution of the cache-key Builder: two arbitrary sequences of Encode* calls (kinds and payloads symbolic, merged into one query) that yield the same bytes are the same sequence with equal payloads (unique decodability of the tag/length framing); uvarint length prefixes are prefix-free for all pairs of uint64; the hex rendering of keys is injective",
        "level_note": "bounds: sequences of <= 1 (quick) / 2 (thorough) fields per side with strings <= 2 bytes and counts 0..200 (crossing the 1/2-byte uvarint boundary); hex: keys <= 3/5 bytes; digest collisions excluded by the property; trusted: engine semantics, z3",
        "assumptions": ["slices.Grow only affects capacity", "merging byte slices with different backing arrays at control-flow joins copies them (no aliasing is relied on by the Builder)"],
        "outside": ["xxhash digest collisions (pre-digest bytes are compared)", "strings, value trees and filter lists larger than the stated bounds"],
    },
    "C27": {
        "jobs": c27,
        "level_text": "bounded symbolic execution of PresharedKeyAuthenticator.Authenticate with 1..3 arbitrary configured keys and an arbitrary presented token (the real subtle.ConstantTimeCompare over 32 digest bytes is encoded): authenticated exactly when the token is a configured key (under collision freedom of the digest, which is an uninterpreted function), missing header => ErrMissingBearerToken, otherwise ErrUnauthenticated; no keys => constructor error",
        "level_note": "bounds: keys and token <= 3 (quick) / 6 bytes; sha256 is an uninterpreted function with collision freedom assumed for the strings in play; grpc AuthFromMD replaced by its contract (returns the bearer token or an error); OIDC is outside (RSA/JWT library code cannot be encoded)",
        "assumptions": ["sha256.Sum256 is a function (UF) without collisions on the strings involved", "grpcauth.AuthFromMD returns the bearer token or an error"],
        "outside": ["OIDC authenticator (JWT parsing, RS256, key-set fetch)", "header parsing inside the grpc middleware"],
    },
    "C28": {
        "jobs": c28,
        "level_text": "bounded symbolic execution of the continuation-token serializer and of the TokenEncoder+GCMEncrypter framing around an ideal AEAD: serialize/deserialize round-trips for every ulid without '|' and every type string, every accepted string re-serializes to itself, Decode(Encode(d)) = d, and every string that was not issued is rejected (except the documented empty-token pass-through)",
        "level_note": "bounds: ulid <= 3/6 bytes, type <= 4/8 bytes, payload <= 3/6 bytes, forged token <= payload+4 bytes; AES-GCM replaced by an ideal AEAD with symbolic keystream and tag (Open succeeds exactly on sealed pairs), nonce from crypto/rand = arbitrary bytes; in K28a/b base64 is the identity encoder, K28c executes the real Base64Encoder (encoding/base64 from its source) on byte strings <= 4/7 bytes",
        "assumptions": ["ideal AEAD", "crypto/rand yields arbitrary bytes"],
        "outside": ["AES-GCM as mathematics (ideal AEAD)", "strength of SHA-256 (uninterpreted function, collision freedom on the two keys assumed in K28d)", "byte strings longer than the bounds"],
    },
    "C14": {
        "jobs": c14,
        "level_text": "bounded symbolic execution of the memory backend's paginated reads (ReadPage, ListStores, ReadAuthorizationModels): for every item count <= N, every page size and EVERY continuation-token byte string up to the bound the solver shows the call either rejects the token or returns the contiguous page at the (clamped) position in the documented order with the exact follow-up token; following issued tokens visits every item once. A panic on any path is a violation.",
        "level_note": "bounds: N<=3 (quick) / 4 items (follow-up chain: N+1), tokens <= 2/3 arbitrary bytes, page size 1..N+1; memory backend only (SQL backends are query strings executed by an external engine: outside); strconv.Atoi/Itoa are the real code; trusted: engine semantics, z3",
        "assumptions": ["forged tokens outside [0,n] may be clamped (what ListStores/ReadAuthorizationModels do) but never restart the listing", "tracing (otel) calls are no-ops"],
        "outside": ["sqlite/postgres/mysql pagination", "ReadChanges token/type binding (commands layer) until K14b is registered", "data sets larger than the bound"],
    },
    "C29": {
        "jobs": c29,
        "level_text": "bounded symbolic execution of pkg/tuple's real SSA: for every byte string within the bound the solver shows the validity predicates equal an independent grammar and the print/parse/split/build functions are mutual inverses; unsat = holds for all inputs in the bound, sat = concrete string replayed natively",
        "level_note": "bounds: strings <= 3..5 arbitrary bytes / <= 6..12 ASCII bytes per field (tier dependent, listed in evidence); trusted: go/ssa, the engine's instruction semantics and UTF-8 decoder, z3",
        "assumptions": [
            "unicode.IsControl modelled as r<0x20 or 0x7f<=r<0xa0",
            "UTF-8 decoding of `range` and utf8.DecodeRuneInString is the engine's bit-vector decoder",
            "strings.Builder is modelled as an append-only byte slice",
        ],
        "outside": ["strings longer than the stated bounds"],
    },
}


def _merge_c24b():
    # the K24b text (level, bounds, assumptions) lives next to its job list in validgroup.py
    from specs import validgroup
    b = getattr(validgroup, "C24B", None)
    if not b:
        return
    s = SPEC["C24"]
    s["level_text"] += ". " + b["level_text"]
    s["level_note"] += "; " + b["level_note"]
    s["assumptions"] = list(s["assumptions"]) + list(b.get("assumptions", []))


_merge_c24b()
