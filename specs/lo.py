"""Whole-engine check of the classic ListObjects engine: C05 (ListObjects returns exactly the permitted objects)."""
from specs.common import J

CMDS = "pkg/server/commands"

MODELS_QUICK = ["direct", "wildcard", "union_computed", "userset_flat", "ttu", "exclusion", "intersection", "condition"]
MODELS_MORE = ["userset", "inter_excl", "shared_tuples", "h6", "condition_userset", "computed_chain",
               "rec_intersection", "userset_ttu_mix", "ttu_excl"]
MODELS_ALL = MODELS_QUICK + MODELS_MORE

# The harness still understands the tolerance parameters known_swallowed_condition_errors / known_limit_race and
# subjects=nowild, which were used while findings H24, H7 and H25 were open; since their repair every job is strict.
# requests that read many tuples (every tuple read is a fork): split the request family over jobs
_HEAVY_A = {"ttu": 2, "ttu_excl": 2, "userset": 2, "rec_intersection": 2, "userset_ttu_mix": 2}


def _lo(model, parts=1, **kw):
    out = []
    for p in range(parts):
        params = dict(kw)
        if parts > 1:
            params.update(parts=parts, part=p)
        out.append(J(CMDS, "VerifE05ListObjects", model=model, unwind=64, timeout_ms=60000, **params))
    return out


def c05(tier, seed):
    q = tier == "quick"
    jobs = []
    budget = 6000 if q else 60000
    for m in (MODELS_QUICK if q else MODELS_ALL):
        # A: every valid tuple (no leftovers), one subject per type, unbounded answer, classic reverse expansion
        jobs += _lo(m, parts=_HEAVY_A.get(m, 1), maxcands=12 if q else 14, invalid=0, subjects="min", max=0, max_paths=budget)
        # B: invalid leftovers, all subjects (objects, usersets, typed wildcards), weighted-graph reverse expansion
        #    (feature flag enable-list-objects-optimizations), result limit 2 on two objects per type: exact count
        jobs += _lo(m, maxcands=10 if q else 12, seed=seed % 7, lo_opt=1, max=2, max_paths=budget)
        if not q:
            jobs += _lo(m, maxcands=12, seed=(seed + 1) % 7, lo_opt=1, max=0, max_paths=budget)
            jobs += _lo(m, maxcands=12, seed=(seed + 2) % 7, lo_opt=0, max=2, max_paths=budget)
            # limit 1: a second candidate can follow the limit, only soundness / distinctness / upper bound
            jobs += _lo(m, maxcands=12, seed=(seed + 3) % 7, lo_opt=seed % 2, max=1, max_paths=budget)
            jobs += _lo(m, maxcands=10, seed=(seed + 3) % 7, lo_opt=0, max=0, breadth=1, max_paths=budget)
            jobs += _lo(m, maxcands=10, seed=(seed + 4) % 7, lo_opt=1, max=2, breadth=1, max_paths=budget)
            # contextual tuples (C04 coverage of the ListObjects path); the weighted variant without typed-wildcard
            # subjects: with them it hits the recorded finding "empty user filter matches every contextual tuple"
            jobs += _lo(m, maxcands=10, seed=(seed + 5) % 7, lo_opt=0, max=0, ctx=3, max_paths=budget)
            jobs += _lo(m, maxcands=10, seed=(seed + 6) % 7, lo_opt=1, max=2, ctx=3, max_paths=budget)
    if q:
        # limit 1 (upper bound only, see above) and contextual tuples on a few models
        jobs += _lo("exclusion", maxcands=10, seed=(seed + 2) % 7, lo_opt=0, max=1, max_paths=budget)
        jobs += _lo("ttu", maxcands=10, seed=(seed + 2) % 7, lo_opt=1, max=1, max_paths=budget)
        jobs += _lo("wildcard", maxcands=10, seed=(seed + 1) % 7, lo_opt=0, max=0, ctx=3, max_paths=budget)
        jobs += _lo("ttu", maxcands=10, seed=(seed + 1) % 7, lo_opt=1, max=2, ctx=3, max_paths=budget)
        jobs += _lo("exclusion", maxcands=10, seed=(seed + 1) % 7, lo_opt=1, max=0, ctx=3, max_paths=budget)
    # leftovers of an older model next to their conditioned successors (`viewer: [user with c1, user:*]`): both reverse
    # expansions must ignore tuples that are not valid for the model in use, as Check does
    for opt in (0, 1):
        jobs += _lo("cond_wild", maxcands=12, lo_opt=opt, max=0, max_paths=budget)
    # D: the first selects with several ready cases take an arbitrary case (the random choice of a real select),
    #    three objects per type, unbounded answer and limit 3: completeness / exact count on all those choices
    for mx in ([0] if q else [0, 3]):
        for m in (["exclusion"] if q else ["exclusion", "inter_excl", "intersection"]):
            jobs += _lo(m, nobj=3, maxcands=15, invalid=0, subjects="min", max=mx, sched=6 if q else 10, max_paths=budget)
    # K05a: harness-implemented datastore and check resolver deliver the later candidates exactly while the first
    #       Check is answered; forked select choices; in the schedules the engine explores the count is exact
    for n, mx in ([(2, 1), (3, 2)] if q else [(2, 1), (3, 1), (3, 2), (4, 2)]):
        jobs.append(J(CMDS, "VerifK05LimitRace", unwind=64, timeout_ms=60000, n=n, max=mx, sched=8))
    # ---- the inputs on which findings H24, H25 and H7 were first seen (kept as regression jobs) ------------------
    # "max results 0 swallows condition-evaluation errors"
    jobs += _lo("condition", maxcands=6, invalid=0, subjects="min", max=0, max_paths=4000)
    # "weighted reverse expansion + typed-wildcard user: the empty user filter matches every contextual tuple of the
    # relation" (seed pinned: the contextual candidates must be tuples of a [user]-only relation)
    jobs += _lo("exclusion", maxcands=10, seed=1, lo_opt=1, max=0, ctx=3, max_paths=4000)
    # H7 "a counted object is dropped when the limit cancels the request": concrete two-hop store, limit 1, canonical
    # schedule of the engine; the native replay is a stress run (40 documents, limit 5) that fails on a short answer
    jobs.append(J(CMDS, "VerifK05TwoHop", unwind=64, timeout_ms=60000, max=1))
    # K05p: the set workers of the streaming pipeline (`and` / `but not` operator nodes): the real
    # (*Intersection).Execute / (*Difference).Execute, wired as pipeline.Build wires them, on arbitrary operand
    # contents (every (operand, object) pair decided by the solver): output = exactly the set operation, no duplicates
    WORKER = "internal/listobjects/pipeline/internal/worker"
    for p in ([dict(kind="inter", ops=2, vals=3), dict(kind="inter", ops=3, vals=3, split=1), dict(kind="diff", vals=4, split=1),
               dict(kind="inter", ops=2, vals=4, chunk=1, procs=2)]
              + ([] if q else [dict(kind="inter", ops=3, vals=4, split=1, procs=2), dict(kind="diff", vals=4, chunk=1, procs=2)])):
        jobs.append(J(WORKER, "VerifK05pSetWorkers", unwind=32, timeout_ms=60000, max_paths=8000, **p))
    if not q:
        for j in jobs:
            j["job_timeout_s"] = 3000
    return jobs


SPEC = {
    "C05": {
        "jobs": c05,
        "no_witness": ["VerifK05TwoHop"],  # natively a stress run (40 documents, many repetitions), not a replay of the model
        "level_text": "bounded symbolic execution of the real classic ListObjects engine (NewListObjectsQuery with its feature-flag client, Execute with request validation, evaluate: request storage wrapper, ReverseExpandQuery in both variants - reverse_expand.go and, under the optimisation flag, reverse_expand_weighted.go -, consumer loop, bounded pool, the real CheckCommand + graph.LocalChecker for candidates that need further evaluation, trySendObject) over a symbolic store: every candidate tuple's presence is a solver variable, every (type, relation, subject) over the universe is requested, the planner of the embedded Check picks an arbitrary strategy per plan key, and on every path the solver shows: every returned object is an object of the requested type that the three-valued least-fixpoint reference semantics of Check permits, no object is returned twice, with max results 0 every permitted object is returned, with a result limit never more than the limit and - limit 2 on two objects per type, limit 3 on three - exactly min(limit, number of permitted objects) objects are returned, and an error occurs only if the store or the contextual tuples hold a tuple whose condition cannot be evaluated. (K05p) the set-operator workers of the streaming pipeline - the real (*Intersection).Execute and (*Difference).Execute wired as pipeline.Build wires an operator node - on arbitrary operand contents (2-3 operands over 3-4 object ids, every membership a solver decision, one or two messages per operand, chunk size 1-2, 1-2 processing goroutines): the output is exactly the intersection / difference of the operand sets, without duplicates, and no error is reported.",
        "level_note": "bounds: 8 (quick) / 17 models, 2 objects per type (3 in the schedule jobs), all valid candidates (<= 12/14) with one subject per type or <= 10/12 candidates with invalid leftovers and all subjects (objects, usersets, typed wildcards); up to 3 candidates as contextual tuples; breadth limit 1 (thorough). The streaming pipeline engine is OUTSIDE (switched off: WithListObjectsPipelineEnabled(false), pipeline feature flag absent). Deadline switched off (a deadline truncates the answer by design; the abstract clock may jump past any deadline). Schedules: one canonical fair interleaving per path (cooperative: a goroutine runs until it blocks or reaches a select); the jobs with `sched` additionally fork the first 6/10 selects that have several ready cases. Findings H7 (a counted object dropped when the limit cancels the request), H24 (max results 0 swallowed condition errors) and H25 (empty user filter matched every contextual tuple) were found by these jobs and are repaired in /repo; the jobs that demonstrated them stay in the list and every job now carries the full obligations (exact count also with limit 1, errors reported with max results 0, typed-wildcard subjects with contextual tuples). Model h6 (thorough) surfaces H6 of the embedded Check engine (default strategy), recorded as known finding H6b. Trusted: engine semantics and library models listed in evidence, the reference semantics (harness/internal/vtsem), z3.",
        "assumptions": [
            "store content = arbitrary subset of the candidate universe (2-3 objects per type, every tuple the model's type restrictions allow plus invalid leftovers), restricted to `maxcands` candidates chosen by seed; (object, relation, user) is a key",
            "CEL evaluation replaced by one symbolic outcome (met / not met / missing parameter) per condition name; replay runs the real CEL evaluator with a request context producing that outcome",
            "goroutines scheduled cooperatively with a fair deterministic scheduler (one canonical interleaving per path, plus forked select choices where stated)",
            "planner replaced by an arbitrary (solver-chosen) strategy per plan key (vtplan)",
            "ListObjects deadline = 0 (disabled); dispatch and datastore throttling disabled (defaults); iterator and check caches off (defaults)",
            "tracing/metrics/logging are no-ops; timers never fire",
        ],
        "outside": ["the streaming pipeline engine (internal/listobjects/pipeline) end to end (only its `and` / `but not` operator workers are covered in isolation, K05p; the cycle workers under C21)", "StreamedListObjects (same evaluate, unbounded limit, gRPC stream)", "deadline-truncated answers", "schedules with preemption at arbitrary instructions or true parallelism (beyond the cooperative interleaving and the forked select choices)", "universes beyond the bounds", "real CEL outcomes"],
    },
}
