"""Whole-engine check of the classic ListObjects engine: C05 (ListObjects returns exactly the permitted objects)."""
from specs.common import J

CMDS = "pkg/server/commands"

MODELS_QUICK = ["direct", "wildcard", "union_computed", "userset_flat", "ttu", "exclusion", "intersection", "condition"]
MODELS_MORE = ["userset", "inter_excl", "shared_tuples", "h6", "condition_userset", "computed_chain",
               "rec_intersection", "userset_ttu_mix", "ttu_excl"]
MODELS_ALL = MODELS_QUICK + MODELS_MORE

# jobs that set this parameter skip the one obligation of the recorded finding "max results 0 swallows condition
# errors" (the strict job reports it); everything else is still checked on every path
_KNOWN = "known_swallowed_condition_errors"
# requests that read many tuples (every tuple read is a fork): split the request family over jobs
_HEAVY_A = {"ttu": 2, "ttu_excl": 2, "userset": 2, "rec_intersection": 2, "userset_ttu_mix": 2}


def _lo(model, parts=1, **kw):
    out = []
    for p in range(parts):
        params = dict(kw)
        if parts > 1:
            params.update(parts=parts, part=p)
        out.append(J(CMDS, "VerifE05ListObjects", model=model, unwind=64, timeout_ms=60000, **params))
    return out


def c05(tier, seed):
    q = tier == "quick"
    jobs = []
    budget = 6000 if q else 60000
    for m in (MODELS_QUICK if q else MODELS_ALL):
        # A: every valid tuple (no leftovers), one subject per type, unbounded answer, classic reverse expansion
        jobs += _lo(m, parts=_HEAVY_A.get(m, 1), maxcands=12 if q else 14, invalid=0, subjects="min", max=0, max_paths=budget, **{_KNOWN: 1})
        # B: invalid leftovers, all subjects (objects, usersets, typed wildcards), weighted-graph reverse expansion
        #    (feature flag enable-list-objects-optimizations), result limit 1..2 chosen by the solver
        jobs += _lo(m, maxcands=10 if q else 12, seed=seed % 7, lo_opt=1, max=-1, max_paths=budget)
        if not q:
            jobs += _lo(m, maxcands=12, seed=(seed + 1) % 7, lo_opt=1, max=0, max_paths=budget, **{_KNOWN: 1})
            jobs += _lo(m, maxcands=12, seed=(seed + 2) % 7, lo_opt=0, max=-1, max_paths=budget)
            jobs += _lo(m, maxcands=10, seed=(seed + 3) % 7, lo_opt=0, max=0, breadth=1, max_paths=budget, **{_KNOWN: 1})
            jobs += _lo(m, maxcands=10, seed=(seed + 4) % 7, lo_opt=1, max=-1, breadth=1, max_paths=budget)
            # contextual tuples (C04 coverage of the ListObjects path); the weighted variant without typed-wildcard
            # subjects: with them it hits the recorded finding "empty user filter matches every contextual tuple"
            jobs += _lo(m, maxcands=10, seed=(seed + 5) % 7, lo_opt=0, max=0, ctx=3, max_paths=budget, **{_KNOWN: 1})
            jobs += _lo(m, maxcands=10, seed=(seed + 6) % 7, lo_opt=1, max=-1, ctx=3, subjects="nowild", max_paths=budget)
    if q:
        # C: contextual tuples
        jobs += _lo("wildcard", maxcands=10, seed=(seed + 1) % 7, lo_opt=0, max=0, ctx=3, max_paths=budget)
        jobs += _lo("ttu", maxcands=10, seed=(seed + 1) % 7, lo_opt=1, max=-1, ctx=3, subjects="nowild", max_paths=budget)
        jobs += _lo("exclusion", maxcands=10, seed=(seed + 1) % 7, lo_opt=1, max=0, ctx=3, subjects="nowild", max_paths=budget)
    # strict job for the finding "weighted reverse expansion + typed-wildcard user: the empty user filter matches every
    # contextual tuple of the relation" (seed pinned: the contextual candidates must be tuples of a [user]-only relation)
    jobs += _lo("exclusion", maxcands=10, seed=1, lo_opt=1, max=0, ctx=3, max_paths=4000)
    # D: the first selects with several ready cases take an arbitrary case (the random choice in
    #    TrySendThroughChannel, hypothesis H7), three objects per type, limit 1 and 2
    for mx in ([1] if q else [1, 2]):
        for m in (["exclusion"] if q else ["exclusion", "inter_excl", "intersection"]):
            jobs += _lo(m, nobj=3, maxcands=15, invalid=0, subjects="min", max=mx, sched=6 if q else 10, max_paths=budget)
    # K05: harness-implemented datastore and check resolver deliver the later candidates exactly while the first Check
    # is answered (the situation of hypothesis H7); forked select choices; exact count under the limit
    for n, mx in ([(2, 1), (3, 2)] if q else [(2, 1), (3, 1), (3, 2), (4, 2)]):
        jobs.append(J(CMDS, "VerifK05LimitRace", unwind=64, timeout_ms=60000, n=n, max=mx, sched=8))
    # strict job for the finding "max results 0 swallows condition-evaluation errors"
    jobs += _lo("condition", maxcands=6, invalid=0, subjects="min", max=0, max_paths=4000)
    if not q:
        for j in jobs:
            j["job_timeout_s"] = 3000
    return jobs


SPEC = {
    "C05": {
        "jobs": c05,
        "level_text": "bounded symbolic execution of the real classic ListObjects engine (NewListObjectsQuery with its feature-flag client, Execute with request validation, evaluate: request storage wrapper, ReverseExpandQuery in both variants - reverse_expand.go and, under the optimisation flag, reverse_expand_weighted.go -, consumer loop, bounded pool, the real CheckCommand + graph.LocalChecker for candidates that need further evaluation, trySendObject) over a symbolic store: every candidate tuple's presence is a solver variable, every (type, relation, subject) over the universe is requested, the planner of the embedded Check picks an arbitrary strategy per plan key, and on every path the solver shows: every returned object is an object of the requested type that the three-valued least-fixpoint reference semantics of Check permits, no object is returned twice, with max results 0 every permitted object is returned, with max results m in {1,2} exactly min(m, number of permitted objects) objects are returned, and an error occurs only if the store or the contextual tuples hold a tuple whose condition cannot be evaluated.",
        "level_note": "bounds: 8 (quick) / 17 models, 2 objects per type (3 in the schedule jobs), all valid candidates (<= 12/14) with one subject per type or <= 10/12 candidates with invalid leftovers and all subjects (objects, usersets, typed wildcards); up to 3 candidates as contextual tuples; breadth limit 1 (thorough). The streaming pipeline engine is OUTSIDE (switched off: WithListObjectsPipelineEnabled(false), pipeline feature flag absent). Deadline switched off (a deadline truncates the answer by design; the abstract clock may jump past any deadline). Schedules: one canonical fair interleaving per path; the jobs with `sched` additionally fork the first 6/10 selects that have several ready cases (the random choice of select, e.g. ctx.Done vs send in TrySendThroughChannel). Preemption at arbitrary instructions is not explored, so hypothesis H7 (a Check goroutine counts itself in objectsFound, is preempted, the consumer cancels, the select drops the object) is neither confirmed nor excluded: none of the explored schedules returns fewer than min(m, permitted). Completeness with max results 0 is claimed for stores in which every condition can be evaluated (an evaluation error cancels the expansion; the call then has to fail); all jobs but the strict one skip the obligation of the recorded finding 'max results 0 swallows condition-evaluation errors'. The contextual-tuple jobs of the weighted variant leave out typed-wildcard subjects (recorded finding: for a wildcard user the weighted reverse expansion reads with an empty user filter, which the contextual-tuple reader takes as 'every user'); one strict job demonstrates it. Model h6 (thorough) surfaces H6 of the embedded Check engine (default strategy). Trusted: engine semantics and library models listed in evidence, the reference semantics (harness/internal/vtsem), z3.",
        "assumptions": [
            "store content = arbitrary subset of the candidate universe (2-3 objects per type, every tuple the model's type restrictions allow plus invalid leftovers), restricted to `maxcands` candidates chosen by seed; (object, relation, user) is a key",
            "CEL evaluation replaced by one symbolic outcome (met / not met / missing parameter) per condition name; replay runs the real CEL evaluator with a request context producing that outcome",
            "goroutines scheduled cooperatively with a fair deterministic scheduler (one canonical interleaving per path, plus forked select choices where stated)",
            "planner replaced by an arbitrary (solver-chosen) strategy per plan key (vtplan)",
            "ListObjects deadline = 0 (disabled); dispatch and datastore throttling disabled (defaults); iterator and check caches off (defaults)",
            "tracing/metrics/logging are no-ops; timers never fire",
        ],
        "outside": ["the streaming pipeline engine (internal/listobjects/pipeline) end to end", "StreamedListObjects (same evaluate, unbounded limit, gRPC stream)", "deadline-truncated answers", "preemption-dependent schedules (hypothesis H7)", "universes beyond the bounds", "real CEL outcomes"],
    },
}
