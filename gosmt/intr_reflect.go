package main

// A minimal model of reflect(lite).Type values: only what context.WithValue, errors and a few
// comparisons in the repository need.

import (
	"go/types"

	"golang.org/x/tools/go/ssa"
)

// reflType is a pseudo dynamic type standing for a reflect.Type describing t.
type reflType struct {
	t types.Type
}

func (r *reflType) Underlying() types.Type { return r }
func (r *reflType) String() string         { return "reflect.Type(" + r.t.String() + ")" }

func (in *Interp) mkReflType(t types.Type) Value {
	if t == nil {
		return Iface{}
	}
	if in.reflTypes == nil {
		in.reflTypes = map[string]*reflType{}
	}
	k := t.String()
	rt, ok := in.reflTypes[k]
	if !ok {
		rt = &reflType{t: t}
		in.reflTypes[k] = rt
	}
	return Iface{t: rt, v: in.ts.BV(8, 0)}
}

func (in *Interp) reflInvoke(rt *reflType, name string, args []Value, cc *ssa.CallCommon) Value {
	switch name {
	case "Comparable":
		return in.ts.Bool(types.Comparable(rt.t))
	case "String":
		return in.concStr(rt.t.String())
	case "Name":
		if n, ok := types.Unalias(rt.t).(*types.Named); ok {
			return in.concStr(n.Obj().Name())
		}
		return in.concStr("")
	case "PkgPath":
		if n, ok := types.Unalias(rt.t).(*types.Named); ok && n.Obj().Pkg() != nil {
			return in.concStr(n.Obj().Pkg().Path())
		}
		return in.concStr("")
	case "Kind":
		return in.ts.BV(64, uint64(reflKind(rt.t)))
	case "Elem":
		switch u := rt.t.Underlying().(type) {
		case *types.Pointer:
			return in.mkReflType(u.Elem())
		case *types.Slice:
			return in.mkReflType(u.Elem())
		case *types.Array:
			return in.mkReflType(u.Elem())
		case *types.Map:
			return in.mkReflType(u.Elem())
		case *types.Chan:
			return in.mkReflType(u.Elem())
		}
	case "Implements", "AssignableTo":
		o, ok := args[0].(Iface)
		if ok {
			if ort, ok := o.t.(*reflType); ok {
				if it, isI := ort.t.Underlying().(*types.Interface); isI {
					return in.ts.Bool(types.Implements(rt.t, it))
				}
				return in.ts.Bool(types.AssignableTo(rt.t, ort.t))
			}
		}
	}
	abortf("reflect.Type.%s is not modelled (type %s)", name, rt.t)
	return nil
}

func reflKind(t types.Type) int {
	switch u := t.Underlying().(type) {
	case *types.Basic:
		switch u.Kind() {
		case types.Bool:
			return 1
		case types.Int:
			return 2
		case types.Int8:
			return 3
		case types.Int16:
			return 4
		case types.Int32:
			return 5
		case types.Int64:
			return 6
		case types.Uint:
			return 7
		case types.Uint8:
			return 8
		case types.Uint16:
			return 9
		case types.Uint32:
			return 10
		case types.Uint64:
			return 11
		case types.Uintptr:
			return 12
		case types.Float32:
			return 13
		case types.Float64:
			return 14
		case types.String:
			return 24
		case types.UnsafePointer:
			return 26
		}
	case *types.Array:
		return 17
	case *types.Chan:
		return 18
	case *types.Signature:
		return 19
	case *types.Interface:
		return 20
	case *types.Map:
		return 21
	case *types.Pointer:
		return 22
	case *types.Slice:
		return 23
	case *types.Struct:
		return 25
	}
	return 0
}

func init() {
	typeOf := func(in *Interp, fn *ssa.Function, a []Value, g *Term) Value {
		itf, ok := a[0].(Iface)
		if !ok {
			abortf("reflect.TypeOf on %s", in.show(a[0]))
		}
		if itf.t == nil {
			return Iface{}
		}
		if _, isNoop := itf.t.(*noopType); isNoop {
			return in.mkReflType(types.Typ[types.Int])
		}
		return in.mkReflType(itf.t)
	}
	reg("internal/reflectlite.TypeOf", typeOf)
	reg("reflect.TypeOf", typeOf)
}
