package main

// gonum's graph iterators walk Go maps through runtime internals (unsafe + linkname), which cannot be
// interpreted. The one query the repository makes through them on the check path — reachability — is
// modelled here as a breadth-first search over the interpreted graph object's own adjacency maps.

import (
	"go/types"

	"golang.org/x/tools/go/ssa"
)

func structField(in *Interp, itf Value, name string) Value {
	i, ok := itf.(Iface)
	if !ok || i.t == nil {
		abortf("gonum model: expected a graph object, got %s", in.show(itf))
	}
	p, ok := i.v.(Ptr)
	if !ok || p.p == nil {
		abortf("gonum model: graph is not a pointer")
	}
	st := (*p.p).(Struct)
	pt, ok := i.t.Underlying().(*types.Pointer)
	if !ok {
		abortf("gonum model: graph type %s", i.t)
	}
	return st[fieldIndex(pt.Elem(), name)]
}

func (in *Interp) nodeID(n Value) int64 {
	itf, ok := n.(Iface)
	if !ok || itf.t == nil {
		abortf("gonum model: nil node")
	}
	r := in.callMethod(itf, "ID", nil)
	t, ok := r.(*Term)
	if !ok || !t.IsConst() {
		abortf("gonum model: symbolic node id")
	}
	return int64(t.val)
}

func init() {
	reg("gonum.org/v1/gonum/graph/topo.PathExistsIn", func(in *Interp, fn *ssa.Function, a []Value, g *Term) Value {
		in.stubLog["model:gonum topo.PathExistsIn = BFS over the interpreted adjacency maps"]++
		from, ok := structField(in, a[0], "from").(*MapObj)
		if !ok {
			abortf("gonum model: no adjacency map")
		}
		src, dst := in.nodeID(a[1]), in.nodeID(a[2])
		if src == dst {
			return in.ts.True
		}
		seen := map[int64]bool{src: true}
		queue := []int64{src}
		for len(queue) > 0 {
			u := queue[0]
			queue = queue[1:]
			if from == nil {
				break
			}
			for _, e := range from.entries {
				k, isT := e.k.(*Term)
				if !isT || !k.IsConst() || !e.present.IsConst() {
					abortf("gonum model: symbolic adjacency")
				}
				if e.present.IsFalse() || int64(k.val) != u {
					continue
				}
				succ, ok := e.v.(*MapObj)
				if !ok || succ == nil {
					continue
				}
				for _, se := range succ.entries {
					sk, isT := se.k.(*Term)
					if !isT || !sk.IsConst() || !se.present.IsConst() {
						abortf("gonum model: symbolic adjacency")
					}
					if se.present.IsFalse() {
						continue
					}
					v := int64(sk.val)
					if v == dst {
						return in.ts.True
					}
					if !seen[v] {
						seen[v] = true
						queue = append(queue, v)
					}
				}
			}
		}
		return in.ts.False
	})
}
