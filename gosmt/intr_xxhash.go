package main

// Model of github.com/cespare/xxhash/v2: concrete inputs are hashed for real (own XXH64
// implementation), symbolic inputs by folding an uninterpreted step function over the bytes
// (a function of the input, no structure assumed).

import (
	"encoding/binary"
	"math/bits"

	"golang.org/x/tools/go/ssa"
)

const (
	xxP1 uint64 = 11400714785074694791
	xxP2 uint64 = 14029467366897019727
	xxP3 uint64 = 1609587929392839161
	xxP4 uint64 = 9650029242287828579
	xxP5 uint64 = 2870177450012600261
)

func xxRound(acc, input uint64) uint64 {
	acc += input * xxP2
	acc = bits.RotateLeft64(acc, 31)
	return acc * xxP1
}

func xxMerge(acc, val uint64) uint64 {
	val = xxRound(0, val)
	acc ^= val
	return acc*xxP1 + xxP4
}

func xxh64(b []byte, seed uint64) uint64 {
	n := len(b)
	var h uint64
	if n >= 32 {
		v1, v2, v3, v4 := seed+xxP1+xxP2, seed+xxP2, seed, seed-xxP1
		for len(b) >= 32 {
			v1 = xxRound(v1, binary.LittleEndian.Uint64(b[0:8]))
			v2 = xxRound(v2, binary.LittleEndian.Uint64(b[8:16]))
			v3 = xxRound(v3, binary.LittleEndian.Uint64(b[16:24]))
			v4 = xxRound(v4, binary.LittleEndian.Uint64(b[24:32]))
			b = b[32:]
		}
		h = bits.RotateLeft64(v1, 1) + bits.RotateLeft64(v2, 7) + bits.RotateLeft64(v3, 12) + bits.RotateLeft64(v4, 18)
		h = xxMerge(h, v1)
		h = xxMerge(h, v2)
		h = xxMerge(h, v3)
		h = xxMerge(h, v4)
	} else {
		h = seed + xxP5
	}
	h += uint64(n)
	for ; len(b) >= 8; b = b[8:] {
		k1 := xxRound(0, binary.LittleEndian.Uint64(b[:8]))
		h ^= k1
		h = bits.RotateLeft64(h, 27)*xxP1 + xxP4
	}
	if len(b) >= 4 {
		h ^= uint64(binary.LittleEndian.Uint32(b[:4])) * xxP1
		h = bits.RotateLeft64(h, 23)*xxP2 + xxP3
		b = b[4:]
	}
	for ; len(b) > 0; b = b[1:] {
		h ^= uint64(b[0]) * xxP5
		h = bits.RotateLeft64(h, 11) * xxP1
	}
	h ^= h >> 33
	h *= xxP2
	h ^= h >> 29
	h *= xxP3
	h ^= h >> 32
	return h
}

type xxState struct {
	seed *Term
	data *Str
}

func (in *Interp) xxDigest(s *Str, seed *Term) *Term {
	ts := in.ts
	if s.conc && seed.IsConst() {
		return ts.BV(64, xxh64([]byte(s.s), seed.val))
	}
	in.stubLog["model:xxhash of symbolic bytes = fold of an uninterpreted step function"]++
	b := in.strBytes(s)
	n := in.strLen(s)
	h := ts.UF("uf_xx_init", 64, seed, n)
	for k, x := range b {
		nh := ts.UF("uf_xx_step", 64, h, x)
		h = ts.Ite(ts.Cmp(OpUlt, ts.BV(64, uint64(k)), n), nh, h)
	}
	return h
}

func (in *Interp) xxOf(recv Value) *xxState {
	p, ok := recv.(Ptr)
	if !ok || p.p == nil {
		abortf("xxhash digest receiver %s", in.show(recv))
	}
	if in.xx == nil {
		in.xx = map[*Value]*xxState{}
	}
	st := in.xx[p.p]
	if st == nil {
		st = &xxState{seed: in.ts.BV(64, 0), data: in.concStr("")}
		in.xx[p.p] = st
		key := p.p
		in.onUndo(func() { delete(in.xx, key) })
	}
	return st
}

func (in *Interp) xxSet(st *xxState, seed *Term, data *Str) {
	old := *st
	in.onUndo(func() { *st = old })
	st.seed, st.data = seed, data
}

func init() {
	const xx = "github.com/cespare/xxhash/v2."
	newD := func(in *Interp, fn *ssa.Function, a []Value, g *Term) Value {
		p, _ := in.newObject(fn.Signature.Results().At(0).Type())
		st := in.xxOf(p)
		if len(a) == 1 {
			in.xxSet(st, a[0].(*Term), in.concStr(""))
		}
		return p
	}
	reg(xx+"New", newD)
	reg(xx+"NewWithSeed", newD)
	reg("(*"+xx+"Digest).Reset", func(in *Interp, fn *ssa.Function, a []Value, g *Term) Value {
		st := in.xxOf(a[0])
		in.xxSet(st, in.ts.BV(64, 0), in.concStr(""))
		return nil
	})
	reg("(*"+xx+"Digest).ResetWithSeed", func(in *Interp, fn *ssa.Function, a []Value, g *Term) Value {
		st := in.xxOf(a[0])
		in.xxSet(st, a[1].(*Term), in.concStr(""))
		return nil
	})
	write := func(in *Interp, fn *ssa.Function, a []Value, g *Term) Value {
		st := in.xxOf(a[0])
		var s *Str
		if sv, ok := a[1].(*Str); ok {
			s = sv
		} else {
			s = in.bstr(a[1])
		}
		nd := in.strConcat(st.data, s)
		if !g.IsTrue() && !in.isKnown(g) {
			nd = in.merge(g, nd, st.data).(*Str)
		}
		in.xxSet(st, st.seed, nd)
		return Tuple{in.strLen(s), Iface{}}
	}
	reg("(*"+xx+"Digest).Write", write)
	reg("(*"+xx+"Digest).WriteString", write)
	reg("(*"+xx+"Digest).Sum64", func(in *Interp, fn *ssa.Function, a []Value, g *Term) Value {
		st := in.xxOf(a[0])
		return in.xxDigest(st.data, st.seed)
	})
	reg("(*"+xx+"Digest).Size", func(in *Interp, fn *ssa.Function, a []Value, g *Term) Value { return in.ts.BV(64, 8) })
	reg("(*"+xx+"Digest).BlockSize", func(in *Interp, fn *ssa.Function, a []Value, g *Term) Value { return in.ts.BV(64, 32) })
	sum := func(in *Interp, fn *ssa.Function, a []Value, g *Term) Value {
		var s *Str
		if sv, ok := a[0].(*Str); ok {
			s = sv
		} else {
			s = in.bstr(a[0])
		}
		return in.xxDigest(s, in.ts.BV(64, 0))
	}
	reg(xx+"Sum64", sum)
	reg(xx+"Sum64String", sum)
}
