package main

// Library models needed by the memory-backend harnesses (C12, C13, C15, C16, C17, C31).

import (
	"golang.org/x/tools/go/ssa"
)

func init() {
	// (*structpb.Struct).String is prototext via reflection (not encodable). The memory backend only
	// compares two such strings for equality (sanitizeTuplesWriteDelete). Modelled for the two values
	// the harnesses use, with the results the real library gives (checked natively):
	//   nil pointer -> "<nil>", struct without fields -> "". Anything else is outside the model.
	reg("(*google.golang.org/protobuf/types/known/structpb.Struct).String", func(in *Interp, fn *ssa.Function, a []Value, g *Term) Value {
		in.stubLog["model:(*structpb.Struct).String for nil (\"<nil>\") and field-less (\"\") structs"]++
		return in.mapAlts(a[0], func(ag *Term, v Value) Value {
			p, ok := v.(Ptr)
			if !ok {
				abortf("(*structpb.Struct).String: unexpected receiver %T", v)
			}
			if p.p == nil {
				return in.concStr("<nil>")
			}
			st := (*p.p).(Struct)
			f := st[fieldIndex(fn.Signature.Recv().Type(), "Fields")]
			switch m := f.(type) {
			case nil:
				return in.concStr("")
			case *MapObj:
				if m == nil || len(m.entries) == 0 {
					return in.concStr("")
				}
			}
			abortf("(*structpb.Struct).String on a struct with fields is outside the model")
			return nil
		})
	})
}
