package main

// Library models needed by the memory-backend harnesses (C12, C13, C15, C16, C17, C31).

import (
	"golang.org/x/tools/go/ssa"
)

func init() {
	// ulid.Parse / ParseStrict are `func Parse(s string) (id ULID, err error) { return id, parse([]byte(s), false, &id) }`.
	// go/ssa reads the named result `id` BEFORE the call in the same return statement (order unspecified by
	// the language), the gc compiler returns the value AFTER it (what every user of the library relies on).
	// Modelled as what the binary does: run the real `parse` on a fresh ULID and return it afterwards.
	ulidParse := func(strict bool) Intrinsic {
		return func(in *Interp, fn *ssa.Function, a []Value, g *Term) Value {
			pf := fn.Pkg.Func("parse")
			if pf == nil {
				abortf("ulid.parse not found")
			}
			in.stubLog["model:ulid.Parse returns the id after parse() filled it (gc evaluation order)"]++
			idv := in.zero(fn.Signature.Results().At(0).Type())
			p := Ptr{&idv}
			st := in.ts.False
			if strict {
				st = in.ts.True
			}
			err := in.callFunction(pf, []Value{in.strToBytes(str(a[0])), st, p}, nil, g)
			return Tuple{copyVal(*p.p), err}
		}
	}
	reg("github.com/oklog/ulid/v2.Parse", ulidParse(false))
	reg("github.com/oklog/ulid/v2.ParseStrict", ulidParse(true))

	// (*structpb.Struct).String is prototext via reflection (not encodable). The memory backend only
	// compares two such strings for equality (sanitizeTuplesWriteDelete). Modelled for the two values
	// the harnesses use, with the results the real library gives (checked natively):
	//   nil pointer -> "<nil>", struct without fields -> "". Anything else is outside the model.
	reg("(*google.golang.org/protobuf/types/known/structpb.Struct).String", func(in *Interp, fn *ssa.Function, a []Value, g *Term) Value {
		in.stubLog["model:(*structpb.Struct).String for nil (\"<nil>\") and field-less (\"\") structs"]++
		return in.mapAlts(a[0], func(ag *Term, v Value) Value {
			p, ok := v.(Ptr)
			if !ok {
				abortf("(*structpb.Struct).String: unexpected receiver %T", v)
			}
			if p.p == nil {
				return in.concStr("<nil>")
			}
			st := (*p.p).(Struct)
			f := st[fieldIndex(fn.Signature.Recv().Type(), "Fields")]
			switch m := f.(type) {
			case nil:
				return in.concStr("")
			case *MapObj:
				if m == nil || len(m.entries) == 0 {
					return in.concStr("")
				}
			}
			// with fields: a canonical rendering (keys sorted, every kind tagged) that is equal exactly for
			// semantically equal messages - all the callers do with the result is compare it
			in.stubLog["model:(*structpb.Struct).String of a struct with fields = canonical injective rendering (only equality is meaningful)"]++
			return in.protoString(fn.Signature.Recv().Type(), v, 0)
		})
	})
}
