package main

// Models added for the validation / hostile-input harnesses (C18, C19, C24b).
//
// Stack capture (runtime.Stack, runtime.Callers, runtime/debug.Stack) has no Go body that can be
// interpreted (runtime.getg, GetCallerSP). The recovered-panic paths of conc/panics.Try and
// concurrency.RecoverFromPanic only embed the captured text in an error message, so the model captures
// nothing: zero bytes / zero frames.

import (
	"golang.org/x/tools/go/ssa"
)

func init() {
	reg("runtime.Stack", func(in *Interp, fn *ssa.Function, a []Value, g *Term) Value {
		in.stubLog["model:runtime.Stack captures 0 bytes"]++
		return in.ts.BV(64, 0)
	})
	reg("runtime.Callers", func(in *Interp, fn *ssa.Function, a []Value, g *Term) Value {
		in.stubLog["model:runtime.Callers captures 0 frames"]++
		return in.ts.BV(64, 0)
	})
	reg("runtime/debug.Stack", func(in *Interp, fn *ssa.Function, a []Value, g *Term) Value {
		in.stubLog["model:debug.Stack returns an empty trace"]++
		return &SliceV{nilS: true, n: in.ts.BV(64, 0)}
	})
}
