package main

// Per-function static info: value numbering, reverse post-order, natural-loop forest.

import (
	"sync"

	"golang.org/x/tools/go/ssa"
)

type Loop struct {
	header   *ssa.BasicBlock
	blocks   map[int]bool
	parent   *Loop
	children []*Loop
	exits    [][2]int    // (block index, successor position)
	liveOut  []ssa.Value // values defined inside and used outside (or in a later iteration via header phis is handled by phis)
	order    []*ssa.BasicBlock // blocks of this loop (incl. nested) in RPO
}

type FnInfo struct {
	fn       *ssa.Function
	idx      map[ssa.Value]int
	nvals    int
	rpo      []*ssa.BasicBlock
	rpoPos   []int
	loopOf   []*Loop // innermost loop per block
	top      []*Loop
	edgeSlot [][]int // [block][succ pos] -> position in succ.Preds
	hdr      map[int]*Loop
}

var fnInfoCache sync.Map // *ssa.Function -> *FnInfo

func getFnInfo(fn *ssa.Function) *FnInfo {
	if v, ok := fnInfoCache.Load(fn); ok {
		return v.(*FnInfo)
	}
	fi := buildFnInfo(fn)
	v, _ := fnInfoCache.LoadOrStore(fn, fi)
	return v.(*FnInfo)
}

func buildFnInfo(fn *ssa.Function) *FnInfo {
	fi := &FnInfo{fn: fn, idx: map[ssa.Value]int{}, hdr: map[int]*Loop{}}
	n := 0
	for _, p := range fn.Params {
		fi.idx[p] = n
		n++
	}
	for _, p := range fn.FreeVars {
		fi.idx[p] = n
		n++
	}
	for _, b := range fn.Blocks {
		for _, ins := range b.Instrs {
			if v, ok := ins.(ssa.Value); ok {
				fi.idx[v] = n
				n++
			}
		}
	}
	fi.nvals = n
	nb := len(fn.Blocks)
	// RPO by DFS from entry
	seen := make([]bool, nb)
	var post []*ssa.BasicBlock
	var dfs func(b *ssa.BasicBlock)
	dfs = func(b *ssa.BasicBlock) {
		seen[b.Index] = true
		for _, s := range b.Succs {
			if !seen[s.Index] {
				dfs(s)
			}
		}
		post = append(post, b)
	}
	if nb > 0 {
		dfs(fn.Blocks[0])
	}
	if fn.Recover != nil && !seen[fn.Recover.Index] {
		dfs(fn.Recover)
	}
	fi.rpoPos = make([]int, nb)
	for i := range fi.rpoPos {
		fi.rpoPos[i] = -1
	}
	for i := len(post) - 1; i >= 0; i-- {
		fi.rpoPos[post[i].Index] = len(fi.rpo)
		fi.rpo = append(fi.rpo, post[i])
	}
	// edge slots
	fi.edgeSlot = make([][]int, nb)
	for _, b := range fn.Blocks {
		fi.edgeSlot[b.Index] = make([]int, len(b.Succs))
		for si, s := range b.Succs {
			cnt := 0
			for sj := 0; sj < si; sj++ {
				if b.Succs[sj] == s {
					cnt++
				}
			}
			slot := -1
			for k, p := range s.Preds {
				if p == b {
					if cnt == 0 {
						slot = k
						break
					}
					cnt--
				}
			}
			fi.edgeSlot[b.Index][si] = slot
		}
	}
	// loops: back edge u->h iff h dominates u
	byHeader := map[int]*Loop{}
	for _, u := range fi.rpo {
		for _, h := range u.Succs {
			if h.Dominates(u) {
				l := byHeader[h.Index]
				if l == nil {
					l = &Loop{header: h, blocks: map[int]bool{h.Index: true}}
					byHeader[h.Index] = l
				}
				// walk backwards from u
				stack := []*ssa.BasicBlock{u}
				for len(stack) > 0 {
					x := stack[len(stack)-1]
					stack = stack[:len(stack)-1]
					if l.blocks[x.Index] {
						continue
					}
					l.blocks[x.Index] = true
					for _, p := range x.Preds {
						if fi.rpoPos[p.Index] >= 0 {
							stack = append(stack, p)
						}
					}
				}
			}
		}
	}
	fi.loopOf = make([]*Loop, nb)
	var loops []*Loop
	for _, b := range fi.rpo { // deterministic order
		if l := byHeader[b.Index]; l != nil {
			loops = append(loops, l)
			fi.hdr[b.Index] = l
		}
	}
	// nesting: parent = smallest strictly containing loop
	for _, l := range loops {
		for _, m := range loops {
			if m == l || !m.blocks[l.header.Index] || len(m.blocks) <= len(l.blocks) {
				continue
			}
			if l.parent == nil || len(m.blocks) < len(l.parent.blocks) {
				l.parent = m
			}
		}
	}
	for _, l := range loops {
		if l.parent != nil {
			l.parent.children = append(l.parent.children, l)
		} else {
			fi.top = append(fi.top, l)
		}
	}
	for _, b := range fi.rpo {
		var best *Loop
		for _, l := range loops {
			if l.blocks[b.Index] && (best == nil || len(l.blocks) < len(best.blocks)) {
				best = l
			}
		}
		fi.loopOf[b.Index] = best
	}
	for _, l := range loops {
		for _, b := range fi.rpo {
			if !l.blocks[b.Index] {
				continue
			}
			l.order = append(l.order, b)
			for si, s := range b.Succs {
				if !l.blocks[s.Index] {
					l.exits = append(l.exits, [2]int{b.Index, si})
				}
			}
			for _, ins := range b.Instrs {
				v, ok := ins.(ssa.Value)
				if !ok {
					continue
				}
				refs := v.Referrers()
				if refs == nil {
					continue
				}
				out := false
				for _, r := range *refs {
					rb := r.Block()
					if rb == nil || !l.blocks[rb.Index] {
						out = true
						break
					}
				}
				if out {
					l.liveOut = append(l.liveOut, v)
				}
			}
		}
	}
	return fi
}
