package main

// Models of sync, sync/atomic, errors, fmt, time and friends.

import (
	"fmt"
	"go/types"
	"strings"

	"golang.org/x/tools/go/ssa"
)

type syncObj struct {
	locked   bool
	readers  int
	count    int           // WaitGroup counter
	done     bool          // Once
	m        *MapObj       // sync.Map contents
	pool     []Value       // sync.Pool
	val      Value         // atomic.Value
	hasVal   bool
	waitersN int
}

func (in *Interp) syncOf(recv Value) *syncObj {
	recv = in.pickAlt(recv)
	p, ok := recv.(Ptr)
	if !ok || p.p == nil {
		if u, isU := recv.(*Union); isU {
			_ = u
			abortf("sync operation on guarded union receiver at %s", in.where())
		}
		if !ok {
			abortf("sync operation on non-pointer receiver %s at %s", in.show(recv), in.where())
		}
		// nil receiver under the current guard: a violation if the guard is feasible; afterwards the guard is
		// assumed false, so only this block is dead - the path itself goes on (ending it here would silently
		// skip every assertion behind the merge point).
		in.rtCheck(in.ts.True, "nil pointer dereference (sync primitive)")
		if in.cur != nil && in.cur.frame != nil {
			in.cur.frame.cur = in.ts.False
		}
		return &syncObj{}
	}
	if in.syncState == nil {
		in.syncState = map[*Value]*syncObj{}
	}
	o := in.syncState[p.p]
	if o == nil {
		o = &syncObj{}
		in.syncState[p.p] = o
		key := p.p
		in.onUndo(func() { delete(in.syncState, key) })
	}
	return o
}

func (in *Interp) syncMut(o *syncObj) {
	old := *o
	old.pool = append([]Value(nil), o.pool...)
	in.onUndo(func() { *o = old })
}

func noop0(in *Interp, fn *ssa.Function, a []Value, g *Term) Value { return nil }

func init() {
	// ---- Mutex / RWMutex ----
	lock := func(in *Interp, fn *ssa.Function, a []Value, g *Term) Value {
		if !in.concretizeGuard() {
			return nil
		}
		o := in.syncOf(a[0])
		in.block(func() bool { return !o.locked && o.readers == 0 }, "Mutex.Lock")
		in.syncMut(o)
		o.locked = true
		return nil
	}
	unlock := func(in *Interp, fn *ssa.Function, a []Value, g *Term) Value {
		if !in.concretizeGuard() {
			return nil
		}
		o := in.syncOf(a[0])
		if !o.locked {
			in.rtCheck(in.ts.True, "sync: unlock of unlocked mutex")
			return nil
		}
		in.syncMut(o)
		o.locked = false
		return nil
	}
	tryLock := func(in *Interp, fn *ssa.Function, a []Value, g *Term) Value {
		if !in.concretizeGuard() {
			return in.ts.False
		}
		o := in.syncOf(a[0])
		if o.locked || o.readers > 0 {
			return in.ts.False
		}
		in.syncMut(o)
		o.locked = true
		return in.ts.True
	}
	reg("(*sync.Mutex).Lock", lock)
	reg("(*sync.Mutex).Unlock", unlock)
	reg("(*sync.Mutex).TryLock", tryLock)
	reg("(*sync.RWMutex).Lock", lock)
	reg("(*sync.RWMutex).Unlock", unlock)
	reg("(*sync.RWMutex).TryLock", tryLock)
	reg("(*sync.RWMutex).RLock", func(in *Interp, fn *ssa.Function, a []Value, g *Term) Value {
		if !in.concretizeGuard() {
			return nil
		}
		o := in.syncOf(a[0])
		in.block(func() bool { return !o.locked }, "RWMutex.RLock")
		in.syncMut(o)
		o.readers++
		return nil
	})
	reg("(*sync.RWMutex).RUnlock", func(in *Interp, fn *ssa.Function, a []Value, g *Term) Value {
		if !in.concretizeGuard() {
			return nil
		}
		o := in.syncOf(a[0])
		if o.readers <= 0 {
			in.rtCheck(in.ts.True, "sync: RUnlock of unlocked RWMutex")
			return nil
		}
		in.syncMut(o)
		o.readers--
		return nil
	})
	// ---- WaitGroup ----
	reg("(*sync.WaitGroup).Add", func(in *Interp, fn *ssa.Function, a []Value, g *Term) Value {
		if !in.concretizeGuard() {
			return nil
		}
		o := in.syncOf(a[0])
		in.syncMut(o)
		o.count += in.needInt(a[1], "WaitGroup.Add delta")
		if o.count < 0 {
			in.rtCheck(in.ts.True, "sync: negative WaitGroup counter")
		}
		return nil
	})
	reg("(*sync.WaitGroup).Done", func(in *Interp, fn *ssa.Function, a []Value, g *Term) Value {
		if !in.concretizeGuard() {
			return nil
		}
		o := in.syncOf(a[0])
		in.syncMut(o)
		o.count--
		if o.count < 0 {
			in.rtCheck(in.ts.True, "sync: negative WaitGroup counter")
		}
		return nil
	})
	reg("(*sync.WaitGroup).Wait", func(in *Interp, fn *ssa.Function, a []Value, g *Term) Value {
		if !in.concretizeGuard() {
			return nil
		}
		o := in.syncOf(a[0])
		in.block(func() bool { return o.count <= 0 }, "WaitGroup.Wait")
		return nil
	})
	reg("(*sync.WaitGroup).Go", func(in *Interp, fn *ssa.Function, a []Value, g *Term) Value {
		if !in.concretizeGuard() {
			return nil
		}
		o := in.syncOf(a[0])
		in.syncMut(o)
		o.count++
		f := a[1]
		recv := a[0]
		wrapper := &nativeFunc{f: func(in *Interp) {
			defer func() {
				oo := in.syncOf(recv)
				in.syncMut(oo)
				oo.count--
			}()
			in.call(f, nil, in.ts.True, nil)
		}}
		in.spawnNative(wrapper)
		return nil
	})
	// ---- Once ----
	reg("(*sync.Once).Do", func(in *Interp, fn *ssa.Function, a []Value, g *Term) Value {
		if !in.concretizeGuard() {
			return nil
		}
		o := in.syncOf(a[0])
		if o.done {
			return nil
		}
		in.syncMut(o)
		o.done = true
		in.call(a[1], nil, in.guard(), nil)
		return nil
	})
	// ---- Pool ----
	reg("(*sync.Pool).Get", func(in *Interp, fn *ssa.Function, a []Value, g *Term) Value {
		p := a[0].(Ptr)
		if in.concretizeGuard() {
			o := in.syncOf(a[0])
			if len(o.pool) > 0 {
				in.syncMut(o)
				v := o.pool[len(o.pool)-1]
				o.pool = o.pool[:len(o.pool)-1]
				return v
			}
		}
		// call New if set: field named New
		st := (*p.p).(Struct)
		pt := fn.Signature.Recv().Type().(*types.Pointer).Elem().Underlying().(*types.Struct)
		for i := 0; i < pt.NumFields(); i++ {
			if pt.Field(i).Name() == "New" {
				if c, ok := st[i].(*Closure); ok && c == nil {
					return Iface{}
				}
				return in.call(st[i], nil, in.guard(), nil)
			}
		}
		return Iface{}
	})
	reg("(*sync.Pool).Put", func(in *Interp, fn *ssa.Function, a []Value, g *Term) Value {
		if !in.concretizeGuard() {
			return nil
		}
		o := in.syncOf(a[0])
		in.syncMut(o)
		o.pool = append(o.pool, a[1])
		return nil
	})
	// ---- sync.Map ----
	anyT := types.NewInterfaceType(nil, nil)
	smap := func(in *Interp, recv Value) *MapObj {
		o := in.syncOf(recv)
		if o.m == nil {
			in.syncMut(o)
			o.m = &MapObj{index: map[string]int{}, typ: types.NewMap(anyT, anyT)}
		}
		return o.m
	}
	mt := types.NewMap(anyT, anyT)
	reg("(*sync.Map).Load", func(in *Interp, fn *ssa.Function, a []Value, g *Term) Value {
		v, ok := in.mapGet(smap(in, a[0]), mt, a[1])
		return Tuple{v, ok}
	})
	reg("(*sync.Map).Store", func(in *Interp, fn *ssa.Function, a []Value, g *Term) Value {
		in.mapSet(smap(in, a[0]), a[1], a[2], g)
		return nil
	})
	reg("(*sync.Map).LoadOrStore", func(in *Interp, fn *ssa.Function, a []Value, g *Term) Value {
		m := smap(in, a[0])
		v, ok := in.mapGet(m, mt, a[1])
		in.mapSet(m, a[1], a[2], in.ts.And(g, in.ts.Not(ok)))
		return Tuple{in.merge(ok, v, a[2]), ok}
	})
	reg("(*sync.Map).LoadAndDelete", func(in *Interp, fn *ssa.Function, a []Value, g *Term) Value {
		m := smap(in, a[0])
		v, ok := in.mapGet(m, mt, a[1])
		in.mapDelete(m, a[1], g)
		return Tuple{v, ok}
	})
	reg("(*sync.Map).Delete", func(in *Interp, fn *ssa.Function, a []Value, g *Term) Value {
		in.mapDelete(smap(in, a[0]), a[1], g)
		return nil
	})
	reg("(*sync.Map).Swap", func(in *Interp, fn *ssa.Function, a []Value, g *Term) Value {
		m := smap(in, a[0])
		v, ok := in.mapGet(m, mt, a[1])
		in.mapSet(m, a[1], a[2], g)
		return Tuple{v, ok}
	})
	reg("(*sync.Map).CompareAndSwap", func(in *Interp, fn *ssa.Function, a []Value, g *Term) Value {
		m := smap(in, a[0])
		v, ok := in.mapGet(m, mt, a[1])
		eq := in.ts.And(ok, in.equal(anyT, v, a[2]))
		in.mapSet(m, a[1], a[3], in.ts.And(g, eq))
		return eq
	})
	reg("(*sync.Map).Range", func(in *Interp, fn *ssa.Function, a []Value, g *Term) Value {
		m := smap(in, a[0])
		snap := append([]*mapEntry(nil), m.entries...)
		for _, e := range snap {
			if e.present.IsFalse() {
				continue
			}
			if !e.present.IsTrue() {
				if !in.concretizeGuard() || !in.decide(e.present) {
					continue
				}
			}
			r := in.call(a[1], []Value{e.k, copyVal(e.v)}, in.guard(), nil)
			if t, ok := r.(*Term); ok {
				if !in.decide(t) {
					break
				}
			}
		}
		return nil
	})
	reg("(*sync.Map).Clear", func(in *Interp, fn *ssa.Function, a []Value, g *Term) Value {
		m := smap(in, a[0])
		for _, e := range m.entries {
			e := e
			old := *e
			in.onUndo(func() { *e = old })
			e.present = in.ts.And(e.present, in.ts.Not(g))
		}
		return nil
	})
	// ---- sync/atomic package-level functions ----
	for _, ty := range []string{"Int32", "Int64", "Uint32", "Uint64", "Uintptr", "Pointer"} {
		reg("sync/atomic.Load"+ty, func(in *Interp, fn *ssa.Function, a []Value, g *Term) Value { return in.load(a[0]) })
		reg("sync/atomic.Store"+ty, func(in *Interp, fn *ssa.Function, a []Value, g *Term) Value {
			in.store(a[0], a[1], g)
			return nil
		})
		reg("sync/atomic.Swap"+ty, func(in *Interp, fn *ssa.Function, a []Value, g *Term) Value {
			old := in.load(a[0])
			in.store(a[0], a[1], g)
			return old
		})
		reg("sync/atomic.CompareAndSwap"+ty, func(in *Interp, fn *ssa.Function, a []Value, g *Term) Value {
			old := in.load(a[0])
			t := fn.Signature.Params().At(1).Type()
			eq := in.equal(t, old, a[1])
			in.store(a[0], a[2], in.ts.And(g, eq))
			return eq
		})
		if ty != "Pointer" {
			reg("sync/atomic.Add"+ty, func(in *Interp, fn *ssa.Function, a []Value, g *Term) Value {
				old := in.load(a[0]).(*Term)
				nv := in.ts.Bin(OpAdd, old, a[1].(*Term))
				in.store(a[0], nv, g)
				return nv
			})
			reg("sync/atomic.And"+ty, func(in *Interp, fn *ssa.Function, a []Value, g *Term) Value {
				old := in.load(a[0]).(*Term)
				in.store(a[0], in.ts.Bin(OpBAnd, old, a[1].(*Term)), g)
				return old
			})
			reg("sync/atomic.Or"+ty, func(in *Interp, fn *ssa.Function, a []Value, g *Term) Value {
				old := in.load(a[0]).(*Term)
				in.store(a[0], in.ts.Bin(OpBOr, old, a[1].(*Term)), g)
				return old
			})
		}
	}
	// atomic.Value
	reg("(*sync/atomic.Value).Load", func(in *Interp, fn *ssa.Function, a []Value, g *Term) Value {
		o := in.syncOf(a[0])
		if !o.hasVal {
			return Iface{}
		}
		return o.val
	})
	reg("(*sync/atomic.Value).Store", func(in *Interp, fn *ssa.Function, a []Value, g *Term) Value {
		if !in.concretizeGuard() {
			return nil
		}
		o := in.syncOf(a[0])
		in.syncMut(o)
		o.val, o.hasVal = a[1], true
		return nil
	})
	reg("(*sync/atomic.Value).Swap", func(in *Interp, fn *ssa.Function, a []Value, g *Term) Value {
		if !in.concretizeGuard() {
			return Iface{}
		}
		o := in.syncOf(a[0])
		var old Value = Iface{}
		if o.hasVal {
			old = o.val
		}
		in.syncMut(o)
		o.val, o.hasVal = a[1], true
		return old
	})
	reg("(*sync/atomic.Value).CompareAndSwap", func(in *Interp, fn *ssa.Function, a []Value, g *Term) Value {
		if !in.concretizeGuard() {
			return in.ts.False
		}
		o := in.syncOf(a[0])
		var old Value = Iface{}
		if o.hasVal {
			old = o.val
		}
		eq := in.equal(types.NewInterfaceType(nil, nil), old, a[1])
		if in.decide(eq) {
			in.syncMut(o)
			o.val, o.hasVal = a[2], true
			return in.ts.True
		}
		return in.ts.False
	})

	// ---- errors ----
	reg("errors.Is", func(in *Interp, fn *ssa.Function, a []Value, g *Term) Value {
		return in.errorsIs(a[0], a[1], 0)
	})
	reg("errors.As", func(in *Interp, fn *ssa.Function, a []Value, g *Term) Value {
		return in.errorsAs(a[0], a[1], g)
	})
	reg("errors.Join", func(in *Interp, fn *ssa.Function, a []Value, g *Term) Value {
		sl := a[0].(*SliceV)
		for i := 0; i < in.maxLen(sl); i++ {
			if e, ok := sl.a[sl.off+i].(Iface); ok && e.t != nil {
				return e // first non-nil error stands for the join (message/Is on others not modelled)
			}
		}
		return Iface{}
	})
	// ---- fmt ----
	reg("fmt.Sprintf", func(in *Interp, fn *ssa.Function, a []Value, g *Term) Value {
		s, _ := in.sprintf(in.needConc(a[0], "format"), a[1].(*SliceV))
		return s
	})
	reg("fmt.Errorf", func(in *Interp, fn *ssa.Function, a []Value, g *Term) Value {
		s, wrapped := in.sprintf(in.needConc(a[0], "format"), a[1].(*SliceV))
		return in.mkError(s, wrapped)
	})
	reg("fmt.Sprint", func(in *Interp, fn *ssa.Function, a []Value, g *Term) Value {
		sl := a[0].(*SliceV)
		r := in.concStr("")
		for i := 0; i < in.maxLen(sl); i++ {
			r = in.strConcat(r, in.fmtValue(sl.a[sl.off+i], 'v'))
		}
		return r
	})
	reg("fmt.Sprintln", intrinsics["fmt.Sprint"])
	reg("fmt.Println", func(in *Interp, fn *ssa.Function, a []Value, g *Term) Value {
		return Tuple{in.ts.BV(64, 0), Iface{}}
	})
	reg("fmt.Printf", intrinsics["fmt.Println"])
	reg("fmt.Fprintf", intrinsics["fmt.Println"])
	reg("fmt.Fprintln", intrinsics["fmt.Println"])
	reg("fmt.Fprint", intrinsics["fmt.Println"])

	// ---- time (abstract single clock; an instant is the ext field, wall = 0, loc = nil) ----
	reg("time.Now", func(in *Interp, fn *ssa.Function, a []Value, g *Term) Value { return in.mkTime(in.now()) })
	reg("time.Since", func(in *Interp, fn *ssa.Function, a []Value, g *Term) Value {
		return in.ts.Bin(OpSub, in.now(), timeInst(a[0]))
	})
	reg("time.Until", func(in *Interp, fn *ssa.Function, a []Value, g *Term) Value {
		return in.ts.Bin(OpSub, timeInst(a[0]), in.now())
	})
	cmpT := func(op Op, swap bool) Intrinsic {
		return func(in *Interp, fn *ssa.Function, a []Value, g *Term) Value {
			x, y := timeInst(a[0]), timeInst(a[1])
			if swap {
				x, y = y, x
			}
			return in.ts.Cmp(op, x, y)
		}
	}
	reg("(time.Time).After", cmpT(OpSlt, true))
	reg("(time.Time).Before", cmpT(OpSlt, false))
	reg("(time.Time).Equal", func(in *Interp, fn *ssa.Function, a []Value, g *Term) Value {
		return in.ts.Eq(timeInst(a[0]), timeInst(a[1]))
	})
	reg("(time.Time).Compare", func(in *Interp, fn *ssa.Function, a []Value, g *Term) Value {
		x, y := timeInst(a[0]), timeInst(a[1])
		ts := in.ts
		return ts.Ite(ts.Cmp(OpSlt, x, y), ts.BV(64, ^uint64(0)), ts.Ite(ts.Eq(x, y), ts.BV(64, 0), ts.BV(64, 1)))
	})
	reg("(time.Time).Sub", func(in *Interp, fn *ssa.Function, a []Value, g *Term) Value {
		return in.ts.Bin(OpSub, timeInst(a[0]), timeInst(a[1]))
	})
	reg("(time.Time).Add", func(in *Interp, fn *ssa.Function, a []Value, g *Term) Value {
		ts := in.ts
		x, d := timeInst(a[0]), a[1].(*Term)
		r := ts.Bin(OpAdd, x, d)
		// no-overflow assumption of the abstract clock
		ovf := ts.Or(ts.And(ts.Cmp(OpSlt, ts.BV(64, 0), d), ts.Cmp(OpSlt, r, x)), ts.And(ts.Cmp(OpSlt, d, ts.BV(64, 0)), ts.Cmp(OpSlt, x, r)))
		in.assume(ts.Implies(g, ts.Not(ovf)))
		in.stubLog["time:Add assumes no int64 overflow"]++
		return in.mkTime(r)
	})
	reg("(time.Time).IsZero", func(in *Interp, fn *ssa.Function, a []Value, g *Term) Value {
		return in.ts.Eq(timeInst(a[0]), in.ts.BV(64, 0))
	})
	ident := func(in *Interp, fn *ssa.Function, a []Value, g *Term) Value { return a[0] }
	reg("(time.Time).UTC", ident)
	reg("(time.Time).Local", ident)
	reg("(time.Time).Round", ident)
	reg("(time.Time).Truncate", ident)
	reg("(time.Time).UnixNano", func(in *Interp, fn *ssa.Function, a []Value, g *Term) Value { return timeInst(a[0]) })
	reg("time.Sleep", noop0)
	reg("time.AfterFunc", func(in *Interp, fn *ssa.Function, a []Value, g *Term) Value {
		in.stubLog["time:AfterFunc never fires"]++
		p := new(Value)
		*p = in.zero(fn.Signature.Results().At(0).Type().(*types.Pointer).Elem())
		return Ptr{p}
	})
	reg("(*time.Timer).Stop", func(in *Interp, fn *ssa.Function, a []Value, g *Term) Value { return in.ts.True })
	reg("(*time.Timer).Reset", func(in *Interp, fn *ssa.Function, a []Value, g *Term) Value { return in.ts.True })
	reg("time.After", func(in *Interp, fn *ssa.Function, a []Value, g *Term) Value {
		in.stubLog["time:After never fires"]++
		return in.newChan(1)
	})
	reg("time.NewTimer", func(in *Interp, fn *ssa.Function, a []Value, g *Term) Value {
		in.stubLog["time:NewTimer never fires"]++
		p := new(Value)
		st := in.zero(fn.Signature.Results().At(0).Type().(*types.Pointer).Elem()).(Struct)
		st[0] = in.newChan(1)
		*p = st
		return Ptr{p}
	})
}

type nativeFunc struct{ f func(in *Interp) }

func (in *Interp) spawnNative(nf *nativeFunc) {
	t := in.newThread()
	t.forkAll = in.cur.forkAll
	t.name = fmt.Sprintf("go#%d(native)@%s", t.id, in.where())
	go in.threadMain(t, func() { nf.f(in) })
}

func timeInst(v Value) *Term {
	st, ok := v.(Struct)
	if !ok || len(st) < 2 {
		abortf("time.Time value expected, got %T", v)
	}
	return st[1].(*Term)
}

func (in *Interp) mkTime(inst *Term) Value {
	return Struct{in.ts.BV(64, 0), inst, Ptr{}}
}

// now returns a fresh instant, non-decreasing and strictly positive.
func (in *Interp) now() *Term {
	ts := in.ts
	t := in.fresh("now", 64)
	in.assume(ts.Cmp(OpSlt, ts.BV(64, 0), t))
	in.assume(ts.Cmp(OpSlt, t, ts.BV(64, 1<<47)))
	if in.lastNow != nil {
		in.assume(ts.Cmp(OpSle, in.lastNow, t))
	}
	old := in.lastNow
	in.lastNow = t
	in.onUndo(func() { in.lastNow = old })
	return t
}

// ---- errors helpers ----

func (in *Interp) errorsIs(err, target Value, depth int) *Term {
	ts := in.ts
	if depth > 12 {
		return ts.False
	}
	r := ts.False
	for _, a := range in.alts(err) {
		e, ok := a.v.(Iface)
		if !ok {
			abortf("errors.Is on %s", in.show(a.v))
		}
		if e.t == nil {
			// err == nil: Is(nil, target) = target == nil
			if ti, ok := target.(Iface); ok && ti.t == nil {
				r = ts.Or(r, a.g)
			}
			continue
		}
		var one *Term = ts.False
		if _, isNoop := e.t.(*noopType); !isNoop && types.Comparable(e.t) {
			one = in.equal(errorT, e, target)
		}
		// Is method
		if !one.IsTrue() {
			if m := in.findMethod(e.t, "Is"); m != nil && m.Signature.Params().Len() == 1 {
				res := in.callFunction(m, []Value{e.v, target}, nil, in.guard())
				if t, ok := res.(*Term); ok {
					one = ts.Or(one, t)
				}
			}
		}
		if !one.IsTrue() {
			if m := in.findMethod(e.t, "Unwrap"); m != nil {
				res := in.callFunction(m, []Value{e.v}, nil, in.guard())
				switch rv := res.(type) {
				case Iface, *Union:
					if ri, ok := rv.(Iface); !ok || ri.t != nil {
						one = ts.Or(one, in.errorsIs(rv, target, depth+1))
					}
				case *SliceV:
					for i := 0; i < in.maxLen(rv); i++ {
						one = ts.Or(one, in.errorsIs(rv.a[rv.off+i], target, depth+1))
					}
				}
			}
		}
		r = ts.Or(r, ts.And(a.g, one))
	}
	return r
}

var errorT = types.Universe.Lookup("error").Type()

func (in *Interp) findMethod(t types.Type, name string) *ssa.Function {
	if _, isNoop := t.(*noopType); isNoop {
		return nil
	}
	ms := in.prog.MethodSets.MethodSet(t)
	for i := 0; i < ms.Len(); i++ {
		sel := ms.At(i)
		if sel.Obj().Name() == name {
			return in.prog.MethodValue(sel)
		}
	}
	return nil
}

func (in *Interp) errorsAs(err, target Value, g *Term) *Term {
	ts := in.ts
	ti, ok := target.(Iface)
	if !ok || ti.t == nil {
		in.rtCheck(ts.True, "errors: target cannot be nil")
		return ts.False
	}
	pt, ok := ti.t.Underlying().(*types.Pointer)
	if !ok {
		in.rtCheck(ts.True, "errors: target must be a non-nil pointer")
		return ts.False
	}
	want := pt.Elem()
	_, wantIface := want.Underlying().(*types.Interface)
	r := ts.False
	var walk func(e Value, g *Term, depth int)
	walk = func(ev Value, g *Term, depth int) {
		if depth > 12 {
			return
		}
		for _, a := range in.alts(ev) {
			e, ok := a.v.(Iface)
			if !ok || e.t == nil {
				continue
			}
			gg := ts.And(g, a.g, ts.Not(r))
			if gg.IsFalse() {
				continue
			}
			if _, isNoop := e.t.(*noopType); isNoop {
				continue
			}
			match := false
			if wantIface {
				match = types.Implements(e.t, want.Underlying().(*types.Interface))
			} else {
				match = types.Identical(e.t, want)
			}
			if match {
				if wantIface {
					in.store(ti.v, e, gg)
				} else {
					in.store(ti.v, e.v, gg)
				}
				r = ts.Or(r, gg)
				continue
			}
			if m := in.findMethod(e.t, "Unwrap"); m != nil {
				res := in.callFunction(m, []Value{e.v}, nil, in.guard())
				switch rv := res.(type) {
				case Iface, *Union:
					walk(rv, gg, depth+1)
				case *SliceV:
					for i := 0; i < in.maxLen(rv); i++ {
						walk(rv.a[rv.off+i], gg, depth+1)
					}
				}
			}
		}
	}
	walk(err, g, 0)
	return r
}

// mkError builds an error value: *fmt.wrapError when wrapped != nil, else *errors.errorString.
func (in *Interp) mkError(msg *Str, wrapped Value) Value {
	if wrapped != nil {
		if p := in.prog.ImportedPackage("fmt"); p != nil {
			if t := p.Type("wrapError"); t != nil {
				v := Value(Struct{msg, wrapped})
				return Iface{t: types.NewPointer(t.Type()), v: Ptr{&v}}
			}
		}
	}
	p := in.prog.ImportedPackage("errors")
	if p == nil || p.Type("errorString") == nil {
		abortf("errors package not loaded")
	}
	v := Value(Struct{msg})
	return Iface{t: types.NewPointer(p.Type("errorString").Type()), v: Ptr{&v}}
}

// sprintf supports the verbs the repository uses on values the engine can render.
func (in *Interp) sprintf(format string, args *SliceV) (*Str, Value) {
	out := in.concStr("")
	var wrapped Value
	ai := 0
	n := in.maxLen(args)
	i := 0
	lit := func(s string) { out = in.strConcat(out, in.concStr(s)) }
	for i < len(format) {
		j := strings.IndexByte(format[i:], '%')
		if j < 0 {
			lit(format[i:])
			break
		}
		lit(format[i : i+j])
		i += j + 1
		// flags / width
		for i < len(format) && strings.IndexByte("+-# 0123456789.*", format[i]) >= 0 {
			i++
		}
		if i >= len(format) {
			lit("%!(NOVERB)")
			break
		}
		verb := format[i]
		i++
		if verb == '%' {
			lit("%")
			continue
		}
		if ai >= n {
			lit("%!" + string(verb) + "(MISSING)")
			continue
		}
		arg := args.a[args.off+ai]
		ai++
		if verb == 'w' {
			wrapped = arg
			verb = 'v'
		}
		out = in.strConcat(out, in.fmtValue(arg, verb))
	}
	return out, wrapped
}

func (in *Interp) fmtValue(v Value, verb byte) *Str {
	switch x := v.(type) {
	case Iface:
		if x.t == nil {
			return in.concStr("<nil>")
		}
		if _, isNoop := x.t.(*noopType); isNoop {
			return in.concStr("<noop>")
		}
		if verb != 'd' && verb != 'T' {
			if types.Implements(x.t, errorIface) {
				if s, ok := in.callMethod(x, "Error", nil).(*Str); ok {
					return in.quoteIf(s, verb)
				}
			}
			if m := in.findMethod(x.t, "String"); m != nil && m.Signature.Params().Len() == 0 && m.Signature.Results().Len() == 1 {
				if s, ok := in.callFunction(m, []Value{x.v}, nil, in.guard()).(*Str); ok {
					return in.quoteIf(s, verb)
				}
			}
		}
		if verb == 'T' {
			return in.concStr(x.t.String())
		}
		return in.fmtScalar(x.v, x.t, verb)
	case *Union:
		r := in.mapAlts(x, func(_ *Term, a Value) Value { return in.fmtValue(a, verb) })
		if s, ok := r.(*Str); ok {
			return s
		}
	}
	return in.fmtScalar(v, nil, verb)
}

func (in *Interp) quoteIf(s *Str, verb byte) *Str {
	if verb == 'q' {
		return in.strConcat(in.strConcat(in.concStr("\""), s), in.concStr("\""))
	}
	return s
}

func (in *Interp) fmtScalar(v Value, t types.Type, verb byte) *Str {
	switch x := v.(type) {
	case *Str:
		return in.quoteIf(x, verb)
	case *Term:
		if x.w == 0 {
			if x.IsConst() {
				return in.concStr(fmt.Sprint(x.val != 0))
			}
			return in.merge(x, in.concStr("true"), in.concStr("false")).(*Str)
		}
		if x.IsConst() {
			signed := true
			if t != nil {
				_, signed, _ = intWidth(t)
			}
			f := "%" + string(verb)
			if verb == 's' {
				f = "%d"
			}
			if signed {
				return in.concStr(fmt.Sprintf(f, sext(x.w, x.val)))
			}
			return in.concStr(fmt.Sprintf(f, x.val))
		}
		in.stubLog["fmt:symbolic integer rendered as placeholder"]++
		return in.concStr("<int>")
	case Float:
		return in.concStr(fmt.Sprintf("%"+string(verb), x.f))
	case Ptr:
		if x.p == nil {
			return in.concStr("<nil>")
		}
	}
	in.stubLog["fmt:composite rendered as placeholder"]++
	if t != nil {
		return in.concStr("<" + t.String() + ">")
	}
	return in.concStr("<value>")
}
