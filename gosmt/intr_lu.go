package main

// Library models needed by the ListUsers / Expand whole-engine harnesses (C06, C30).

import (
	"golang.org/x/tools/go/ssa"
)

func init() {
	// BoundedTupleReader.instrument only feeds a prometheus histogram and a span attribute with the time a
	// read waited for the concurrency limiter (float64 of a duration of the abstract clock): telemetry, no-op.
	reg("(*github.com/openfga/openfga/pkg/storage/storagewrappers.BoundedTupleReader).instrument",
		func(in *Interp, fn *ssa.Function, a []Value, g *Term) Value {
			in.stubLog["noop:storagewrappers.BoundedTupleReader.instrument (wait-time histogram)"]++
			return in.noopResults(fn.Signature, a)
		})
}
