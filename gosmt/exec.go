package main

import (
	"fmt"
	"go/constant"
	"go/token"
	"go/types"
	"os"
	"runtime/debug"
	"strings"

	"golang.org/x/tools/go/ssa"
)

type retAlt struct {
	g *Term
	v Value
}

type deferRec struct {
	g    *Term
	fnv  Value
	args []Value
	call *ssa.CallCommon
}

type Frame struct {
	fn        *ssa.Function
	fi        *FnInfo
	env       []Value
	entry     *Term
	cur       *Term
	inG       [][]*Term
	rets      []retAlt
	defers    []deferRec
	caller    *Frame
	pos       token.Pos
	panicking *GoPanic
	thread    *Thread
}

func (in *Interp) get(f *Frame, v ssa.Value) Value {
	switch v := v.(type) {
	case *ssa.Const:
		return in.constValue(v)
	case *ssa.Global:
		return Ptr{in.globalCell(v)}
	case *ssa.Function:
		return v
	case *ssa.Builtin:
		return v
	}
	i, ok := f.fi.idx[v]
	if !ok {
		abortf("unknown ssa value %s in %s", v.Name(), f.fn)
	}
	return f.env[i]
}

func (in *Interp) getTerm(f *Frame, v ssa.Value) *Term {
	x := in.get(f, v)
	t, ok := x.(*Term)
	if !ok {
		abortf("expected scalar for %s (%s) in %s, got %s", v.Name(), v.Type(), f.fn, in.show(x))
	}
	return t
}

func (in *Interp) constValue(c *ssa.Const) Value {
	t := c.Type()
	if c.Value == nil {
		return in.zero(t)
	}
	if _, isTP := t.(*types.TypeParam); isTP {
		abortf("constant of type parameter type")
	}
	if b, ok := t.Underlying().(*types.Basic); ok {
		if w, _, ok := intWidth(b); ok {
			if c.Value.Kind() == constant.Float {
				f, _ := constant.Float64Val(c.Value)
				return in.ts.BV(w, uint64(int64(f)))
			}
			if i, exact := constant.Int64Val(constant.ToInt(c.Value)); exact {
				return in.ts.BV(w, uint64(i))
			}
			u, _ := constant.Uint64Val(constant.ToInt(c.Value))
			return in.ts.BV(w, u)
		}
		switch b.Kind() {
		case types.Bool, types.UntypedBool:
			return in.ts.Bool(constant.BoolVal(c.Value))
		case types.String, types.UntypedString:
			if c.Value.Kind() == constant.String {
				return in.concStr(constant.StringVal(c.Value))
			}
			i, _ := constant.Int64Val(c.Value)
			return in.concStr(string(rune(i)))
		case types.Float32, types.Float64, types.UntypedFloat:
			fl, _ := constant.Float64Val(c.Value)
			if b.Kind() == types.Float32 {
				fl = float64(float32(fl))
			}
			return Float{fl}
		}
	}
	abortf("unsupported constant %s of type %s", c, t)
	return nil
}

func (in *Interp) globalCell(g *ssa.Global) *Value {
	if p, ok := in.globals[g]; ok {
		return p
	}
	if g.Pkg != nil {
		in.ensureInit(g.Pkg)
		if p, ok := in.globals[g]; ok {
			return p
		}
	}
	return in.allocGlobal(g)
}

func (in *Interp) allocGlobal(g *ssa.Global) *Value {
	p := new(Value)
	*p = in.zero(g.Type().(*types.Pointer).Elem())
	in.globals[g] = p
	in.onUndo(func() { delete(in.globals, g) })
	return p
}

// ensureInit runs the package's own initialiser leniently (imports' inits are skipped and run
// lazily when their globals are touched).
func (in *Interp) ensureInit(pkg *ssa.Package) {
	if in.initDone[pkg] {
		return
	}
	in.initDone[pkg] = true
	in.onUndo(func() { delete(in.initDone, pkg) })
	// allocate all globals first
	for _, m := range pkg.Members {
		if g, ok := m.(*ssa.Global); ok {
			if _, ok := in.globals[g]; !ok {
				in.allocGlobal(g)
			}
		}
	}
	if noInitPkgs[pkg.Pkg.Path()] {
		return
	}
	initFn := pkg.Func("init")
	if initFn == nil || len(initFn.Blocks) == 0 {
		return
	}
	in.lenient++
	savedFrame := in.cur.frame
	defer func() {
		in.lenient--
		in.cur.frame = savedFrame
		if r := recover(); r != nil {
			switch r := r.(type) {
			case *EngineAbort:
				if in.cfg.Trace {
					fmt.Fprintf(os.Stderr, "init %s stopped: %s\n", pkg.Pkg.Path(), r.msg)
				}
			case *GoPanic:
				if in.cfg.Trace {
					fmt.Fprintf(os.Stderr, "init %s panicked: %s\n", pkg.Pkg.Path(), r.msg)
				}
			case pathEnd, threadKill:
				panic(r)
			default:
				// host-level crash inside a lenient initialiser: the initialiser stops, globals stay as they are
				in.stubLog["engine:initialiser of "+pkg.Pkg.Path()+" stopped early"]++
			}
		}
	}()
	in.callFunction(initFn, nil, nil, in.ts.True)
}

func isInitFn(fn *ssa.Function) bool {
	return fn.Name() == "init" && fn.Signature.Recv() == nil && fn.Parent() == nil && fn.Synthetic != ""
}

func (in *Interp) callFunction(fn *ssa.Function, args []Value, fv []Value, g *Term) Value {
	if g.IsFalse() {
		return in.zeroResults(fn.Signature)
	}
	// a method called on a guarded union of receivers runs once per alternative
	if u, ok := firstUnion(args); ok && fn.Signature.Recv() != nil {
		return in.mapAlts(u, func(ag *Term, v Value) Value {
			gg := in.ts.And(g, ag)
			if gg.IsFalse() {
				return nil
			}
			na := append([]Value{v}, args[1:]...)
			return in.callFunction(fn, na, fv, gg)
		})
	}
	if intr := in.lookupIntrinsic(fn); intr != nil {
		if in.implicitPts && in.controller != nil {
			if n := intrinsicName(fn); strings.HasPrefix(n, "sync/atomic.") || strings.HasPrefix(n, "(*sync.") {
				in.withGuard(g, func() { in.implicitPoint(n) })
			}
		}
		in.stubLog[intrinsicName(fn)]++
		var r Value
		in.withGuard(g, func() { r = intr(in, fn, args, g) })
		return r
	}
	if isInitFn(fn) && in.lenient > 0 && in.cur.frame != nil && in.cur.frame.fn != nil && isInitFn(in.cur.frame.fn) {
		return nil // imported package's init: lazily done
	}
	if len(fn.Blocks) == 0 {
		if in.lenient > 0 {
			return in.opaqueResults(fn)
		}
		abortf("no body and no model for %s", fn.String())
	}
	if in.depth > in.cfg.MaxDepth {
		abortf("call depth %d exceeded at %s", in.depth, fn)
	}
	fi := getFnInfo(fn)
	f := &Frame{fn: fn, fi: fi, env: make([]Value, fi.nvals), entry: g, cur: g, thread: in.cur}
	if len(args) != len(fn.Params) {
		abortf("call of %s with %d args, want %d", fn, len(args), len(fn.Params))
	}
	copy(f.env, args)
	copy(f.env[len(fn.Params):], fv)
	f.inG = make([][]*Term, len(fn.Blocks))
	for _, b := range fn.Blocks {
		s := make([]*Term, len(b.Preds))
		for i := range s {
			s[i] = in.ts.False
		}
		f.inG[b.Index] = s
	}
	f.caller = in.cur.frame
	in.cur.frame = f
	in.depth++
	in.fnsRun[fn]++
	th := in.cur
	defer func() {
		th.frame = f.caller
		in.depth--
	}()
	func() {
		defer func() {
			if r := recover(); r != nil {
				if gp, ok := r.(*GoPanic); ok {
					th.frame = f
					f.panicking = gp
				} else {
					if ea, ok := r.(*EngineAbort); ok && ea.where == "" {
						th.frame = f
						ea.where = in.where() + " | " + in.stack()
					}
					switch r.(type) {
					case *EngineAbort, pathEnd, *deadlockErr, threadKill, *goroutineCrash:
					default:
						// a host-level crash inside the engine: keep the innermost stack
						th.frame = f
						r = &EngineAbort{msg: fmt.Sprintf("engine crash: %v\n%s", r, hostStack()), where: in.where() + " | " + in.stack()}
					}
					panic(r)
				}
			}
		}()
		in.execRegion(f, nil)
	}()
	if f.panicking != nil {
		f.cur = g
		in.runDefers(f)
		if f.panicking != nil {
			panic(f.panicking)
		}
		// recovered
		f.rets = nil
		if fn.Recover != nil {
			in.execBlock(f, fn.Recover, g)
		}
		if len(f.rets) == 0 {
			return in.zeroResults(fn.Signature)
		}
	}
	return in.mergeRets(f)
}

// hostStack returns the engine frames of the current (panicking) goroutine, trimmed.
func hostStack() string {
	lines := strings.Split(string(debug.Stack()), "\n")
	var out []string
	for i := 0; i+1 < len(lines); i++ {
		if strings.HasPrefix(lines[i], "main.") && !strings.Contains(lines[i], "callFunction") && !strings.Contains(lines[i], "hostStack") {
			out = append(out, strings.TrimSpace(lines[i])+" "+strings.TrimSpace(lines[i+1]))
			if len(out) >= 10 {
				break
			}
		}
	}
	return strings.Join(out, "\n")
}

func firstUnion(args []Value) (*Union, bool) {
	if len(args) == 0 {
		return nil, false
	}
	u, ok := args[0].(*Union)
	return u, ok
}

func (in *Interp) zeroResults(sig *types.Signature) Value {
	r := sig.Results()
	switch r.Len() {
	case 0:
		return nil
	case 1:
		return in.zero(r.At(0).Type())
	}
	return in.zero(r)
}

func (in *Interp) opaqueResults(fn *ssa.Function) Value {
	r := fn.Signature.Results()
	switch r.Len() {
	case 0:
		return nil
	case 1:
		return Opaque{fn.String()}
	}
	t := make(Tuple, r.Len())
	for i := range t {
		t[i] = Opaque{fn.String()}
	}
	return t
}

func (in *Interp) mergeRets(f *Frame) Value {
	if len(f.rets) == 0 {
		// function never returned on any feasible path (e.g. always panics / blocked)
		return in.zeroResults(f.fn.Signature)
	}
	r := f.rets[len(f.rets)-1].v
	for i := len(f.rets) - 2; i >= 0; i-- {
		r = in.merge(f.rets[i].g, f.rets[i].v, r)
		in.merges++
	}
	return r
}

func (in *Interp) orSlots(s []*Term) *Term {
	switch len(s) {
	case 0:
		return in.ts.False
	case 1:
		return s[0]
	case 2:
		return in.ts.Or(s[0], s[1])
	}
	// re-join of a multi-way branch: fold pairs (X∧c) ∨ (X∧¬c) = X until nothing changes, so that the
	// guard after `if / else if / else` is the guard before it again
	xs := make([]*Term, 0, len(s))
	for _, t := range s {
		if !t.IsFalse() {
			xs = append(xs, t)
		}
	}
	for changed := true; changed && len(xs) > 1 && len(xs) <= 12; {
		changed = false
	outer:
		for i := 0; i < len(xs); i++ {
			for j := i + 1; j < len(xs); j++ {
				if xs[i] == xs[j] {
					xs = append(xs[:j], xs[j+1:]...)
					changed = true
					break outer
				}
				if r := in.ts.diamond(xs[i], xs[j]); r != nil {
					xs[i] = r
					xs = append(xs[:j], xs[j+1:]...)
					changed = true
					break outer
				}
			}
		}
	}
	return in.ts.Or(xs...)
}

func (in *Interp) skipBlock(f *Frame, b *ssa.BasicBlock) {
	for si, s := range b.Succs {
		f.inG[s.Index][f.fi.edgeSlot[b.Index][si]] = in.ts.False
	}
}

func (in *Interp) execRegion(f *Frame, L *Loop) {
	fi := f.fi
	order := fi.rpo
	if L != nil {
		order = L.order
	}
	for _, b := range order {
		if L != nil && b == L.header {
			continue
		}
		if fi.loopOf[b.Index] != L {
			if hl := fi.hdr[b.Index]; hl != nil && hl.parent == L {
				in.execLoop(f, hl)
			}
			continue
		}
		if hl := fi.hdr[b.Index]; hl != nil && hl != L {
			in.execLoop(f, hl)
			continue
		}
		var g *Term
		if b.Index == 0 && L == nil {
			g = f.entry
		} else {
			g = in.orSlots(f.inG[b.Index])
		}
		in.execBlock(f, b, g)
	}
}

func (in *Interp) execLoop(f *Frame, M *Loop) {
	fi := f.fi
	h := M.header
	ts := in.ts
	accExit := make([]*Term, len(M.exits))
	for i := range accExit {
		accExit[i] = ts.False
	}
	accRegs := make([]Value, len(M.liveOut))
	var prevHg *Term
	symIters := 0
	for iter := 0; ; iter++ {
		hg := in.orSlots(f.inG[h.Index])
		if h.Index == 0 && iter == 0 {
			hg = ts.Or(hg, f.entry)
		}
		stop := false
		if hg.IsFalse() {
			stop = true
		} else if !hg.IsTrue() && hg == prevHg {
			// same guard as the previous iteration: the loop condition itself was concrete
			if iter > 5000000 {
				abortf("concrete loop exceeded 5000000 iterations in %s", f.fn)
			}
		} else if !hg.IsTrue() {
			symIters++
			if !in.feasible(hg) {
				stop = true
			} else if symIters > in.cfg.Unwind {
				in.unwindHit++
				in.inconclusive = append(in.inconclusive, Inconclusive{What: fmt.Sprintf("unwinding bound %d insufficient", in.cfg.Unwind), Where: in.where()})
				in.assume(ts.Not(hg))
				stop = true
			}
		} else if iter > 5000000 {
			abortf("concrete loop exceeded 5000000 iterations in %s", f.fn)
		}
		if stop {
			if iter == 0 {
				for _, b := range M.order {
					in.skipBlock(f, b)
				}
			}
			break
		}
		prevHg = hg
		in.execBlock(f, h, hg)
		in.execRegion(f, M)
		gi := ts.False
		for k, e := range M.exits {
			b := f.fn.Blocks[e[0]]
			s := f.inG[b.Succs[e[1]].Index][fi.edgeSlot[e[0]][e[1]]]
			if !s.IsFalse() {
				accExit[k] = ts.Or(accExit[k], s)
				gi = ts.Or(gi, s)
			}
		}
		if !gi.IsFalse() {
			for k, v := range M.liveOut {
				nv := f.env[fi.idx[v]]
				if nv == nil {
					continue
				}
				accRegs[k] = in.merge(gi, nv, accRegs[k])
			}
		}
	}
	for k, e := range M.exits {
		b := f.fn.Blocks[e[0]]
		f.inG[b.Succs[e[1]].Index][fi.edgeSlot[e[0]][e[1]]] = accExit[k]
	}
	for k, v := range M.liveOut {
		if accRegs[k] != nil {
			f.env[fi.idx[v]] = accRegs[k]
		}
	}
}

func (in *Interp) execBlock(f *Frame, b *ssa.BasicBlock, g *Term) {
	ts := in.ts
	if in.expired.Load() {
		abortf("job wall-clock limit exceeded")
	}
	if g.IsFalse() || in.isKnownFalse(g) {
		in.skipBlock(f, b)
		return
	}
	if (in.cfg.Prune || f.fi.loopOf[b.Index] != nil) && !g.IsTrue() && !in.isKnown(g) && !in.feasible(g) {
		in.skipBlock(f, b)
		return
	}
	f.cur = g
	in.blockExec++
	slots := f.inG[b.Index]
	// phis (simultaneous)
	nphi := 0
	for _, ins := range b.Instrs {
		if _, ok := ins.(*ssa.Phi); ok {
			nphi++
		} else {
			break
		}
	}
	if nphi > 0 {
		vals := make([]Value, nphi)
		for i := 0; i < nphi; i++ {
			phi := b.Instrs[i].(*ssa.Phi)
			var r Value
			first := true
			for k := len(slots) - 1; k >= 0; k-- {
				if slots[k].IsFalse() {
					continue
				}
				x := in.get(f, phi.Edges[k])
				if first {
					r = x
					first = false
				} else {
					r = in.merge(slots[k], x, r)
					in.merges++
				}
			}
			vals[i] = r
		}
		for i := 0; i < nphi; i++ {
			f.env[f.fi.idx[b.Instrs[i].(*ssa.Phi)]] = vals[i]
		}
	}
	if f.fi.hdr[b.Index] != nil {
		for k := range slots {
			slots[k] = ts.False
		}
	}
	for _, ins := range b.Instrs[nphi:] {
		if p := ins.Pos(); p.IsValid() {
			f.pos = p
		}
		if in.cfg.Trace {
			fmt.Fprintf(os.Stderr, "%*s%s.%d: %s\n", in.depth, "", f.fn.Name(), b.Index, ins)
		}
		in.visit(f, b, ins)
		if f.cur.IsFalse() {
			// guard died in the middle of the block
			in.skipBlock(f, b)
			return
		}
	}
}

func (in *Interp) setEdge(f *Frame, b *ssa.BasicBlock, si int, g *Term) {
	if !g.IsFalse() {
		in.edges++
	}
	f.inG[b.Succs[si].Index][f.fi.edgeSlot[b.Index][si]] = g
}

func (in *Interp) visit(f *Frame, b *ssa.BasicBlock, instr ssa.Instruction) {
	ts := in.ts
	setv := func(v ssa.Value, x Value) { f.env[f.fi.idx[v]] = x }
	switch ins := instr.(type) {
	case *ssa.DebugRef:
	case *ssa.UnOp:
		setv(ins, in.unop(f, ins))
	case *ssa.BinOp:
		setv(ins, in.binop(ins.Op, ins.X.Type(), in.get(f, ins.X), in.get(f, ins.Y), ins.Y.Type()))
	case *ssa.Call:
		fnv, args := in.prepareCall(f, &ins.Call)
		r := in.call(fnv, args, f.cur, &ins.Call)
		setv(ins, r)
	case *ssa.ChangeInterface:
		setv(ins, in.get(f, ins.X))
	case *ssa.ChangeType:
		setv(ins, in.get(f, ins.X))
	case *ssa.Convert:
		setv(ins, in.convert(ins.Type(), ins.X.Type(), in.get(f, ins.X)))
	case *ssa.MultiConvert:
		setv(ins, in.convert(ins.Type(), ins.X.Type(), in.get(f, ins.X)))
	case *ssa.SliceToArrayPointer:
		x := in.get(f, ins.X).(*SliceV)
		n := ins.Type().Underlying().(*types.Pointer).Elem().Underlying().(*types.Array).Len()
		in.rtCheck(ts.Cmp(OpUlt, x.n, ts.BV(64, uint64(n))), "slice to array pointer: length too short")
		switch {
		case x.nilS:
			setv(ins, Ptr{})
		case x.soff == nil:
			arr := Value(Array(x.a[x.off : x.off+int(n)]))
			setv(ins, Ptr{&arr})
		default:
			// the slice starts at a symbolic position of its backing array (slices re-sliced under a symbolic
			// guard): one array pointer per feasible start, each aliasing the backing array at that position
			var alts []Alt
			for k := 0; x.off+k+int(n) <= len(x.a); k++ {
				c := ts.Eq(x.soff, ts.BV(64, uint64(k)))
				if c.IsFalse() {
					continue
				}
				arr := Value(Array(x.a[x.off+k : x.off+k+int(n)]))
				alts = append(alts, Alt{c, Ptr{&arr}})
			}
			switch len(alts) {
			case 0:
				setv(ins, Ptr{})
			case 1:
				setv(ins, alts[0].v)
			default:
				if len(alts) > in.maxUnion {
					abortf("slice to array pointer with symbolic offset over %d positions", len(alts))
				}
				setv(ins, &Union{alts: alts})
			}
		}
	case *ssa.MakeInterface:
		setv(ins, Iface{t: ins.X.Type(), v: in.get(f, ins.X)})
	case *ssa.Extract:
		t := in.get(f, ins.Tuple)
		tu, ok := t.(Tuple)
		if !ok {
			if _, isOp := t.(Opaque); isOp && in.lenient > 0 {
				setv(ins, t)
				return
			}
			abortf("extract from non-tuple %s", in.show(t))
		}
		setv(ins, tu[ins.Index])
	case *ssa.Slice:
		setv(ins, in.sliceOp(f, ins))
	case *ssa.Return:
		var v Value
		switch len(ins.Results) {
		case 0:
		case 1:
			v = in.get(f, ins.Results[0])
		default:
			tu := make(Tuple, len(ins.Results))
			for i, r := range ins.Results {
				tu[i] = in.get(f, r)
			}
			v = tu
		}
		f.rets = append(f.rets, retAlt{f.cur, v})
	case *ssa.RunDefers:
		in.runDefers(f)
	case *ssa.Panic:
		if !in.concretizeGuard() {
			return
		}
		x := in.get(f, ins.X)
		panic(&GoPanic{v: x, msg: in.panicMsg(x), where: in.where() + " | " + in.stack()})
	case *ssa.Send:
		in.chanSend(f, in.get(f, ins.Chan), in.get(f, ins.X))
	case *ssa.Store:
		in.store(in.get(f, ins.Addr), in.get(f, ins.Val), f.cur)
	case *ssa.If:
		c := in.getTerm(f, ins.Cond)
		switch {
		case c.IsConst():
			if c.val != 0 {
				in.setEdge(f, b, 0, f.cur)
				in.setEdge(f, b, 1, ts.False)
			} else {
				in.setEdge(f, b, 0, ts.False)
				in.setEdge(f, b, 1, f.cur)
			}
		case c.forky || in.cfg.ForkAll || in.cur.forkAll > 0:
			if in.decide(c) {
				in.setEdge(f, b, 0, f.cur)
				in.setEdge(f, b, 1, ts.False)
			} else {
				in.setEdge(f, b, 0, ts.False)
				in.setEdge(f, b, 1, f.cur)
			}
		default:
			in.setEdge(f, b, 0, ts.And(f.cur, c))
			in.setEdge(f, b, 1, ts.And(f.cur, ts.Not(c)))
		}
	case *ssa.Jump:
		in.setEdge(f, b, 0, f.cur)
	case *ssa.Defer:
		fnv, args := in.prepareCall(f, &ins.Call)
		f.defers = append(f.defers, deferRec{g: f.cur, fnv: fnv, args: args, call: &ins.Call})
	case *ssa.Go:
		if !in.concretizeGuard() {
			return
		}
		fnv, args := in.prepareCall(f, &ins.Call)
		in.spawn(fnv, args, &ins.Call)
	case *ssa.MakeChan:
		sz := in.getTerm(f, ins.Size)
		if !sz.IsConst() {
			abortf("symbolic channel capacity")
		}
		setv(ins, in.newChan(int(sz.val)))
	case *ssa.Alloc:
		p := new(Value)
		*p = in.zero(ins.Type().Underlying().(*types.Pointer).Elem())
		setv(ins, Ptr{p})
	case *ssa.MakeSlice:
		n := in.idx64(in.getTerm(f, ins.Len), ins.Len.Type())
		c := in.idx64(in.getTerm(f, ins.Cap), ins.Cap.Type())
		in.rtCheck(ts.Or(ts.Cmp(OpSlt, c, ts.BV(64, 0)), ts.Cmp(OpSlt, n, ts.BV(64, 0))), "makeslice: len/cap out of range")
		in.rtCheck(ts.Cmp(OpUlt, c, n), "makeslice: len larger than cap")
		capN := c.val
		if !c.IsConst() {
			capN = in.upperBound(c)
			if capN > 1<<12 {
				// ask the solver for a bound under the current path condition and guard
				capN = 1 << 62
				for _, b := range []uint64{8, 16, 32, 64, 256, 1024, 4096} {
					if !in.feasible(ts.And(f.cur, ts.Cmp(OpUlt, ts.BV(64, b), c))) {
						capN = b
						break
					}
				}
			}
			if capN > 1<<12 {
				abortf("make([]T) with unbounded symbolic capacity (bound %d) at %s", capN, in.where())
			}
			in.stubLog["engine:symbolic make cap replaced by its upper bound"]++
		} else if sext(64, c.val) < 0 || c.val > 1<<26 {
			in.rtCheck(ts.True, "makeslice: cap out of range")
			capN = 0
		}
		et := ins.Type().Underlying().(*types.Slice).Elem()
		a := make([]Value, capN)
		for i := range a {
			a[i] = in.zero(et)
		}
		setv(ins, &SliceV{a: a, off: 0, n: n, cap: int(capN)})
	case *ssa.MakeMap:
		setv(ins, &MapObj{index: map[string]int{}, typ: ins.Type().Underlying().(*types.Map)})
	case *ssa.Range:
		setv(ins, in.rangeIter(in.get(f, ins.X)))
	case *ssa.Next:
		setv(ins, in.next(f, ins))
	case *ssa.FieldAddr:
		x := in.get(f, ins.X)
		setv(ins, in.mapAlts(x, func(g *Term, v Value) Value {
			p, ok := v.(Ptr)
			if !ok {
				abortf("FieldAddr on %s at %s", in.show(v), in.where())
			}
			if p.p == nil {
				in.rtCheck(g, "invalid memory address or nil pointer dereference")
				return Ptr{}
			}
			s, ok := (*p.p).(Struct)
			if !ok {
				abortf("FieldAddr: pointee is %s at %s", in.show(*p.p), in.where())
			}
			return Ptr{&s[ins.Field]}
		}))
	case *ssa.Field:
		x := in.get(f, ins.X)
		s, ok := x.(Struct)
		if !ok {
			abortf("Field on %s", in.show(x))
		}
		setv(ins, copyVal(s[ins.Field]))
	case *ssa.IndexAddr:
		setv(ins, in.indexAddr(f, ins))
	case *ssa.Index:
		setv(ins, in.indexOp(f, ins))
	case *ssa.Lookup:
		setv(ins, in.lookup(f, ins))
	case *ssa.MapUpdate:
		in.mapUpdate(in.get(f, ins.Map), in.get(f, ins.Key), in.get(f, ins.Value), f.cur)
	case *ssa.TypeAssert:
		setv(ins, in.typeAssert(ins, in.get(f, ins.X)))
	case *ssa.MakeClosure:
		var bindings []Value
		for _, bv := range ins.Bindings {
			bindings = append(bindings, in.get(f, bv))
		}
		setv(ins, &Closure{fn: ins.Fn.(*ssa.Function), env: bindings})
	case *ssa.Phi:
		abortf("phi in the middle of a block")
	case *ssa.Select:
		setv(ins, in.selectOp(f, ins))
	default:
		abortf("unsupported instruction %T %s", instr, instr)
	}
}

func (in *Interp) panicMsg(x Value) string {
	if i, ok := x.(Iface); ok && i.t != nil {
		if s, ok := i.v.(*Str); ok && s.conc {
			return s.s
		}
		// error value: try Error()
		if types.Implements(i.t, errorIface) {
			defer func() { recover() }()
			if s, ok := in.callMethod(i, "Error", nil).(*Str); ok && s.conc {
				return s.s
			}
		}
		return fmt.Sprintf("panic(%s)", i.t)
	}
	return "panic"
}

var errorIface = types.Universe.Lookup("error").Type().Underlying().(*types.Interface)

func (in *Interp) runDefers(f *Frame) {
	// In merged mode every return block runs the deferred calls under its own guard; the list is
	// only consumed when this block's guard is certain.
	if f.panicking == nil && !(f.cur.IsTrue() || in.isKnown(f.cur)) {
		saved := append([]deferRec(nil), f.defers...)
		entry := f.cur
		defer func() {
			f.defers = saved
			if !f.cur.IsFalse() {
				f.cur = entry
			}
		}()
	}
	for len(f.defers) > 0 {
		d := f.defers[len(f.defers)-1]
		f.defers = f.defers[:len(f.defers)-1]
		g := in.ts.And(f.cur, d.g)
		if g.IsFalse() {
			continue
		}
		func() {
			defer func() {
				if r := recover(); r != nil {
					if gp, ok := r.(*GoPanic); ok {
						in.cur.frame = f
						f.panicking = gp // replaces the current panic
					} else {
						panic(r)
					}
				}
			}()
			in.call(d.fnv, d.args, g, d.call)
		}()
	}
}

// prepareCall evaluates the callee and arguments of a call site.
func (in *Interp) prepareCall(f *Frame, cc *ssa.CallCommon) (Value, []Value) {
	var args []Value
	for _, a := range cc.Args {
		args = append(args, in.get(f, a))
	}
	return in.get(f, cc.Value), args
}

// call dispatches a call; for invoke-mode calls fnv is the receiver interface.
func (in *Interp) call(fnv Value, args []Value, g *Term, cc *ssa.CallCommon) Value {
	if cc != nil && cc.IsInvoke() {
		return in.mapAlts(fnv, func(ag *Term, v Value) Value {
			gg := in.ts.And(g, ag)
			if gg.IsFalse() {
				return nil
			}
			itf, ok := v.(Iface)
			if !ok {
				if _, isOp := v.(Opaque); isOp && in.lenient > 0 {
					return Opaque{"invoke on opaque"}
				}
				abortf("invoke %s on non-interface %s at %s", cc.Method.Name(), in.show(v), in.where())
			}
			if itf.t == nil && noopIfaceType(cc.Value.Type()) {
				// e.g. a package-level prometheus counter whose initialiser is not run
				in.stubLog["noop-object:"+cc.Method.Name()]++
				return in.noopResults(cc.Signature(), args)
			}
			if itf.t == nil {
				in.withGuard(gg, func() { in.rtCheck(in.ts.True, "invalid memory address or nil pointer dereference (nil interface method call "+cc.Method.Name()+")") })
				return in.zeroResults(cc.Signature())
			}
			if rt, isRefl := itf.t.(*reflType); isRefl {
				return in.reflInvoke(rt, cc.Method.Name(), args, cc)
			}
			if _, isNoop := itf.t.(*noopType); isNoop {
				in.stubLog["noop-object:"+cc.Method.Name()]++
				return in.noopResults(cc.Signature(), args)
			}
			fn := in.prog.LookupMethod(itf.t, cc.Method.Pkg(), cc.Method.Name())
			if fn == nil {
				abortf("no method %s on %s", cc.Method.Name(), itf.t)
			}
			return in.callFunction(fn, append([]Value{itf.v}, args...), nil, gg)
		})
	}
	return in.mapAlts(fnv, func(ag *Term, v Value) Value {
		gg := in.ts.And(g, ag)
		if gg.IsFalse() {
			return nil
		}
		switch fn := v.(type) {
		case *ssa.Function:
			return in.callFunction(fn, args, nil, gg)
		case *Closure:
			if fn == nil {
				in.withGuard(gg, func() { in.rtCheck(in.ts.True, "call of nil func") })
				return nil
			}
			return in.callFunction(fn.fn, args, fn.env, gg)
		case *ssa.Builtin:
			var r Value
			in.withGuard(gg, func() { r = in.callBuiltin(fn, args, cc) })
			return r
		case Opaque:
			if in.lenient > 0 {
				return Opaque{"call of opaque"}
			}
		}
		abortf("call of non-function %s at %s", in.show(v), in.where())
		return nil
	})
}

// withGuard temporarily narrows the current block guard.
func (in *Interp) withGuard(g *Term, fn func()) {
	f := in.cur.frame
	if f == nil {
		fn()
		return
	}
	saved := f.cur
	f.cur = g
	defer func() {
		if f.cur.IsFalse() && g == saved {
			return // the whole block guard was decided false inside fn: the block is dead
		}
		f.cur = saved
	}()
	fn()
}

func (in *Interp) callMethod(recv Iface, name string, args []Value) Value {
	var pkg *types.Package
	if n, ok := types.Unalias(recv.t).(*types.Named); ok && n.Obj() != nil {
		pkg = n.Obj().Pkg()
	} else if p, ok := types.Unalias(recv.t).(*types.Pointer); ok {
		if n, ok := types.Unalias(p.Elem()).(*types.Named); ok {
			pkg = n.Obj().Pkg()
		}
	}
	fn := in.prog.LookupMethod(recv.t, pkg, name)
	if fn == nil {
		abortf("no method %s on %s", name, recv.t)
	}
	return in.callFunction(fn, append([]Value{recv.v}, args...), nil, in.guard())
}
