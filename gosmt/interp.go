package main

import (
	"fmt"
	"go/token"
	"go/types"
	"sort"
	"strings"
	"sync/atomic"

	"golang.org/x/tools/go/ssa"
)

type undoRec struct {
	p   *Value
	old Value
	fn  func()
}

type Decision struct {
	val    bool
	forced bool // no alternative to explore
}

type Violation struct {
	Kind      string            `json:"kind"` // assert | panic | deadlock | leak
	Msg       string            `json:"msg"`
	Where     string            `json:"where"`
	Model     map[string]uint64 `json:"model"`
	Decisions string            `json:"decisions"`
	Events    []string          `json:"events,omitempty"`
	Path      int               `json:"path"`
}

type Inconclusive struct {
	What  string `json:"what"`
	Where string `json:"where"`
}

// control-flow sentinels (host panics)
type pathEnd struct{ why string }  // stop this path quietly (infeasible / assumption false)
type GoPanic struct {              // a Go-level panic propagating through interpreted frames
	v     Value // interface value passed to panic
	msg   string
	where string
}

type Config struct {
	Unwind    int
	MaxUnion  int
	ForkAll   bool
	MaxPaths  int
	TimeoutMs int
	Solver    string
	MaxDepth  int
	JobTimeoutS int
	Trace     bool
	Witnesses int  // number of completed paths per harness run for which a model of the path condition is kept (translator validation)
	Prune     bool // ask the solver whether each symbolic block guard is feasible before executing the block
}

type Interp struct {
	prog *ssa.Program
	cfg  Config
	ts   *TermStore
	sol  *Solver

	globals  map[*ssa.Global]*Value
	initDone map[*ssa.Package]bool
	lenient  int
	maxUnion int

	journal []undoRec

	pc      []*Term
	known   map[*Term]bool
	prefix  []Decision
	decLog  []Decision
	baseLv  int

	inputs    []*Term // vt variables in creation order
	inputMeta map[string]string
	freshN    map[string]int

	violations   []Violation
	witnesses    []Violation
	inconclusive []Inconclusive
	reached      map[string]bool
	reachSeen    map[string]bool
	events       []string
	pathNo       int
	unsatCache   map[*Term]bool
	panicsFork   bool

	depth     int
	fnsRun    map[*ssa.Function]int
	blockExec int
	merges    int
	paths     int
	unwindHit int

	cur      *Thread
	threads  []*Thread
	sched    chan struct{}
	clockN   int
	lastNow  *Term
	stubLog  map[string]int
	harness  *ssa.Function
	exploreF Value
	aborting     bool
	ack          chan struct{}
	pendingPanic interface{}
	chanN        int
	schedBudget  int
	syncState    map[*Value]*syncObj
	userStubs    map[string]Value
	params       map[string]string
	asserts      int
	oblig        int
	discharged   int
	edges        int
	samples      []string
	varBound     map[*Term]uint64
	ulidN        int
	copyMerge    bool
	satCache     map[*Term]bool
	reflTypes    map[string]*reflType
	xx           map[*Value]*xxState
	selCount     map[*ssa.Select]int
	expired      atomic.Bool
	controller   *Thread
	implicitPts  bool
}

func NewInterp(prog *ssa.Program, cfg Config) (*Interp, error) {
	in := &Interp{prog: prog, cfg: cfg, ts: NewTermStore()}
	if cfg.MaxUnion == 0 {
		cfg.MaxUnion = 64
	}
	in.cfg = cfg
	in.maxUnion = cfg.MaxUnion
	sol, err := NewSolver(in.ts, cfg.Solver, cfg.TimeoutMs)
	if err != nil {
		return nil, err
	}
	in.sol = sol
	in.globals = map[*ssa.Global]*Value{}
	in.initDone = map[*ssa.Package]bool{}
	in.known = map[*Term]bool{}
	in.reached = map[string]bool{}
	in.reachSeen = map[string]bool{}
	in.fnsRun = map[*ssa.Function]int{}
	in.unsatCache = map[*Term]bool{}
	in.inputMeta = map[string]string{}
	in.freshN = map[string]int{}
	in.stubLog = map[string]int{}
	return in, nil
}

// ---- journal ----

func (in *Interp) set(p *Value, v Value) {
	in.journal = append(in.journal, undoRec{p: p, old: *p})
	*p = v
}

func (in *Interp) onUndo(fn func()) {
	in.journal = append(in.journal, undoRec{fn: fn})
}

func (in *Interp) undoTo(n int) {
	for i := len(in.journal) - 1; i >= n; i-- {
		r := in.journal[i]
		if r.fn != nil {
			r.fn()
		} else {
			*r.p = r.old
		}
	}
	in.journal = in.journal[:n]
}

// ---- path condition ----

func (in *Interp) assume(t *Term) {
	if t.IsTrue() {
		return
	}
	if t.IsFalse() {
		panic(pathEnd{"assumption false"})
	}
	in.pc = append(in.pc, t)
	in.markKnown(t)
	in.sol.Assert(t)
}

func (in *Interp) markKnown(t *Term) {
	in.known[t] = true
	if t.op == OpAnd {
		for _, a := range t.args {
			in.markKnown(a)
		}
	}
}

func (in *Interp) isKnown(t *Term) bool {
	if t.IsTrue() {
		return true
	}
	if in.known[t] {
		return true
	}
	if t.op == OpAnd {
		for _, a := range t.args {
			if !in.isKnown(a) {
				return false
			}
		}
		return true
	}
	return false
}

func (in *Interp) isKnownFalse(t *Term) bool {
	if t.IsFalse() {
		return true
	}
	if in.known[in.ts.Not(t)] {
		return true
	}
	if t.op == OpAnd {
		for _, a := range t.args {
			if in.isKnownFalse(a) {
				return true
			}
		}
	}
	return false
}

// feasible asks whether PC ∧ t is satisfiable (Unknown counts as feasible).
func (in *Interp) feasible(t *Term) bool {
	if t.IsFalse() || in.isKnownFalse(t) {
		return false
	}
	if in.isKnown(t) {
		return true
	}
	if in.unsatCache[t] {
		return false
	}
	if in.satCache[t] {
		return true // stale "sat" is safe: it only means less pruning
	}
	defer func() {
		if in.satCache == nil {
			in.satCache = map[*Term]bool{}
		}
		if !in.unsatCache[t] {
			in.satCache[t] = true
		}
	}()
	ft := in.cfg.TimeoutMs
	if ft > 5000 {
		ft = 5000
	}
	in.sol.SetQueryTimeout(ft)
	r := in.sol.CheckWith(t)
	if in.sol.dead {
		in.restartSolver()
	}
	if r == Unsat {
		in.unsatCache[t] = true
		return false
	}
	return true
}

// decide forks on a symbolic condition (re-execution based DFS).
func (in *Interp) decide(c *Term) bool {
	if c.IsConst() {
		return c.val != 0
	}
	if in.isKnown(c) {
		return true
	}
	if in.isKnownFalse(c) {
		return false
	}
	k := len(in.decLog)
	if k < len(in.prefix) {
		d := in.prefix[k]
		in.decLog = append(in.decLog, d)
		if d.val {
			in.assume(c)
		} else {
			in.assume(in.ts.Not(c))
		}
		return d.val
	}
	ft := in.feasible(c)
	ff := in.feasible(in.ts.Not(c))
	switch {
	case !ft && !ff:
		panic(pathEnd{"infeasible"})
	case !ft:
		in.decLog = append(in.decLog, Decision{false, true})
		in.assume(in.ts.Not(c))
		return false
	case !ff:
		in.decLog = append(in.decLog, Decision{true, true})
		in.assume(c)
		return true
	}
	in.decLog = append(in.decLog, Decision{true, false})
	in.assume(c)
	return true
}

// chooseN picks one of n alternatives by successive decisions on fresh fork variables.
func (in *Interp) decideEq(v *Term, n int) int {
	for i := 0; i < n-1; i++ {
		if in.decide(in.ts.Eq(v, in.ts.BV(v.w, uint64(i)))) {
			return i
		}
	}
	return n - 1
}

func (in *Interp) decisionString() string {
	var sb strings.Builder
	for _, d := range in.decLog {
		if d.val {
			sb.WriteByte('1')
		} else {
			sb.WriteByte('0')
		}
	}
	return sb.String()
}

// ---- obligations ----

func (in *Interp) where() string {
	if in.cur != nil && in.cur.frame != nil {
		f := in.cur.frame
		pos := f.pos
		for fr := f; fr != nil && !pos.IsValid(); fr = fr.caller {
			pos = fr.pos
		}
		p := in.prog.Fset.Position(pos)
		return fmt.Sprintf("%s (%s:%d)", f.fn.String(), shortFile(p.Filename), p.Line)
	}
	return "?"
}

func shortFile(s string) string {
	if i := strings.Index(s, "/repo/"); i >= 0 {
		return s[i+6:]
	}
	if i := strings.LastIndex(s, "/pkg/mod/"); i >= 0 {
		return s[i+9:]
	}
	return s
}

func (in *Interp) stack() string {
	var parts []string
	if in.cur != nil {
		for f := in.cur.frame; f != nil; f = f.caller {
			p := in.prog.Fset.Position(f.pos)
			parts = append(parts, fmt.Sprintf("%s:%d %s", shortFile(p.Filename), p.Line, f.fn.Name()))
			if len(parts) > 12 {
				break
			}
		}
	}
	return strings.Join(parts, " <- ")
}

// violate records a violation with the model of the current solver state plus extra.
func (in *Interp) violationIf(cond *Term, kind, msg string) bool {
	// cond: condition under which the violation occurs (already conjoined with guards)
	if cond.IsFalse() || in.isKnownFalse(cond) || in.unsatCache[cond] {
		return false
	}
	s := in.sol
	s.SetQueryTimeout(in.cfg.TimeoutMs)
	s.Push()
	s.Assert(cond)
	r := s.Check()
	if r == Unknown && s.dead && s.Errors > 0 && s.Errors <= 3 {
		// the session was lost to a solver-side error (e.g. a cancelled push under load): rebuild it and ask once more
		in.restartSolver()
		s.SetQueryTimeout(in.cfg.TimeoutMs)
		s.Push()
		s.Assert(cond)
		r = s.Check()
	}
	in.oblig++
	if len(in.samples) < 6 {
		in.samples = append(in.samples, fmt.Sprintf("%s: %s @ %s [pc=%d conjuncts, decisions=%q] -> %s", kind, msg, in.where(), len(in.pc), in.decisionString(), r))
	}
	switch r {
	case Unsat:
		s.Pop()
		in.unsatCache[cond] = true
		in.discharged++
		return false
	case Unknown:
		if !s.dead {
			s.Pop()
		} else {
			in.restartSolver()
		}
		in.inconclusive = append(in.inconclusive, Inconclusive{What: kind + ": " + msg + " (solver unknown)", Where: in.where()})
		return false
	}
	m := s.Model(in.ts.vars)
	s.Pop()
	in.violations = append(in.violations, Violation{Kind: kind, Msg: msg, Where: in.where() + " | " + in.stack(), Model: m,
		Decisions: in.decisionString(), Events: append([]string(nil), in.events...), Path: in.pathNo})
	return true
}

func (in *Interp) restartSolver() {
	in.sol.Close()
	if in.expired.Load() {
		abortf("job wall-clock limit exceeded")
	}
	if err := in.sol.start(); err != nil {
		abortf("solver restart: %v", err)
	}
	in.sol.Push()
	for _, t := range in.pc {
		in.sol.Assert(t)
	}
}

// guard returns the current block guard.
func (in *Interp) guard() *Term {
	if in.cur != nil && in.cur.frame != nil {
		return in.cur.frame.cur
	}
	return in.ts.True
}

// rtCheck handles a runtime check: fail is the failure condition (without the guard).
// Returns normally if execution may continue on the non-failing side.
func (in *Interp) rtCheck(fail *Term, msg string) {
	if fail.IsFalse() {
		return
	}
	g := in.guard()
	c := in.ts.And(g, fail)
	if c.IsFalse() || in.isKnownFalse(c) {
		return
	}
	if c.IsTrue() || in.isKnown(c) {
		in.goPanicRuntime(msg)
	}
	if in.unsatCache[c] {
		return
	}
	if in.panicsFork {
		if in.decide(c) {
			in.goPanicRuntime(msg)
		}
		return
	}
	if in.violationIf(c, "panic", "runtime error: "+msg) {
		// continue on the non-panicking side
		in.assume(in.ts.Not(c))
		if g.IsTrue() && fail.IsTrue() {
			panic(pathEnd{"panicked"})
		}
	} else if !in.unsatCache[c] {
		// unknown: keep going under the assumption
		in.assume(in.ts.Not(c))
	}
}

func (in *Interp) goPanicRuntime(msg string) {
	if !in.panicsFork && in.lenient == 0 {
		// concrete runtime panic on this path: a violation unless recovered; record then unwind
	}
	errT := in.runtimeErrorType()
	panic(&GoPanic{v: Iface{t: errT, v: in.concStr("runtime error: " + msg)}, msg: "runtime error: " + msg, where: in.where() + " | " + in.stack()})
}

// runtimeErrorType is a synthetic named type standing for runtime.Error values.
var rtErrType types.Type

func (in *Interp) runtimeErrorType() types.Type {
	if rtErrType == nil {
		if p := in.prog.ImportedPackage("runtime"); p != nil {
			if o := p.Pkg.Scope().Lookup("errorString"); o != nil {
				rtErrType = o.Type()
			}
		}
		if rtErrType == nil {
			rtErrType = types.Typ[types.String]
		}
	}
	return rtErrType
}

// concretizeGuard forces the current block guard to a concrete truth value; false means the
// block must stop executing (its guard is now assumed false).
func (in *Interp) concretizeGuard() bool {
	f := in.cur.frame
	g := f.cur
	if g.IsTrue() {
		return true
	}
	if in.decide(g) {
		return true
	}
	f.cur = in.ts.False
	return false
}

func (in *Interp) event(s string) { in.events = append(in.events, s) }

func (in *Interp) fresh(prefix string, w uint8) *Term {
	n := in.freshN[prefix]
	in.freshN[prefix] = n + 1
	in.onUndo(func() { in.freshN[prefix] = n })
	return in.ts.Var(fmt.Sprintf("%s!%d", prefix, n), w)
}

// ---- results ----

type HarnessResult struct {
	Harness      string         `json:"harness"`
	Status       string         `json:"status"` // pass | violation | inconclusive | abort
	Abort        string         `json:"abort,omitempty"`
	Violations   []Violation    `json:"violations,omitempty"`
	Witnesses    []Violation    `json:"witnesses,omitempty"`
	Inconclusive []Inconclusive `json:"inconclusive,omitempty"`
	Reach        map[string]bool `json:"reach"`
	Paths        int            `json:"paths"`
	BlockExecs   int            `json:"block_execs"`
	Functions    []string       `json:"functions"`
	Stubs        map[string]int `json:"stubs"`
	Solver       SolverStats    `json:"solver"`
	Inputs       map[string]string `json:"inputs"`
	Terms        int            `json:"terms"`
	Unwind       int            `json:"unwind"`
	WallS        float64        `json:"wall_s"`
	Params       map[string]string `json:"params,omitempty"`
	ID           string         `json:"id,omitempty"`
	Obligations  int            `json:"obligations"`
	Discharged   int            `json:"discharged"`
	Edges        int            `json:"edges"`
	Merges       int            `json:"merges"`
	Samples      []string       `json:"samples"`
	Asserts      int            `json:"asserts"`
}

func (in *Interp) functionsRun() []string {
	var out []string
	for f := range in.fnsRun {
		out = append(out, f.String())
	}
	sort.Strings(out)
	return out
}

var _ = token.NoPos
