package main

// Models for timestamppb, ulid, proto helpers, xxhash/sha256 (uninterpreted), rand.

import (
	"fmt"
	"go/types"
	"sort"
	"strings"

	"golang.org/x/tools/go/ssa"
)

// fieldIndex finds a struct field by name in a (pointer to) named struct type.
func fieldIndex(t types.Type, name string) int {
	if p, ok := t.Underlying().(*types.Pointer); ok {
		t = p.Elem()
	}
	st, ok := t.Underlying().(*types.Struct)
	if !ok {
		abortf("fieldIndex: %s is not a struct", t)
	}
	for i := 0; i < st.NumFields(); i++ {
		if st.Field(i).Name() == name {
			return i
		}
	}
	abortf("no field %s in %s", name, t)
	return -1
}

func (in *Interp) newObject(t types.Type) (Ptr, Struct) {
	if p, ok := t.Underlying().(*types.Pointer); ok {
		t = p.Elem()
	}
	st := in.zero(t).(Struct)
	v := Value(st)
	return Ptr{&v}, st
}

func init() {
	const tpb = "google.golang.org/protobuf/types/known/timestamppb."
	mkTS := func(in *Interp, fn *ssa.Function, inst *Term) Value {
		rt := fn.Signature.Results().At(0).Type()
		p, st := in.newObject(rt)
		st[fieldIndex(rt, "Seconds")] = inst
		return p
	}
	reg(tpb+"New", func(in *Interp, fn *ssa.Function, a []Value, g *Term) Value {
		in.stubLog["model:timestamppb is the identity on abstract instants"]++
		return mkTS(in, fn, timeInst(a[0]))
	})
	reg(tpb+"Now", func(in *Interp, fn *ssa.Function, a []Value, g *Term) Value { return mkTS(in, fn, in.now()) })
	reg("(*"+tpb+"Timestamp).AsTime", func(in *Interp, fn *ssa.Function, a []Value, g *Term) Value {
		return in.mapAlts(a[0], func(ag *Term, v Value) Value {
			p := v.(Ptr)
			if p.p == nil {
				return in.mkTime(in.ts.BV(64, 0))
			}
			st := (*p.p).(Struct)
			return in.mkTime(st[fieldIndex(fn.Signature.Recv().Type(), "Seconds")].(*Term))
		})
	})
	reg("(*"+tpb+"Timestamp).IsValid", func(in *Interp, fn *ssa.Function, a []Value, g *Term) Value { return in.ts.True })
	reg("(*"+tpb+"Timestamp).CheckValid", func(in *Interp, fn *ssa.Function, a []Value, g *Term) Value { return Iface{} })

	// ---- ulid: 48-bit abstract instant + strictly increasing 80-bit counter ----
	const ul = "github.com/oklog/ulid/v2."
	reg(ul+"DefaultEntropy", func(in *Interp, fn *ssa.Function, a []Value, g *Term) Value {
		return in.noopObject(fn.Signature.Results().At(0).Type())
	})
	reg(ul+"Monotonic", func(in *Interp, fn *ssa.Function, a []Value, g *Term) Value {
		p, _ := in.newObject(fn.Signature.Results().At(0).Type())
		return p
	})
	reg(ul+"Timestamp", func(in *Interp, fn *ssa.Function, a []Value, g *Term) Value { return timeInst(a[0]) })
	reg(ul+"Now", func(in *Interp, fn *ssa.Function, a []Value, g *Term) Value { return in.now() })
	mkULID := func(in *Interp, ms *Term) Value {
		ts := in.ts
		in.ulidN++
		n := in.ulidN
		in.onUndo(func() { in.ulidN-- })
		arr := make(Array, 16)
		for i := 0; i < 6; i++ {
			sh := uint8(8 * (5 - i))
			arr[i] = ts.Extract(ms, sh+7, sh)
		}
		for i := 6; i < 16; i++ {
			arr[i] = ts.BV(8, 0)
		}
		// counter in the last 4 bytes
		for i := 0; i < 4; i++ {
			arr[15-i] = ts.BV(8, uint64(n>>(8*i))&0xff)
		}
		in.stubLog["model:ulid = 48-bit abstract instant + strictly increasing counter"]++
		return arr
	}
	reg(ul+"MustNew", func(in *Interp, fn *ssa.Function, a []Value, g *Term) Value { return mkULID(in, a[0].(*Term)) })
	reg(ul+"New", func(in *Interp, fn *ssa.Function, a []Value, g *Term) Value {
		return Tuple{mkULID(in, a[0].(*Term)), Iface{}}
	})
	reg(ul+"Make", func(in *Interp, fn *ssa.Function, a []Value, g *Term) Value { return mkULID(in, in.now()) })

	// ---- proto helpers ----
	reg("google.golang.org/protobuf/proto.Clone", func(in *Interp, fn *ssa.Function, a []Value, g *Term) Value {
		in.stubLog["model:proto.Clone = deep copy"]++
		return in.deepCopy(a[0], map[*Value]*Value{})
	})
	reg("google.golang.org/protobuf/proto.Equal", func(in *Interp, fn *ssa.Function, a []Value, g *Term) Value {
		in.stubLog["model:proto.Equal = structural equality of exported message fields"]++
		return in.deepEq(fn.Signature.Params().At(0).Type(), a[0], a[1], 0)
	})
	// digests as uninterpreted functions of (length, first 12 bytes); longer inputs abort
	ufDigest := func(name string, outBytes int) Intrinsic {
		return func(in *Interp, fn *ssa.Function, a []Value, g *Term) Value {
			var s *Str
			if sv, ok := a[0].(*Str); ok {
				s = sv
			} else {
				s = in.bstr(a[0])
			}
			// two arities: inputs bounded by 12 bytes (the common case, cheap) and by 40 bytes (keys); the two are
			// different uninterpreted functions, i.e. a short and a long input are never assumed to collide or agree
			maxIn := 12
			name := name
			b := in.strBytes(s)
			if len(b) > maxIn {
				maxIn = 40
				name += "_w40"
			}
			if len(b) > maxIn {
				abortf("%s of more than %d bytes is outside the digest model", name, maxIn)
			}
			n := in.strLen(s)
			args := []*Term{n}
			for k := 0; k < maxIn; k++ {
				if k < len(b) {
					args = append(args, in.ts.Ite(in.ts.Cmp(OpUlt, in.ts.BV(64, uint64(k)), n), b[k], in.ts.BV(8, 0)))
				} else {
					args = append(args, in.ts.BV(8, 0))
				}
			}
			in.stubLog["model:"+name+" is an uninterpreted function"]++
			if outBytes == 0 {
				return in.ts.UF("uf_"+name, 64, args...)
			}
			arr := make(Array, outBytes)
			for i := range arr {
				arr[i] = in.ts.UF(fmt.Sprintf("uf_%s_b%d", name, i), 8, args...)
			}
			return arr
		}
	}
	reg("crypto/internal/constanttime.boolToUint8", func(in *Interp, fn *ssa.Function, a []Value, g *Term) Value {
		return in.ts.Ite(a[0].(*Term), in.ts.BV(8, 1), in.ts.BV(8, 0))
	})
	reg("crypto/sha256.Sum256", ufDigest("sha256", 32))
	reg("github.com/cespare/xxhash/v2.Sum64", ufDigest("xxhash", 0))
	reg("github.com/cespare/xxhash/v2.Sum64String", ufDigest("xxhash", 0))
	reg("(google.golang.org/protobuf/internal/impl.Export).MessageStringOf", func(in *Interp, fn *ssa.Function, a []Value, g *Term) Value {
		in.stubLog["model:protobuf (*T).String() = structural rendering of the exported fields"]++
		itf, ok := a[1].(Iface)
		if !ok || itf.t == nil {
			return in.concStr("<nil>")
		}
		return in.protoString(itf.t, itf.v, 0)
	})
	cloneMap := func(in *Interp, fn *ssa.Function, a []Value, g *Term) Value {
		m, ok := a[0].(*MapObj)
		if !ok {
			abortf("maps.Clone of %s", in.show(a[0]))
		}
		if m == nil {
			return m
		}
		c := &MapObj{index: map[string]int{}, typ: m.typ, symKeys: m.symKeys}
		for _, e := range m.entries {
			if e.present.IsFalse() {
				continue
			}
			c.entries = append(c.entries, &mapEntry{k: e.k, v: copyVal(e.v), present: e.present})
			if ks, ok := in.keyString(e.k); ok {
				c.index[ks] = len(c.entries) - 1
			}
		}
		return c
	}
	reg("maps.Clone", cloneMap)
	reg("maps.clone", func(in *Interp, fn *ssa.Function, a []Value, g *Term) Value {
		itf := a[0].(Iface)
		return Iface{t: itf.t, v: cloneMap(in, fn, []Value{itf.v}, g)}
	})
	// crypto/rand: fresh symbolic bytes
	fillRand := func(in *Interp, sl *SliceV, g *Term) {
		for i := 0; i < in.maxLen(sl); i++ {
			if in.lenient > 0 {
				// package initialisers (e.g. the cache-key hash seed) get a fixed value: a concrete seed keeps
				// digests of concrete keys concrete
				in.store(in.elemPtr(sl, i), in.ts.BV(8, uint64(17+i)), g)
				continue
			}
			in.store(in.elemPtr(sl, i), in.fresh("crand", 8), g)
		}
		in.stubLog["model:crypto/rand yields arbitrary bytes"]++
	}
	reg("crypto/rand.Read", func(in *Interp, fn *ssa.Function, a []Value, g *Term) Value {
		sl := a[0].(*SliceV)
		fillRand(in, sl, g)
		return Tuple{sl.n, Iface{}}
	})
	reg("io.ReadFull", func(in *Interp, fn *ssa.Function, a []Value, g *Term) Value {
		itf, _ := a[0].(Iface)
		if itf.t != nil && !strings.Contains(itf.t.String(), "crypto/rand") {
			abortf("io.ReadFull on %s is not modelled", itf.t)
		}
		sl := a[1].(*SliceV)
		fillRand(in, sl, g)
		return Tuple{sl.n, Iface{}}
	})
	// rand
	reg("math/rand.Intn", func(in *Interp, fn *ssa.Function, a []Value, g *Term) Value {
		n := a[0].(*Term)
		v := in.fresh("rand", 64)
		in.assume(in.ts.Implies(g, in.ts.And(in.ts.Cmp(OpSle, in.ts.BV(64, 0), v), in.ts.Cmp(OpSlt, v, n))))
		return v
	})
	reg("math/rand/v2.IntN", intrinsics["math/rand.Intn"])
	reg("math/rand.Int63n", intrinsics["math/rand.Intn"])
	reg("math/rand/v2.Int64N", intrinsics["math/rand.Intn"])
}

// protoString renders a message structurally (stand-in for prototext: deterministic and injective
// on the exported fields, not byte-identical to the real rendering).
func (in *Interp) protoString(t types.Type, v Value, depth int) *Str {
	if depth > 30 {
		abortf("protoString: structure too deep")
	}
	if u, ok := v.(*Union); ok {
		r := in.mapAlts(u, func(_ *Term, x Value) Value { return in.protoString(t, x, depth) })
		return r.(*Str)
	}
	cat := func(parts ...*Str) *Str {
		r := in.concStr("")
		for _, p := range parts {
			r = in.strConcat(r, p)
		}
		return r
	}
	switch u := t.Underlying().(type) {
	case *types.Pointer:
		p := v.(Ptr)
		if p.p == nil {
			return in.concStr("<nil>")
		}
		return in.protoString(u.Elem(), *p.p, depth+1)
	case *types.Struct:
		st := v.(Struct)
		r := in.concStr("{")
		for i := 0; i < u.NumFields(); i++ {
			f := u.Field(i)
			if !f.Exported() {
				continue
			}
			r = cat(r, in.concStr(f.Name()+":"), in.protoString(f.Type(), st[i], depth+1), in.concStr(" "))
		}
		return cat(r, in.concStr("}"))
	case *types.Slice:
		sl := v.(*SliceV)
		if !sl.n.IsConst() {
			abortf("protoString: symbolic-length repeated field")
		}
		r := in.concStr("[")
		for k := 0; k < in.maxLen(sl); k++ {
			r = cat(r, in.protoString(u.Elem(), in.elem(sl, k), depth+1), in.concStr(","))
		}
		return cat(r, in.concStr("]"))
	case *types.Map:
		m := v.(*MapObj)
		r := in.concStr("map[")
		if m != nil {
			type kv struct {
				k string
				e *mapEntry
			}
			var kvs []kv
			for _, e := range m.entries {
				if e.present.IsFalse() {
					continue
				}
				ks, ok := in.keyString(e.k)
				if !ok || !e.present.IsTrue() {
					abortf("protoString: symbolic map")
				}
				kvs = append(kvs, kv{ks, e})
			}
			sort.Slice(kvs, func(i, j int) bool { return kvs[i].k < kvs[j].k })
			for _, x := range kvs {
				r = cat(r, in.concStr(x.k+"="), in.protoString(u.Elem(), x.e.v, depth+1), in.concStr(";"))
			}
		}
		return cat(r, in.concStr("]"))
	case *types.Interface:
		itf := v.(Iface)
		if itf.t == nil {
			return in.concStr("<nil>")
		}
		if isPseudoType(itf.t) {
			return in.concStr("<opaque>")
		}
		return cat(in.concStr("("+itf.t.String()+")"), in.protoString(itf.t, itf.v, depth+1))
	}
	return in.fmtScalar(v, t, 'v')
}

// deepEq is structural equality (protobuf bookkeeping fields ignored).
func (in *Interp) deepEq(t types.Type, a, b Value, depth int) *Term {
	ts := in.ts
	if depth > 40 {
		abortf("deepEq: structure too deep")
	}
	if ua, ok := a.(*Union); ok {
		r := ts.False
		for _, al := range ua.alts {
			r = ts.Or(r, ts.And(al.g, in.deepEq(t, al.v, b, depth+1)))
		}
		return r
	}
	if ub, ok := b.(*Union); ok {
		r := ts.False
		for _, al := range ub.alts {
			r = ts.Or(r, ts.And(al.g, in.deepEq(t, a, al.v, depth+1)))
		}
		return r
	}
	switch u := t.Underlying().(type) {
	case *types.Pointer:
		pa, pb := a.(Ptr), b.(Ptr)
		if pa.p == nil || pb.p == nil {
			return ts.Bool(pa.p == nil && pb.p == nil)
		}
		if pa.p == pb.p {
			return ts.True
		}
		return in.deepEq(u.Elem(), *pa.p, *pb.p, depth+1)
	case *types.Struct:
		sa, sb := a.(Struct), b.(Struct)
		r := ts.True
		for i := 0; i < u.NumFields(); i++ {
			switch u.Field(i).Name() {
			case "state", "sizeCache", "unknownFields", "_":
				continue
			}
			r = ts.And(r, in.deepEq(u.Field(i).Type(), sa[i], sb[i], depth+1))
			if r.IsFalse() {
				return r
			}
		}
		return r
	case *types.Slice:
		sa, sb := a.(*SliceV), b.(*SliceV)
		r := ts.Eq(sa.n, sb.n)
		m := in.maxLen(sa)
		if mb := in.maxLen(sb); mb < m {
			m = mb
		}
		for k := 0; k < m && !r.IsFalse(); k++ {
			e := in.deepEq(u.Elem(), in.elem(sa, k), in.elem(sb, k), depth+1)
			r = ts.And(r, ts.Implies(ts.Cmp(OpUlt, ts.BV(64, uint64(k)), sa.n), e))
		}
		return r
	case *types.Map:
		ma, mb := a.(*MapObj), b.(*MapObj)
		r := ts.Eq(in.mapLen(ma), in.mapLen(mb))
		if ma != nil {
			for _, e := range ma.entries {
				v, ok := in.mapGet(mb, u, e.k)
				r = ts.And(r, ts.Implies(e.present, ts.And(ok, in.deepEq(u.Elem(), e.v, v, depth+1))))
			}
		}
		return r
	case *types.Interface:
		ia, ib := a.(Iface), b.(Iface)
		if ia.t == nil || ib.t == nil {
			return ts.Bool(ia.t == nil && ib.t == nil)
		}
		if !identicalT(ia.t, ib.t) {
			return ts.False
		}
		if _, isNoop := ia.t.(*noopType); isNoop {
			return ts.True
		}
		return in.deepEq(ia.t, ia.v, ib.v, depth+1)
	}
	return in.equal(t, a, b)
}

// deepCopy copies an object graph (pointers, slices, maps) preserving sharing.
func (in *Interp) deepCopy(v Value, seen map[*Value]*Value) Value {
	switch x := v.(type) {
	case Ptr:
		if x.p == nil {
			return x
		}
		if np, ok := seen[x.p]; ok {
			return Ptr{np}
		}
		np := new(Value)
		seen[x.p] = np
		*np = in.deepCopy(*x.p, seen)
		return Ptr{np}
	case Struct:
		out := make(Struct, len(x))
		for i, f := range x {
			out[i] = in.deepCopy(f, seen)
		}
		return out
	case Array:
		out := make(Array, len(x))
		for i, f := range x {
			out[i] = in.deepCopy(f, seen)
		}
		return out
	case *SliceV:
		if x.nilS {
			return x
		}
		n := in.maxLen(x)
		a := make([]Value, n)
		for i := 0; i < n; i++ {
			a[i] = in.deepCopy(in.elem(x, i), seen)
		}
		return &SliceV{a: a, n: x.n, cap: n}
	case *MapObj:
		if x == nil {
			return x
		}
		m := &MapObj{index: map[string]int{}, typ: x.typ, symKeys: x.symKeys}
		for _, e := range x.entries {
			m.entries = append(m.entries, &mapEntry{k: e.k, v: in.deepCopy(e.v, seen), present: e.present})
			if ks, ok := in.keyString(e.k); ok {
				m.index[ks] = len(m.entries) - 1
			}
		}
		return m
	case Iface:
		if x.t == nil {
			return x
		}
		return Iface{t: x.t, v: in.deepCopy(x.v, seen)}
	case *Union:
		out := &Union{}
		for _, a := range x.alts {
			out.alts = append(out.alts, Alt{a.g, in.deepCopy(a.v, seen)})
		}
		return out
	}
	return v
}

var _ = fmt.Sprint
