package main

import (
	"encoding/json"
	"flag"
	"fmt"
	"os"
	"path/filepath"
	"runtime/debug"
	"sort"
	"strings"
	"sync"
	"time"

	"golang.org/x/tools/go/packages"
	"golang.org/x/tools/go/ssa"
	"golang.org/x/tools/go/ssa/ssautil"
)

type Job struct {
	Pkg     string            `json:"pkg"`
	Harness string            `json:"harness"`
	Params  map[string]string `json:"params,omitempty"`
	Unwind  int               `json:"unwind,omitempty"`
	Timeout int               `json:"timeout_ms,omitempty"`
	MaxPaths int              `json:"max_paths,omitempty"`
	ForkAll bool              `json:"fork_all,omitempty"`
	JobTimeoutS int           `json:"job_timeout_s,omitempty"`
	ID      string            `json:"id,omitempty"`
}

func buildOverlay(repo, hdir string) (map[string][]byte, error) {
	ov := map[string][]byte{}
	err := filepath.Walk(hdir, func(p string, info os.FileInfo, err error) error {
		if err != nil {
			return err
		}
		if info.IsDir() || !strings.HasSuffix(p, ".go") {
			return nil
		}
		rel, _ := filepath.Rel(hdir, p)
		b, err := os.ReadFile(p)
		if err != nil {
			return err
		}
		ov[filepath.Join(repo, rel)] = b
		return nil
	})
	return ov, err
}

func loadProgram(repo, hdir string, pkgs []string, tags string) (*ssa.Program, []*packages.Package, error) {
	ov, err := buildOverlay(repo, hdir)
	if err != nil {
		return nil, nil, err
	}
	// go list must be run by go1.26.8 (the repo needs go >= 1.25.7); exec resolves "go" through our own PATH
	os.Setenv("PATH", "/opt/veriftools/go1.26.8/bin:"+os.Getenv("PATH"))
	env := os.Environ()
	env = append(env, "GOFLAGS=-mod=mod", "GOPROXY=off", "GOSUMDB=off", "GOTOOLCHAIN=local")
	cfg := &packages.Config{
		Mode:    packages.LoadAllSyntax,
		Dir:     repo,
		Overlay: ov,
		Env:     env,
		Tests:   false,
	}
	if tags != "" {
		cfg.BuildFlags = []string{"-tags=" + tags}
	}
	initial, err := packages.Load(cfg, pkgs...)
	if err != nil {
		return nil, nil, err
	}
	nerr := 0
	packages.Visit(initial, nil, func(p *packages.Package) {
		for _, e := range p.Errors {
			fmt.Fprintf(os.Stderr, "load error: %s: %v\n", p.PkgPath, e)
			nerr++
		}
	})
	if nerr > 0 {
		return nil, nil, fmt.Errorf("%d package load errors", nerr)
	}
	prog, _ := ssautil.AllPackages(initial, ssa.InstantiateGenerics)
	prog.Build()
	return prog, initial, nil
}

func runJob(prog *ssa.Program, job Job, base Config) (res HarnessResult) {
	t0 := time.Now()
	res.Harness = job.Pkg + "." + job.Harness
	res.Params = job.Params
	defer func() {
		res.WallS = time.Since(t0).Seconds()
		if r := recover(); r != nil {
			res.Status = "abort"
			res.Abort = fmt.Sprintf("engine crash: %v\n%s", r, debug.Stack())
		}
	}()
	pkg := prog.ImportedPackage(job.Pkg)
	if pkg == nil {
		res.Status, res.Abort = "abort", "package not loaded: "+job.Pkg
		return
	}
	fn := pkg.Func(job.Harness)
	if fn == nil {
		res.Status, res.Abort = "abort", "no such harness function"
		return
	}
	cfg := base
	if job.Unwind > 0 {
		cfg.Unwind = job.Unwind
	}
	if job.Timeout > 0 {
		cfg.TimeoutMs = job.Timeout
	}
	if job.MaxPaths > 0 {
		cfg.MaxPaths = job.MaxPaths
	}
	if job.ForkAll {
		cfg.ForkAll = true
	}
	in, err := NewInterp(prog, cfg)
	if err != nil {
		res.Status, res.Abort = "abort", err.Error()
		return
	}
	defer in.sol.Close()
	in.params = job.Params
	// wall-clock watchdog: a job that overruns is reported as aborted (inconclusive), never as pass
	limit := time.Duration(base.JobTimeoutS) * time.Second
	if job.JobTimeoutS > 0 {
		limit = time.Duration(job.JobTimeoutS) * time.Second
	}
	if limit > 0 {
		wd := time.AfterFunc(limit, func() {
			in.expired.Store(true)
			if c := in.sol.cmd; c != nil && c.Process != nil {
				c.Process.Kill()
			}
		})
		defer wd.Stop()
	}
	in.RunHarness(fn, &res)
	return
}

// keepWitness: the path ran to completion; keep a model of its path condition for the first path and for paths
// 2, 4, 8, ... (up to cfg.Witnesses). The driver runs the harness natively on these inputs: every assertion the
// solver discharged on the path must hold there too (validation of the encoding against the compiled code).
func (in *Interp) keepWitness() {
	if len(in.witnesses) >= in.cfg.Witnesses || in.pathNo&(in.pathNo-1) != 0 {
		return
	}
	nv := 0
	for _, v := range in.violations {
		if v.Path == in.pathNo {
			nv++
		}
	}
	if nv > 0 {
		return
	}
	s := in.sol
	s.SetQueryTimeout(5000)
	if s.Check() != Sat {
		if s.dead {
			in.restartSolver()
		}
		return
	}
	m := s.Model(in.ts.vars)
	in.witnesses = append(in.witnesses, Violation{Kind: "witness", Model: m, Decisions: in.decisionString(),
		Events: append([]string(nil), in.events...), Path: in.pathNo})
}

func (in *Interp) RunHarness(fn *ssa.Function, res *HarnessResult) {
	in.harness = fn
	in.ack = make(chan struct{})
	main := &Thread{id: 0, wake: make(chan struct{}, 1), name: "main"}
	in.threads = []*Thread{main}
	in.cur = main
	var prefix []Decision
	abort := ""
	budgetHit := false
	for {
		in.pathNo++
		in.paths++
		in.sol.Push()
		in.pc = nil
		in.known = map[*Term]bool{}
		in.unsatCache = map[*Term]bool{}
		in.satCache = map[*Term]bool{}
		in.decLog = nil
		in.prefix = prefix
		in.events = nil
		in.depth = 0
		main.frame = nil
		main.blocked = false
		func() {
			defer func() {
				if r := recover(); r != nil {
					switch r := r.(type) {
					case pathEnd:
					case *EngineAbort:
						abort = r.msg + " @ " + r.where
					case *GoPanic:
						in.cur = main
						in.violationIf(in.ts.True, "panic", "uncaught panic: "+r.msg+" at "+r.where)
					case *deadlockErr:
						in.violationIf(in.ts.True, "deadlock", "all goroutines are blocked: "+r.desc)
					default:
						panic(r)
					}
				}
			}()
			in.callFunction(fn, nil, nil, in.ts.True)
			in.drainThreads()
			in.keepWitness()
		}()
		in.killThreads()
		in.undoTo(0)
		if in.sol.dead {
			in.sol.Close()
			if err := in.sol.start(); err != nil {
				abort = "solver restart failed: " + err.Error()
			}
		} else {
			in.sol.PopTo(0)
		}
		if abort != "" {
			break
		}
		i := len(in.decLog) - 1
		for ; i >= 0; i-- {
			if !in.decLog[i].forced && in.decLog[i].val {
				break
			}
		}
		if i < 0 {
			break
		}
		prefix = append(append([]Decision(nil), in.decLog[:i]...), Decision{false, true})
		if in.cfg.MaxPaths > 0 && in.paths >= in.cfg.MaxPaths {
			budgetHit = true
			break
		}
		if len(in.violations) >= 5 {
			break
		}
	}
	res.Violations = in.violations
	res.Witnesses = in.witnesses
	res.Inconclusive = in.inconclusive
	if budgetHit {
		res.Inconclusive = append(res.Inconclusive, Inconclusive{What: fmt.Sprintf("path budget %d exhausted", in.cfg.MaxPaths)})
	}
	res.Reach = map[string]bool{}
	for l := range in.reachSeen {
		res.Reach[l] = in.reached[l]
	}
	for l, ok := range res.Reach {
		if !ok {
			res.Inconclusive = append(res.Inconclusive, Inconclusive{What: "vacuity: reach label never satisfiable: " + l})
		}
	}
	res.Paths = in.paths
	res.BlockExecs = in.blockExec
	res.Functions = in.functionsRun()
	res.Stubs = in.stubLog
	res.Solver = in.sol.Stats
	res.Inputs = in.inputMeta
	res.Terms = len(in.ts.tab)
	res.Unwind = in.cfg.Unwind
	res.Asserts = in.asserts
	res.Obligations = in.oblig
	res.Discharged = in.discharged
	res.Edges = in.edges
	res.Merges = in.merges
	res.Samples = in.samples
	switch {
	case abort != "":
		res.Status, res.Abort = "abort", abort
	case len(res.Violations) > 0:
		res.Status = "violation"
	case len(res.Inconclusive) > 0:
		res.Status = "inconclusive"
	case in.asserts == 0 && len(res.Reach) == 0:
		res.Status = "inconclusive"
		res.Inconclusive = append(res.Inconclusive, Inconclusive{What: "harness executed no assertion"})
	default:
		res.Status = "pass"
	}
}

func main() {
	if len(os.Args) < 2 {
		fmt.Fprintln(os.Stderr, "usage: gosmt run|selftest ...")
		os.Exit(2)
	}
	switch os.Args[1] {
	case "run":
		cmdRun(os.Args[2:])
	default:
		fmt.Fprintln(os.Stderr, "unknown command")
		os.Exit(2)
	}
}

func cmdRun(args []string) {
	fs := flag.NewFlagSet("run", flag.ExitOnError)
	repo := fs.String("repo", "/repo", "repository root")
	hdir := fs.String("harness-dir", "/verif/harness", "overlay root")
	jobsFile := fs.String("jobs", "", "JSON file with a list of jobs")
	pkg := fs.String("pkg", "", "package import path")
	harness := fs.String("harness", "", "harness function name(s), comma separated")
	unwind := fs.Int("unwind", 12, "loop unwinding bound")
	timeout := fs.Int("timeout", 20000, "solver timeout per query (ms)")
	solver := fs.String("solver", "z3-new", "z3-new | z3 | cvc5")
	maxPaths := fs.Int("max-paths", 20000, "path budget per harness")
	par := fs.Int("j", 8, "parallel harness runs")
	out := fs.String("out", "", "result file (JSON)")
	trace := fs.Bool("trace", false, "trace instructions")
	tags := fs.String("tags", "verif", "build tags")
	params := fs.String("params", "", "k=v,k=v harness parameters")
	forkAll := fs.Bool("fork-all", false, "fork at every symbolic branch")
	prune := fs.Bool("prune", false, "solver feasibility check before every symbolic block")
	witnesses := fs.Int("witness", 2, "completed paths per harness run whose path-condition model is kept for native validation")
	jobTimeout := fs.Int("job-timeout", 900, "wall-clock limit per harness run in seconds (0 = none)")
	fs.Parse(args)

	var jobs []Job
	if *jobsFile != "" {
		b, err := os.ReadFile(*jobsFile)
		if err != nil {
			fatal(err)
		}
		if err := json.Unmarshal(b, &jobs); err != nil {
			fatal(err)
		}
	} else {
		pm := map[string]string{}
		if *params != "" {
			for _, kv := range strings.Split(*params, ",") {
				p := strings.SplitN(kv, "=", 2)
				if len(p) == 2 {
					pm[p[0]] = p[1]
				}
			}
		}
		for _, h := range strings.Split(*harness, ",") {
			jobs = append(jobs, Job{Pkg: *pkg, Harness: h, Params: pm})
		}
	}
	pkgSet := map[string]bool{}
	for _, j := range jobs {
		pkgSet[j.Pkg] = true
	}
	var pkgs []string
	for p := range pkgSet {
		pkgs = append(pkgs, p)
	}
	sort.Strings(pkgs)
	t0 := time.Now()
	prog, _, err := loadProgram(*repo, *hdir, pkgs, *tags)
	if err != nil {
		fatal(err)
	}
	loadS := time.Since(t0).Seconds()
	fmt.Fprintf(os.Stderr, "loaded %d packages in %.1fs\n", len(prog.AllPackages()), loadS)
	base := Config{Unwind: *unwind, TimeoutMs: *timeout, Solver: *solver, MaxPaths: *maxPaths, MaxDepth: 1500, Trace: *trace, ForkAll: *forkAll, MaxUnion: 64, Prune: *prune, JobTimeoutS: *jobTimeout, Witnesses: *witnesses}
	results := make([]HarnessResult, len(jobs))
	var wg sync.WaitGroup
	sem := make(chan struct{}, *par)
	for i := range jobs {
		wg.Add(1)
		sem <- struct{}{}
		go func(i int) {
			defer wg.Done()
			defer func() { <-sem }()
			results[i] = runJob(prog, jobs[i], base)
			results[i].ID = jobs[i].ID
			r := &results[i]
			fmt.Fprintf(os.Stderr, "%-60s %-12s paths=%d queries=%d solver=%.1fs wall=%.1fs %s\n", r.Harness+paramStr(r.Params), r.Status, r.Paths, r.Solver.Queries, r.Solver.TimeS, r.WallS, firstLine(r.Abort))
		}(i)
	}
	wg.Wait()
	outv := map[string]interface{}{"load_s": loadS, "results": results}
	b, _ := json.MarshalIndent(outv, "", " ")
	if *out != "" {
		if err := os.WriteFile(*out, b, 0o644); err != nil {
			fatal(err)
		}
	} else {
		os.Stdout.Write(b)
	}
}

func paramStr(p map[string]string) string {
	if len(p) == 0 {
		return ""
	}
	var ks []string
	for k := range p {
		ks = append(ks, k)
	}
	sort.Strings(ks)
	s := "["
	for _, k := range ks {
		s += k + "=" + p[k] + " "
	}
	return strings.TrimSpace(s) + "]"
}

func firstLine(s string) string {
	if i := strings.IndexByte(s, '\n'); i >= 0 {
		s = s[:i]
	}
	if len(s) > 300 {
		s = s[:300]
	}
	return s
}

func fatal(err error) {
	fmt.Fprintln(os.Stderr, "gosmt:", err)
	os.Exit(2)
}
