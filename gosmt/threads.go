package main

// Cooperative simulated goroutines (one host goroutine each, baton passing), channels, select.

import (
	"fmt"
	"go/types"
	"runtime/debug"

	"golang.org/x/tools/go/ssa"
)

type Thread struct {
	id        int
	frame     *Frame
	forkAll   int
	wake      chan struct{}
	done      bool
	blocked   bool
	blockedOn string
	cond      func() bool
	bg        bool // declared background filler: may remain blocked at harness end
	ctl       bool   // scheduled by vt.Threads (symbolic schedule)
	atPoint   string // parked at a verifhook.Point
	name      string
}

type threadKill struct{}

type sendRec struct {
	v     Value
	taken bool
}

type ChanObj struct {
	capacity    int
	buf         []Value
	sendq       []*sendRec
	closed      bool
	recvWaiters int
	id          int
}

func (in *Interp) newThread() *Thread {
	t := &Thread{id: len(in.threads), wake: make(chan struct{}, 1)}
	in.threads = append(in.threads, t)
	return t
}

func (in *Interp) spawn(fnv Value, args []Value, cc *ssa.CallCommon) {
	t := in.newThread()
	t.forkAll = in.cur.forkAll
	t.name = fmt.Sprintf("go#%d@%s", t.id, in.where())
	if in.cur.ctl && in.controller != nil {
		// goroutines started by a scheduled thread are scheduled too
		t.ctl = true
		t.blocked = true
		t.atPoint = "start"
	}
	go in.threadMain(t, func() { in.call(fnv, args, in.ts.True, cc) })
}

func (in *Interp) threadMain(t *Thread, body func()) {
	{
		<-t.wake
		if in.aborting {
			t.done = true
			in.ack <- struct{}{}
			return
		}
		defer func() {
			t.done = true
			r := recover()
			if _, ok := r.(threadKill); ok {
				in.ack <- struct{}{}
				return
			}
			if r != nil {
				if gp, ok := r.(*GoPanic); ok {
					// uncaught panic in a goroutine crashes the process
					in.pendingPanic = &goroutineCrash{gp}
				} else {
					switch r.(type) {
					case *EngineAbort, pathEnd, *deadlockErr:
						in.pendingPanic = r
					default:
						in.pendingPanic = fmt.Errorf("%v\n%s", r, debug.Stack())
					}
				}
				in.cur = in.threads[0]
				in.threads[0].wake <- struct{}{}
				return
			}
			// pick next
			next := in.pickRunnable(t)
			if t.ctl && in.controller != nil {
				next = in.controller
			}
			if next == nil {
				next = in.threads[0] // main decides (deadlock detection happens in its block loop)
			}
			in.cur = next
			next.wake <- struct{}{}
		}()
		in.cur = t
		body()
	}
}

type goroutineCrash struct{ gp *GoPanic }

func (in *Interp) pickRunnable(self *Thread) *Thread {
	for _, t := range in.threads {
		if t == self || t.done {
			continue
		}
		if !t.blocked || (t.cond != nil && t.cond()) {
			return t
		}
	}
	return nil
}

// yield lets the next runnable thread (round-robin after the current one) run; the current thread
// stays runnable.
func (in *Interp) yield() {
	self := in.cur
	n := len(in.threads)
	if n <= 1 || (self.ctl && in.controller != nil) {
		return
	}
	var next *Thread
	for k := 1; k < n; k++ {
		t := in.threads[(self.id+k)%n]
		if t == self || t.done {
			continue
		}
		if !t.blocked || (t.cond != nil && t.cond()) {
			next = t
			break
		}
	}
	if next == nil {
		return
	}
	self.blocked = true
	self.blockedOn = "yield"
	self.cond = func() bool { return true }
	in.switchTo(self, next)
	self.blocked = false
	self.cond = nil
}

// switchTo hands the baton to t and waits until this thread is woken again.
func (in *Interp) switchTo(self, t *Thread) {
	in.cur = t
	t.wake <- struct{}{}
	<-self.wake
	in.cur = self
	if self.id == 0 && in.pendingPanic != nil {
		p := in.pendingPanic
		in.pendingPanic = nil
		if gc, ok := p.(*goroutineCrash); ok {
			in.violationIf(in.ts.True, "panic", "uncaught panic in goroutine: "+gc.gp.msg+" at "+gc.gp.where)
			panic(pathEnd{"goroutine crashed"})
		}
		panic(p)
	}
	if in.aborting && self.id != 0 {
		panic(threadKill{})
	}
}

// block suspends the current thread until cond holds.
func (in *Interp) block(cond func() bool, what string) {
	self := in.cur
	if self.ctl && in.controller != nil {
		// under a symbolic schedule the controller decides who runs next
		for !cond() {
			self.blocked = true
			self.blockedOn = what
			self.cond = cond
			in.switchTo(self, in.controller)
		}
		self.blocked = false
		self.cond = nil
		return
	}
	for !cond() {
		self.blocked = true
		self.blockedOn = what
		self.cond = cond
		next := in.pickRunnable(self)
		if next == nil {
			// every thread is blocked or finished
			desc := ""
			for _, t := range in.threads {
				if !t.done {
					desc += fmt.Sprintf("[T%d blocked on %s] ", t.id, t.blockedOn)
				}
			}
			if self.id != 0 {
				// let main report
				in.pendingPanic = &deadlockErr{desc}
				in.switchTo(self, in.threads[0])
				continue
			}
			in.reportDeadlock(desc)
		}
		in.switchTo(self, next)
	}
	self.blocked = false
	self.cond = nil
}

type deadlockErr struct{ desc string }

func (in *Interp) reportDeadlock(desc string) {
	in.violationIf(in.ts.True, "deadlock", "all goroutines are blocked: "+desc)
	panic(pathEnd{"deadlock"})
}

// yield lets other runnable threads run (used at harness end to drain).
func (in *Interp) drainThreads() {
	self := in.cur
	for {
		next := in.pickRunnable(self)
		if next == nil {
			break
		}
		self.blocked = true
		self.cond = func() bool { return true }
		self.blockedOn = "drain"
		in.switchTo(self, next)
		self.blocked = false
	}
	for _, t := range in.threads[1:] {
		if !t.done && !t.bg {
			in.violationIf(in.ts.True, "leak", fmt.Sprintf("goroutine %s still blocked on %s when the harness finished", t.name, t.blockedOn))
		}
	}
}

// killThreads unwinds every live simulated thread (path end).
func (in *Interp) killThreads() {
	in.aborting = true
	for _, t := range in.threads[1:] {
		if !t.done {
			t.wake <- struct{}{}
			<-in.ack
		}
	}
	in.aborting = false
	in.threads = in.threads[:1]
	in.cur = in.threads[0]
	in.pendingPanic = nil
}

// ---- channels ----

func (in *Interp) newChan(capacity int) *ChanObj {
	in.chanN++
	return &ChanObj{capacity: capacity, id: in.chanN}
}

func (in *Interp) chanMut(c *ChanObj) {
	old := *c
	old.buf = append([]Value(nil), c.buf...)
	old.sendq = append([]*sendRec(nil), c.sendq...)
	in.onUndo(func() { *c = old })
}

// pickAlt forks until one alternative of a guarded union is selected.
func (in *Interp) pickAlt(v Value) Value {
	u, ok := v.(*Union)
	if !ok {
		return v
	}
	for i, a := range u.alts {
		if i == len(u.alts)-1 || in.decide(a.g) {
			return a.v
		}
	}
	return u.alts[len(u.alts)-1].v
}

func (in *Interp) asChan(v Value) *ChanObj {
	v = in.pickAlt(v)
	c, ok := v.(*ChanObj)
	if !ok {
		abortf("channel operation on %s at %s", in.show(v), in.where())
	}
	return c
}

func (in *Interp) chanLen(c *ChanObj) *Term {
	if c == nil {
		return in.ts.BV(64, 0)
	}
	return in.ts.BV(64, uint64(len(c.buf)))
}

func (c *ChanObj) canRecv() bool {
	if len(c.buf) > 0 || c.closed {
		return true
	}
	for _, s := range c.sendq {
		if !s.taken {
			return true
		}
	}
	return false
}

func (c *ChanObj) pendingSends() int {
	n := 0
	for _, s := range c.sendq {
		if !s.taken {
			n++
		}
	}
	return n
}

func (c *ChanObj) canSendNow() bool {
	if c.closed {
		return true // will panic
	}
	if c.capacity > 0 {
		return len(c.buf) < c.capacity
	}
	return c.recvWaiters-c.pendingSends() > 0
}

func (in *Interp) chanSend(f *Frame, cv Value, v Value) {
	if !in.concretizeGuard() {
		return
	}
	in.implicitPoint("chan.send")
	c := in.asChan(cv)
	if c == nil {
		in.block(func() bool { return false }, "send on nil channel")
		return
	}
	v = copyVal(v)
	if c.capacity > 0 {
		in.block(func() bool { return c.closed || len(c.buf) < c.capacity }, fmt.Sprintf("chan#%d send", c.id))
		if c.closed {
			in.rtCheck(in.ts.True, "send on closed channel")
			return
		}
		in.chanMut(c)
		c.buf = append(c.buf, v)
		return
	}
	if c.closed {
		in.rtCheck(in.ts.True, "send on closed channel")
		return
	}
	rec := &sendRec{v: v}
	in.chanMut(c)
	c.sendq = append(c.sendq, rec)
	in.block(func() bool { return rec.taken || c.closed }, fmt.Sprintf("chan#%d send", c.id))
	if !rec.taken {
		in.rtCheck(in.ts.True, "send on closed channel")
	}
}

func (in *Interp) takeFrom(c *ChanObj) (Value, bool) {
	in.chanMut(c)
	if len(c.buf) > 0 {
		v := c.buf[0]
		c.buf = c.buf[1:]
		return v, true
	}
	for i, s := range c.sendq {
		if !s.taken {
			ns := *s
			ns.taken = true
			s.taken = true
			in.onUndo(func() { s.taken = false })
			c.sendq = append(append([]*sendRec(nil), c.sendq[:i]...), c.sendq[i+1:]...)
			return s.v, true
		}
	}
	return nil, false
}

func (in *Interp) chanRecv(f *Frame, cv Value, commaOk bool, et types.Type) Value {
	ts := in.ts
	if !in.concretizeGuard() {
		if commaOk {
			return Tuple{in.zero(et), ts.False}
		}
		return in.zero(et)
	}
	in.implicitPoint("chan.recv")
	c := in.asChan(cv)
	if c == nil {
		in.block(func() bool { return false }, "receive from nil channel")
	}
	if !c.canRecv() {
		in.chanMut(c)
		c.recvWaiters++
		in.block(c.canRecv, fmt.Sprintf("chan#%d recv", c.id))
		in.chanMut(c)
		c.recvWaiters--
	}
	v, ok := in.takeFrom(c)
	if !ok {
		v = in.zero(et)
	}
	if commaOk {
		return Tuple{v, ts.Bool(ok)}
	}
	return v
}

func (in *Interp) chanClose(cv Value) {
	if !in.concretizeGuard() {
		return
	}
	in.implicitPoint("chan.close")
	c := in.asChan(cv)
	if c == nil {
		in.rtCheck(in.ts.True, "close of nil channel")
		return
	}
	if c.closed {
		in.rtCheck(in.ts.True, "close of closed channel")
		return
	}
	in.chanMut(c)
	c.closed = true
}

func (in *Interp) selectOp(f *Frame, ins *ssa.Select) Value {
	ts := in.ts
	type st struct {
		c    *ChanObj
		send bool
		v    Value
		et   types.Type
	}
	nrecv := 0
	var states []st
	for _, s := range ins.States {
		c := in.asChan(in.get(f, s.Chan))
		x := st{c: c, send: s.Dir == types.SendOnly}
		if x.send {
			x.v = copyVal(in.get(f, s.Send))
		} else {
			x.et = s.Chan.Type().Underlying().(*types.Chan).Elem()
			nrecv++
		}
		states = append(states, x)
	}
	result := func(idx int, ok bool, recvIdx int, v Value) Value {
		tu := Tuple{ts.BV(64, uint64(int64(idx))), ts.Bool(ok)}
		for i, s := range states {
			if s.send {
				continue
			}
			if i == recvIdx {
				tu = append(tu, v)
			} else {
				tu = append(tu, in.zero(s.et))
			}
		}
		return tu
	}
	if !in.concretizeGuard() {
		return result(-1, false, -1, nil)
	}
	ready := func() []int {
		var r []int
		for i, s := range states {
			if s.c == nil {
				continue
			}
			if s.send {
				if s.c.canSendNow() {
					r = append(r, i)
				}
			} else if s.c.canRecv() {
				r = append(r, i)
			}
		}
		return r
	}
	// a select is a preemption point: a loop spinning on an always-ready case (closed channel) must
	// not starve the goroutines it is waiting for
	in.yield()
	r := ready()
	if len(r) == 0 {
		if !ins.Blocking {
			return result(-1, false, -1, nil)
		}
		for _, s := range states {
			if s.c != nil && !s.send {
				in.chanMut(s.c)
				s.c.recvWaiters++
			}
		}
		in.block(func() bool { return len(ready()) > 0 }, "select")
		for _, s := range states {
			if s.c != nil && !s.send {
				in.chanMut(s.c)
				s.c.recvWaiters--
			}
		}
		r = ready()
	}
	pick := r[0]
	if len(r) > 1 {
		// fair canonical choice: rotate among the ready cases per select site (first-ready would starve
		// cases behind a closed channel, which a real scheduler never does)
		if in.selCount == nil {
			in.selCount = map[*ssa.Select]int{}
		}
		k := in.selCount[ins]
		in.selCount[ins] = k + 1
		in.onUndo(func() { in.selCount[ins] = k })
		pick = r[k%len(r)]
	}
	if len(r) > 1 && in.schedBudget > 0 {
		in.schedBudget--
		in.onUndo(func() { in.schedBudget++ })
		v := in.ts.ForkVar(in.freshName("sel"), 8)
		in.assume(ts.Cmp(OpUlt, v, ts.BV(8, uint64(len(r)))))
		pick = r[in.decideEq(v, len(r))]
	}
	s := states[pick]
	if s.send {
		if s.c.closed {
			in.rtCheck(ts.True, "send on closed channel")
		}
		in.chanMut(s.c)
		if s.c.capacity > 0 {
			s.c.buf = append(s.c.buf, s.v)
		} else {
			s.c.sendq = append(s.c.sendq, &sendRec{v: s.v})
		}
		return result(pick, false, -1, nil)
	}
	v, ok := in.takeFrom(s.c)
	if !ok {
		v = in.zero(s.et)
	}
	return result(pick, ok, pick, v)
}

func (in *Interp) freshName(prefix string) string {
	n := in.freshN[prefix]
	in.freshN[prefix] = n + 1
	in.onUndo(func() { in.freshN[prefix] = n })
	return fmt.Sprintf("%s!%d", prefix, n)
}
