package main

// Hash-consed term DAG over Bool and (_ BitVec w), w <= 64, plus uninterpreted functions.

import (
	"fmt"
	"sort"
	"strings"
)

type Op uint8

const (
	OpConst Op = iota
	OpVar
	OpNot
	OpAnd // n-ary, sorted unique args
	OpOr  // n-ary
	OpIte
	OpEq
	OpAdd
	OpSub
	OpMul
	OpUDiv
	OpSDiv
	OpURem
	OpSRem
	OpBAnd
	OpBOr
	OpBXor
	OpBNot
	OpNeg
	OpShl
	OpLshr
	OpAshr
	OpUlt
	OpUle
	OpSlt
	OpSle
	OpExtract // val = hi<<8|lo
	OpConcat
	OpZext
	OpSext
	OpUF // name, args; w result (0 Bool)
)

var opNames = map[Op]string{OpNot: "not", OpAnd: "and", OpOr: "or", OpIte: "ite", OpEq: "=",
	OpAdd: "bvadd", OpSub: "bvsub", OpMul: "bvmul", OpUDiv: "bvudiv", OpSDiv: "bvsdiv", OpURem: "bvurem", OpSRem: "bvsrem",
	OpBAnd: "bvand", OpBOr: "bvor", OpBXor: "bvxor", OpBNot: "bvnot", OpNeg: "bvneg", OpShl: "bvshl", OpLshr: "bvlshr", OpAshr: "bvashr",
	OpUlt: "bvult", OpUle: "bvule", OpSlt: "bvslt", OpSle: "bvsle", OpConcat: "concat"}

type Term struct {
	op    Op
	w     uint8 // 0 = Bool
	forky bool
	id    uint32
	val   uint64
	name  string
	args  []*Term
}

func (t *Term) IsConst() bool { return t.op == OpConst }
func (t *Term) IsBool() bool  { return t.w == 0 }
func (t *Term) IsTrue() bool  { return t.op == OpConst && t.w == 0 && t.val == 1 }
func (t *Term) IsFalse() bool { return t.op == OpConst && t.w == 0 && t.val == 0 }

// TermStore owns the hash-cons table of one interpreter instance.
type TermStore struct {
	tab    map[string]*Term
	nextID uint32
	True   *Term
	False  *Term
	vars   []*Term
	ufs    map[string]*Term // name -> sample application (for declaration)
	keybuf []byte
}

func NewTermStore() *TermStore {
	ts := &TermStore{tab: map[string]*Term{}, ufs: map[string]*Term{}}
	ts.True = ts.mk(OpConst, 0, 1, "", nil)
	ts.False = ts.mk(OpConst, 0, 0, "", nil)
	return ts
}

func (ts *TermStore) mk(op Op, w uint8, val uint64, name string, args []*Term) *Term {
	b := ts.keybuf[:0]
	b = append(b, byte(op), w)
	for i := 0; i < 8; i++ {
		b = append(b, byte(val>>(8*i)))
	}
	for _, a := range args {
		b = append(b, byte(a.id), byte(a.id>>8), byte(a.id>>16), byte(a.id>>24))
	}
	b = append(b, name...)
	ts.keybuf = b
	if t, ok := ts.tab[string(b)]; ok {
		return t
	}
	t := &Term{op: op, w: w, val: val, name: name, id: ts.nextID}
	ts.nextID++
	if len(args) > 0 {
		t.args = append([]*Term(nil), args...)
		for _, a := range args {
			if a.forky {
				t.forky = true
			}
		}
	}
	ts.tab[string(b)] = t
	return t
}

func mask(w uint8) uint64 {
	if w >= 64 {
		return ^uint64(0)
	}
	return (uint64(1) << w) - 1
}

func (ts *TermStore) Bool(b bool) *Term {
	if b {
		return ts.True
	}
	return ts.False
}

func (ts *TermStore) BV(w uint8, v uint64) *Term {
	if w == 0 {
		panic("BV width 0")
	}
	return ts.mk(OpConst, w, v&mask(w), "", nil)
}

func (ts *TermStore) Var(name string, w uint8) *Term {
	n := len(ts.tab)
	t := ts.mk(OpVar, w, 0, name, nil)
	if len(ts.tab) != n {
		ts.vars = append(ts.vars, t)
	}
	return t
}

func (ts *TermStore) ForkVar(name string, w uint8) *Term {
	t := ts.Var(name, w)
	t.forky = true
	return t
}

func (ts *TermStore) UF(name string, w uint8, args ...*Term) *Term {
	t := ts.mk(OpUF, w, 0, name, args)
	if old, ok := ts.ufs[name]; !ok {
		ts.ufs[name] = t
	} else if len(old.args) != len(args) || old.w != w {
		panic("UF " + name + " used with inconsistent signature")
	}
	return t
}

func sext(w uint8, v uint64) int64 {
	if w >= 64 {
		return int64(v)
	}
	if v&(1<<(w-1)) != 0 {
		return int64(v | ^mask(w))
	}
	return int64(v)
}

func (ts *TermStore) Not(a *Term) *Term {
	if a.op == OpConst {
		return ts.Bool(a.val == 0)
	}
	if a.op == OpNot {
		return a.args[0]
	}
	return ts.mk(OpNot, 0, 0, "", []*Term{a})
}

func (ts *TermStore) nary(op Op, xs []*Term) *Term {
	// flatten, sort, dedupe, detect complement
	unit, zero := ts.True, ts.False // for And
	if op == OpOr {
		unit, zero = ts.False, ts.True
	}
	var flat []*Term
	for _, x := range xs {
		if x == zero {
			return zero
		}
		if x == unit {
			continue
		}
		if x.op == op {
			flat = append(flat, x.args...)
		} else {
			flat = append(flat, x)
		}
	}
	if len(flat) == 0 {
		return unit
	}
	sort.Slice(flat, func(i, j int) bool { return flat[i].id < flat[j].id })
	out := flat[:0:0]
	for i, x := range flat {
		if i > 0 && flat[i-1] == x {
			continue
		}
		out = append(out, x)
	}
	if len(out) <= 64 {
		for _, x := range out {
			if x.op == OpNot {
				y := x.args[0]
				// binary search for y
				k := sort.Search(len(out), func(i int) bool { return out[i].id >= y.id })
				if k < len(out) && out[k] == y {
					return zero
				}
			}
		}
	}
	if len(out) == 1 {
		return out[0]
	}
	return ts.mk(op, 0, 0, "", out)
}

func (ts *TermStore) And(xs ...*Term) *Term {
	if len(xs) == 2 {
		a, b := xs[0], xs[1]
		if a == ts.True {
			return b
		}
		if b == ts.True || a == b {
			return a
		}
		if a == ts.False || b == ts.False {
			return ts.False
		}
		// absorption: a ∧ (¬a ∨ x) etc. are left to the solver
	}
	return ts.nary(OpAnd, xs)
}

func (ts *TermStore) Or(xs ...*Term) *Term {
	if len(xs) == 2 {
		a, b := xs[0], xs[1]
		if a == ts.False {
			return b
		}
		if b == ts.False || a == b {
			return a
		}
		if a == ts.True || b == ts.True {
			return ts.True
		}
		// (g ∧ c) ∨ (g ∧ ¬c) = g : the common diamond re-join
		if r := ts.diamond(a, b); r != nil {
			return r
		}
	}
	return ts.nary(OpOr, xs)
}

// diamond recognises (X ∧ c) ∨ (X ∧ ¬c) and returns X.
func (ts *TermStore) diamond(a, b *Term) *Term {
	ca, cb := conjuncts(a), conjuncts(b)
	if len(ca) != len(cb) || len(ca) > 32 {
		return nil
	}
	// both sorted by id; find the single differing position
	var da, db *Term
	i, j := 0, 0
	var common []*Term
	for i < len(ca) || j < len(cb) {
		switch {
		case i < len(ca) && j < len(cb) && ca[i] == cb[j]:
			common = append(common, ca[i])
			i++
			j++
		case j >= len(cb) || (i < len(ca) && ca[i].id < cb[j].id):
			if da != nil {
				return nil
			}
			da = ca[i]
			i++
		default:
			if db != nil {
				return nil
			}
			db = cb[j]
			j++
		}
	}
	if da == nil || db == nil {
		return nil
	}
	if (da.op == OpNot && da.args[0] == db) || (db.op == OpNot && db.args[0] == da) {
		return ts.nary(OpAnd, common)
	}
	return nil
}

func conjuncts(a *Term) []*Term {
	if a.op == OpAnd {
		return a.args
	}
	return []*Term{a}
}

func (ts *TermStore) Implies(a, b *Term) *Term { return ts.Or(ts.Not(a), b) }

func (ts *TermStore) Ite(c, a, b *Term) *Term {
	if c.op == OpConst {
		if c.val != 0 {
			return a
		}
		return b
	}
	if a == b {
		return a
	}
	if a.w != b.w {
		panic(fmt.Sprintf("ite width mismatch %d %d", a.w, b.w))
	}
	if a.w == 0 {
		if a == ts.True && b == ts.False {
			return c
		}
		if a == ts.False && b == ts.True {
			return ts.Not(c)
		}
		if a == ts.True {
			return ts.Or(c, b)
		}
		if a == ts.False {
			return ts.And(ts.Not(c), b)
		}
		if b == ts.True {
			return ts.Or(ts.Not(c), a)
		}
		if b == ts.False {
			return ts.And(c, a)
		}
	}
	if c.op == OpNot {
		return ts.Ite(c.args[0], b, a)
	}
	// ite(c, x, ite(c, y, z)) = ite(c, x, z)
	if b.op == OpIte && b.args[0] == c {
		return ts.Ite(c, a, b.args[2])
	}
	if a.op == OpIte && a.args[0] == c {
		return ts.Ite(c, a.args[1], b)
	}
	return ts.mk(OpIte, a.w, 0, "", []*Term{c, a, b})
}

func (ts *TermStore) Eq(a, b *Term) *Term {
	if a == b {
		return ts.True
	}
	if a.w != b.w {
		panic(fmt.Sprintf("eq width mismatch %d %d (%s vs %s)", a.w, b.w, ts.Show(a), ts.Show(b)))
	}
	if a.op == OpConst && b.op == OpConst {
		return ts.Bool(a.val == b.val)
	}
	if a.w == 0 {
		if a.op == OpConst {
			a, b = b, a
		}
		if b == ts.True {
			return a
		}
		if b == ts.False {
			return ts.Not(a)
		}
	}
	if a.op == OpConst {
		a, b = b, a
	}
	// eq(ite(c,k1,k2), k) with constants
	if b.op == OpConst && a.op == OpIte {
		x, y := a.args[1], a.args[2]
		if x.op == OpConst || y.op == OpConst {
			return ts.Ite(a.args[0], ts.Eq(x, b), ts.Eq(y, b))
		}
	}
	if b.op == OpConst && a.op == OpZext {
		inner := a.args[0]
		if b.val > mask(inner.w) {
			return ts.False
		}
		return ts.Eq(inner, ts.BV(inner.w, b.val))
	}
	if a.id > b.id {
		a, b = b, a
	}
	return ts.mk(OpEq, 0, 0, "", []*Term{a, b})
}

func (ts *TermStore) Bin(op Op, a, b *Term) *Term {
	if a.w != b.w {
		panic(fmt.Sprintf("binop %s width mismatch %d %d", opNames[op], a.w, b.w))
	}
	w := a.w
	m := mask(w)
	if a.op == OpConst && b.op == OpConst {
		x, y := a.val, b.val
		var r uint64
		switch op {
		case OpAdd:
			r = x + y
		case OpSub:
			r = x - y
		case OpMul:
			r = x * y
		case OpUDiv:
			if y == 0 {
				r = m
			} else {
				r = x / y
			}
		case OpURem:
			if y == 0 {
				r = x
			} else {
				r = x % y
			}
		case OpSDiv:
			sx, sy := sext(w, x), sext(w, y)
			if sy == 0 {
				if sx < 0 {
					r = 1
				} else {
					r = m
				}
			} else if sy == -1 {
				r = uint64(-sx)
			} else {
				r = uint64(sx / sy)
			}
		case OpSRem:
			sx, sy := sext(w, x), sext(w, y)
			if sy == 0 {
				r = x
			} else if sy == -1 {
				r = 0
			} else {
				r = uint64(sx % sy)
			}
		case OpBAnd:
			r = x & y
		case OpBOr:
			r = x | y
		case OpBXor:
			r = x ^ y
		case OpShl:
			if y >= uint64(w) {
				r = 0
			} else {
				r = x << y
			}
		case OpLshr:
			if y >= uint64(w) {
				r = 0
			} else {
				r = x >> y
			}
		case OpAshr:
			sx := sext(w, x)
			if y >= uint64(w) {
				if sx < 0 {
					r = m
				} else {
					r = 0
				}
			} else {
				r = uint64(sx >> y)
			}
		default:
			panic("Bin: bad op")
		}
		return ts.BV(w, r)
	}
	switch op {
	case OpAdd:
		if a.op == OpConst && a.val == 0 {
			return b
		}
		if b.op == OpConst && b.val == 0 {
			return a
		}
		if a.op == OpConst {
			a, b = b, a
		}
		// (x + k1) + k2
		if b.op == OpConst && a.op == OpAdd && a.args[1].op == OpConst {
			return ts.Bin(OpAdd, a.args[0], ts.BV(w, a.args[1].val+b.val))
		}
	case OpSub:
		if b.op == OpConst && b.val == 0 {
			return a
		}
		if a == b {
			return ts.BV(w, 0)
		}
		if b.op == OpConst {
			return ts.Bin(OpAdd, a, ts.BV(w, -b.val))
		}
	case OpMul:
		if a.op == OpConst {
			a, b = b, a
		}
		if b.op == OpConst {
			if b.val == 0 {
				return b
			}
			if b.val == 1 {
				return a
			}
		}
	case OpBAnd:
		if a == b {
			return a
		}
		if a.op == OpConst {
			a, b = b, a
		}
		if b.op == OpConst {
			if b.val == 0 {
				return b
			}
			if b.val == m {
				return a
			}
		}
	case OpBOr:
		if a == b {
			return a
		}
		if a.op == OpConst {
			a, b = b, a
		}
		if b.op == OpConst {
			if b.val == 0 {
				return a
			}
			if b.val == m {
				return b
			}
		}
	case OpBXor:
		if a == b {
			return ts.BV(w, 0)
		}
		if a.op == OpConst {
			a, b = b, a
		}
		if b.op == OpConst && b.val == 0 {
			return a
		}
	case OpShl, OpLshr, OpAshr:
		if b.op == OpConst && b.val == 0 {
			return a
		}
	}
	return ts.mk(op, w, 0, "", []*Term{a, b})
}

func (ts *TermStore) Cmp(op Op, a, b *Term) *Term {
	if a.w != b.w {
		panic(fmt.Sprintf("cmp width mismatch %d %d", a.w, b.w))
	}
	w := a.w
	if a.op == OpConst && b.op == OpConst {
		switch op {
		case OpUlt:
			return ts.Bool(a.val < b.val)
		case OpUle:
			return ts.Bool(a.val <= b.val)
		case OpSlt:
			return ts.Bool(sext(w, a.val) < sext(w, b.val))
		case OpSle:
			return ts.Bool(sext(w, a.val) <= sext(w, b.val))
		}
	}
	if a == b {
		return ts.Bool(op == OpUle || op == OpSle)
	}
	// comparisons of zero-extended narrow values against constants
	if a.op == OpZext && b.op == OpConst {
		in := a.args[0]
		bv := b.val
		neg := (op == OpSlt || op == OpSle) && sext(w, bv) < 0
		if neg {
			return ts.False
		}
		if bv > mask(in.w) {
			return ts.True
		}
		uop := OpUlt
		if op == OpUle || op == OpSle {
			uop = OpUle
		}
		return ts.Cmp(uop, in, ts.BV(in.w, bv))
	}
	if b.op == OpZext && a.op == OpConst {
		in := b.args[0]
		av := a.val
		neg := (op == OpSlt || op == OpSle) && sext(w, av) < 0
		if neg {
			return ts.True
		}
		if av > mask(in.w) {
			return ts.False
		}
		uop := OpUlt
		if op == OpUle || op == OpSle {
			uop = OpUle
		}
		return ts.Cmp(uop, ts.BV(in.w, av), in)
	}
	if a.op == OpZext && b.op == OpZext && a.args[0].w == b.args[0].w {
		uop := OpUlt
		if op == OpUle || op == OpSle {
			uop = OpUle
		}
		return ts.Cmp(uop, a.args[0], b.args[0])
	}
	if op == OpUlt && b.op == OpConst && b.val == 0 {
		return ts.False
	}
	if op == OpUle && a.op == OpConst && a.val == 0 {
		return ts.True
	}
	return ts.mk(op, 0, 0, "", []*Term{a, b})
}

func (ts *TermStore) Un(op Op, a *Term) *Term {
	if a.op == OpConst {
		switch op {
		case OpBNot:
			return ts.BV(a.w, ^a.val)
		case OpNeg:
			return ts.BV(a.w, -a.val)
		}
	}
	if a.op == op {
		return a.args[0]
	}
	return ts.mk(op, a.w, 0, "", []*Term{a})
}

func (ts *TermStore) Extract(a *Term, hi, lo uint8) *Term {
	w := hi - lo + 1
	if lo == 0 && w == a.w {
		return a
	}
	if a.op == OpConst {
		return ts.BV(w, a.val>>lo)
	}
	if a.op == OpZext || a.op == OpSext {
		in := a.args[0]
		if hi < in.w {
			return ts.Extract(in, hi, lo)
		}
		if a.op == OpZext && lo >= in.w {
			return ts.BV(w, 0)
		}
		if a.op == OpZext && lo == 0 {
			return ts.Zext(in, w)
		}
	}
	if a.op == OpIte && (a.args[1].op == OpConst || a.args[2].op == OpConst) {
		return ts.Ite(a.args[0], ts.Extract(a.args[1], hi, lo), ts.Extract(a.args[2], hi, lo))
	}
	return ts.mk(OpExtract, w, uint64(hi)<<8|uint64(lo), "", []*Term{a})
}

func (ts *TermStore) Concat(hi, lo *Term) *Term {
	w := hi.w + lo.w
	if hi.op == OpConst && lo.op == OpConst {
		return ts.BV(w, hi.val<<lo.w|lo.val)
	}
	if hi.op == OpConst && hi.val == 0 {
		return ts.Zext(lo, w)
	}
	return ts.mk(OpConcat, w, 0, "", []*Term{hi, lo})
}

func (ts *TermStore) Zext(a *Term, w uint8) *Term {
	if w == a.w {
		return a
	}
	if w < a.w {
		return ts.Extract(a, w-1, 0)
	}
	if a.op == OpConst {
		return ts.BV(w, a.val)
	}
	if a.op == OpZext {
		return ts.Zext(a.args[0], w)
	}
	if a.op == OpIte && (a.args[1].op == OpConst || a.args[2].op == OpConst) {
		return ts.Ite(a.args[0], ts.Zext(a.args[1], w), ts.Zext(a.args[2], w))
	}
	return ts.mk(OpZext, w, 0, "", []*Term{a})
}

func (ts *TermStore) Sext(a *Term, w uint8) *Term {
	if w == a.w {
		return a
	}
	if w < a.w {
		return ts.Extract(a, w-1, 0)
	}
	if a.op == OpConst {
		return ts.BV(w, uint64(sext(a.w, a.val)))
	}
	if a.op == OpZext {
		return ts.Zext(a.args[0], w)
	}
	return ts.mk(OpSext, w, 0, "", []*Term{a})
}

// ---- printing ----

func sortName(w uint8) string {
	if w == 0 {
		return "Bool"
	}
	return fmt.Sprintf("(_ BitVec %d)", w)
}

func smtSym(s string) string {
	for _, c := range s {
		if !(c >= 'a' && c <= 'z' || c >= 'A' && c <= 'Z' || c >= '0' && c <= '9' || c == '_' || c == '.' || c == '!' || c == '@' || c == '$' || c == '-') {
			return "|" + strings.NewReplacer("|", "_", "\\", "_").Replace(s) + "|"
		}
	}
	return s
}

func (t *Term) ref() string {
	switch t.op {
	case OpConst:
		if t.w == 0 {
			if t.val != 0 {
				return "true"
			}
			return "false"
		}
		if t.w%4 == 0 {
			return fmt.Sprintf("#x%0*x", int(t.w/4), t.val)
		}
		return fmt.Sprintf("#b%0*b", int(t.w), t.val)
	case OpVar:
		return smtSym(t.name)
	}
	return fmt.Sprintf("t%d", t.id)
}

func (t *Term) body() string {
	var sb strings.Builder
	switch t.op {
	case OpExtract:
		fmt.Fprintf(&sb, "((_ extract %d %d) %s)", t.val>>8, t.val&0xff, t.args[0].ref())
	case OpZext:
		fmt.Fprintf(&sb, "((_ zero_extend %d) %s)", t.w-t.args[0].w, t.args[0].ref())
	case OpSext:
		fmt.Fprintf(&sb, "((_ sign_extend %d) %s)", t.w-t.args[0].w, t.args[0].ref())
	case OpUF:
		if len(t.args) == 0 {
			sb.WriteString(smtSym(t.name))
		} else {
			sb.WriteString("(" + smtSym(t.name))
			for _, a := range t.args {
				sb.WriteString(" " + a.ref())
			}
			sb.WriteString(")")
		}
	default:
		sb.WriteString("(" + opNames[t.op])
		for _, a := range t.args {
			sb.WriteString(" " + a.ref())
		}
		sb.WriteString(")")
	}
	return sb.String()
}

// Show renders a term for humans (bounded size).
func (ts *TermStore) Show(t *Term) string {
	var f func(t *Term, d int) string
	f = func(t *Term, d int) string {
		if t.op == OpConst || t.op == OpVar {
			return t.ref()
		}
		if d > 4 {
			return "…"
		}
		s := "(" + opNames[t.op]
		if t.op == OpUF {
			s = "(" + t.name
		} else if t.op == OpExtract {
			s = fmt.Sprintf("(extract[%d:%d]", t.val>>8, t.val&0xff)
		} else if t.op == OpZext {
			s = "(zext"
		} else if t.op == OpSext {
			s = "(sext"
		}
		for _, a := range t.args {
			s += " " + f(a, d+1)
		}
		return s + ")"
	}
	return f(t, 0)
}

// Eval evaluates t under an assignment of variables (missing = 0). UF applications are looked up
// in ufv by printed form; missing = 0.
func (ts *TermStore) Eval(t *Term, m map[string]uint64, memo map[*Term]uint64) uint64 {
	if v, ok := memo[t]; ok {
		return v
	}
	var r uint64
	ev := func(i int) uint64 { return ts.Eval(t.args[i], m, memo) }
	b2u := func(b bool) uint64 {
		if b {
			return 1
		}
		return 0
	}
	switch t.op {
	case OpConst:
		r = t.val
	case OpVar:
		r = m[t.name] & mask(maxw(t.w))
	case OpUF:
		key := t.name
		for i := range t.args {
			key += fmt.Sprintf(",%d", ev(i))
		}
		r = m["uf:"+key]
	case OpNot:
		r = 1 - ev(0)
	case OpAnd:
		r = 1
		for i := range t.args {
			if ev(i) == 0 {
				r = 0
				break
			}
		}
	case OpOr:
		r = 0
		for i := range t.args {
			if ev(i) != 0 {
				r = 1
				break
			}
		}
	case OpIte:
		if ev(0) != 0 {
			r = ev(1)
		} else {
			r = ev(2)
		}
	case OpEq:
		r = b2u(ev(0) == ev(1))
	case OpExtract:
		hi, lo := uint8(t.val>>8), uint8(t.val&0xff)
		r = (ev(0) >> lo) & mask(hi-lo+1)
	case OpConcat:
		r = ev(0)<<t.args[1].w | ev(1)
	case OpZext:
		r = ev(0)
	case OpSext:
		r = uint64(sext(t.args[0].w, ev(0))) & mask(t.w)
	case OpBNot:
		r = ^ev(0) & mask(t.w)
	case OpNeg:
		r = -ev(0) & mask(t.w)
	case OpUlt, OpUle, OpSlt, OpSle:
		c := ts.Cmp(t.op, ts.BV(t.args[0].w, ev(0)), ts.BV(t.args[0].w, ev(1)))
		r = c.val
	default:
		c := ts.Bin(t.op, ts.BV(t.w, ev(0)), ts.BV(t.w, ev(1)))
		r = c.val
	}
	memo[t] = r
	return r
}

func maxw(w uint8) uint8 {
	if w == 0 {
		return 1
	}
	return w
}
