package main

// Symbolic schedules: vt.Threads(budget, f1, f2, ...) runs the bodies as threads whose interleaving
// at verifhook.Point calls (and at blocking operations) is chosen by forked solver variables
// sched!k, with at most `budget` preemptive switches (a switch away from a thread that could have
// continued). Every choice sequence within the bound is explored; a run where some thread can never
// finish is a deadlock violation.

import (
	"fmt"

	"golang.org/x/tools/go/ssa"
)

func (in *Interp) ctlThreads() []*Thread {
	var out []*Thread
	for _, t := range in.threads {
		if t.ctl {
			out = append(out, t)
		}
	}
	return out
}

func (in *Interp) runThreadStep(ctl, t *Thread) {
	t.atPoint = ""
	t.blocked = false
	in.switchTo(ctl, t)
}

func (in *Interp) runControlled(budget int, fs []Value) {
	ctl := in.cur
	if in.controller != nil {
		abortf("nested vt.Threads")
	}
	in.controller = ctl
	defer func() { in.controller = nil }()
	for i, f := range fs {
		f := f
		t := in.newThread()
		t.ctl = true
		t.name = fmt.Sprintf("T%d", i)
		t.blocked = true
		t.atPoint = "start"
		go in.threadMain(t, func() { in.call(f, nil, in.ts.True, nil) })
	}
	var last *Thread
	used := 0
	spin := 0
	lastPoint := ""
	streak := map[string]bool{} // points visited by `last` since it was last switched in
	for step := 0; ; step++ {
		if step > 600 {
			tail := in.events
			if len(tail) > 14 {
				tail = tail[len(tail)-14:]
			}
			abortf("vt.Threads: more than 600 scheduling steps (livelock under an unfair schedule?); last steps: %v", tail)
		}
		// threads that were blocked in a sync operation and are enabled now resume by themselves
		for progress := true; progress; {
			progress = false
			for _, t := range in.ctlThreads() {
				if !t.done && t.blocked && t.atPoint == "" && t.cond != nil && t.cond() {
					in.runThreadStep(ctl, t)
					progress = true
				}
			}
		}
		var ready []*Thread
		alive := 0
		for _, t := range in.ctlThreads() {
			if t.done {
				continue
			}
			alive++
			if t.atPoint != "" {
				ready = append(ready, t)
			}
		}
		if alive == 0 {
			return
		}
		if len(ready) == 0 {
			desc := ""
			for _, t := range in.ctlThreads() {
				if !t.done {
					desc += fmt.Sprintf("[%s blocked on %s] ", t.name, t.blockedOn)
				}
			}
			in.violationIf(in.ts.True, "deadlock", "threads can never finish under this schedule: "+desc)
			panic(pathEnd{"deadlock"})
		}
		pick := ready[0]
		// fairness: a thread that comes back to the same point again and again is spin-waiting for
		// another thread; a real scheduler eventually runs the others, so it is taken out of this step
		if last != nil && last.atPoint != "" && streak[last.atPoint] {
			spin++
		}
		if last != nil && last.atPoint != "" {
			streak[last.atPoint] = true
		}
		_ = lastPoint
		if spin >= 2 && len(ready) > 1 {
			var others []*Thread
			for _, t := range ready {
				if t != last {
					others = append(others, t)
				}
			}
			ready = others
			spin = 0
		}
		pick = ready[0]
		if len(ready) > 1 {
			lastReady := false
			for _, t := range ready {
				if t == last {
					lastReady = true
				}
			}
			if lastReady && used >= budget {
				pick = last
			} else {
				v := in.ts.ForkVar(in.freshName("sched"), 8)
				in.assume(in.ts.Cmp(OpUlt, v, in.ts.BV(8, uint64(len(ready)))))
				pick = ready[in.decideEq(v, len(ready))]
				if lastReady && pick != last {
					used++
				}
			}
		}
		in.event(fmt.Sprintf("sched:%d %s@%s", pick.id-ctlBase(in), pick.name, pick.atPoint))
		if pick != last {
			streak = map[string]bool{}
			spin = 0
		}
		last = pick
		in.runThreadStep(ctl, pick)
	}
}

// schedPoint parks a scheduled thread at a named point and hands control to the schedule controller.
func (in *Interp) schedPoint(name string) {
	self := in.cur
	if self == nil || !self.ctl || in.controller == nil {
		return
	}
	if !in.concretizeGuard() {
		return
	}
	self.atPoint = name
	self.blocked = true
	self.cond = nil
	in.switchTo(self, in.controller)
	self.blocked = false
}

// implicitPoint: with vt.ImplicitPoints(true) every atomic / mutex / channel operation of a scheduled
// thread is a scheduling point too (names start with '~'; such schedules cannot be forced natively and
// are replayed by stress).
func (in *Interp) implicitPoint(name string) {
	if in.implicitPts {
		in.schedPoint("~" + name)
	}
}

// ctlBase: id of the first controlled thread (thread indices in events are relative to it).
func ctlBase(in *Interp) int {
	for _, t := range in.threads {
		if t.ctl {
			return t.id
		}
	}
	return 0
}

func init() {
	const vt = "github.com/openfga/openfga/internal/vt."
	reg(vt+"Threads", func(in *Interp, fn *ssa.Function, a []Value, g *Term) Value {
		if !in.concretizeGuard() {
			return nil
		}
		budget := in.needInt(a[0], "vt.Threads budget")
		sl := a[1].(*SliceV)
		var fs []Value
		for i := 0; i < in.maxLen(sl); i++ {
			fs = append(fs, in.elem(sl, i))
		}
		in.runControlled(budget, fs)
		return nil
	})
	reg("github.com/openfga/openfga/internal/verifhook.Point", func(in *Interp, fn *ssa.Function, a []Value, g *Term) Value {
		in.schedPoint(in.needConc(a[0], "verifhook.Point name"))
		return nil
	})
	reg(vt+"ImplicitPoints", func(in *Interp, fn *ssa.Function, a []Value, g *Term) Value {
		old := in.implicitPts
		in.implicitPts = a[0].(*Term).IsTrue()
		in.onUndo(func() { in.implicitPts = old })
		return nil
	})
	reg("github.com/openfga/openfga/internal/verifhook.Set", noop0)
}
