package main

// Library models needed by the authz / batch-check / condition / authzen harnesses (specs/logicgroup.py).

import (
	"go/types"

	"golang.org/x/tools/go/ssa"
)

func init() {
	// context.WithValue: the real body asks reflectlite whether the key type is comparable (runtime
	// type descriptors are not modelled); everything else is `&valueCtx{parent, key, val}`, which is
	// what this model builds so that the real (*valueCtx).Value / context.value code keeps working.
	reg("context.WithValue", func(in *Interp, fn *ssa.Function, a []Value, g *Term) Value {
		in.stubLog["model:context.WithValue = &valueCtx{parent,key,val} (comparability check of the key type skipped)"]++
		tn := fn.Pkg.Pkg.Scope().Lookup("valueCtx")
		if tn == nil {
			abortf("context.valueCtx not found")
		}
		pt := types.NewPointer(tn.Type())
		p, st := in.newObject(pt)
		st[fieldIndex(pt, "Context")] = a[0]
		st[fieldIndex(pt, "key")] = a[1]
		st[fieldIndex(pt, "val")] = a[2]
		v := Value(st)
		*p.p = v
		return Iface{t: pt, v: p}
	})

	// internal/condition: `func init()` builds the CEL base environment (cel.NewEnv -> protobuf
	// registries; crashes the lenient initialiser with "cmp width mismatch 32 64"). CEL is outside the
	// engine anyway: skip that one function, the package's variable initialisers still run.
	reg("github.com/openfga/openfga/internal/condition.init#1", func(in *Interp, fn *ssa.Function, a []Value, g *Term) Value {
		in.stubLog["model:condition.init#1 (CEL base environment) skipped"]++
		return nil
	})
}
