package main

// sort.Slice / sort.SliceStable on a slice that is a guarded union (typical: `var m []T` that is only
// appended to under symbolic guards, so it is "nil | non-nil backing array"): sort every non-nil
// alternative in place under its own guard. Wraps the model of intr_sort.go (this file's init runs
// after it: file names are initialised in lexical order).

import (
	"golang.org/x/tools/go/ssa"
)

func init() {
	for _, name := range []string{"sort.Slice", "sort.SliceStable"} {
		prev := intrinsics[name]
		if prev == nil {
			continue
		}
		reg(name, func(in *Interp, fn *ssa.Function, a []Value, g *Term) Value {
			itf, ok := a[0].(Iface)
			if !ok || itf.t == nil {
				return prev(in, fn, a, g)
			}
			u, ok := itf.v.(*Union)
			if !ok {
				return prev(in, fn, a, g)
			}
			for _, al := range u.alts {
				ag := in.ts.And(g, al.g)
				if ag.IsFalse() {
					continue
				}
				prev(in, fn, []Value{Iface{t: itf.t, v: al.v}, a[1]}, ag)
			}
			return nil
		})
	}
}
