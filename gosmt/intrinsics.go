package main

import (
	"fmt"
	"go/types"
	"math"
	"strings"
	"unicode/utf8"

	"golang.org/x/tools/go/ssa"
)

type Intrinsic func(in *Interp, fn *ssa.Function, args []Value, g *Term) Value

var intrinsics = map[string]Intrinsic{}

// packages whose init is never run
var noInitPkgs = map[string]bool{}

// package path prefixes whose functions are no-ops returning zero values
var noopPrefixes = []string{
	"go.opentelemetry.io/",
	"github.com/prometheus/",
	"go.uber.org/zap",
	"github.com/grpc-ecosystem/go-grpc-middleware",
	"github.com/openfga/openfga/internal/telemetry",
	"github.com/openfga/openfga/pkg/telemetry",
	"github.com/openfga/openfga/pkg/logger",
	"log",
	"runtime/debug",
}

func intrinsicName(fn *ssa.Function) string {
	if o := fn.Origin(); o != nil {
		return o.String()
	}
	return fn.String()
}

func pkgPathOf(fn *ssa.Function) string {
	if fn.Pkg != nil {
		return fn.Pkg.Pkg.Path()
	}
	if o := fn.Origin(); o != nil && o.Pkg != nil {
		return o.Pkg.Pkg.Path()
	}
	if fn.Object() != nil && fn.Object().Pkg() != nil {
		return fn.Object().Pkg().Path()
	}
	if fn.Parent() != nil {
		return pkgPathOf(fn.Parent())
	}
	// wrappers/thunks: use receiver's package
	if r := fn.Signature.Recv(); r != nil {
		t := r.Type()
		if p, ok := t.(*types.Pointer); ok {
			t = p.Elem()
		}
		if n, ok := types.Unalias(t).(*types.Named); ok && n.Obj().Pkg() != nil {
			return n.Obj().Pkg().Path()
		}
	}
	return ""
}

func (in *Interp) lookupIntrinsic(fn *ssa.Function) Intrinsic {
	name := intrinsicName(fn)
	if len(in.userStubs) > 0 {
		if sv, ok := in.userStubs[name]; ok {
			return func(in *Interp, fn *ssa.Function, args []Value, g *Term) Value {
				return in.call(sv, args, g, nil)
			}
		}
	}
	if f, ok := intrinsics[name]; ok {
		return f
	}
	if fn.Name() == "String" && fn.Signature.Recv() != nil {
		if n, ok := types.Unalias(fn.Signature.Recv().Type()).(*types.Named); ok && fn.Pkg != nil {
			if b, isB := n.Underlying().(*types.Basic); isB && b.Kind() == types.Int32 && fn.Pkg.Var(n.Obj().Name()+"_name") != nil {
				return protoEnumString
			}
		}
	}
	pp := pkgPathOf(fn)
	if pp != "" {
		if strings.HasPrefix(pp, "github.com/openfga/openfga/") && strings.HasSuffix(pp, "/metrics") {
			return noopIntrinsic
		}
		for _, p := range noopPrefixes {
			if strings.HasPrefix(pp, p) {
				return noopIntrinsic
			}
		}
	}
	return nil
}

// protoEnumString models the generated String() of protobuf enums through the generated <Enum>_name map
// (the real code goes through protoreflect descriptors).
func protoEnumString(in *Interp, fn *ssa.Function, args []Value, g *Term) Value {
	n := types.Unalias(fn.Signature.Recv().Type()).(*types.Named)
	gv := fn.Pkg.Var(n.Obj().Name() + "_name")
	m, ok := (*in.globalCell(gv)).(*MapObj)
	if !ok || m == nil {
		return in.concStr("ENUM")
	}
	v, found := in.mapGet(m, gv.Type().(*types.Pointer).Elem().Underlying().(*types.Map), args[0])
	if s, isS := v.(*Str); isS && found.IsTrue() {
		return s
	}
	if s, isS := v.(*Str); isS && !found.IsFalse() {
		return in.merge(found, s, in.concStr("ENUM")).(*Str)
	}
	return in.concStr("ENUM")
}

func noopIntrinsic(in *Interp, fn *ssa.Function, args []Value, g *Term) Value {
	in.stubLog["noop:"+pkgPathOf(fn)]++
	if fn.Signature.Recv() != nil && len(args) > 0 {
		args = args[1:]
	}
	return in.noopResults(fn.Signature, args)
}

// noopResults builds zero results; a context result passes the context argument through, interface
// results become no-op objects.
func (in *Interp) noopResults(sig *types.Signature, args []Value) Value {
	r := sig.Results()
	mk := func(t types.Type) Value {
		if isContextType(t) {
			for i, a := range args {
				if i < sig.Params().Len() && isContextType(sig.Params().At(i).Type()) {
					return a
				}
			}
		}
		if _, isI := t.Underlying().(*types.Interface); isI {
			return in.noopObject(t)
		}
		return in.zero(t)
	}
	switch r.Len() {
	case 0:
		return nil
	case 1:
		return mk(r.At(0).Type())
	}
	tu := make(Tuple, r.Len())
	for i := range tu {
		tu[i] = mk(r.At(i).Type())
	}
	return tu
}

// noopIfaceType: a named interface type declared in one of the no-op packages (metrics, tracing, logging).
func noopIfaceType(t types.Type) bool {
	n, ok := types.Unalias(t).(*types.Named)
	if !ok || n.Obj().Pkg() == nil {
		return false
	}
	pp := n.Obj().Pkg().Path()
	for _, p := range noopPrefixes {
		if strings.HasPrefix(pp, p) {
			return true
		}
	}
	return false
}

func isContextType(t types.Type) bool {
	n, ok := types.Unalias(t).(*types.Named)
	return ok && n.Obj().Pkg() != nil && n.Obj().Pkg().Path() == "context" && n.Obj().Name() == "Context"
}

// noopObject returns a non-nil interface value of a synthetic dynamic type whose methods are all
// no-ops (used for spans, loggers, meters returned by stubbed packages).
func (in *Interp) noopObject(t types.Type) Value {
	if isErrorType(t) {
		return Iface{}
	}
	return Iface{t: &noopType{iface: t}, v: in.ts.BV(8, 0)}
}

func isErrorType(t types.Type) bool {
	return types.Identical(t, types.Universe.Lookup("error").Type())
}

// noopType is a pseudo types.Type; method calls on it are intercepted in call().
type noopType struct {
	iface types.Type
}

func (n *noopType) Underlying() types.Type { return n }
func (n *noopType) String() string         { return "noop(" + n.iface.String() + ")" }

func reg(name string, f Intrinsic) { intrinsics[name] = f }

func str(v Value) *Str {
	s, ok := v.(*Str)
	if !ok {
		abortf("expected string, got %T", v)
	}
	return s
}

func (in *Interp) needConc(v Value, what string) string {
	s := str(v)
	if !s.conc {
		abortf("%s must be a concrete string at %s", what, in.where())
	}
	return s.s
}

func (in *Interp) needInt(v Value, what string) int {
	t, ok := v.(*Term)
	if !ok || !t.IsConst() {
		abortf("%s must be a concrete integer at %s", what, in.where())
	}
	return int(sext(t.w, t.val))
}

func (in *Interp) mkBool(b bool) *Term { return in.ts.Bool(b) }

func (in *Interp) setBound(v *Term, max uint64) {
	if in.varBound == nil {
		in.varBound = map[*Term]uint64{}
	}
	in.varBound[v] = max
}

// symbolic string input
func (in *Interp) symString(name string, max int, ascii bool) *Str {
	ts := in.ts
	lw := uint8(8)
	lv := ts.Var(name+".len", lw)
	in.inputs = append(in.inputs, lv)
	in.inputMeta[name] = fmt.Sprintf("string<=%d", max)
	in.assume(ts.Cmp(OpUle, lv, ts.BV(lw, uint64(max))))
	in.setBound(lv, uint64(max))
	b := make([]*Term, max)
	for i := range b {
		if ascii {
			b[i] = ts.Zext(ts.Var(fmt.Sprintf("%s.b%d", name, i), 7), 8)
		} else {
			b[i] = ts.Var(fmt.Sprintf("%s.b%d", name, i), 8)
		}
	}
	return in.normStr(ts.Zext(lv, 64), b)
}

func init() {
	const vt = "github.com/openfga/openfga/internal/vt."
	reg(vt+"Bool", func(in *Interp, fn *ssa.Function, a []Value, g *Term) Value {
		n := in.needConc(a[0], "vt.Bool name")
		in.inputMeta[n] = "bool"
		return in.ts.Var(n, 0)
	})
	reg(vt+"ForkBool", func(in *Interp, fn *ssa.Function, a []Value, g *Term) Value {
		n := in.needConc(a[0], "vt.ForkBool name")
		in.inputMeta[n] = "bool"
		return in.ts.ForkVar(n, 0)
	})
	intIn := func(w uint8, fork bool) Intrinsic {
		return func(in *Interp, fn *ssa.Function, a []Value, g *Term) Value {
			n := in.needConc(a[0], "vt name")
			in.inputMeta[n] = fmt.Sprintf("int%d", w)
			if fork {
				return in.ts.ForkVar(n, w)
			}
			return in.ts.Var(n, w)
		}
	}
	reg(vt+"Int", intIn(64, false))
	reg(vt+"Int64", intIn(64, false))
	reg(vt+"Uint64", intIn(64, false))
	reg(vt+"Int32", intIn(32, false))
	reg(vt+"Uint32", intIn(32, false))
	reg(vt+"Byte", intIn(8, false))
	reg(vt+"IntRange", func(in *Interp, fn *ssa.Function, a []Value, g *Term) Value {
		n := in.needConc(a[0], "vt.IntRange name")
		lo, hi := in.needInt(a[1], "lo"), in.needInt(a[2], "hi")
		in.inputMeta[n] = fmt.Sprintf("int[%d,%d]", lo, hi)
		if hi-lo < 250 && lo >= 0 {
			v := in.ts.Var(n, 8)
			in.assume(in.ts.And(in.ts.Cmp(OpUle, in.ts.BV(8, uint64(lo)), v), in.ts.Cmp(OpUle, v, in.ts.BV(8, uint64(hi)))))
			in.setBound(v, uint64(hi))
			return in.ts.Zext(v, 64)
		}
		v := in.ts.Var(n, 64)
		in.assume(in.ts.And(in.ts.Cmp(OpSle, in.ts.BV(64, uint64(int64(lo))), v), in.ts.Cmp(OpSle, v, in.ts.BV(64, uint64(int64(hi))))))
		return v
	})
	reg(vt+"Choose", func(in *Interp, fn *ssa.Function, a []Value, g *Term) Value {
		n := in.needConc(a[0], "vt.Choose name")
		k := in.needInt(a[1], "vt.Choose n")
		if k <= 0 {
			abortf("vt.Choose with n=%d", k)
		}
		in.inputMeta[n] = fmt.Sprintf("choice<%d", k)
		v := in.ts.ForkVar(n, 8)
		in.assume(in.ts.Cmp(OpUlt, v, in.ts.BV(8, uint64(k))))
		return in.ts.BV(64, uint64(in.decideEq(v, k)))
	})
	reg(vt+"Pick", func(in *Interp, fn *ssa.Function, a []Value, g *Term) Value {
		n := in.needConc(a[0], "vt.Pick name")
		k := in.needInt(a[1], "vt.Pick n")
		in.inputMeta[n] = fmt.Sprintf("choice<%d", k)
		v := in.ts.Var(n, 8)
		in.assume(in.ts.Cmp(OpUlt, v, in.ts.BV(8, uint64(k))))
		return in.ts.Zext(v, 64)
	})
	reg(vt+"String", func(in *Interp, fn *ssa.Function, a []Value, g *Term) Value {
		return in.symString(in.needConc(a[0], "vt.String name"), in.needInt(a[1], "max"), false)
	})
	reg(vt+"ASCII", func(in *Interp, fn *ssa.Function, a []Value, g *Term) Value {
		return in.symString(in.needConc(a[0], "vt.ASCII name"), in.needInt(a[1], "max"), true)
	})
	reg(vt+"Bytes", func(in *Interp, fn *ssa.Function, a []Value, g *Term) Value {
		s := in.symString(in.needConc(a[0], "vt.Bytes name"), in.needInt(a[1], "max"), false)
		return in.strToBytes(s)
	})
	reg(vt+"Assume", func(in *Interp, fn *ssa.Function, a []Value, g *Term) Value {
		in.assume(in.ts.Implies(g, a[0].(*Term)))
		return nil
	})
	reg(vt+"Assert", func(in *Interp, fn *ssa.Function, a []Value, g *Term) Value {
		c := a[0].(*Term)
		msg := "assertion"
		if s, ok := a[1].(*Str); ok && s.conc {
			msg = s.s
		}
		in.asserts++
		bad := in.ts.And(g, in.ts.Not(c))
		if in.violationIf(bad, "assert", msg) {
			in.assume(in.ts.Not(bad))
		}
		return nil
	})
	reg(vt+"Reach", func(in *Interp, fn *ssa.Function, a []Value, g *Term) Value {
		l := in.needConc(a[0], "vt.Reach label")
		in.reachSeen[l] = true
		if !in.reached[l] && in.feasible(g) {
			in.reached[l] = true
		}
		return nil
	})
	reg(vt+"Fork", func(in *Interp, fn *ssa.Function, a []Value, g *Term) Value {
		c := a[0].(*Term)
		if !in.concretizeGuard() {
			return in.ts.False
		}
		return in.ts.Bool(in.decide(c))
	})
	reg(vt+"Event", func(in *Interp, fn *ssa.Function, a []Value, g *Term) Value {
		if in.concretizeGuard() {
			in.event(in.needConc(a[0], "vt.Event"))
		}
		return nil
	})
	reg(vt+"Param", func(in *Interp, fn *ssa.Function, a []Value, g *Term) Value {
		if v, ok := in.params[in.needConc(a[0], "vt.Param name")]; ok {
			return in.concStr(v)
		}
		return a[1]
	})
	reg(vt+"ParamInt", func(in *Interp, fn *ssa.Function, a []Value, g *Term) Value {
		if v, ok := in.params[in.needConc(a[0], "vt.ParamInt name")]; ok {
			var n int
			if _, err := fmt.Sscanf(v, "%d", &n); err == nil {
				return in.ts.BV(64, uint64(int64(n)))
			}
		}
		return a[1]
	})
	reg(vt+"Symbolic",func(in *Interp, fn *ssa.Function, a []Value, g *Term) Value { return in.ts.True })
	reg(vt+"ExpectPanics", func(in *Interp, fn *ssa.Function, a []Value, g *Term) Value {
		in.panicsFork = true
		in.onUndo(func() { in.panicsFork = false })
		return nil
	})
	reg(vt+"SchedChoices", func(in *Interp, fn *ssa.Function, a []Value, g *Term) Value {
		old := in.schedBudget
		in.schedBudget = in.needInt(a[0], "vt.SchedChoices")
		in.onUndo(func() { in.schedBudget = old })
		return nil
	})
	reg(vt+"Background", func(in *Interp, fn *ssa.Function, a []Value, g *Term) Value {
		in.cur.bg = true
		return nil
	})
	reg(vt+"ForkAll", func(in *Interp, fn *ssa.Function, a []Value, g *Term) Value {
		// run f with every symbolic branch forking
		in.cur.forkAll++
		defer func() { in.cur.forkAll-- }()
		return in.call(a[0], nil, g, nil)
	})
	reg(vt+"Stub", func(in *Interp, fn *ssa.Function, a []Value, g *Term) Value {
		name := in.needConc(a[0], "vt.Stub name")
		itf := a[1].(Iface)
		if in.userStubs == nil {
			in.userStubs = map[string]Value{}
		}
		old, had := in.userStubs[name]
		in.userStubs[name] = itf.v
		in.onUndo(func() {
			if had {
				in.userStubs[name] = old
			} else {
				delete(in.userStubs, name)
			}
		})
		return nil
	})
	// UF over integer arguments: vt.UFInt(name, args...) int ; vt.UFBool
	uf := func(w uint8) Intrinsic {
		return func(in *Interp, fn *ssa.Function, a []Value, g *Term) Value {
			name := in.needConc(a[0], "vt.UF name")
			sl := a[1].(*SliceV)
			var ts []*Term
			for i := 0; i < in.maxLen(sl); i++ {
				e := sl.a[sl.off+i]
				ts = append(ts, in.ufArg(e)...)
			}
			r := in.ts.UF("uf_"+name, w, ts...)
			return r
		}
	}
	reg(vt+"UFInt", uf(64))
	reg(vt+"UFBool", uf(0))
	reg(vt+"UFByte", uf(8))

	// ---- strings / bytes leaves ----
	reg("strings.IndexByte", func(in *Interp, fn *ssa.Function, a []Value, g *Term) Value {
		return in.indexByte(str(a[0]), a[1].(*Term))
	})
	reg("internal/bytealg.IndexByteString", intrinsics["strings.IndexByte"])
	reg("internal/stringslite.IndexByte", intrinsics["strings.IndexByte"])
	reg("internal/bytealg.IndexByte", func(in *Interp, fn *ssa.Function, a []Value, g *Term) Value {
		return in.indexByte(in.bstr(a[0]), a[1].(*Term))
	})
	reg("bytes.IndexByte", intrinsics["internal/bytealg.IndexByte"])
	reg("strings.Index", func(in *Interp, fn *ssa.Function, a []Value, g *Term) Value {
		return in.indexStr(str(a[0]), str(a[1]))
	})
	reg("internal/stringslite.Index", intrinsics["strings.Index"])
	reg("internal/bytealg.IndexString", intrinsics["strings.Index"])
	reg("strings.Contains", func(in *Interp, fn *ssa.Function, a []Value, g *Term) Value {
		i := in.indexStr(str(a[0]), str(a[1]))
		return in.ts.Cmp(OpSle, in.ts.BV(64, 0), i)
	})
	reg("strings.Count", func(in *Interp, fn *ssa.Function, a []Value, g *Term) Value {
		s, sep := str(a[0]), str(a[1])
		if s.conc && sep.conc {
			return in.ts.BV(64, uint64(strings.Count(s.s, sep.s)))
		}
		if sep.conc && len(sep.s) == 1 {
			return in.countByte(s, in.ts.BV(8, uint64(sep.s[0])))
		}
		abortf("strings.Count with symbolic multi-byte separator")
		return nil
	})
	reg("internal/bytealg.CountString", func(in *Interp, fn *ssa.Function, a []Value, g *Term) Value {
		return in.countByte(str(a[0]), a[1].(*Term))
	})
	reg("internal/bytealg.Count", func(in *Interp, fn *ssa.Function, a []Value, g *Term) Value {
		return in.countByte(in.bstr(a[0]), a[1].(*Term))
	})
	reg("bytes.Equal", func(in *Interp, fn *ssa.Function, a []Value, g *Term) Value {
		return in.strEq(in.bstr(a[0]), in.bstr(a[1]))
	})
	reg("internal/bytealg.Equal", intrinsics["bytes.Equal"])
	reg("bytes.Compare", func(in *Interp, fn *ssa.Function, a []Value, g *Term) Value {
		x, y := in.bstr(a[0]), in.bstr(a[1])
		return in.strCompare(x, y)
	})
	reg("internal/bytealg.Compare", intrinsics["bytes.Compare"])
	reg("strings.Compare", func(in *Interp, fn *ssa.Function, a []Value, g *Term) Value {
		return in.strCompare(str(a[0]), str(a[1]))
	})
	reg("internal/bytealg.CompareString", intrinsics["strings.Compare"])
	reg("cmp.Compare[string]", intrinsics["strings.Compare"])
	reg("internal/stringslite.Clone", func(in *Interp, fn *ssa.Function, a []Value, g *Term) Value { return a[0] })
	reg("strings.Clone", func(in *Interp, fn *ssa.Function, a []Value, g *Term) Value { return a[0] })
	reg("internal/bytealg.MakeNoZero", func(in *Interp, fn *ssa.Function, a []Value, g *Term) Value {
		n := in.needInt(a[0], "MakeNoZero len")
		arr := make([]Value, n)
		for i := range arr {
			arr[i] = in.ts.BV(8, 0)
		}
		return &SliceV{a: arr, n: in.ts.BV(64, uint64(n)), cap: n}
	})
	// strings.Builder
	builderBuf := func(in *Interp, recv Value) *Value {
		p := recv.(Ptr)
		if p.p == nil {
			in.rtCheck(in.ts.True, "nil *strings.Builder")
		}
		s := (*p.p).(Struct)
		return &s[1]
	}
	appendStr := func(in *Interp, recv Value, s *Str, g *Term) {
		bp := builderBuf(in, recv)
		nv := in.appendOp(*bp, in.strToBytes(s), g, nil)
		in.store(Ptr{bp}, nv, g)
	}
	bufStr := func(in *Interp, recv Value) *Str {
		r := in.mapAlts(*builderBuf(in, recv), func(_ *Term, v Value) Value { return in.bytesToStr(v.(*SliceV)) })
		return r.(*Str)
	}
	reg("(*strings.Builder).WriteString", func(in *Interp, fn *ssa.Function, a []Value, g *Term) Value {
		appendStr(in, a[0], str(a[1]), g)
		return Tuple{in.strLen(str(a[1])), Iface{}}
	})
	reg("(*strings.Builder).WriteByte", func(in *Interp, fn *ssa.Function, a []Value, g *Term) Value {
		appendStr(in, a[0], in.normStr(in.ts.BV(64, 1), []*Term{a[1].(*Term)}), g)
		return Iface{}
	})
	reg("(*strings.Builder).WriteRune", func(in *Interp, fn *ssa.Function, a []Value, g *Term) Value {
		s := in.convert(types.Typ[types.String], types.Typ[types.Rune], a[1]).(*Str)
		appendStr(in, a[0], s, g)
		return Tuple{in.strLen(s), Iface{}}
	})
	reg("(*strings.Builder).Write", func(in *Interp, fn *ssa.Function, a []Value, g *Term) Value {
		s := in.bstr(a[1])
		appendStr(in, a[0], s, g)
		return Tuple{in.strLen(s), Iface{}}
	})
	reg("(*strings.Builder).String", func(in *Interp, fn *ssa.Function, a []Value, g *Term) Value {
		return bufStr(in, a[0])
	})
	reg("(*strings.Builder).Len", func(in *Interp, fn *ssa.Function, a []Value, g *Term) Value {
		return in.strLen(bufStr(in, a[0]))
	})
	reg("(*strings.Builder).Grow", func(in *Interp, fn *ssa.Function, a []Value, g *Term) Value { return nil })
	reg("(*strings.Builder).Reset", func(in *Interp, fn *ssa.Function, a []Value, g *Term) Value {
		in.store(Ptr{builderBuf(in, a[0])}, &SliceV{nilS: true, n: in.ts.BV(64, 0)}, g)
		return nil
	})
	// unsafe helpers used by strings/bytes
	reg("unsafe.String", func(in *Interp, fn *ssa.Function, a []Value, g *Term) Value {
		abortf("unsafe.String")
		return nil
	})
	reg("internal/abi.NoEscape", func(in *Interp, fn *ssa.Function, a []Value, g *Term) Value { return a[0] })
	reg("internal/abi.Escape", func(in *Interp, fn *ssa.Function, a []Value, g *Term) Value { return a[0] })
	reg("runtime.KeepAlive", func(in *Interp, fn *ssa.Function, a []Value, g *Term) Value { return nil })
	reg("runtime.Gosched", func(in *Interp, fn *ssa.Function, a []Value, g *Term) Value { return nil })
	reg("runtime.SetFinalizer", func(in *Interp, fn *ssa.Function, a []Value, g *Term) Value { return nil })
	reg("runtime.GOMAXPROCS", func(in *Interp, fn *ssa.Function, a []Value, g *Term) Value { return in.ts.BV(64, 4) })
	reg("runtime.NumCPU", func(in *Interp, fn *ssa.Function, a []Value, g *Term) Value { return in.ts.BV(64, 4) })
	reg("internal/race.Enabled", nil)
	delete(intrinsics, "internal/race.Enabled")
	for _, n := range []string{"Acquire", "Release", "ReleaseMerge", "Disable", "Enable", "Read", "Write", "ReadRange", "WriteRange", "Errors"} {
		reg("internal/race."+n, func(in *Interp, fn *ssa.Function, a []Value, g *Term) Value {
			if fn.Signature.Results().Len() == 1 {
				return in.ts.BV(64, 0)
			}
			return nil
		})
	}
	// utf8 decoding over symbolic bytes (the real code indexes a 256-entry table)
	decode := func(in *Interp, s *Str) Value {
		ts := in.ts
		n := in.strLen(s)
		empty := ts.Eq(n, ts.BV(64, 0))
		if empty.IsTrue() {
			return Tuple{ts.BV(32, 0xFFFD), ts.BV(64, 0)}
		}
		r, sz := in.decodeRune(s, ts.BV(64, 0))
		return Tuple{ts.Ite(empty, ts.BV(32, 0xFFFD), r), ts.Ite(empty, ts.BV(64, 0), sz)}
	}
	reg("unicode/utf8.DecodeRuneInString", func(in *Interp, fn *ssa.Function, a []Value, g *Term) Value {
		return decode(in, str(a[0]))
	})
	reg("unicode/utf8.DecodeRune", func(in *Interp, fn *ssa.Function, a []Value, g *Term) Value {
		return decode(in, in.bstr(a[0]))
	})
	reg("unicode/utf8.ValidString", func(in *Interp, fn *ssa.Function, a []Value, g *Term) Value {
		s := str(a[0])
		if s.conc {
			return in.ts.Bool(utf8ValidString(s.s))
		}
		return in.validUTF8(s)
	})
	reg("unicode/utf8.Valid", func(in *Interp, fn *ssa.Function, a []Value, g *Term) Value {
		return in.validUTF8(in.bstr(a[0]))
	})
	// unicode predicates (table-free models; validated by selftest)
	reg("unicode.IsControl", func(in *Interp, fn *ssa.Function, a []Value, g *Term) Value {
		r := a[0].(*Term)
		ts := in.ts
		c := func(x uint64) *Term { return ts.BV(32, x) }
		return ts.Or(ts.Cmp(OpUlt, r, c(0x20)), ts.And(ts.Cmp(OpUle, c(0x7f), r), ts.Cmp(OpUlt, r, c(0xa0))))
	})
	reg("unicode.IsSpace", func(in *Interp, fn *ssa.Function, a []Value, g *Term) Value {
		r := a[0].(*Term)
		ts := in.ts
		c := func(x uint64) *Term { return ts.BV(32, x) }
		eq := func(x uint64) *Term { return ts.Eq(r, c(x)) }
		rng := func(lo, hi uint64) *Term { return ts.And(ts.Cmp(OpUle, c(lo), r), ts.Cmp(OpUle, r, c(hi))) }
		return ts.Or(rng(0x09, 0x0d), eq(0x20), eq(0x85), eq(0xA0), eq(0x1680), rng(0x2000, 0x200a), eq(0x2028), eq(0x2029), eq(0x202f), eq(0x205f), eq(0x3000))
	})
	// math bits on floats
	reg("math.Float64bits", func(in *Interp, fn *ssa.Function, a []Value, g *Term) Value {
		return in.ts.BV(64, math.Float64bits(a[0].(Float).f))
	})
	reg("math.Float64frombits", func(in *Interp, fn *ssa.Function, a []Value, g *Term) Value {
		t := a[0].(*Term)
		if !t.IsConst() {
			abortf("Float64frombits of symbolic bits")
		}
		return Float{math.Float64frombits(t.val)}
	})
	reg("math.Float32bits", func(in *Interp, fn *ssa.Function, a []Value, g *Term) Value {
		return in.ts.BV(32, uint64(math.Float32bits(float32(a[0].(Float).f))))
	})
	for name, f := range map[string]func(float64) float64{"math.Sqrt": math.Sqrt, "math.Log": math.Log, "math.Exp": math.Exp, "math.Floor": math.Floor, "math.Ceil": math.Ceil, "math.Abs": math.Abs, "math.Trunc": math.Trunc, "math.Log2": math.Log2, "math.Round": math.Round} {
		f := f
		reg(name, func(in *Interp, fn *ssa.Function, a []Value, g *Term) Value { return Float{f(a[0].(Float).f)} })
	}
	reg("math.IsNaN", func(in *Interp, fn *ssa.Function, a []Value, g *Term) Value { return in.ts.Bool(math.IsNaN(a[0].(Float).f)) })
	reg("math.IsInf", func(in *Interp, fn *ssa.Function, a []Value, g *Term) Value {
		return in.ts.Bool(math.IsInf(a[0].(Float).f, in.needInt(a[1], "sign")))
	})
	reg("math.Inf", func(in *Interp, fn *ssa.Function, a []Value, g *Term) Value { return Float{math.Inf(in.needInt(a[0], "sign"))} })
	reg("math.NaN", func(in *Interp, fn *ssa.Function, a []Value, g *Term) Value { return Float{math.NaN()} })
	reg("math.Pow", func(in *Interp, fn *ssa.Function, a []Value, g *Term) Value {
		return Float{math.Pow(a[0].(Float).f, a[1].(Float).f)}
	})
	reg("math.Max", func(in *Interp, fn *ssa.Function, a []Value, g *Term) Value {
		return Float{math.Max(a[0].(Float).f, a[1].(Float).f)}
	})
	reg("math.Min", func(in *Interp, fn *ssa.Function, a []Value, g *Term) Value {
		return Float{math.Min(a[0].(Float).f, a[1].(Float).f)}
	})
	// math/bits: interpreted from source except these assembly-backed ones are pure Go already.
	reg("os.Getenv", func(in *Interp, fn *ssa.Function, a []Value, g *Term) Value { return in.concStr("") })
}

// ufArg flattens a harness value into UF argument terms.
func (in *Interp) ufArg(e Value) []*Term {
	switch v := e.(type) {
	case *Union:
		// ite over the alternatives that flatten to the same shape (nil interfaces are skipped)
		var res []*Term
		for i := len(v.alts) - 1; i >= 0; i-- {
			a := v.alts[i]
			if itf, ok := a.v.(Iface); ok && itf.t == nil {
				continue
			}
			ts := in.ufArg(a.v)
			if res == nil {
				res = ts
				continue
			}
			if len(ts) != len(res) {
				abortf("UF argument union with differently shaped alternatives")
			}
			for k := range res {
				res[k] = in.ts.Ite(a.g, ts[k], res[k])
			}
		}
		if res == nil {
			return []*Term{in.ts.BV(8, 0)}
		}
		return res
	case *Term:
		return []*Term{v}
	case Iface:
		if v.t == nil {
			return []*Term{in.ts.BV(8, 0)}
		}
		return in.ufArg(v.v)
	case *Str:
		// strings become (len, bytes...) padded to capacity
		b := in.strBytes(v)
		out := []*Term{in.strLen(v)}
		n := in.strLen(v)
		for k, x := range b {
			out = append(out, in.ts.Ite(in.ts.Cmp(OpUlt, in.ts.BV(64, uint64(k)), n), x, in.ts.BV(8, 0)))
		}
		return out
	case Struct:
		var out []*Term
		for _, f := range v {
			out = append(out, in.ufArg(f)...)
		}
		return out
	}
	abortf("unsupported UF argument %s", in.show(e))
	return nil
}

func (in *Interp) indexByte(s *Str, c *Term) *Term {
	ts := in.ts
	if s.conc && c.IsConst() {
		return ts.BV(64, uint64(int64(strings.IndexByte(s.s, byte(c.val)))))
	}
	b := in.strBytes(s)
	n := in.strLen(s)
	r := ts.BV(64, ^uint64(0))
	for k := len(b) - 1; k >= 0; k-- {
		hit := ts.And(ts.Cmp(OpUlt, ts.BV(64, uint64(k)), n), ts.Eq(b[k], c))
		r = ts.Ite(hit, ts.BV(64, uint64(k)), r)
	}
	return r
}

func (in *Interp) countByte(s *Str, c *Term) *Term {
	ts := in.ts
	b := in.strBytes(s)
	n := in.strLen(s)
	r := ts.BV(64, 0)
	for k := range b {
		hit := ts.And(ts.Cmp(OpUlt, ts.BV(64, uint64(k)), n), ts.Eq(b[k], c))
		r = ts.Bin(OpAdd, r, ts.Ite(hit, ts.BV(64, 1), ts.BV(64, 0)))
	}
	return r
}

func (in *Interp) indexStr(s, sep *Str) *Term {
	ts := in.ts
	if s.conc && sep.conc {
		return ts.BV(64, uint64(int64(strings.Index(s.s, sep.s))))
	}
	bs, bp := in.strBytes(s), in.strBytes(sep)
	n, m := in.strLen(s), in.strLen(sep)
	r := ts.BV(64, ^uint64(0))
	for k := len(bs); k >= 0; k-- {
		// match at k: k+m <= n and for all j<m: bs[k+j]==bp[j]
		c := ts.Cmp(OpUle, ts.Bin(OpAdd, ts.BV(64, uint64(k)), m), n)
		for j := 0; j < len(bp); j++ {
			var e *Term
			if k+j < len(bs) {
				e = ts.Eq(bs[k+j], bp[j])
			} else {
				e = ts.False
			}
			c = ts.And(c, ts.Implies(ts.Cmp(OpUlt, ts.BV(64, uint64(j)), m), e))
		}
		if !m.IsConst() {
			c = ts.And(c, ts.Cmp(OpUle, m, ts.BV(64, uint64(len(bp)))))
		}
		r = ts.Ite(c, ts.BV(64, uint64(k)), r)
	}
	return r
}

func utf8ValidString(s string) bool { return utf8.ValidString(s) }

// validUTF8: every position reached by sequential decoding decodes without error.
func (in *Interp) validUTF8(s *Str) *Term {
	ts := in.ts
	n := in.strLen(s)
	b := in.strBytes(s)
	// at[k]: decoding position k is reached
	at := make([]*Term, len(b)+5)
	for i := range at {
		at[i] = ts.False
	}
	at[0] = ts.True
	ok := ts.True
	for k := 0; k < len(b); k++ {
		if at[k].IsFalse() {
			continue
		}
		live := ts.And(at[k], ts.Cmp(OpUlt, ts.BV(64, uint64(k)), n))
		r, sz := in.decodeRune(s, ts.BV(64, uint64(k)))
		bad := ts.And(ts.Eq(r, ts.BV(32, 0xFFFD)), ts.Eq(sz, ts.BV(64, 1)))
		ok = ts.And(ok, ts.Implies(live, ts.Not(bad)))
		for w := 1; w <= 4; w++ {
			at[k+w] = ts.Or(at[k+w], ts.And(live, ts.Eq(sz, ts.BV(64, uint64(w)))))
		}
	}
	return ok
}

func (in *Interp) strCompare(a, b *Str) *Term {
	ts := in.ts
	lt := in.strLess(a, b)
	eq := in.strEq(a, b)
	return ts.Ite(lt, ts.BV(64, ^uint64(0)), ts.Ite(eq, ts.BV(64, 0), ts.BV(64, 1)))
}

// bstr converts a []byte value (possibly a guarded union of slices) to a string value.
func (in *Interp) bstr(v Value) *Str {
	r := in.mapAlts(v, func(_ *Term, x Value) Value {
		sl, ok := x.(*SliceV)
		if !ok {
			abortf("expected []byte, got %s", in.show(x))
		}
		return in.bytesToStr(sl)
	})
	return r.(*Str)
}
